package core

import (
	"go/ast"
	"go/token"
	"go/types"
	"sort"

	"golang.org/x/tools/go/cfg"
)

// Graph wraps the go/cfg control-flow graph of one unit and answers
// path questions at node granularity.
type Graph struct {
	U      *Unit
	C      *cfg.CFG
	Blocks []*cfg.Block // live blocks
	caseOf map[*ast.CaseClause]ast.Stmt
	held   map[*cfg.Block]map[string]bool // must-held lock set at block entry
}

// Loc is a position in the CFG: node I of block B (P orders sub-expressions
// inside one node by source position).
type Loc struct {
	B *cfg.Block
	I int
	P token.Pos
	// Orig is set for a construct that a transparent helper executes (code that
	// moved out of this unit into a novel private function): B/I/P place it at
	// the helper call in the caller, Orig is where it stands inside the helper.
	// Guards established and locks taken inside the helper on the way to the
	// construct hold for it as well as those of the call site.
	Orig *OrigLoc
}

// OrigLoc: see Loc.Orig.
type OrigLoc struct {
	G *Graph
	L Loc
}

func (l Loc) Valid() bool { return l.B != nil }

// State is "about to execute node I of block B"; I == len(B.Nodes) is the
// end of the block.
type State struct {
	B *cfg.Block
	I int
}

func newGraph(u *Unit) *Graph {
	g := &Graph{U: u, caseOf: map[*ast.CaseClause]ast.Stmt{}}
	g.C = cfg.New(u.Body, mayReturn(u.Info()))
	for _, b := range g.C.Blocks {
		if b.Live {
			g.Blocks = append(g.Blocks, b)
		}
	}
	ast.Inspect(u.Body, func(n ast.Node) bool {
		switch s := n.(type) {
		case *ast.FuncLit:
			return false
		case *ast.SwitchStmt:
			for _, c := range s.Body.List {
				g.caseOf[c.(*ast.CaseClause)] = s
			}
		case *ast.TypeSwitchStmt:
			for _, c := range s.Body.List {
				g.caseOf[c.(*ast.CaseClause)] = s
			}
		}
		return true
	})
	return g
}

func (g *Graph) Entry() State { return State{g.C.Blocks[0], 0} }

// LocOf finds the CFG location of an arbitrary AST node of this unit
// (the innermost CFG node containing it).
func (g *Graph) LocOf(n ast.Node) Loc {
	var best Loc
	var bestLen token.Pos = -1
	for _, b := range g.Blocks {
		for i, nd := range b.Nodes {
			if nd.Pos() <= n.Pos() && n.End() <= nd.End() {
				l := nd.End() - nd.Pos()
				if bestLen < 0 || l < bestLen {
					best, bestLen = Loc{B: b, I: i, P: n.Pos()}, l
				}
			}
		}
	}
	return best
}

// Reach reports whether some path from start reaches a state satisfying
// goal, never passing through a state for which blocked is true and only
// using edges accepted by edgeOK (nil = all). The goal is tested before
// blocked, on the state about to be executed.
func (g *Graph) Reach(start State, goal func(State) bool, blocked func(State) bool, edgeOK func(from *cfg.Block, k int) bool) bool {
	type key struct {
		b int32
		i int
	}
	seen := map[key]bool{}
	stack := []State{start}
	for len(stack) > 0 {
		s := stack[len(stack)-1]
		stack = stack[:len(stack)-1]
		k := key{s.B.Index, s.I}
		if seen[k] {
			continue
		}
		seen[k] = true
		if goal != nil && goal(s) {
			return true
		}
		if blocked != nil && blocked(s) {
			continue
		}
		if s.I < len(s.B.Nodes) {
			stack = append(stack, State{s.B, s.I + 1})
			continue
		}
		for j, succ := range s.B.Succs {
			if edgeOK != nil && !edgeOK(s.B, j) {
				continue
			}
			stack = append(stack, State{succ, 0})
		}
	}
	return false
}

func at(l Loc) func(State) bool {
	return func(s State) bool { return s.B == l.B && s.I == l.I }
}

func atAny(ls []Loc) func(State) bool {
	return func(s State) bool {
		for _, l := range ls {
			if s.B == l.B && s.I == l.I {
				return true
			}
		}
		return false
	}
}

// Reachable reports whether loc is reachable from function entry.
func (g *Graph) Reachable(l Loc) bool {
	return g.Reach(g.Entry(), at(l), nil, nil)
}

// Dominates: every path from entry to b executes a first.
func (g *Graph) Dominates(a, b Loc) bool {
	if !a.Valid() || !b.Valid() {
		return false
	}
	if a.B == b.B && a.I == b.I {
		// both inside the same transparent helper call: judged in the helper's graph
		if a.Orig != nil && b.Orig != nil && a.Orig.G == b.Orig.G && a.Orig.G != g {
			return a.Orig.G.Dominates(a.Orig.L, b.Orig.L)
		}
		return a.P <= b.P
	}
	return !g.Reach(g.Entry(), at(b), at(a), nil)
}

// DominatesAny: every path from entry to b executes at least one of as first.
func (g *Graph) DominatesAny(as []Loc, b Loc) bool {
	for _, a := range as {
		if a.B == b.B && a.I == b.I && a.P <= b.P {
			return true
		}
	}
	return !g.Reach(g.Entry(), at(b), atAny(as), nil)
}

// CanFollow: some path executes a and later b.
func (g *Graph) CanFollow(a, b Loc) bool {
	if a.B == b.B && a.I == b.I {
		if a.Orig != nil && b.Orig != nil && a.Orig.G == b.Orig.G && a.Orig.G != g && a.Orig.G.CanFollow(a.Orig.L, b.Orig.L) {
			return true
		}
		if a.P < b.P {
			return true
		}
	}
	return g.Reach(State{a.B, a.I + 1}, at(b), nil, nil)
}

// EdgeDominates: every path from entry to target uses edge k of block cb.
func (g *Graph) EdgeDominates(cb *cfg.Block, k int, target Loc) bool {
	if !g.Reachable(target) {
		return false
	}
	return !g.Reach(g.Entry(), at(target), nil, func(from *cfg.Block, j int) bool {
		return !(from == cb && j == k)
	})
}

// IsExitState: end of a block with no successors.
func IsExitState(s State) bool {
	return s.I == len(s.B.Nodes) && len(s.B.Succs) == 0
}

// ReturnLocs lists every return statement (including the synthetic one at
// the closing brace) that is reachable.
func (g *Graph) ReturnLocs() []Loc {
	var out []Loc
	for _, b := range g.Blocks {
		for i, n := range b.Nodes {
			if _, ok := n.(*ast.ReturnStmt); ok {
				out = append(out, Loc{B: b, I: i, P: n.Pos()})
			}
		}
	}
	sort.Slice(out, func(i, j int) bool { return out[i].P < out[j].P })
	return out
}

// ReachesExitAvoiding: from just after `from`, can a normal return be
// reached without executing any of avoid?
func (g *Graph) ReachesExitAvoiding(from State, avoid []Loc) bool {
	return g.Reach(from, func(s State) bool {
		if s.I < len(s.B.Nodes) {
			_, ok := s.B.Nodes[s.I].(*ast.ReturnStmt)
			return ok
		}
		return false
	}, atAny(avoid), nil)
}

func (g *Graph) After(l Loc) State { return State{l.B, l.I + 1} }

// Branch is a two-way decision in the CFG with its effective condition.
type Branch struct {
	B    *cfg.Block
	Cond ast.Expr // atom (never !x, &&, ||) — for a switch case: the case expression
	Tag  ast.Expr // switch tag when Cond is a case expression (nil for tagless switch / if)
	// TypeSwitch is set when the branch is a case of a type switch; Cond is the type expression.
	TypeSwitch *ast.TypeSwitchStmt
	IsCase     bool
}

// Branches enumerates all conditional branches: edge 0 = condition true.
func (g *Graph) Branches() []Branch {
	var out []Branch
	for _, b := range g.Blocks {
		if len(b.Succs) != 2 {
			continue
		}
		// go/cfg does not record the case types of a type switch as nodes: rebuild the branch from the clause
		if b.Succs[0].Kind == cfg.KindSwitchCaseBody {
			if cc, ok := b.Succs[0].Stmt.(*ast.CaseClause); ok {
				if ts, isTS := g.caseOf[cc].(*ast.TypeSwitchStmt); isTS && len(cc.List) == 1 {
					out = append(out, Branch{B: b, Cond: cc.List[0], TypeSwitch: ts, IsCase: true})
					continue
				} else if isTS {
					continue
				}
			}
		}
		if len(b.Nodes) == 0 {
			continue
		}
		last := b.Nodes[len(b.Nodes)-1]
		e, ok := last.(ast.Expr)
		if !ok {
			continue
		}
		switch b.Succs[0].Kind {
		case cfg.KindRangeBody, cfg.KindSelectCaseBody:
			continue
		}
		br := Branch{B: b, Cond: e}
		if b.Succs[0].Kind == cfg.KindSwitchCaseBody {
			if cc, ok := b.Succs[0].Stmt.(*ast.CaseClause); ok {
				inList := false
				for _, x := range cc.List {
					if x == e {
						inList = true
					}
				}
				if inList {
					br.IsCase = true
					switch sw := g.caseOf[cc].(type) {
					case *ast.SwitchStmt:
						br.Tag = sw.Tag
						if sw.Tag == nil {
							// `switch { case cond: … }` is an if / else-if chain: its case expressions are conditions
							br.IsCase = false
						}
					case *ast.TypeSwitchStmt:
						br.TypeSwitch = sw
					}
				}
			}
		}
		out = append(out, br)
	}
	return out
}

// Guard classifies a branch: +1 when the true edge establishes the fact,
// -1 when the false edge does, 0 otherwise.
type Guard func(u *Unit, br Branch) int

// Fact is an atomic condition known to be true (Val) or false on one edge
// of a branch. go/cfg keeps `a && b`, `a || b`, `!a` as one condition, so the
// decomposition is done here: the true edge of a&&b establishes both
// conjuncts, the false edge of a||b refutes both disjuncts, ! swaps.
type Fact struct {
	Br   Branch // Br.Cond is the atom
	Edge int    // 0 = true edge of the branch block, 1 = false edge
	Val  bool   // value of the atom on that edge
}

func splitCond(e ast.Expr, val bool, out *[]struct {
	e   ast.Expr
	val bool
}) {
	e = ast.Unparen(e)
	switch x := e.(type) {
	case *ast.UnaryExpr:
		if x.Op == token.NOT {
			splitCond(x.X, !val, out)
			return
		}
	case *ast.BinaryExpr:
		if x.Op == token.LAND {
			if val {
				splitCond(x.X, true, out)
				splitCond(x.Y, true, out)
			}
			return
		}
		if x.Op == token.LOR {
			if !val {
				splitCond(x.X, false, out)
				splitCond(x.Y, false, out)
			}
			return
		}
	}
	*out = append(*out, struct {
		e   ast.Expr
		val bool
	}{e, val})
}

// Facts enumerates the atomic facts established on each branch edge.
func (g *Graph) Facts() []Fact {
	var out []Fact
	for _, br := range g.Branches() {
		if br.IsCase {
			out = append(out, Fact{br, 0, true}, Fact{br, 1, false})
			continue
		}
		for edge, val := range []bool{true, false} {
			var atoms []struct {
				e   ast.Expr
				val bool
			}
			splitCond(br.Cond, val, &atoms)
			// a boolean pure helper of the same package stands for the expression it returns (isData(t) is
			// t == TextMessage || t == BinaryMessage): the atoms of that expression are established as well
			done := map[ast.Expr]bool{}
			for round := 0; round < 3; round++ {
				grew := false
				for i := 0; i < len(atoms); i++ {
					if done[atoms[i].e] {
						continue
					}
					done[atoms[i].e] = true
					if x := g.U.ExpandPredicate(atoms[i].e); x != nil {
						splitCond(x, atoms[i].val, &atoms)
						grew = true
					}
				}
				if !grew {
					break
				}
			}
			for _, a := range atoms {
				b2 := br
				b2.Cond = a.e
				out = append(out, Fact{b2, edge, a.val})
			}
		}
	}
	return out
}

// GuardedBy: some branch establishes the fact on an edge that dominates loc.
func (g *Graph) GuardedBy(loc Loc, guard Guard) bool {
	for _, f := range g.Facts() {
		p := guard(g.U, f.Br)
		if (p > 0 && f.Val) || (p < 0 && !f.Val) {
			if g.EdgeDominates(f.Br.B, f.Edge, loc) {
				return true
			}
		}
	}
	if loc.Orig != nil && loc.Orig.G != g {
		return loc.Orig.G.GuardedBy(loc.Orig.L, guard)
	}
	return false
}

// GuardBranches returns the branches for which guard is non-zero.
func (g *Graph) GuardBranches(guard Guard) []Branch {
	var out []Branch
	for _, br := range g.Branches() {
		if guard(g.U, br) != 0 {
			out = append(out, br)
		}
	}
	return out
}

// ---------- held locks (must analysis) ----------

// LockKey names a mutex by the struct type and field of its selector
// (e.g. "socket.flushMu"), or by variable name for locals.
func LockKey(info *types.Info, recv ast.Expr) string {
	recv = ast.Unparen(recv)
	if u, ok := recv.(*ast.UnaryExpr); ok && u.Op == token.AND {
		recv = u.X
	}
	switch x := recv.(type) {
	case *ast.SelectorExpr:
		if sel := info.Selections[x]; sel != nil {
			return typeName(sel.Recv()) + "." + x.Sel.Name
		}
		return ExprString(x)
	case *ast.Ident:
		return x.Name
	}
	return ExprString(recv)
}

func typeName(t types.Type) string {
	for {
		switch tt := t.(type) {
		case *types.Pointer:
			t = tt.Elem()
			continue
		case *types.Named:
			return tt.Obj().Name()
		case *types.Alias:
			return tt.Obj().Name()
		}
		return t.String()
	}
}

// TypeName exposes typeName.
func TypeName(t types.Type) string { return typeName(t) }

type lockOp struct {
	key  string
	lock bool // true = acquire
	rd   bool
}

// lockOpsIn lists lock operations executed by a CFG node itself (not in
// nested function literals, not the deferred call of a defer statement).
func (g *Graph) lockOpsIn(n ast.Node) []lockOp {
	var ops []lockOp
	if _, ok := n.(*ast.DeferStmt); ok {
		return nil
	}
	info := g.U.Info()
	ast.Inspect(n, func(x ast.Node) bool {
		switch c := x.(type) {
		case *ast.FuncLit:
			return false
		case *ast.CallExpr:
			sel, ok := c.Fun.(*ast.SelectorExpr)
			if !ok {
				return true
			}
			fn, _ := info.Uses[sel.Sel].(*types.Func)
			if fn == nil || fn.Pkg() == nil || fn.Pkg().Path() != "sync" {
				return true
			}
			switch fn.Name() {
			case "Lock":
				ops = append(ops, lockOp{LockKey(info, sel.X), true, false})
			case "RLock":
				ops = append(ops, lockOp{LockKey(info, sel.X), true, true})
			case "Unlock":
				ops = append(ops, lockOp{LockKey(info, sel.X), false, false})
			case "RUnlock":
				ops = append(ops, lockOp{LockKey(info, sel.X), false, true})
			}
		}
		return true
	})
	return ops
}

func lockName(op lockOp) string {
	if op.rd {
		return op.key + "#R"
	}
	return op.key
}

func (g *Graph) computeHeld() {
	g.held = map[*cfg.Block]map[string]bool{}
	// must analysis: start with TOP (nil = unvisited) and intersect.
	entry := g.C.Blocks[0]
	g.held[entry] = map[string]bool{}
	work := []*cfg.Block{entry}
	for len(work) > 0 {
		b := work[0]
		work = work[1:]
		cur := copySet(g.held[b])
		for _, n := range b.Nodes {
			for _, op := range g.lockOpsIn(n) {
				if op.lock {
					cur[lockName(op)] = true
				} else {
					delete(cur, lockName(op))
				}
			}
		}
		for _, s := range b.Succs {
			old, seen := g.held[s]
			if !seen {
				g.held[s] = copySet(cur)
				work = append(work, s)
				continue
			}
			changed := false
			for k := range old {
				if !cur[k] {
					delete(old, k)
					changed = true
				}
			}
			if changed {
				work = append(work, s)
			}
		}
	}
}

func copySet(m map[string]bool) map[string]bool {
	o := make(map[string]bool, len(m))
	for k, v := range m {
		o[k] = v
	}
	return o
}

// HeldAt returns the set of mutexes that are held on every path reaching
// loc (keys as LockKey; read locks carry the suffix "#R").
func (g *Graph) HeldAt(loc Loc) map[string]bool {
	if loc.Orig != nil && loc.Orig.G != g {
		outer := loc
		outer.Orig = nil
		cur := g.HeldAt(outer)
		for k, v := range loc.Orig.G.HeldAt(loc.Orig.L) {
			if v {
				cur[k] = true
			}
		}
		return cur
	}
	if g.held == nil {
		g.computeHeld()
	}
	base, ok := g.held[loc.B]
	if !ok {
		return map[string]bool{}
	}
	cur := copySet(base)
	for i := 0; i < loc.I && i < len(loc.B.Nodes); i++ {
		for _, op := range g.lockOpsIn(loc.B.Nodes[i]) {
			if op.lock {
				cur[lockName(op)] = true
			} else {
				delete(cur, lockName(op))
			}
		}
	}
	// operations earlier in the same node
	if loc.I < len(loc.B.Nodes) {
		n := loc.B.Nodes[loc.I]
		if _, isDefer := n.(*ast.DeferStmt); !isDefer {
			info := g.U.Info()
			ast.Inspect(n, func(x ast.Node) bool {
				if _, ok := x.(*ast.FuncLit); ok {
					return false
				}
				if c, ok := x.(*ast.CallExpr); ok && c.End() <= loc.P {
					if sel, ok := c.Fun.(*ast.SelectorExpr); ok {
						if fn, _ := info.Uses[sel.Sel].(*types.Func); fn != nil && fn.Pkg() != nil && fn.Pkg().Path() == "sync" {
							switch fn.Name() {
							case "Lock":
								cur[LockKey(info, sel.X)] = true
							case "RLock":
								cur[LockKey(info, sel.X)+"#R"] = true
							case "Unlock":
								delete(cur, LockKey(info, sel.X))
							case "RUnlock":
								delete(cur, LockKey(info, sel.X)+"#R")
							}
						}
					}
				}
				return true
			})
		}
	}
	return cur
}

// HeldAtExit: locks held at every normal return, after removing those whose
// unlock is deferred.
func (g *Graph) DeferredUnlocks() map[string]bool {
	out := map[string]bool{}
	info := g.U.Info()
	for _, b := range g.Blocks {
		for _, n := range b.Nodes {
			d, ok := n.(*ast.DeferStmt)
			if !ok {
				continue
			}
			if sel, ok := d.Call.Fun.(*ast.SelectorExpr); ok {
				if fn, _ := info.Uses[sel.Sel].(*types.Func); fn != nil && fn.Pkg() != nil && fn.Pkg().Path() == "sync" {
					switch fn.Name() {
					case "Unlock":
						out[LockKey(info, sel.X)] = true
					case "RUnlock":
						out[LockKey(info, sel.X)+"#R"] = true
					}
				}
			}
		}
	}
	return out
}

// CondAtom is an atomic sub-condition with the truth value it has when the
// enclosing condition evaluates to the requested value.
type CondAtom struct {
	E   ast.Expr
	Val bool
}

// SplitCond decomposes e (through !, &&, ||) into the atoms whose value is
// determined when e evaluates to val.
func SplitCond(e ast.Expr, val bool) []CondAtom {
	var tmp []struct {
		e   ast.Expr
		val bool
	}
	splitCond(e, val, &tmp)
	out := make([]CondAtom, len(tmp))
	for i, a := range tmp {
		out[i] = CondAtom{a.e, a.val}
	}
	return out
}

// DominatedNodes lists the CFG nodes that execute only after edge k of block cb.
func (g *Graph) DominatedNodes(cb *cfg.Block, k int) []ast.Node {
	var out []ast.Node
	for _, b := range g.Blocks {
		if len(b.Nodes) == 0 {
			continue
		}
		l := Loc{B: b, I: 0, P: b.Nodes[0].Pos()}
		if b == cb {
			continue
		}
		if g.EdgeDominates(cb, k, l) {
			out = append(out, b.Nodes...)
		}
	}
	return out
}

// EdgeLeavesLoop reports whether control taking edge k of block cb leaves the
// innermost enclosing for/range loop without first returning to the loop head
// (i.e. the edge leads to a break or to code after the loop).
func (g *Graph) EdgeLeavesLoop(cb *cfg.Block, k int) bool {
	if k >= len(cb.Succs) {
		return false
	}
	seen := map[*cfg.Block]bool{}
	var walk func(b *cfg.Block) bool
	walk = func(b *cfg.Block) bool {
		if seen[b] {
			return true // a diamond re-joins; a cycle would have to pass the loop head, which answers false
		}
		seen[b] = true
		switch b.Kind {
		case cfg.KindForDone, cfg.KindRangeDone:
			return true
		case cfg.KindForLoop, cfg.KindForPost, cfg.KindRangeLoop, cfg.KindForBody, cfg.KindRangeBody:
			return false
		}
		if len(b.Succs) == 0 {
			return true // a return leaves the loop as well
		}
		for _, s := range b.Succs {
			if !walk(s) {
				return false
			}
		}
		return true
	}
	return walk(cb.Succs[k])
}

// splitDisj decomposes the fact "e evaluates to val" into a disjunction of
// atoms (true edge of a||b, false edge of a&&b, through !): at least one of
// the returned atoms holds with its Val. A single atom is returned as such.
func splitDisj(e ast.Expr, val bool) []CondAtom {
	e = ast.Unparen(e)
	switch x := e.(type) {
	case *ast.UnaryExpr:
		if x.Op == token.NOT {
			return splitDisj(x.X, !val)
		}
	case *ast.BinaryExpr:
		if (x.Op == token.LOR && val) || (x.Op == token.LAND && !val) {
			return append(splitDisj(x.X, val), splitDisj(x.Y, val)...)
		}
	}
	return []CondAtom{{e, val}}
}

// DisjunctGuard: some branch edge that dominates loc establishes a proper
// disjunction one of whose members is the fact recognised by guard. The other
// members are returned: the caller decides whether the construct at loc may
// also run when only one of them holds (e.g. two refusal tests with the same
// body merged into one `if a || b`).
func (g *Graph) DisjunctGuard(loc Loc, guard Guard) (bool, []CondAtom) {
	for _, br := range g.Branches() {
		if br.IsCase {
			continue
		}
		for edge, val := range []bool{true, false} {
			for _, ds := range disjGroups(br.Cond, val) {
				if len(ds) < 2 {
					continue
				}
				hit := -1
				for i, d := range ds {
					b2 := br
					b2.Cond = d.E
					p := guard(g.U, b2)
					if (p > 0 && d.Val) || (p < 0 && !d.Val) {
						hit = i
					}
				}
				if hit < 0 || !g.EdgeDominates(br.B, edge, loc) {
					continue
				}
				var others []CondAtom
				for i, d := range ds {
					if i != hit {
						others = append(others, d)
					}
				}
				return true, others
			}
		}
	}
	return false, nil
}

// disjGroups lists the proper disjunctions established when e evaluates to
// val: `p && (a || b)` true establishes p and the disjunction {a, b}.
func disjGroups(e ast.Expr, val bool) [][]CondAtom {
	e = ast.Unparen(e)
	switch x := e.(type) {
	case *ast.UnaryExpr:
		if x.Op == token.NOT {
			return disjGroups(x.X, !val)
		}
	case *ast.BinaryExpr:
		if (x.Op == token.LAND && val) || (x.Op == token.LOR && !val) {
			return append(disjGroups(x.X, val), disjGroups(x.Y, val)...)
		}
		if (x.Op == token.LOR && val) || (x.Op == token.LAND && !val) {
			return [][]CondAtom{splitDisj(e, val)}
		}
	}
	return nil
}

// Establishes reports whether guard recognises the atom (with its value) as the fact it stands for.
func (g *Graph) Establishes(guard Guard, a CondAtom, at *cfg.Block) bool {
	p := guard(g.U, Branch{B: at, Cond: a.E})
	return (p > 0 && a.Val) || (p < 0 && !a.Val)
}

// MayHeldAtExit: mutexes held on SOME path at an exit of the function (a return
// or the end of the body), without a deferred unlock — a may analysis (union at
// joins), the dual of HeldAt. Each result names the lock and the exit.
func (g *Graph) MayHeldAtExit() map[string]token.Pos {
	in := map[*cfg.Block]map[string]bool{}
	entry := g.C.Blocks[0]
	in[entry] = map[string]bool{}
	work := []*cfg.Block{entry}
	out := map[string]token.Pos{}
	du := g.DeferredUnlocks()
	for len(work) > 0 {
		b := work[0]
		work = work[1:]
		cur := copySet(in[b])
		for _, n := range b.Nodes {
			for _, op := range g.lockOpsIn(n) {
				if op.lock {
					cur[lockName(op)] = true
				} else {
					delete(cur, lockName(op))
				}
			}
		}
		if len(b.Succs) == 0 {
			for k := range cur {
				if !du[k] {
					p := token.NoPos
					if len(b.Nodes) > 0 {
						p = b.Nodes[len(b.Nodes)-1].Pos()
					}
					out[k] = p
				}
			}
			continue
		}
		for _, s := range b.Succs {
			old, seen := in[s]
			if !seen {
				in[s] = copySet(cur)
				work = append(work, s)
				continue
			}
			changed := false
			for k := range cur {
				if !old[k] {
					old[k] = true
					changed = true
				}
			}
			if changed {
				work = append(work, s)
			}
		}
	}
	return out
}
