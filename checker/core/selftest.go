package core

import (
	"fmt"
	"go/ast"
	"go/importer"
	"go/parser"
	"go/token"
	"go/types"

	"golang.org/x/tools/go/packages"
)

// The primitive self-test: a tiny in-memory package on which every CFG
// primitive must give the expected answer (positive and negative). It runs
// on every invocation, so a rule can never pass because a primitive
// silently matches nothing.
const selfSrc = `package fx

import "sync"

type T struct {
	mu sync.Mutex
	st string
}

func (t *T) state() string { return t.st }
func mark(string)          {}

func earlyReturn(t *T) {
	if t.state() != "open" {
		return
	}
	mark("A")
}

func nested(t *T) {
	if t.state() == "open" {
		mark("B")
	}
	mark("C")
}

func viaSwitch(t *T) {
	switch t.state() {
	case "closed":
		return
	case "open":
		mark("D")
	default:
		mark("E")
	}
}

func shortCircuit(t *T, ok bool) {
	if ok && t.state() == "open" {
		mark("F")
	}
	if ok || t.state() == "open" {
		mark("G")
	}
}

func locks(t *T) {
	mark("H")
	t.mu.Lock()
	mark("I")
	t.mu.Unlock()
	mark("J")
}

func deferLock(t *T, c bool) {
	t.mu.Lock()
	defer t.mu.Unlock()
	if c {
		mark("K")
		return
	}
	mark("L")
}

func condLock(t *T, c bool) {
	if c {
		t.mu.Lock()
	}
	mark("M")
	if c {
		t.mu.Unlock()
	}
}

func loop(xs []int) {
	for _, x := range xs {
		if x == 0 {
			mark("N")
			return
		}
		if x == 1 {
			return
		}
		mark("O")
	}
	mark("P")
}

func order() {
	mark("Q")
	mark("R")
	func() { mark("inner") }()
	mark("S")
}
`

func SelfTest() error {
	fset := token.NewFileSet()
	f, err := parser.ParseFile(fset, "fx.go", selfSrc, 0)
	if err != nil {
		return err
	}
	info := &types.Info{
		Types: map[ast.Expr]types.TypeAndValue{}, Defs: map[*ast.Ident]types.Object{},
		Uses: map[*ast.Ident]types.Object{}, Selections: map[*ast.SelectorExpr]*types.Selection{},
		Implicits: map[ast.Node]types.Object{}, Scopes: map[ast.Node]*types.Scope{},
		Instances: map[*ast.Ident]types.Instance{},
	}
	conf := types.Config{Importer: importer.ForCompiler(fset, "source", nil)}
	tp, err := conf.Check("fx", fset, []*ast.File{f}, info)
	if err != nil {
		return err
	}
	pk := &packages.Package{PkgPath: ModPath + "/fx", Types: tp, TypesInfo: info, Syntax: []*ast.File{f}, Fset: fset}
	p := &Prog{Dir: "", Fset: fset, Pkgs: map[string]*packages.Package{"fx": pk},
		byKey: map[string]*Unit{}, byLit: map[*ast.FuncLit]*Unit{}, byObj: map[*types.Func]*Unit{}}
	p.indexPkg(pk)

	mark := func(u *Unit, s string) Loc {
		for _, c := range u.Calls() {
			if c.Name == "mark" {
				if v, _ := ConstString(u.Info(), c.Arg(0)); v == s {
					return c.Loc
				}
			}
		}
		return Loc{}
	}
	open := StateGuard([]string{"fx.(*T).state"}, func(op token.Token, v string) int {
		if v == "open" {
			if op == token.EQL {
				return 1
			}
			if op == token.NEQ {
				return -1
			}
		}
		return 0
	})
	type tc struct {
		fn, m string
		want  bool
	}
	for _, c := range []tc{
		{"fx.earlyReturn", "A", true}, {"fx.nested", "B", true}, {"fx.nested", "C", false},
		{"fx.viaSwitch", "D", true}, {"fx.viaSwitch", "E", false},
		{"fx.shortCircuit", "F", true}, {"fx.shortCircuit", "G", false},
	} {
		u := p.Func(c.fn)
		if u == nil {
			return fmt.Errorf("selftest: %s not indexed", c.fn)
		}
		l := mark(u, c.m)
		if !l.Valid() {
			return fmt.Errorf("selftest: mark %s not located", c.m)
		}
		if got := u.Graph().GuardedBy(l, open); got != c.want {
			return fmt.Errorf("selftest: GuardedBy(%s in %s) = %v, want %v", c.m, c.fn, got, c.want)
		}
	}
	for _, c := range []tc{
		{"fx.locks", "H", false}, {"fx.locks", "I", true}, {"fx.locks", "J", false},
		{"fx.deferLock", "K", true}, {"fx.deferLock", "L", true}, {"fx.condLock", "M", false},
	} {
		u := p.Func(c.fn)
		l := mark(u, c.m)
		if got := u.Graph().HeldAt(l)["T.mu"]; got != c.want {
			return fmt.Errorf("selftest: HeldAt(%s in %s)[T.mu] = %v, want %v", c.m, c.fn, got, c.want)
		}
	}
	u := p.Func("fx.order")
	q, r, s := mark(u, "Q"), mark(u, "R"), mark(u, "S")
	g := u.Graph()
	if !g.Dominates(q, r) || g.Dominates(r, q) || !g.Dominates(r, s) || !g.CanFollow(q, s) || g.CanFollow(s, q) {
		return fmt.Errorf("selftest: order primitives wrong")
	}
	if u.Kid("funclit") == nil && len(u.Kids) != 1 {
		return fmt.Errorf("selftest: closure not indexed (%d kids)", len(u.Kids))
	}
	if len(u.Calls()) != 4 { // Q R funclit-call S; "inner" belongs to the closure
		return fmt.Errorf("selftest: expected 4 calls in order(), got %d", len(u.Calls()))
	}
	// loop: the return after N exits the loop early; P is not dominated by O.
	lu := p.Func("fx.loop")
	lg := lu.Graph()
	n, o, pp := mark(lu, "N"), mark(lu, "O"), mark(lu, "P")
	if lg.Dominates(o, pp) || !lg.Reachable(pp) || !lg.Reachable(n) {
		return fmt.Errorf("selftest: loop primitives wrong")
	}
	rets := lg.ReturnLocs()
	if len(rets) != 3 {
		return fmt.Errorf("selftest: expected 3 returns in loop(), got %d", len(rets))
	}
	// the return following N is preceded by N; the other in-loop return is not.
	cnt := 0
	for _, rl := range rets {
		if lg.Dominates(n, rl) {
			cnt++
		}
	}
	if cnt != 1 {
		return fmt.Errorf("selftest: expected exactly 1 return dominated by N, got %d", cnt)
	}
	return nil
}
