package core

// Rename recovery and novelty.
//
// The rule tables name the repository's functions, closures and a few local
// variables. Renaming an unexported function, a closure variable or a local is
// not a behaviour change, and extracting a few statements into a new private
// helper is not one either. So that such maintenance edits do not make the
// checker lose its anchors, a *baseline* of the tree the tables were written
// against is embedded: for every declared function its signature and a
// structural hash of its body (token stream with local identifiers, comments
// and layout erased), and for every local variable of every function the set of
// structural hashes of its defining expressions. The baseline is never used to
// decide a property. It is used for exactly two things:
//
//   - canonical names: a function (or local) of the current tree whose name is
//     not in the baseline, while a baseline name of the same owner is missing
//     and has the identical signature and structural hash, is that function
//     (local) renamed; FuncKey / CanonName report the baseline name, so every
//     rule sees through the rename. If the hashes differ nothing is recovered
//     and the rule that needs the anchor reports UNDECIDED as before.
//   - novelty: a declared function that is neither in the baseline nor a
//     recovered rename is a *novel helper*; core.Calls can attribute its calls
//     to its callers (see inline.go) so that "this function performs X under
//     guard G" still holds after X moved into a helper called under G.

import (
	"crypto/sha1"
	_ "embed"
	"encoding/hex"
	"encoding/json"
	"fmt"
	"go/ast"
	"go/scanner"
	"go/token"
	"go/types"
	"os"
	"sort"
	"strings"

	"golang.org/x/tools/go/packages"
)

//go:embed baseline.json
var baselineJSON []byte

type FuncBase struct {
	Sig  string `json:"sig"`
	Hash string `json:"hash"`
}

type Baseline struct {
	Funcs  map[string]FuncBase            `json:"funcs"`
	Locals map[string]map[string][]string `json:"locals"`   // root function key → local name → sorted def fingerprints
	PkgVar map[string]map[string][]string `json:"pkg_vars"` // package short path → unexported package-level var → fingerprints
	Lits   map[string]string              `json:"closures"` // closure unit key → structural hash of its body
}

var (
	baseline    *Baseline
	funcAlias   = map[*types.Func]string{}  // current function object → baseline key
	canonLocal  = map[types.Object]string{} // current local / package var → baseline name
	novelFuncs  = map[*types.Func]bool{}
	BaselineOff bool // set by -dump-baseline: no recovery while the baseline itself is produced
)

func loadBaseline() *Baseline {
	if baseline != nil {
		return baseline
	}
	b := &Baseline{}
	if len(baselineJSON) > 2 {
		if err := json.Unmarshal(baselineJSON, b); err != nil {
			b = &Baseline{}
		}
	}
	baseline = b
	return b
}

// CanonName is the name the rule tables know a local variable (or unexported
// package-level variable) by: its own name, or the baseline name when the
// variable was recognised as a rename.
func CanonName(o types.Object) string {
	if o == nil {
		return ""
	}
	if n, ok := canonLocal[o]; ok {
		return n
	}
	return o.Name()
}

// CanonIdent: canonical name of the object an identifier denotes (the
// identifier's own text when it denotes nothing local).
func CanonIdent(info *types.Info, id *ast.Ident) string {
	if id == nil {
		return ""
	}
	o := info.Defs[id]
	if o == nil {
		o = info.Uses[id]
	}
	if o == nil {
		return id.Name
	}
	return CanonName(o)
}

// IsNovel reports whether f is a declared repository function that is neither
// in the baseline nor a recognised rename of a baseline function.
func IsNovel(f *types.Func) bool {
	if f == nil {
		return false
	}
	return novelFuncs[f.Origin()]
}

// RecoveryReport lists what was recovered (for the evidence file).
type RecoveryReport struct {
	RenamedFuncs  map[string]string `json:"renamed_functions,omitempty"` // current key → baseline key
	RenamedLocals []string          `json:"renamed_locals,omitempty"`
	NovelFuncs    []string          `json:"novel_functions,omitempty"`
	MissingFuncs  []string          `json:"baseline_functions_absent,omitempty"`
}

// ---- structural hashing ----

type srcCache struct {
	files map[string][]byte
}

func (s *srcCache) get(name string) []byte {
	if s.files == nil {
		s.files = map[string][]byte{}
	}
	if b, ok := s.files[name]; ok {
		return b
	}
	b, _ := os.ReadFile(name)
	s.files[name] = b
	return b
}

// structHash hashes the token stream of the source range [from, to) with
// comments, layout and semicolons erased; identifiers for which erase returns a
// replacement are replaced by it.
func structHash(fset *token.FileSet, src *srcCache, from, to token.Pos, erase map[token.Pos]string) string {
	if !from.IsValid() || !to.IsValid() {
		return ""
	}
	pf := fset.Position(from)
	pt := fset.Position(to)
	b := src.get(pf.Filename)
	if b == nil || pt.Offset > len(b) || pf.Offset > pt.Offset {
		return ""
	}
	seg := b[pf.Offset:pt.Offset]
	fs := token.NewFileSet()
	f := fs.AddFile("", fs.Base(), len(seg))
	var sc scanner.Scanner
	sc.Init(f, seg, nil, 0)
	h := sha1.New()
	for {
		p, tok, lit := sc.Scan()
		if tok == token.EOF {
			break
		}
		if tok == token.SEMICOLON {
			continue
		}
		if tok == token.IDENT {
			orig := from + token.Pos(fs.Position(p).Offset)
			if r, ok := erase[orig]; ok {
				lit = r
			}
		}
		if lit == "" {
			lit = tok.String()
		}
		h.Write([]byte(lit))
		h.Write([]byte{0})
	}
	return hex.EncodeToString(h.Sum(nil))[:16]
}

// localErasures maps the position of every identifier inside root that denotes
// an object declared inside root (locals, parameters, results, labels), or the
// function itself, to a placeholder.
func localErasures(info *types.Info, fd *ast.FuncDecl) map[token.Pos]string {
	er := map[token.Pos]string{}
	self, _ := info.Defs[fd.Name].(*types.Func)
	lo, hi := fd.Pos(), fd.End()
	ast.Inspect(fd, func(n ast.Node) bool {
		id, ok := n.(*ast.Ident)
		if !ok {
			return true
		}
		o := info.Defs[id]
		if o == nil {
			o = info.Uses[id]
		}
		if o == nil {
			return true
		}
		if self != nil && o == types.Object(self) {
			er[id.Pos()] = "$self"
			return true
		}
		switch v := o.(type) {
		case *types.Var:
			if v.IsField() {
				return true
			}
		case *types.Const, *types.Label:
		default:
			return true
		}
		if o.Pos() >= lo && o.Pos() < hi {
			er[id.Pos()] = "$"
		}
		return true
	})
	return er
}

func sigString(f *types.Func) string {
	sig, _ := f.Type().(*types.Signature)
	if sig == nil {
		return ""
	}
	q := func(p *types.Package) string { return p.Path() }
	var b strings.Builder
	b.WriteString("(")
	for i := 0; i < sig.Params().Len(); i++ {
		if i > 0 {
			b.WriteString(",")
		}
		b.WriteString(types.TypeString(sig.Params().At(i).Type(), q))
	}
	if sig.Variadic() {
		b.WriteString("...")
	}
	b.WriteString(")(")
	for i := 0; i < sig.Results().Len(); i++ {
		if i > 0 {
			b.WriteString(",")
		}
		b.WriteString(types.TypeString(sig.Results().At(i).Type(), q))
	}
	b.WriteString(")")
	return b.String()
}

// localFingerprints returns, for every variable declared inside fd (parameters,
// results, locals of the body and of nested literals), the fingerprints of its
// definitions, keyed by object.
func localFingerprints(fset *token.FileSet, src *srcCache, info *types.Info, fd *ast.FuncDecl, er map[token.Pos]string) map[types.Object][]string {
	out := map[types.Object][]string{}
	add := func(id *ast.Ident, fp string) {
		if id == nil || id.Name == "_" {
			return
		}
		o := info.Defs[id]
		if o == nil {
			o = info.Uses[id]
		}
		if o == nil {
			return
		}
		if v, ok := o.(*types.Var); !ok || v.IsField() {
			return
		}
		if o.Pos() < fd.Pos() || o.Pos() >= fd.End() {
			return
		}
		out[o] = append(out[o], fp)
	}
	q := func(p *types.Package) string { return p.Path() }
	tstr := func(e ast.Expr) string {
		if t := info.TypeOf(e); t != nil {
			return types.TypeString(t, q)
		}
		return "?"
	}
	fields := func(kind string, fl *ast.FieldList) {
		if fl == nil {
			return
		}
		i := 0
		for _, f := range fl.List {
			if len(f.Names) == 0 {
				i++
				continue
			}
			for _, n := range f.Names {
				add(n, fmt.Sprintf("%s:%d:%s", kind, i, tstr(f.Type)))
				i++
			}
		}
	}
	if fd.Recv != nil {
		fields("recv", fd.Recv)
	}
	fields("param", fd.Type.Params)
	fields("result", fd.Type.Results)
	hashOf := func(e ast.Node) string { return structHash(fset, src, e.Pos(), e.End(), er) }
	ast.Inspect(fd.Body, func(n ast.Node) bool {
		switch s := n.(type) {
		case *ast.FuncLit:
			fields("litparam", s.Type.Params)
			fields("litresult", s.Type.Results)
		case *ast.AssignStmt:
			for i, l := range s.Lhs {
				id, ok := l.(*ast.Ident)
				if !ok {
					continue
				}
				switch {
				case len(s.Lhs) == len(s.Rhs):
					add(id, "def:"+hashOf(s.Rhs[i]))
				case len(s.Rhs) == 1:
					add(id, fmt.Sprintf("tuple:%d:%s", i, hashOf(s.Rhs[0])))
				}
			}
		case *ast.ValueSpec:
			for i, id := range s.Names {
				switch {
				case len(s.Values) == len(s.Names):
					add(id, "def:"+hashOf(s.Values[i]))
				case len(s.Values) == 1:
					add(id, fmt.Sprintf("tuple:%d:%s", i, hashOf(s.Values[0])))
				default:
					add(id, "zero:"+tstr(s.Type))
				}
			}
		case *ast.RangeStmt:
			if id, ok := s.Key.(*ast.Ident); ok && s.Tok == token.DEFINE {
				add(id, "range-key:"+hashOf(s.X))
			}
			if id, ok := s.Value.(*ast.Ident); ok && s.Tok == token.DEFINE {
				add(id, "range-val:"+hashOf(s.X))
			}
		case *ast.TypeSwitchStmt:
			if as, ok := s.Assign.(*ast.AssignStmt); ok && len(as.Lhs) == 1 {
				if id, ok := as.Lhs[0].(*ast.Ident); ok {
					// the symbol of a type switch is defined per clause (implicit objects): fingerprint by the switch operand
					for _, cc := range s.Body.List {
						if o := info.Implicits[cc]; o != nil {
							out[o] = append(out[o], "typeswitch:"+hashOf(as.Rhs[0]))
						}
					}
					_ = id
				}
			}
		}
		return true
	})
	for o := range out {
		sort.Strings(out[o])
	}
	return out
}

type declInfo struct {
	pk   *packages.Package
	fd   *ast.FuncDecl
	obj  *types.Func
	key  string
	sig  string
	hash string
	er   map[token.Pos]string
	fps  map[types.Object][]string
}

func ownerOf(key string) string {
	if i := strings.LastIndex(key, "."); i >= 0 {
		return key[:i]
	}
	return key
}

func fpKey(fps []string) string { return strings.Join(fps, "|") }

// recover computes aliases and novelty for the loaded program. It must run
// before units are indexed (closure keys use canonical names).
func (p *Prog) recoverNames() *RecoveryReport {
	rep := &RecoveryReport{RenamedFuncs: map[string]string{}}
	funcAlias = map[*types.Func]string{}
	canonLocal = map[types.Object]string{}
	novelFuncs = map[*types.Func]bool{}
	src := &srcCache{}
	var decls []*declInfo
	for _, pk := range p.All {
		for _, f := range pk.Syntax {
			for _, d := range f.Decls {
				fd, ok := d.(*ast.FuncDecl)
				if !ok || fd.Body == nil {
					continue
				}
				obj, _ := pk.TypesInfo.Defs[fd.Name].(*types.Func)
				if obj == nil || fd.Name.Name == "init" || fd.Name.Name == "_" {
					continue
				}
				di := &declInfo{pk: pk, fd: fd, obj: obj, key: FuncKey(obj), sig: sigString(obj)}
				di.er = localErasures(pk.TypesInfo, fd)
				di.hash = structHash(p.Fset, src, fd.Body.Pos(), fd.Body.End(), di.er)
				di.fps = localFingerprints(p.Fset, src, pk.TypesInfo, fd, di.er)
				decls = append(decls, di)
			}
		}
	}
	p.decls = decls
	p.src = src
	bl := loadBaseline()
	if BaselineOff || len(bl.Funcs) == 0 {
		return rep
	}
	have := map[string]bool{}
	for _, d := range decls {
		have[d.key] = true
	}
	var missing []string
	for k := range bl.Funcs {
		if !have[k] {
			missing = append(missing, k)
		}
	}
	sort.Strings(missing)
	taken := map[string]bool{}
	for _, d := range decls {
		if _, known := bl.Funcs[d.key]; known {
			continue
		}
		var cands []string
		for _, m := range missing {
			if taken[m] || ownerOf(m) != ownerOf(d.key) {
				continue
			}
			if b := bl.Funcs[m]; b.Sig == d.sig && b.Hash == d.hash && d.hash != "" {
				cands = append(cands, m)
			}
		}
		if len(cands) == 1 {
			funcAlias[d.obj] = cands[0]
			taken[cands[0]] = true
			rep.RenamedFuncs[d.key] = cands[0]
			d.key = cands[0]
		} else {
			novelFuncs[d.obj] = true
			rep.NovelFuncs = append(rep.NovelFuncs, d.key)
		}
	}
	for _, m := range missing {
		if !taken[m] {
			rep.MissingFuncs = append(rep.MissingFuncs, m)
		}
	}
	// locals
	for _, d := range decls {
		pinned := bl.Locals[d.key]
		if len(pinned) == 0 {
			continue
		}
		cur := map[string][]types.Object{}
		curFP := map[string]map[string]bool{}
		for o, fps := range d.fps {
			cur[o.Name()] = append(cur[o.Name()], o)
			if curFP[o.Name()] == nil {
				curFP[o.Name()] = map[string]bool{}
			}
			for _, f := range fps {
				curFP[o.Name()][f] = true
			}
		}
		setKey := func(m map[string]bool) string {
			var l []string
			for k := range m {
				l = append(l, k)
			}
			sort.Strings(l)
			return fpKey(l)
		}
		var names []string
		for n := range pinned {
			names = append(names, n)
		}
		sort.Strings(names)
		used := map[string]bool{}
		for _, n := range names {
			if _, present := cur[n]; present {
				continue
			}
			want := fpKey(pinned[n])
			var cands []string
			for cn := range cur {
				if _, isPinned := pinned[cn]; isPinned || used[cn] {
					continue
				}
				if setKey(curFP[cn]) == want {
					cands = append(cands, cn)
				}
			}
			if len(cands) == 1 {
				used[cands[0]] = true
				for _, o := range cur[cands[0]] {
					canonLocal[o] = n
				}
				rep.RenamedLocals = append(rep.RenamedLocals, fmt.Sprintf("%s: %s (baseline %s)", d.key, cands[0], n))
			}
		}
	}
	// unexported package-level variables
	for _, pk := range p.All {
		short := shortPkg(pk.PkgPath)
		pinned := bl.PkgVar[short]
		if len(pinned) == 0 {
			continue
		}
		cur := pkgVarFingerprints(p.Fset, src, pk)
		byName := map[string]types.Object{}
		for o := range cur {
			byName[o.Name()] = o
		}
		used := map[string]bool{}
		var names []string
		for n := range pinned {
			names = append(names, n)
		}
		sort.Strings(names)
		for _, n := range names {
			if _, present := byName[n]; present {
				continue
			}
			var cands []types.Object
			for o, fps := range cur {
				if _, isPinned := pinned[o.Name()]; isPinned || used[o.Name()] {
					continue
				}
				if fpKey(fps) == fpKey(pinned[n]) {
					cands = append(cands, o)
				}
			}
			if len(cands) == 1 {
				used[cands[0].Name()] = true
				canonLocal[cands[0]] = n
				rep.RenamedLocals = append(rep.RenamedLocals, fmt.Sprintf("%s: var %s (baseline %s)", short, cands[0].Name(), n))
			}
		}
	}
	sort.Strings(rep.NovelFuncs)
	sort.Strings(rep.RenamedLocals)
	return rep
}

func pkgVarFingerprints(fset *token.FileSet, src *srcCache, pk *packages.Package) map[types.Object][]string {
	out := map[types.Object][]string{}
	for _, f := range pk.Syntax {
		for _, d := range f.Decls {
			gd, ok := d.(*ast.GenDecl)
			if !ok || gd.Tok != token.VAR {
				continue
			}
			for _, s := range gd.Specs {
				vs := s.(*ast.ValueSpec)
				for i, id := range vs.Names {
					if id.Name == "_" || ast.IsExported(id.Name) {
						continue
					}
					o := pk.TypesInfo.Defs[id]
					if o == nil {
						continue
					}
					fp := "zero"
					if len(vs.Values) == len(vs.Names) {
						fp = "def:" + structHash(fset, src, vs.Values[i].Pos(), vs.Values[i].End(), nil)
					} else if len(vs.Values) == 1 {
						fp = fmt.Sprintf("tuple:%d:%s", i, structHash(fset, src, vs.Values[0].Pos(), vs.Values[0].End(), nil))
					}
					out[o] = append(out[o], fp+":"+types.TypeString(o.Type(), func(p *types.Package) string { return p.Path() }))
				}
			}
		}
	}
	return out
}

// DumpBaseline renders the baseline of the loaded program (used once per pinned
// tree: `engcheck -dump-baseline > core/baseline.json`).
func (p *Prog) DumpBaseline() []byte {
	b := Baseline{Funcs: map[string]FuncBase{}, Locals: map[string]map[string][]string{}, PkgVar: map[string]map[string][]string{}, Lits: map[string]string{}}
	for _, u := range p.Units {
		if u.Lit == nil {
			continue
		}
		if h := p.litHash(u); h != "" {
			b.Lits[u.Key] = h
		}
	}
	for _, d := range p.decls {
		b.Funcs[d.key] = FuncBase{Sig: d.sig, Hash: d.hash}
		m := map[string]map[string]bool{}
		for o, fps := range d.fps {
			if m[o.Name()] == nil {
				m[o.Name()] = map[string]bool{}
			}
			for _, f := range fps {
				m[o.Name()][f] = true
			}
		}
		if len(m) > 0 {
			b.Locals[d.key] = map[string][]string{}
			for n, set := range m {
				var l []string
				for k := range set {
					l = append(l, k)
				}
				sort.Strings(l)
				b.Locals[d.key][n] = l
			}
		}
	}
	for _, pk := range p.All {
		short := shortPkg(pk.PkgPath)
		for o, fps := range pkgVarFingerprints(p.Fset, p.src, pk) {
			if b.PkgVar[short] == nil {
				b.PkgVar[short] = map[string][]string{}
			}
			b.PkgVar[short][o.Name()] = fps
		}
	}
	out, _ := json.MarshalIndent(b, "", " ")
	return append(out, '\n')
}

// RemovedNotRenamed: key is a baseline function that is absent from the
// current tree and for which no candidate exists — no novel function of the
// same owner with the same signature (which could be a renamed and edited
// version of it).
func (p *Prog) RemovedNotRenamed(key string) bool {
	bl := loadBaseline()
	b, known := bl.Funcs[key]
	if !known || BaselineOff {
		return false
	}
	for _, d := range p.decls {
		if d.key == key {
			return false
		}
		if novelFuncs[d.obj] && ownerOf(d.key) == ownerOf(key) && d.sig == b.Sig {
			return false
		}
	}
	return true
}

func (p *Prog) declOf(u *Unit) *declInfo {
	r := u.Root()
	for _, d := range p.decls {
		if d.fd == r.Decl {
			return d
		}
	}
	return nil
}

// litHash: structural hash of a function literal's body with the locals of its root function erased.
func (p *Prog) litHash(u *Unit) string {
	if u.Lit == nil {
		return ""
	}
	d := p.declOf(u)
	if d == nil {
		return ""
	}
	return structHash(p.Fset, p.src, u.Lit.Body.Pos(), u.Lit.Body.End(), d.er)
}

// recoverClosures: a novel declared function whose body is, token for token
// (locals and receiver erased), the body of a baseline closure that no longer
// exists is that closure turned into a named function or method (passed as a
// method value, deferred or called where the literal used to be). It takes the
// closure's key, so every rule anchored on the closure finds it.
func (p *Prog) recoverClosures() {
	bl := loadBaseline()
	if BaselineOff || len(bl.Lits) == 0 {
		return
	}
	var gone []string
	for k := range bl.Lits {
		if p.byKey[k] == nil {
			gone = append(gone, k)
		}
	}
	sort.Strings(gone)
	if len(gone) == 0 {
		return
	}
	taken := map[string]bool{}
	for _, d := range p.decls {
		if !novelFuncs[d.obj] || d.hash == "" {
			continue
		}
		var cands []string
		for _, k := range gone {
			if taken[k] || bl.Lits[k] != d.hash {
				continue
			}
			// same package as the closure's root function
			root := k
			if i := strings.Index(k, "$"); i >= 0 {
				root = k[:i]
			}
			ru := p.byKey[root]
			if ru == nil || ru.Pkg != d.pk {
				continue
			}
			cands = append(cands, k)
		}
		if len(cands) != 1 {
			continue
		}
		k := cands[0]
		u := p.byObj[d.obj]
		if u == nil {
			continue
		}
		taken[k] = true
		delete(p.byKey, u.Key)
		old := u.Key
		u.Key = k
		p.byKey[k] = u
		funcAlias[d.obj] = k
		novelFuncs[d.obj] = false
		if p.Recovery != nil {
			p.Recovery.RenamedFuncs[old] = k + " (closure turned into a named function)"
			var nf []string
			for _, n := range p.Recovery.NovelFuncs {
				if n != old {
					nf = append(nf, n)
				}
			}
			p.Recovery.NovelFuncs = nf
		}
		// re-key the literals nested in it
		for _, kid := range u.AllUnits()[1:] {
			delete(p.byKey, kid.Key)
			kid.Key = k + strings.TrimPrefix(kid.Key, old)
			p.byKey[kid.Key] = kid
		}
		if i := strings.LastIndex(k, "$"); i >= 0 {
			if parent := p.byKey[k[:i]]; parent != nil {
				parent.Kids = append(parent.Kids, u)
			}
		}
	}
}
