package core

import (
	"crypto/sha1"
	"encoding/json"
	"fmt"
	"go/token"
	"os"
	"path/filepath"
	"sort"
	"strings"
	"time"
)

// Ob is one obligation: a rule applied to one construct.
type Ob struct {
	Rule    string `json:"rule"`
	Key     string `json:"construct"`
	Pos     string `json:"pos"`
	Verdict string `json:"verdict"` // holds | violated | known-finding | undecided
	Detail  string `json:"detail,omitempty"`
	pos     token.Pos
	query   bool // verdict needed a CFG/type/constant query (non-trivial)
}

// Ctx collects the obligations of one property run.
type Ctx struct {
	P        *Prog
	Prop     string
	Obs      []*Ob
	Rules    map[string]string // rule id -> text
	ruleIDs  []string
	Analysed map[string]bool // unit keys touched
	Sites    int             // call sites inspected
	Notes    []string
}

func NewCtx(p *Prog, prop string) *Ctx {
	return &Ctx{P: p, Prop: prop, Rules: map[string]string{}, Analysed: map[string]bool{}}
}

// Rule declares a rule text (for the evidence file).
func (c *Ctx) Rule(id, text string) {
	if _, ok := c.Rules[id]; !ok {
		c.ruleIDs = append(c.ruleIDs, id)
	}
	c.Rules[id] = text
}

func (c *Ctx) add(rule, key string, pos token.Pos, verdict, detail string, query bool) *Ob {
	o := &Ob{Rule: rule, Key: key, Pos: c.P.PosStr(pos), Verdict: verdict, Detail: detail, pos: pos, query: query}
	c.Obs = append(c.Obs, o)
	return o
}

// Check records holds/violated according to ok.
func (c *Ctx) Check(rule, key string, pos token.Pos, ok bool, detail string) bool {
	v := "holds"
	if !ok {
		v = "violated"
	}
	c.add(rule, key, pos, v, detail, true)
	return ok
}

// Exists records an existence obligation (trivial when it holds).
func (c *Ctx) Exists(rule, key string, pos token.Pos, ok bool, detail string) bool {
	v := "holds"
	if !ok {
		v = "violated"
	}
	c.add(rule, key, pos, v, detail, false)
	return ok
}

func (c *Ctx) Violate(rule, key string, pos token.Pos, detail string) {
	c.add(rule, key, pos, "violated", detail, true)
}

func (c *Ctx) Undecided(rule, key string, detail string) {
	c.add(rule, key, token.NoPos, "undecided", detail, false)
}

// Fn resolves a function anchor; a missing anchor is an undecided obligation.
func (c *Ctx) Fn(rule, key string) *Unit {
	u := c.P.Func(key)
	if u == nil {
		if c.P.RemovedNotRenamed(key) {
			// the function existed in the tree the rule was written for, it is gone, and no new function of the same
			// owner has its signature (nothing that could be it under another name): the construct the rule states a
			// condition about was removed — e.g. an override deleted so that the embedded base method runs instead
			c.add(rule, key, token.NoPos, "violated", "the function this rule is anchored on was removed (not renamed: no new function of the same receiver/package has its signature): the mechanism it implements no longer exists", true)
			return nil
		}
		c.Undecided(rule, key, "unresolved-anchor: function not found in the loaded program")
		return nil
	}
	c.Touch(u)
	return u
}

// KidOf resolves a closure anchor.
func (c *Ctx) KidOf(rule string, u *Unit, name string) *Unit {
	if u == nil {
		return nil
	}
	k := u.Kid(name)
	if k == nil {
		c.Undecided(rule, u.Key+"$"+name, "unresolved-anchor: closure not found")
		return nil
	}
	c.Touch(k)
	return k
}

func (c *Ctx) Touch(u *Unit) {
	if u != nil {
		c.Analysed[u.Key] = true
	}
}

// Need is the vacuity guard: fewer instances than confirmed by hand is a violation of the rule
// (function and closure anchors that cannot be resolved stay UNDECIDED: a rename is not a behaviour change).
func (c *Ctx) Need(rule, what string, got, min int) bool {
	if got < min {
		// the instances were confirmed by reading the code and are part of the rule as stated ("these sites exist and each
		// satisfies …"): a missing one is a violation of the rule, reported with the construct class that lost an instance
		c.add(rule, "missing:"+what, token.NoPos, "violated", fmt.Sprintf("found %d instance(s) of %s, the rule was confirmed on at least %d: a required construct is gone", got, what, min), true)
		return false
	}
	return true
}

func (c *Ctx) Note(s string) { c.Notes = append(c.Notes, s) }

// ---------- known findings ----------

type Finding struct {
	Property string `json:"property"`
	Rule     string `json:"rule"`
	Key      string `json:"construct"`
	What     string `json:"what"`
	Witness  string `json:"witness,omitempty"`
}

type Fixed struct {
	Line     string `json:"line"` // "fixed: property=<id> <commit> <what failed>"
	Property string `json:"property"`
	Commit   string `json:"commit"`
	Rule     string `json:"rule"`
	Key      string `json:"construct"`
	What     string `json:"what"`
	Witness  string `json:"witness,omitempty"`
}

type KnownFile struct {
	Comment  string    `json:"_comment,omitempty"`
	Findings []Finding `json:"findings"`
	Fixed    []Fixed   `json:"fixed"`
}

func LoadKnown(path string) (*KnownFile, error) {
	k := &KnownFile{}
	b, err := os.ReadFile(path)
	if err != nil {
		if os.IsNotExist(err) {
			return k, nil
		}
		return nil, err
	}
	if err := json.Unmarshal(b, k); err != nil {
		return nil, fmt.Errorf("%s: %v", path, err)
	}
	return k, nil
}

// ---------- finishing a run ----------

type Result struct {
	Violations int
	Known      int
	Undecided  int
	Holds      int
}

// Finish applies the known-findings list, prints the verdict lines, writes
// replay files and the evidence file.
func (c *Ctx) Finish(known *KnownFile, verifDir, tier string, seed int64, started time.Time, extra map[string]any) Result {
	sort.SliceStable(c.Obs, func(i, j int) bool {
		a, b := c.Obs[i], c.Obs[j]
		if a.Rule != b.Rule {
			return ruleLess(a.Rule, b.Rule)
		}
		if a.pos != b.pos {
			return a.pos < b.pos
		}
		return a.Key < b.Key
	})
	listed := map[string]Finding{}
	for _, f := range known.Findings {
		if f.Property == c.Prop {
			listed[f.Rule+"\x00"+f.Key] = f
		}
	}
	var res Result
	used := map[string]bool{}
	outDir := filepath.Join(verifDir, "out")
	os.MkdirAll(outDir, 0o755)
	for _, o := range c.Obs {
		switch o.Verdict {
		case "holds":
			res.Holds++
		case "undecided":
			res.Undecided++
			fmt.Printf("UNDECIDED property=%s rule=%s construct=%s: %s\n", c.Prop, o.Rule, o.Key, o.Detail)
		case "violated":
			if f, ok := listed[o.Rule+"\x00"+o.Key]; ok {
				o.Verdict = "known-finding"
				res.Known++
				if !used[o.Rule+"\x00"+o.Key] {
					used[o.Rule+"\x00"+o.Key] = true
					fmt.Printf("KNOWN-FINDING: property=%s rule=%s construct=%s at %s — %s\n", c.Prop, o.Rule, o.Key, o.Pos, f.What)
				}
				continue
			}
			res.Violations++
			h := sha1.Sum([]byte(o.Rule + "|" + o.Key))
			name := fmt.Sprintf("%s-%x.json", c.Prop, h[:5])
			path := filepath.Join(outDir, name)
			rep := map[string]any{
				"property":  c.Prop,
				"rule":      o.Rule,
				"rule_text": c.Rules[o.Rule],
				"construct": o.Key,
				"position":  o.Pos,
				"detail":    o.Detail,
				"repo":      c.P.Dir,
				"replay":    fmt.Sprintf("cd %s && ./check %s quick   # re-evaluates rule %s on the current tree", verifDir, c.Prop, o.Rule),
			}
			b, _ := json.MarshalIndent(rep, "", " ")
			os.WriteFile(path, append(b, '\n'), 0o644)
			fmt.Printf("violated: property=%s rule=%s construct=%s at %s: %s\n", c.Prop, o.Rule, o.Key, o.Pos, o.Detail)
			fmt.Printf("VIOLATION property=%s replay=%s\n", c.Prop, path)
		}
	}
	// listed findings that no longer fire are reported (informational only)
	for k, f := range listed {
		if !used[k] {
			c.Note(fmt.Sprintf("listed finding no longer fires: rule=%s construct=%s", f.Rule, f.Key))
		}
	}
	c.writeEvidence(verifDir, tier, seed, started, res, extra)
	fmt.Printf("summary property=%s tier=%s obligations=%d holds=%d known-findings=%d violations=%d undecided=%d units=%d\n",
		c.Prop, tier, len(c.Obs), res.Holds, res.Known, res.Violations, res.Undecided, len(c.Analysed))
	return res
}

func ruleLess(a, b string) bool {
	pa, pb := strings.SplitN(a, ".", 2), strings.SplitN(b, ".", 2)
	if pa[0] != pb[0] {
		return pa[0] < pb[0]
	}
	if len(pa) < 2 || len(pb) < 2 {
		return a < b
	}
	var x, y int
	var xs, ys string
	fmt.Sscanf(pa[1], "%d%s", &x, &xs)
	fmt.Sscanf(pb[1], "%d%s", &y, &ys)
	if x != y {
		return x < y
	}
	return pa[1] < pb[1]
}

func (c *Ctx) writeEvidence(verifDir, tier string, seed int64, started time.Time, res Result, extra map[string]any) {
	distinct := map[string]bool{}
	nontrivial := 0
	for _, o := range c.Obs {
		k := o.Rule + "|" + o.Key
		if o.query && o.Verdict != "undecided" && !distinct[k] {
			distinct[k] = true
			nontrivial++
		}
	}
	var samples []any
	// a spread of samples: first obligation of each rule, then others, up to 16
	seenRule := map[string]bool{}
	for _, o := range c.Obs {
		if !seenRule[o.Rule] && len(samples) < 16 {
			seenRule[o.Rule] = true
			samples = append(samples, o)
		}
	}
	for _, o := range c.Obs {
		if len(samples) >= 16 {
			break
		}
		if o.Verdict != "holds" {
			samples = append(samples, o)
		}
	}
	var rules []map[string]string
	sort.SliceStable(c.ruleIDs, func(i, j int) bool { return ruleLess(c.ruleIDs[i], c.ruleIDs[j]) })
	var expl []string
	for _, id := range c.ruleIDs {
		rules = append(rules, map[string]string{"id": id, "text": c.Rules[id]})
		expl = append(expl, id+": "+c.Rules[id])
	}
	var units []string
	for k := range c.Analysed {
		units = append(units, k)
	}
	sort.Strings(units)
	var nonHolding []*Ob
	for _, o := range c.Obs {
		if o.Verdict != "holds" {
			nonHolding = append(nonHolding, o)
		}
	}
	cov := map[string]any{
		"explanation": "Static analysis of /repo's current working tree (type-checked AST, go/cfg control-flow graphs, constant evaluation, resolved callees). " +
			"Each obligation is one rule applied to one construct; the verdict is computed from dominance / path / held-lock / who-may-call / constant-table queries, never by running repository code. Rules: " +
			strings.Join(expl, " || "),
		"evaluations":         len(c.Obs),
		"distinct_nontrivial": nontrivial,
		"rule": "an obligation is (rule id, construct key built from resolved objects); it counts as non-trivial when its construct was found and its verdict needed a CFG, type, constant or call-graph query " +
			"(plain existence checks and unresolved anchors are not counted); distinct by (rule, construct)",
		"samples":                         samples,
		"obligations":                     len(c.Obs),
		"discharged":                      res.Holds,
		"known_findings":                  res.Known,
		"undecided":                       res.Undecided,
		"rules":                           rules,
		"functions_analysed":              len(units),
		"functions":                       units,
		"call_sites":                      c.Sites,
		"packages":                        len(c.P.All),
		"go_files":                        c.P.GoFiles,
		"build_constrained_files_ignored": c.P.IgnoredFiles,
		"non_holding":                     nonHolding,
		"exhaustive":                      true,
		"notes":                           c.Notes,
	}
	for k, v := range extra {
		cov[k] = v
	}
	ev := map[string]any{
		"property_id": c.Prop,
		"tier":        tier,
		"seed":        seed,
		"level":       "other",
		"coverage":    cov,
		"assumptions": []string{
			"go/types, go/cfg, go/packages (golang.org/x/tools v0.29.0) and the Go toolchain that loads /repo are correct",
			"dependencies outside /repo (engine.io-go-parser, gorilla/websocket, webtransport-go, stdlib) behave as documented",
			"the rule tables encode necessary structural conditions of the property; behaviour quantified over run-time values, schedules and clocks is not decided (see DESIGN.md, 'Not decided')",
		},
		"wall_s":     time.Since(started).Seconds(),
		"violations": res.Violations,
	}
	dir := filepath.Join(verifDir, "evidence")
	os.MkdirAll(dir, 0o755)
	b, _ := json.MarshalIndent(ev, "", " ")
	os.WriteFile(filepath.Join(dir, c.Prop+".json"), append(b, '\n'), 0o644)
}
