// Package core holds the shared machinery of the engine.io static checker:
// loading the type-checked program, indexing function bodies ("units"),
// control-flow queries (dominance, path-avoidance, held-lock sets), call/emit
// facts, and reporting.
package core

import (
	"fmt"
	"go/ast"
	"go/token"
	"go/types"
	"os"
	"sort"
	"strings"

	"golang.org/x/tools/go/cfg"
	"golang.org/x/tools/go/packages"
)

const ModPath = "github.com/zishang520/engine.io/v2"

// Prog is the loaded, type-checked repository.
type Prog struct {
	Dir   string
	Fset  *token.FileSet
	Pkgs  map[string]*packages.Package // by short path relative to module ("engine", "types", ...)
	All   []*packages.Package          // repo packages, sorted
	Units []*Unit
	byKey map[string]*Unit
	byLit map[*ast.FuncLit]*Unit
	byObj map[*types.Func]*Unit

	GoFiles      int
	IgnoredFiles int

	pure        map[*types.Func]*pureEntry
	transparent map[*types.Func]bool
	decls    []*declInfo
	src      *srcCache
	Recovery *RecoveryReport // renames recognised against the embedded baseline, novel helpers
}

// Unit is one function body: a declared function/method or a function literal.
type Unit struct {
	Prog   *Prog
	Pkg    *packages.Package
	Key    string // e.g. engine.(*socket).flush, engine.(*socket).MaybeUpgrade$onPacket
	Decl   *ast.FuncDecl
	Lit    *ast.FuncLit
	Body   *ast.BlockStmt
	Type   *ast.FuncType
	Parent *Unit
	Obj    *types.Func // for declared functions
	Kids   []*Unit

	g         *Graph
	calls     []*Call
	callsDone bool
	inl       []*Call
	inlDone   bool
}

func (u *Unit) Info() *types.Info { return u.Pkg.TypesInfo }
func (u *Unit) Pos() token.Pos {
	if u.Decl != nil {
		return u.Decl.Pos()
	}
	return u.Lit.Pos()
}

// Owner is the unit this one belongs to: the enclosing unit of a literal, or —
// for a closure that became a named function and kept the closure's key
// (recoverClosures) — the unit the literal used to stand in.
func (u *Unit) Owner() *Unit {
	if u.Parent != nil {
		return u.Parent
	}
	if u.Lit == nil {
		if i := strings.LastIndex(u.Key, "$"); i >= 0 {
			return u.Prog.byKey[u.Key[:i]]
		}
	}
	return nil
}

// Root returns the enclosing declared function.
func (u *Unit) Root() *Unit {
	for u.Parent != nil {
		u = u.Parent
	}
	return u
}

// Load type-checks every package under dir (the repository working tree).
func Load(dir string) (*Prog, error) {
	os.Unsetenv("GOWORK")
	env := append(os.Environ(), "GOFLAGS=-mod=mod", "GOPROXY=off", "CGO_ENABLED=0", "GOWORK=off")
	fset := token.NewFileSet()
	conf := &packages.Config{
		Mode:  packages.LoadAllSyntax,
		Dir:   dir,
		Fset:  fset,
		Env:   env,
		Tests: false,
	}
	pkgs, err := packages.Load(conf, "./...")
	if err != nil {
		return nil, fmt.Errorf("load: %v", err)
	}
	p := &Prog{Dir: dir, Fset: fset, Pkgs: map[string]*packages.Package{},
		byKey: map[string]*Unit{}, byLit: map[*ast.FuncLit]*Unit{}, byObj: map[*types.Func]*Unit{}}
	var errs []string
	packages.Visit(pkgs, nil, func(pk *packages.Package) {
		for _, e := range pk.Errors {
			errs = append(errs, e.Error())
		}
	})
	if len(errs) > 0 {
		sort.Strings(errs)
		if len(errs) > 10 {
			errs = errs[:10]
		}
		return nil, fmt.Errorf("type-check/load errors (%d): %s", len(errs), strings.Join(errs, "; "))
	}
	for _, pk := range pkgs {
		if !strings.HasPrefix(pk.PkgPath, ModPath) {
			continue
		}
		short := strings.TrimPrefix(strings.TrimPrefix(pk.PkgPath, ModPath), "/")
		p.Pkgs[short] = pk
		p.All = append(p.All, pk)
		p.GoFiles += len(pk.GoFiles)
		p.IgnoredFiles += len(pk.IgnoredFiles)
	}
	sort.Slice(p.All, func(i, j int) bool { return p.All[i].PkgPath < p.All[j].PkgPath })
	if len(p.All) < 9 {
		return nil, fmt.Errorf("expected >= 9 repository packages, loaded %d", len(p.All))
	}
	p.Recovery = p.recoverNames()
	for _, pk := range p.All {
		p.indexPkg(pk)
	}
	p.recoverClosures()
	p.markTransparent()
	return p, nil
}

func shortPkg(path string) string {
	return strings.TrimPrefix(strings.TrimPrefix(path, ModPath), "/")
}

// FuncKey gives the stable key of a declared function object.
func FuncKey(f *types.Func) string {
	if f == nil {
		return "<nil>"
	}
	f = f.Origin()
	if k, ok := funcAlias[f]; ok {
		return k
	}
	pkg := ""
	if f.Pkg() != nil {
		pkg = f.Pkg().Path()
		if strings.HasPrefix(pkg, ModPath) {
			pkg = shortPkg(pkg)
		}
	}
	sig, _ := f.Type().(*types.Signature)
	if sig != nil && sig.Recv() != nil {
		t := sig.Recv().Type()
		ptr := ""
		if pt, ok := t.(*types.Pointer); ok {
			t = pt.Elem()
			ptr = "*"
		}
		name := "?"
		switch tt := t.(type) {
		case *types.Named:
			name = tt.Obj().Name()
		case *types.Alias:
			name = tt.Obj().Name()
		case *types.Interface:
			name = "interface"
		}
		return fmt.Sprintf("%s.(%s%s).%s", pkg, ptr, name, f.Name())
	}
	return pkg + "." + f.Name()
}

func (p *Prog) indexPkg(pk *packages.Package) {
	files := append([]*ast.File(nil), pk.Syntax...)
	sort.Slice(files, func(i, j int) bool {
		return p.Fset.File(files[i].Pos()).Name() < p.Fset.File(files[j].Pos()).Name()
	})
	for _, f := range files {
		for _, d := range f.Decls {
			fd, ok := d.(*ast.FuncDecl)
			if !ok || fd.Body == nil {
				continue
			}
			obj, _ := pk.TypesInfo.Defs[fd.Name].(*types.Func)
			u := &Unit{Prog: p, Pkg: pk, Decl: fd, Body: fd.Body, Type: fd.Type, Obj: obj}
			u.Key = FuncKey(obj)
			if fd.Name.Name == "init" || fd.Name.Name == "_" {
				u.Key = fmt.Sprintf("%s#%s", u.Key, p.Fset.File(fd.Pos()).Name())
			}
			p.addUnit(u)
			p.indexLits(u)
		}
		// package-level var initialisers with function literals
		for _, d := range f.Decls {
			gd, ok := d.(*ast.GenDecl)
			if !ok {
				continue
			}
			for _, s := range gd.Specs {
				vs, ok := s.(*ast.ValueSpec)
				if !ok {
					continue
				}
				for i, v := range vs.Values {
					name := "_"
					if i < len(vs.Names) {
						name = vs.Names[i].Name
					}
					holder := &Unit{Prog: p, Pkg: pk, Key: shortPkg(pk.PkgPath) + ".var:" + name}
					n := 0
					ast.Inspect(v, func(nd ast.Node) bool {
						if fl, ok := nd.(*ast.FuncLit); ok {
							n++
							u := &Unit{Prog: p, Pkg: pk, Lit: fl, Body: fl.Body, Type: fl.Type,
								Key: fmt.Sprintf("%s$lit%d", holder.Key, n)}
							p.addUnit(u)
							p.indexLits(u)
							return false
						}
						return true
					})
				}
			}
		}
	}
}

func (p *Prog) addUnit(u *Unit) {
	if _, dup := p.byKey[u.Key]; dup {
		// disambiguate deterministically
		for i := 2; ; i++ {
			k := fmt.Sprintf("%s~%d", u.Key, i)
			if _, d := p.byKey[k]; !d {
				u.Key = k
				break
			}
		}
	}
	p.Units = append(p.Units, u)
	p.byKey[u.Key] = u
	if u.Lit != nil {
		p.byLit[u.Lit] = u
	}
	if u.Obj != nil {
		p.byObj[u.Obj] = u
	}
}

// indexLits creates child units for function literals directly inside u
// (not inside nested literals), naming them after the variable they are
// assigned to, or after the call they are an argument of.
func (p *Prog) indexLits(u *Unit) {
	counts := map[string]int{}
	name := func(base string) string {
		counts[base]++
		if counts[base] == 1 {
			return base
		}
		return fmt.Sprintf("%s#%d", base, counts[base])
	}
	var visit func(n ast.Node, hint string)
	visit = func(n ast.Node, hint string) {
		if n == nil {
			return
		}
		switch x := n.(type) {
		case *ast.FuncLit:
			if hint == "" {
				hint = "lit"
			}
			k := &Unit{Prog: p, Pkg: u.Pkg, Lit: x, Body: x.Body, Type: x.Type, Parent: u,
				Key: u.Key + "$" + name(hint)}
			u.Kids = append(u.Kids, k)
			p.addUnit(k)
			p.indexLits(k)
			return
		case *ast.AssignStmt:
			for i, r := range x.Rhs {
				h := ""
				if len(x.Lhs) == len(x.Rhs) {
					if id, ok := x.Lhs[i].(*ast.Ident); ok {
						h = CanonIdent(u.Pkg.TypesInfo, id)
					} else if se, ok := x.Lhs[i].(*ast.SelectorExpr); ok {
						h = se.Sel.Name
					}
				}
				if fl, ok := unwrapConv(r).(*ast.FuncLit); ok {
					visit(fl, h)
				} else {
					visit(r, "")
				}
			}
			for _, l := range x.Lhs {
				visit(l, "")
			}
			return
		case *ast.ValueSpec:
			for i, r := range x.Values {
				h := ""
				if i < len(x.Names) {
					h = CanonIdent(u.Pkg.TypesInfo, x.Names[i])
				}
				if _, isLit := unwrapConv(r).(*ast.FuncLit); isLit {
					visit(unwrapConv(r), h)
				} else {
					visit(r, "")
				}
			}
			return
		case *ast.CallExpr:
			cname := calleeName(x)
			visit(x.Fun, "")
			for i, a := range x.Args {
				if fl, ok := unwrapConv(a).(*ast.FuncLit); ok {
					h := fmt.Sprintf("%s.arg%d", cname, i)
					// event registrations get the event name in the key
					if len(x.Args) >= 2 && i >= 1 {
						if ev, ok := stringLit(x.Args[0]); ok && (cname == "On" || cname == "Once" || cname == "AddListener") {
							h = fmt.Sprintf("%s(%s)", cname, ev)
						}
					}
					visit(fl, h)
				} else {
					visit(a, "")
				}
			}
			return
		case *ast.GoStmt:
			if fl, ok := x.Call.Fun.(*ast.FuncLit); ok {
				visit(fl, "go")
				for _, a := range x.Call.Args {
					visit(a, "")
				}
				return
			}
		case *ast.DeferStmt:
			if fl, ok := x.Call.Fun.(*ast.FuncLit); ok {
				visit(fl, "defer")
				for _, a := range x.Call.Args {
					visit(a, "")
				}
				return
			}
		case *ast.KeyValueExpr:
			h := ""
			if id, ok := x.Key.(*ast.Ident); ok {
				h = id.Name
			}
			if fl, ok := x.Value.(*ast.FuncLit); ok {
				visit(fl, h)
				return
			}
		}
		// generic descent over children
		children(n, func(c ast.Node) { visit(c, "") })
	}
	children(u.Body, func(c ast.Node) { visit(c, "") })
}

func unwrapConv(e ast.Expr) ast.Expr {
	for {
		switch x := e.(type) {
		case *ast.ParenExpr:
			e = x.X
			continue
		case *ast.CallExpr:
			// conversion such as events.Listener(func(...){...})
			if len(x.Args) == 1 {
				if _, ok := x.Args[0].(*ast.FuncLit); ok {
					if _, isSel := x.Fun.(*ast.SelectorExpr); isSel {
						if sel := x.Fun.(*ast.SelectorExpr); sel.Sel.Name == "Listener" {
							return x.Args[0]
						}
					}
				}
			}
		}
		return e
	}
}

func calleeName(c *ast.CallExpr) string {
	switch f := c.Fun.(type) {
	case *ast.Ident:
		return f.Name
	case *ast.SelectorExpr:
		return f.Sel.Name
	case *ast.IndexExpr:
		if id, ok := f.X.(*ast.Ident); ok {
			return id.Name
		}
		if se, ok := f.X.(*ast.SelectorExpr); ok {
			return se.Sel.Name
		}
	}
	return "call"
}

func stringLit(e ast.Expr) (string, bool) {
	if bl, ok := e.(*ast.BasicLit); ok && bl.Kind == token.STRING {
		s := bl.Value
		if len(s) >= 2 {
			return s[1 : len(s)-1], true
		}
	}
	return "", false
}

// children calls f for each direct child node of n.
func children(n ast.Node, f func(ast.Node)) {
	first := true
	ast.Inspect(n, func(c ast.Node) bool {
		if c == nil {
			return false
		}
		if first {
			first = false
			return true
		}
		f(c)
		return false
	})
}

// Func returns the unit with the given key, or nil.
func (p *Prog) Func(key string) *Unit { return p.byKey[key] }

// UnitOf returns the unit for a declared function object.
func (p *Prog) UnitOf(f *types.Func) *Unit {
	if f == nil {
		return nil
	}
	return p.byObj[f.Origin()]
}

// LitUnit returns the unit of a function literal.
func (p *Prog) LitUnit(l *ast.FuncLit) *Unit { return p.byLit[l] }

// Kid returns the child closure with the given local name.
func (u *Unit) Kid(name string) *Unit {
	for _, k := range u.Kids {
		if k.Key == u.Key+"$"+name {
			return k
		}
	}
	// a closure that became a named function keeps its key (recoverClosures)
	if k := u.Prog.byKey[u.Key+"$"+name]; k != nil && k.Lit == nil {
		return k
	}
	return nil
}

// PosStr renders a position as repo-relative file:line:col.
func (p *Prog) PosStr(pos token.Pos) string {
	if !pos.IsValid() {
		return "-"
	}
	ps := p.Fset.Position(pos)
	f := strings.TrimPrefix(ps.Filename, p.Dir+"/")
	return fmt.Sprintf("%s:%d:%d", f, ps.Line, ps.Column)
}

// Graph returns the (cached) CFG wrapper of the unit.
func (u *Unit) Graph() *Graph {
	if u.g == nil {
		u.g = newGraph(u)
	}
	return u.g
}

func mayReturn(info *types.Info) func(*ast.CallExpr) bool {
	return func(c *ast.CallExpr) bool {
		if id, ok := c.Fun.(*ast.Ident); ok && id.Name == "panic" {
			if _, isBuiltin := info.Uses[id].(*types.Builtin); isBuiltin {
				return false
			}
		}
		return true
	}
}

var _ = cfg.New

// Dep returns a (transitively) imported package by path, with syntax and types (LoadAllSyntax), or nil.
func (p *Prog) Dep(path string) *packages.Package {
	seen := map[string]bool{}
	var find func(pk *packages.Package) *packages.Package
	find = func(pk *packages.Package) *packages.Package {
		if pk == nil || seen[pk.PkgPath] {
			return nil
		}
		seen[pk.PkgPath] = true
		if pk.PkgPath == path {
			return pk
		}
		for _, im := range pk.Imports {
			if r := find(im); r != nil {
				return r
			}
		}
		return nil
	}
	for _, pk := range p.All {
		if r := find(pk); r != nil {
			return r
		}
	}
	return nil
}
