package core

import (
	"go/ast"
	"go/types"
	"sort"
)

// CallGraph is a static call graph over repository units: direct calls,
// calls of local closure variables, function literals (a literal is
// reachable from the unit that contains it), and interface method calls
// resolved by class-hierarchy analysis restricted to repository types.
type CallGraph struct {
	P     *Prog
	Succ  map[*Unit][]*Unit
	Extra map[*Unit][]*Unit // rule-supplied edges (listener wiring)
	impls map[*types.Func][]*Unit
}

var cgCache = map[*Prog]*CallGraph{}

// CG returns the cached call graph.
func (p *Prog) CG() *CallGraph {
	if cg, ok := cgCache[p]; ok {
		return cg
	}
	cg := p.CallGraph()
	cgCache[p] = cg
	return cg
}

func (p *Prog) CallGraph() *CallGraph {
	cg := &CallGraph{P: p, Succ: map[*Unit][]*Unit{}, Extra: map[*Unit][]*Unit{}, impls: map[*types.Func][]*Unit{}}
	// all named repo types (with pointer variants) for CHA
	var named []*types.Named
	for _, pk := range p.All {
		sc := pk.Types.Scope()
		for _, n := range sc.Names() {
			if tn, ok := sc.Lookup(n).(*types.TypeName); ok {
				if nt, ok := tn.Type().(*types.Named); ok {
					if _, isIface := nt.Underlying().(*types.Interface); !isIface {
						named = append(named, nt)
					}
				}
			}
		}
	}
	type ck struct {
		t string
		m *types.Func
	}
	cache := map[ck][]*Unit{}
	resolveIface := func(m *types.Func, static types.Type) []*Unit {
		var iface *types.Interface
		if static != nil {
			iface, _ = static.Underlying().(*types.Interface)
		}
		if iface == nil {
			sig := m.Type().(*types.Signature)
			if sig.Recv() == nil {
				return nil
			}
			iface, _ = sig.Recv().Type().Underlying().(*types.Interface)
		}
		if iface == nil {
			return nil
		}
		key := ck{iface.String(), m}
		if us, ok := cache[key]; ok {
			return us
		}
		var out []*Unit
		for _, nt := range named {
			if nt.TypeParams().Len() > 0 {
				continue
			}
			for _, t := range []types.Type{nt, types.NewPointer(nt)} {
				if !types.Implements(t, iface) {
					continue
				}
				obj, _, _ := types.LookupFieldOrMethod(t, true, m.Pkg(), m.Name())
				if f, ok := obj.(*types.Func); ok {
					if u := p.UnitOf(f); u != nil {
						out = append(out, u)
					}
				}
			}
		}
		out = dedupUnits(out)
		cache[key] = out
		return out
	}
	for _, u := range p.Units {
		var succ []*Unit
		succ = append(succ, u.Kids...)
		for _, cl := range u.Calls() {
			if cl.Callee != nil {
				if t := p.UnitOf(cl.Callee); t != nil {
					succ = append(succ, t)
					continue
				}
				if sig, ok := cl.Callee.Type().(*types.Signature); ok && sig.Recv() != nil {
					if _, isIface := sig.Recv().Type().Underlying().(*types.Interface); isIface {
						var st types.Type
						if cl.Recv != nil {
							st = u.Info().TypeOf(cl.Recv)
						}
						succ = append(succ, resolveIface(cl.Callee, st)...)
					}
				}
				continue
			}
			// call of a local closure variable
			if id, ok := ast.Unparen(cl.Expr.Fun).(*ast.Ident); ok {
				for x := u; x != nil; x = x.Parent {
					if k := x.Kid(id.Name); k != nil {
						succ = append(succ, k)
						break
					}
				}
			}
		}
		cg.Succ[u] = dedupUnits(succ)
	}
	return cg
}

func dedupUnits(us []*Unit) []*Unit {
	seen := map[*Unit]bool{}
	var out []*Unit
	for _, u := range us {
		if u != nil && !seen[u] {
			seen[u] = true
			out = append(out, u)
		}
	}
	sort.Slice(out, func(i, j int) bool { return out[i].Key < out[j].Key })
	return out
}

// Reach returns the set of units reachable from roots.
func (cg *CallGraph) Reach(roots ...*Unit) map[*Unit]bool {
	seen := map[*Unit]bool{}
	var stack []*Unit
	for _, r := range roots {
		if r != nil {
			stack = append(stack, r)
		}
	}
	for len(stack) > 0 {
		u := stack[len(stack)-1]
		stack = stack[:len(stack)-1]
		if seen[u] {
			continue
		}
		seen[u] = true
		stack = append(stack, cg.Succ[u]...)
		stack = append(stack, cg.Extra[u]...)
	}
	return seen
}

// Callers returns the units that have an edge to u.
func (cg *CallGraph) Callers(u *Unit) []*Unit {
	var out []*Unit
	for from, ss := range cg.Succ {
		for _, s := range ss {
			if s == u {
				out = append(out, from)
			}
		}
	}
	return dedupUnits(out)
}

// PathTo returns one call chain from any root to target (for reports).
func (cg *CallGraph) PathTo(target *Unit, roots ...*Unit) []string {
	prev := map[*Unit]*Unit{}
	seen := map[*Unit]bool{}
	queue := append([]*Unit(nil), roots...)
	for _, r := range roots {
		seen[r] = true
	}
	for len(queue) > 0 {
		u := queue[0]
		queue = queue[1:]
		if u == target {
			var chain []string
			for x := u; x != nil; x = prev[x] {
				chain = append([]string{x.Key}, chain...)
			}
			return chain
		}
		for _, s := range append(append([]*Unit(nil), cg.Succ[u]...), cg.Extra[u]...) {
			if !seen[s] {
				seen[s] = true
				prev[s] = u
				queue = append(queue, s)
			}
		}
	}
	return nil
}
