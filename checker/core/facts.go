package core

import (
	"bytes"
	"go/ast"
	"go/constant"
	"go/printer"
	"go/token"
	"go/types"
	"sort"
	"strings"

	"golang.org/x/tools/go/types/typeutil"
)

// ExprString prints an expression compactly.
func ExprString(e ast.Node) string {
	if e == nil {
		return "<nil>"
	}
	var b bytes.Buffer
	printer.Fprint(&b, token.NewFileSet(), e)
	s := b.String()
	s = strings.Join(strings.Fields(s), " ")
	if len(s) > 120 {
		s = s[:117] + "..."
	}
	return s
}

// Call is a resolved call site inside a unit.
type Call struct {
	U        *Unit
	Expr     *ast.CallExpr
	Callee   *types.Func // nil for calls of function values / builtins / conversions
	Name     string      // callee name (method or function), or identifier for func values
	Key      string      // FuncKey(Callee) or "value:<name>"
	Recv     ast.Expr    // receiver expression for method calls
	Deferred bool        // the call of a defer statement
	Go       bool        // the call of a go statement
	Loc      Loc
	Inlined  *Call // non-nil: this call is made by a novel helper; Inlined is the helper call in the unit, Loc its location
	// Subst maps the parameters of the transparent helper that makes this call to
	// the arguments the caller passed: Arg and Recv-based rules see the caller's
	// expression where the helper merely forwards a parameter.
	Subst map[types.Object]ast.Expr
}

func (c *Call) Pos() token.Pos { return c.Expr.Pos() }

// Arg returns the i-th argument or nil.
func (c *Call) Arg(i int) ast.Expr {
	if i < len(c.Expr.Args) {
		a := c.Expr.Args[i]
		if c.Subst != nil {
			if id, ok := ast.Unparen(a).(*ast.Ident); ok {
				if o := c.U.Info().Uses[id]; o != nil {
					if e, mapped := c.Subst[o]; mapped {
						return e
					}
				}
			}
		}
		return a
	}
	return nil
}

// RecvTypeName: name of the static type of the receiver expression.
func (c *Call) RecvTypeName() string {
	if c.Recv == nil {
		return ""
	}
	t := c.U.Info().TypeOf(c.Recv)
	if t == nil {
		return ""
	}
	return typeName(t)
}

// Calls lists every call executed by this unit's own body (not nested
// literals), in source order.
func (u *Unit) Calls() []*Call {
	if u.callsDone {
		return u.calls
	}
	u.callsDone = true // (set first: a helper that calls back into u sees u's own calls only)
	own := u.computeCalls()
	u.calls = own
	u.calls = append(own, u.inlinedCalls(own)...)
	return u.calls
}

func (u *Unit) computeCalls() []*Call {
	var out []*Call
	info := u.Info()
	g := u.Graph()
	var walk func(n ast.Node, deferred, gost *ast.CallExpr)
	walk = func(n ast.Node, deferred, gost *ast.CallExpr) {
		ast.Inspect(n, func(x ast.Node) bool {
			switch c := x.(type) {
			case *ast.FuncLit:
				return false
			case *ast.DeferStmt:
				walk(c.Call, c.Call, nil)
				return false
			case *ast.GoStmt:
				walk(c.Call, nil, c.Call)
				return false
			case *ast.CallExpr:
				cl := &Call{U: u, Expr: c, Deferred: c == deferred, Go: c == gost}
				if tv, ok := info.Types[c.Fun]; ok && tv.IsType() {
					// conversion
					return true
				}
				cl.Callee, _ = typeutil.Callee(info, c).(*types.Func)
				switch f := ast.Unparen(c.Fun).(type) {
				case *ast.SelectorExpr:
					cl.Name = f.Sel.Name
					if sel := info.Selections[f]; sel != nil {
						cl.Recv = f.X
					}
				case *ast.Ident:
					cl.Name = f.Name
					if v, isVar := info.Uses[f].(*types.Var); isVar {
						cl.Name = CanonName(v) // a renamed closure variable keeps the name the tables know
					}
				case *ast.IndexExpr:
					cl.Name = calleeName(c)
					if se, ok := f.X.(*ast.SelectorExpr); ok {
						if sel := info.Selections[se]; sel != nil {
							cl.Recv = se.X
						}
					}
				case *ast.FuncLit:
					cl.Name = "funclit"
				default:
					cl.Name = ExprString(c.Fun)
				}
				if cl.Callee != nil {
					cl.Key = FuncKey(cl.Callee)
					if k, renamed := funcAlias[cl.Callee.Origin()]; renamed {
						cl.Name = k[strings.LastIndex(k, ".")+1:] // the name the tables know a renamed function by
					}
				} else {
					cl.Key = "value:" + cl.Name
				}
				cl.Loc = g.LocOf(c)
				out = append(out, cl)
			}
			return true
		})
	}
	walk(u.Body, nil, nil)
	sort.SliceStable(out, func(i, j int) bool { return out[i].Pos() < out[j].Pos() })
	return out
}

// CallsTo filters calls by callee key suffix match (exact key) or by
// method name when key starts with ".".
func (u *Unit) CallsTo(keys ...string) []*Call {
	var out []*Call
	for _, c := range u.Calls() {
		for _, k := range keys {
			if c.Key == k || (strings.HasPrefix(k, ".") && "."+c.Name == k) {
				out = append(out, c)
				break
			}
		}
	}
	return out
}

// AllUnits walks u and all nested closures.
func (u *Unit) AllUnits() []*Unit {
	out := []*Unit{u}
	for _, k := range u.Kids {
		out = append(out, k.AllUnits()...)
	}
	return out
}

// ConstString evaluates e as a string constant.
func ConstString(info *types.Info, e ast.Expr) (string, bool) {
	if e == nil {
		return "", false
	}
	tv, ok := info.Types[e]
	if !ok || tv.Value == nil || tv.Value.Kind() != constant.String {
		return "", false
	}
	return constant.StringVal(tv.Value), true
}

// ConstInt evaluates e as an integer constant.
func ConstInt(info *types.Info, e ast.Expr) (int64, bool) {
	if e == nil {
		return 0, false
	}
	tv, ok := info.Types[e]
	if !ok || tv.Value == nil {
		return 0, false
	}
	v := constant.ToInt(tv.Value)
	if v.Kind() != constant.Int {
		return 0, false
	}
	return constant.Int64Val(v)
}

// ConstBool evaluates e as a boolean constant.
func ConstBool(info *types.Info, e ast.Expr) (bool, bool) {
	tv, ok := info.Types[e]
	if !ok || tv.Value == nil || tv.Value.Kind() != constant.Bool {
		return false, false
	}
	return constant.BoolVal(tv.Value), true
}

// ObjOf returns the object an identifier or selector denotes.
func ObjOf(info *types.Info, e ast.Expr) types.Object {
	switch x := ast.Unparen(e).(type) {
	case *ast.Ident:
		if o := info.Uses[x]; o != nil {
			return o
		}
		return info.Defs[x]
	case *ast.SelectorExpr:
		return info.Uses[x.Sel]
	}
	return nil
}

// Defs returns every expression assigned to the local variable obj inside
// the root function of u (including nested closures). A nil entry marks an
// assignment whose value cannot be named (tuple assignment, range, inc/dec).
func (u *Unit) DefsOf(obj types.Object) []ast.Expr {
	var out []ast.Expr
	root := u.Root()
	info := u.Info()
	ast.Inspect(root.Body, func(n ast.Node) bool {
		switch s := n.(type) {
		case *ast.AssignStmt:
			for i, l := range s.Lhs {
				id, ok := l.(*ast.Ident)
				if !ok {
					continue
				}
				o := info.Defs[id]
				if o == nil {
					o = info.Uses[id]
				}
				if o != obj {
					continue
				}
				if len(s.Lhs) == len(s.Rhs) && (s.Tok == token.ASSIGN || s.Tok == token.DEFINE) {
					out = append(out, s.Rhs[i])
				} else if len(s.Rhs) == 1 && (s.Tok == token.ASSIGN || s.Tok == token.DEFINE) {
					out = append(out, &TupleElem{X: s.Rhs[0], Index: i})
				} else {
					out = append(out, nil)
				}
			}
		case *ast.ValueSpec:
			for i, id := range s.Names {
				if info.Defs[id] != obj {
					continue
				}
				if len(s.Values) == len(s.Names) {
					out = append(out, s.Values[i])
				} else if len(s.Values) == 1 {
					out = append(out, &TupleElem{X: s.Values[0], Index: i})
				} else {
					out = append(out, &ZeroValue{})
				}
			}
		case *ast.RangeStmt:
			for _, l := range []ast.Expr{s.Key, s.Value} {
				if id, ok := l.(*ast.Ident); ok {
					o := info.Defs[id]
					if o == nil {
						o = info.Uses[id]
					}
					if o == obj {
						out = append(out, &RangeElem{X: s.X, IsValue: l == s.Value})
					}
				}
			}
		case *ast.IncDecStmt:
			if id, ok := s.X.(*ast.Ident); ok && info.Uses[id] == obj {
				out = append(out, nil)
			}
		case *ast.UnaryExpr:
			if s.Op == token.AND {
				if id, ok := ast.Unparen(s.X).(*ast.Ident); ok && info.Uses[id] == obj {
					out = append(out, &AddrTaken{X: s})
				}
			}
		}
		return true
	})
	return out
}

// TupleElem is the i-th result of a multi-value expression.
type TupleElem struct {
	ast.Expr
	X     ast.Expr
	Index int
}

func (t *TupleElem) Pos() token.Pos { return t.X.Pos() }
func (t *TupleElem) End() token.Pos { return t.X.End() }

// RangeElem is the key or value of ranging over X.
type RangeElem struct {
	ast.Expr
	X       ast.Expr
	IsValue bool
}

func (t *RangeElem) Pos() token.Pos { return t.X.Pos() }
func (t *RangeElem) End() token.Pos { return t.X.End() }

// ZeroValue marks `var x T`.
type ZeroValue struct{ ast.Expr }

func (t *ZeroValue) Pos() token.Pos { return token.NoPos }
func (t *ZeroValue) End() token.Pos { return token.NoPos }

// AddrTaken marks &x (value may be written through the pointer).
type AddrTaken struct {
	ast.Expr
	X ast.Expr
}

func (t *AddrTaken) Pos() token.Pos { return t.X.Pos() }
func (t *AddrTaken) End() token.Pos { return t.X.End() }

// defSite is one assignment to a local variable with its statement.
type defSite struct {
	Val  ast.Expr
	Stmt ast.Node
}

func (u *Unit) defSites(obj types.Object) []defSite {
	var out []defSite
	root := u.Root()
	info := u.Info()
	objOf := func(id *ast.Ident) types.Object {
		if o := info.Defs[id]; o != nil {
			return o
		}
		return info.Uses[id]
	}
	ast.Inspect(root.Body, func(n ast.Node) bool {
		switch s := n.(type) {
		case *ast.AssignStmt:
			for i, l := range s.Lhs {
				id, ok := l.(*ast.Ident)
				if !ok || objOf(id) != obj {
					continue
				}
				if len(s.Lhs) == len(s.Rhs) && (s.Tok == token.ASSIGN || s.Tok == token.DEFINE) {
					out = append(out, defSite{s.Rhs[i], s})
				} else if len(s.Rhs) == 1 && (s.Tok == token.ASSIGN || s.Tok == token.DEFINE) {
					out = append(out, defSite{&TupleElem{X: s.Rhs[0], Index: i}, s})
				} else {
					out = append(out, defSite{nil, s})
				}
			}
		case *ast.ValueSpec:
			for i, id := range s.Names {
				if info.Defs[id] != obj {
					continue
				}
				if len(s.Values) == len(s.Names) {
					out = append(out, defSite{s.Values[i], s})
				} else if len(s.Values) == 1 {
					out = append(out, defSite{&TupleElem{X: s.Values[0], Index: i}, s})
				} else {
					out = append(out, defSite{&ZeroValue{}, s})
				}
			}
		case *ast.RangeStmt:
			for _, l := range []ast.Expr{s.Key, s.Value} {
				if id, ok := l.(*ast.Ident); ok && objOf(id) == obj {
					out = append(out, defSite{&RangeElem{X: s.X, IsValue: l == s.Value}, s.X})
				}
			}
		case *ast.IncDecStmt:
			if id, ok := s.X.(*ast.Ident); ok && info.Uses[id] == obj {
				out = append(out, defSite{nil, s})
			}
		case *ast.UnaryExpr:
			if s.Op == token.AND {
				if id, ok := ast.Unparen(s.X).(*ast.Ident); ok && info.Uses[id] == obj {
					out = append(out, defSite{&AddrTaken{X: s}, s})
				}
			}
		}
		return true
	})
	return out
}

// within reports whether node n lies in the unit's own body (not in a nested literal).
func (u *Unit) within(n ast.Node) bool {
	if n.Pos() < u.Body.Pos() || n.End() > u.Body.End() {
		return false
	}
	for _, k := range u.Kids {
		if k.Body.Pos() <= n.Pos() && n.End() <= k.Body.End() {
			return false
		}
	}
	return true
}

// reachingDef picks, among several definitions, the one that reaches the
// use `at` on every path (flow-sensitive within the unit's own CFG).
func (u *Unit) reachingDef(defs []defSite, at ast.Node) (ast.Expr, bool) {
	if !u.within(at) {
		return nil, false
	}
	g := u.Graph()
	use := g.LocOf(at)
	if !use.Valid() {
		return nil, false
	}
	type dl struct {
		d   defSite
		loc Loc
	}
	var dls []dl
	for _, d := range defs {
		if !u.within(d.Stmt) {
			return nil, false // assigned from another closure: no static order
		}
		l := g.LocOf(d.Stmt)
		if !l.Valid() {
			return nil, false
		}
		// a definition in the same node as the use (e.g. `if x := f(); x != nil`) precedes it when it ends before the use
		dls = append(dls, dl{d, l})
	}
	var dom []dl
	for _, x := range dls {
		sameNode := x.loc.B == use.B && x.loc.I == use.I
		if sameNode && x.d.Stmt.End() <= at.Pos() {
			dom = append(dom, x)
		} else if !sameNode && g.Dominates(x.loc, use) {
			dom = append(dom, x)
		}
	}
	if len(dom) == 0 {
		return nil, false
	}
	last := dom[0]
	for _, x := range dom[1:] {
		if g.Dominates(last.loc, x.loc) {
			last = x
		}
	}
	for _, x := range dls {
		if x.loc == last.loc && x.d.Stmt == last.d.Stmt {
			continue
		}
		isDom := false
		for _, y := range dom {
			if y.d.Stmt == x.d.Stmt {
				isDom = true
			}
		}
		if isDom {
			continue
		}
		// a non-dominating definition that can execute between last and the use kills the answer
		if g.CanFollow(last.loc, x.loc) && g.CanFollow(x.loc, use) {
			return nil, false
		}
	}
	if last.d.Val == nil {
		return nil, false
	}
	return last.d.Val, true
}

// SingleDef returns the defining expression of a local identifier at its
// point of use, following chains of locals: the unique definition, or — when
// the variable is assigned several times — the definition that reaches the
// use on every path. ok=false when no single definition can be named.
func (u *Unit) SingleDef(e ast.Expr) (ast.Expr, bool) {
	info := u.Info()
	for depth := 0; depth < 8; depth++ {
		id, ok := ast.Unparen(e).(*ast.Ident)
		if !ok {
			// the result of a novel pure helper is the expression it returns
			if ce, isCall := ast.Unparen(e).(*ast.CallExpr); isCall {
				if x := u.expandPureCall(ce, depth, false); x != nil {
					e = x
					continue
				}
			}
			return e, true
		}
		obj, _ := ObjOf(info, id).(*types.Var)
		if obj == nil || obj.IsField() || obj.Parent() == obj.Pkg().Scope() {
			return e, true
		}
		defs := u.defSites(obj)
		if len(defs) == 0 {
			return e, true // parameter / named result
		}
		var val ast.Expr
		if len(defs) == 1 {
			val = defs[0].Val
		} else {
			v, ok := u.reachingDef(defs, id)
			if !ok {
				return e, false
			}
			val = v
		}
		if val == nil {
			return e, false
		}
		switch val.(type) {
		case *TupleElem, *RangeElem, *ZeroValue, *AddrTaken:
			return val, true
		}
		e = val
	}
	return e, true
}

// Resolve follows single-definition locals; on failure returns e itself.
func (u *Unit) Resolve(e ast.Expr) ast.Expr {
	if r, ok := u.SingleDef(e); ok {
		return r
	}
	return e
}

// IsParam reports whether e is an identifier denoting a parameter (or
// receiver) of the unit or one of its enclosing units, returning its name.
func (u *Unit) IsParam(e ast.Expr) (*types.Var, bool) {
	id, ok := ast.Unparen(e).(*ast.Ident)
	if !ok {
		return nil, false
	}
	obj, _ := ObjOf(u.Info(), id).(*types.Var)
	if obj == nil {
		return nil, false
	}
	for x := u; x != nil; x = x.Parent {
		if x.Type != nil && x.Type.Params != nil {
			for _, f := range x.Type.Params.List {
				for _, n := range f.Names {
					if u.Info().Defs[n] == obj {
						return obj, true
					}
				}
			}
		}
		if x.Decl != nil && x.Decl.Recv != nil {
			for _, f := range x.Decl.Recv.List {
				for _, n := range f.Names {
					if u.Info().Defs[n] == obj {
						return obj, true
					}
				}
			}
		}
	}
	return nil, false
}

// AsCall returns e as a call with resolved callee key, following locals.
func (u *Unit) AsCall(e ast.Expr) (*ast.CallExpr, string) {
	e = ast.Unparen(u.Resolve(e))
	if te, ok := e.(*TupleElem); ok {
		e = ast.Unparen(te.X)
	}
	c, ok := e.(*ast.CallExpr)
	if !ok {
		return nil, ""
	}
	f, _ := typeutil.Callee(u.Info(), c).(*types.Func)
	if f == nil {
		return c, "value:" + calleeName(c)
	}
	return c, FuncKey(f)
}

// CalleeKey resolves the callee key of a call expression.
func (u *Unit) CalleeKey(c *ast.CallExpr) string {
	f, _ := typeutil.Callee(u.Info(), c).(*types.Func)
	if f == nil {
		return "value:" + calleeName(c)
	}
	return FuncKey(f)
}

// Cmp decomposes `x op const` / `const op x` (op in ==, !=, <, <=, >, >=),
// or a switch case with tag, into (x, op, constant value).
type Cmp struct {
	X   ast.Expr
	Op  token.Token
	Val constant.Value
	Y   ast.Expr // non-constant right operand when Val == nil
}

func flip(op token.Token) token.Token {
	switch op {
	case token.LSS:
		return token.GTR
	case token.LEQ:
		return token.GEQ
	case token.GTR:
		return token.LSS
	case token.GEQ:
		return token.LEQ
	}
	return op
}

// BranchCmp interprets a branch condition as a comparison.
func (u *Unit) BranchCmp(br Branch) (Cmp, bool) {
	info := u.Info()
	if br.IsCase {
		if br.TypeSwitch != nil || br.Tag == nil {
			if br.Tag == nil && br.TypeSwitch == nil {
				return u.exprCmp(br.Cond)
			}
			return Cmp{}, false
		}
		c := Cmp{X: br.Tag, Op: token.EQL}
		if tv, ok := info.Types[br.Cond]; ok && tv.Value != nil {
			c.Val = tv.Value
		} else {
			c.Y = br.Cond
		}
		return c, true
	}
	return u.exprCmp(br.Cond)
}

func (u *Unit) exprCmp(e ast.Expr) (Cmp, bool) {
	info := u.Info()
	be, ok := ast.Unparen(e).(*ast.BinaryExpr)
	if !ok {
		// a boolean local that names a comparison (`v4 := p.Protocol() == 4; if isBinary && v4`)
		if id, isI := ast.Unparen(e).(*ast.Ident); isI {
			if d, k := u.SingleDef(id); k {
				be, ok = ast.Unparen(d).(*ast.BinaryExpr)
			}
		}
	}
	if !ok {
		return Cmp{}, false
	}
	switch be.Op {
	case token.EQL, token.NEQ, token.LSS, token.LEQ, token.GTR, token.GEQ:
	default:
		return Cmp{}, false
	}
	if tv, ok := info.Types[be.Y]; ok && tv.Value != nil {
		return Cmp{X: be.X, Op: be.Op, Val: tv.Value}, true
	}
	if tv, ok := info.Types[be.X]; ok && tv.Value != nil {
		return Cmp{X: be.Y, Op: flip(be.Op), Val: tv.Value}, true
	}
	if id, ok := be.Y.(*ast.Ident); ok && id.Name == "nil" {
		return Cmp{X: be.X, Op: be.Op, Y: be.Y}, true
	}
	if id, ok := be.X.(*ast.Ident); ok && id.Name == "nil" {
		return Cmp{X: be.Y, Op: flip(be.Op), Y: be.X}, true
	}
	return Cmp{X: be.X, Op: be.Op, Y: be.Y}, true
}

// IsNil reports whether e is the predeclared nil.
func IsNil(info *types.Info, e ast.Expr) bool {
	id, ok := ast.Unparen(e).(*ast.Ident)
	if !ok {
		return false
	}
	_, isNil := info.Uses[id].(*types.Nil)
	return isNil
}

// StrEqGuard builds a Guard for "value of <call to keySuffix method> == want"
// given as: the fact `X == want` where X resolves to a call whose callee
// key is in keys. Returns +1/-1 for direct ==/!= against want; for
// comparisons against another constant c != want: `X == c` false-edge says
// nothing, true-edge establishes X != want (returned only when neg is set).
func StateGuard(keys []string, establishes func(op token.Token, val string) int) Guard {
	return func(u *Unit, br Branch) int {
		cmp, ok := u.BranchCmp(br)
		if !ok || cmp.Val == nil || cmp.Val.Kind() != constant.String {
			return 0
		}
		_, key := u.AsCall(cmp.X)
		hit := false
		for _, k := range keys {
			if key == k {
				hit = true
			}
		}
		if !hit {
			return 0
		}
		return establishes(cmp.Op, constant.StringVal(cmp.Val))
	}
}
