package core

// Seeing through behaviour-preserving extractions.
//
// Deep(e) rewrites an expression into the form the rule tables were written
// for: a local that has one reaching definition is replaced by that definition,
// and a call of a *pure helper* — a function of the same package whose body is
// nothing but lock/unlock calls, local definitions and one `return <expr>` — by
// its result with the arguments substituted. Only novel helpers (functions that
// are not in the baseline, see baseline.go) and boolean predicates are expanded,
// so the pinned tree is analysed exactly as before. The synthesized nodes get
// the type information of the nodes they were copied from.
//
// InlinedCalls(u) lists the calls made by novel helpers that u calls, placed at
// the location of the helper call in u: "u performs X on edge G" still holds
// after X moved into a helper that u calls on edge G.

import (
	"go/ast"
	"go/token"
	"go/types"

	"golang.org/x/tools/go/types/typeutil"
)

const deepLimit = 6

// Deep: see the file comment.
func (u *Unit) Deep(e ast.Expr) ast.Expr { return u.deep(e, 0) }

func (u *Unit) deep(e ast.Expr, depth int) ast.Expr {
	if e == nil || depth > deepLimit {
		return e
	}
	info := u.Info()
	keep := func(n, old ast.Expr) ast.Expr {
		if tv, ok := info.Types[old]; ok {
			info.Types[n] = tv
		}
		return n
	}
	switch x := e.(type) {
	case *TupleElem, *RangeElem, *ZeroValue, *AddrTaken:
		return e
	case *ast.ParenExpr:
		return u.deep(x.X, depth)
	case *ast.Ident:
		obj, _ := ObjOf(info, x).(*types.Var)
		if obj == nil || obj.IsField() || obj.Pkg() == nil || obj.Parent() == obj.Pkg().Scope() {
			return e
		}
		d, ok := u.SingleDef(x)
		if !ok || d == nil || d == ast.Expr(x) {
			return e
		}
		switch d.(type) {
		case *TupleElem, *RangeElem, *ZeroValue, *AddrTaken:
			return e
		}
		if id, isId := ast.Unparen(d).(*ast.Ident); isId && ObjOf(info, id) == types.Object(obj) {
			return e
		}
		return u.deep(d, depth+1)
	case *ast.BinaryExpr:
		a, b := u.deep(x.X, depth), u.deep(x.Y, depth)
		if a == x.X && b == x.Y {
			return e
		}
		n := *x
		n.X, n.Y = a, b
		return keep(&n, x)
	case *ast.UnaryExpr:
		a := u.deep(x.X, depth)
		if a == x.X {
			return e
		}
		n := *x
		n.X = a
		return keep(&n, x)
	case *ast.StarExpr:
		a := u.deep(x.X, depth)
		if a == x.X {
			return e
		}
		n := *x
		n.X = a
		return keep(&n, x)
	case *ast.SelectorExpr:
		if _, isPkg := info.Uses[identOf(x.X)].(*types.PkgName); isPkg {
			return e
		}
		a := u.deep(x.X, depth)
		if a == x.X {
			return e
		}
		n := *x
		n.X = a
		if sel, ok := info.Selections[x]; ok {
			info.Selections[&n] = sel
		}
		return keep(&n, x)
	case *ast.IndexExpr:
		a, b := u.deep(x.X, depth), u.deep(x.Index, depth)
		if a == x.X && b == x.Index {
			return e
		}
		n := *x
		n.X, n.Index = a, b
		return keep(&n, x)
	case *ast.SliceExpr:
		n := *x
		n.X = u.deep(x.X, depth)
		if x.Low != nil {
			n.Low = u.deep(x.Low, depth)
		}
		if x.High != nil {
			n.High = u.deep(x.High, depth)
		}
		if x.Max != nil {
			n.Max = u.deep(x.Max, depth)
		}
		if n.X == x.X && n.Low == x.Low && n.High == x.High && n.Max == x.Max {
			return e
		}
		return keep(&n, x)
	case *ast.TypeAssertExpr:
		a := u.deep(x.X, depth)
		if a == x.X {
			return e
		}
		n := *x
		n.X = a
		return keep(&n, x)
	case *ast.CallExpr:
		if r := u.expandPureCall(x, depth, false); r != nil {
			return r
		}
		n := *x
		changed := false
		if se, ok := x.Fun.(*ast.SelectorExpr); ok {
			if f := u.deep(se, depth); f != ast.Expr(se) {
				n.Fun = f
				changed = true
			}
		}
		n.Args = make([]ast.Expr, len(x.Args))
		for i, a := range x.Args {
			n.Args[i] = u.deep(a, depth)
			if n.Args[i] != a {
				changed = true
			}
		}
		if !changed {
			return e
		}
		return keep(&n, x)
	}
	return e
}

func identOf(e ast.Expr) *ast.Ident {
	id, _ := ast.Unparen(e).(*ast.Ident)
	return id
}

// pureSummary: the single result expression of a pure helper, already resolved
// inside the helper (its own locals eliminated), with the helper's unit.
func (p *Prog) pureSummary(f *types.Func) (*Unit, ast.Expr) {
	if f == nil {
		return nil, nil
	}
	if p.pure == nil {
		p.pure = map[*types.Func]*pureEntry{}
	}
	f = f.Origin()
	if pe, ok := p.pure[f]; ok {
		return pe.u, pe.res
	}
	pe := &pureEntry{}
	p.pure[f] = pe
	hu := p.UnitOf(f)
	if hu == nil || hu.Decl == nil || hu.Decl.Body == nil {
		return nil, nil
	}
	var ret *ast.ReturnStmt
	info := hu.Info()
	for i, st := range hu.Decl.Body.List {
		switch s := st.(type) {
		case *ast.ReturnStmt:
			if i != len(hu.Decl.Body.List)-1 || len(s.Results) != 1 {
				return nil, nil
			}
			ret = s
		case *ast.ExprStmt:
			if !isLockCall(info, s.X) {
				return nil, nil
			}
		case *ast.DeferStmt:
			if !isLockCall(info, s.Call) {
				return nil, nil
			}
		case *ast.AssignStmt:
			if s.Tok != token.DEFINE || len(s.Lhs) != len(s.Rhs) {
				return nil, nil
			}
		case *ast.DeclStmt:
		default:
			return nil, nil
		}
	}
	if ret == nil {
		return nil, nil
	}
	pe.u = hu
	pe.res = hu.Deep(ret.Results[0])
	return pe.u, pe.res
}

type pureEntry struct {
	u   *Unit
	res ast.Expr
}

func isLockCall(info *types.Info, e ast.Expr) bool {
	c, ok := ast.Unparen(e).(*ast.CallExpr)
	if !ok {
		return false
	}
	sel, ok := c.Fun.(*ast.SelectorExpr)
	if !ok {
		return false
	}
	fn, _ := info.Uses[sel.Sel].(*types.Func)
	if fn == nil || fn.Pkg() == nil || fn.Pkg().Path() != "sync" {
		return false
	}
	switch fn.Name() {
	case "Lock", "Unlock", "RLock", "RUnlock":
		return true
	}
	return false
}

// expandPureCall returns the result expression of a pure helper call with the
// arguments substituted, or nil. Unless force is set only novel helpers expand.
func (u *Unit) expandPureCall(c *ast.CallExpr, depth int, force bool) ast.Expr {
	if depth > deepLimit {
		return nil
	}
	info := u.Info()
	f, _ := typeutil.Callee(info, c).(*types.Func)
	if f == nil || f.Pkg() == nil || u.Pkg == nil || u.Pkg.Types != f.Pkg() {
		return nil
	}
	if !force && !IsNovel(f) {
		return nil
	}
	hu, res := u.Prog.pureSummary(f)
	if hu == nil || res == nil || hu == u.Root() {
		return nil
	}
	sig, _ := f.Type().(*types.Signature)
	if sig == nil || sig.Variadic() || sig.Params().Len() != len(c.Args) {
		return nil
	}
	sub := map[types.Object]ast.Expr{}
	for i := 0; i < sig.Params().Len(); i++ {
		sub[sig.Params().At(i)] = c.Args[i]
	}
	// the parameter objects of the declaration (sig.Params are the same objects for a non-generic function)
	if hu.Decl.Recv != nil && len(hu.Decl.Recv.List) == 1 && len(hu.Decl.Recv.List[0].Names) == 1 {
		se, ok := ast.Unparen(c.Fun).(*ast.SelectorExpr)
		if !ok {
			return nil
		}
		if ro := info.Defs[hu.Decl.Recv.List[0].Names[0]]; ro != nil {
			sub[ro] = se.X
		}
	}
	okAll := true
	var rewrite func(e ast.Expr) ast.Expr
	keep := func(n, old ast.Expr) ast.Expr {
		if tv, ok := info.Types[old]; ok {
			info.Types[n] = tv
		}
		return n
	}
	rewrite = func(e ast.Expr) ast.Expr {
		switch x := e.(type) {
		case nil:
			return nil
		case *ast.Ident:
			o := info.Uses[x]
			if o == nil {
				o = info.Defs[x]
			}
			if r, ok := sub[o]; ok {
				return r
			}
			if v, isVar := o.(*types.Var); isVar && !v.IsField() && v.Pkg() != nil && v.Parent() != v.Pkg().Scope() {
				okAll = false // a local of the helper that could not be eliminated
			}
			return e
		case *ast.ParenExpr:
			return rewrite(x.X)
		case *ast.BinaryExpr:
			n := *x
			n.X, n.Y = rewrite(x.X), rewrite(x.Y)
			return keep(&n, x)
		case *ast.UnaryExpr:
			n := *x
			n.X = rewrite(x.X)
			return keep(&n, x)
		case *ast.StarExpr:
			n := *x
			n.X = rewrite(x.X)
			return keep(&n, x)
		case *ast.SelectorExpr:
			if _, isPkg := info.Uses[identOf(x.X)].(*types.PkgName); isPkg {
				return e
			}
			n := *x
			n.X = rewrite(x.X)
			if sel, ok := info.Selections[x]; ok {
				info.Selections[&n] = sel
			}
			return keep(&n, x)
		case *ast.IndexExpr:
			n := *x
			n.X, n.Index = rewrite(x.X), rewrite(x.Index)
			return keep(&n, x)
		case *ast.TypeAssertExpr:
			n := *x
			n.X = rewrite(x.X)
			return keep(&n, x)
		case *ast.CallExpr:
			n := *x
			if se, ok := x.Fun.(*ast.SelectorExpr); ok {
				n.Fun = rewrite(se)
			}
			n.Args = make([]ast.Expr, len(x.Args))
			for i, a := range x.Args {
				n.Args[i] = rewrite(a)
			}
			return keep(&n, x)
		case *ast.BasicLit:
			return e
		}
		okAll = false
		return e
	}
	out := rewrite(res)
	if !okAll {
		return nil
	}
	return out
}

// ExpandPredicate expands a call of a same-package boolean pure helper
// (novel or not) into its result expression; nil when e is not such a call.
func (u *Unit) ExpandPredicate(e ast.Expr) ast.Expr {
	c, ok := ast.Unparen(e).(*ast.CallExpr)
	if !ok {
		return nil
	}
	tv, ok := u.Info().Types[c]
	if !ok || tv.Type == nil {
		return nil
	}
	if b, isB := tv.Type.Underlying().(*types.Basic); !isB || b.Kind() != types.Bool {
		return nil
	}
	return u.expandPureCall(c, 0, true)
}

// inlinedCalls lists, for every call of u to a transparent helper (a novel
// function of the same package that is only ever called, see markTransparent),
// the calls made by that helper — its own and, recursively, those of the
// transparent helpers it calls — each placed at the location of the helper call
// in u, so that dominance, guards and held locks are judged in the caller.
// HelperSubst maps the parameters of the helper that cl calls to the arguments at this call (identifiers, selectors
// and constants only: expressions whose value cannot change between the call and the use inside the helper).
func HelperSubst(cl *Call) map[types.Object]ast.Expr {
	subst := map[types.Object]ast.Expr{}
	if cl.Callee == nil {
		return subst
	}
	if sig, ok := cl.Callee.Type().(*types.Signature); ok && !sig.Variadic() {
		for i := 0; i < sig.Params().Len() && i < len(cl.Expr.Args); i++ {
			a := cl.Arg(i)
			switch ast.Unparen(a).(type) {
			case *ast.Ident, *ast.BasicLit, *ast.SelectorExpr:
				subst[sig.Params().At(i)] = a
			}
		}
	}
	return subst
}

func (u *Unit) inlinedCalls(own []*Call) []*Call {
	var out []*Call
	for _, cl := range own {
		if cl.Callee == nil || !u.Prog.transparent[cl.Callee.Origin()] {
			continue
		}
		h := u.Prog.UnitOf(cl.Callee)
		if h == nil || h == u.Root() {
			continue
		}
		subst := HelperSubst(cl)
		for _, hc := range h.Calls() {
			c2 := *hc
			c2.Loc = cl.Loc
			c2.Loc.Orig = &OrigLoc{G: h.Graph(), L: hc.Loc}
			if len(subst) > 0 {
				c2.Subst = map[types.Object]ast.Expr{}
				for k, v := range hc.Subst {
					c2.Subst[k] = v
				}
				for k, v := range subst {
					c2.Subst[k] = v
				}
			}
			if hc.Inlined != nil {
				c2.Inlined = cl
			} else {
				c2.Inlined = cl
			}
			c2.Deferred = cl.Deferred || hc.Deferred
			c2.Go = cl.Go || hc.Go
			out = append(out, &c2)
		}
	}
	return out
}

// CallsX is Calls (kept for callers written before Calls itself became transparent).
func (u *Unit) CallsX() []*Call { return u.Calls() }

// markTransparent decides which novel functions are transparent: declared in
// the repository, not in the baseline, called at least once and never used as
// a value. Their units are taken out of the list the rules iterate over (what
// they do is judged in their callers) but stay resolvable.
func (p *Prog) markTransparent() {
	p.transparent = map[*types.Func]bool{}
	if BaselineOff || len(novelFuncs) == 0 {
		return
	}
	callPos := map[token.Pos]bool{}
	for _, pk := range p.All {
		for _, f := range pk.Syntax {
			ast.Inspect(f, func(n ast.Node) bool {
				if c, ok := n.(*ast.CallExpr); ok {
					switch fn := ast.Unparen(c.Fun).(type) {
					case *ast.Ident:
						callPos[fn.Pos()] = true
					case *ast.SelectorExpr:
						callPos[fn.Sel.Pos()] = true
					}
				}
				return true
			})
		}
	}
	calls, values := map[*types.Func]int{}, map[*types.Func]int{}
	for _, pk := range p.All {
		for id, o := range pk.TypesInfo.Uses {
			f, ok := o.(*types.Func)
			if !ok || !novelFuncs[f.Origin()] {
				continue
			}
			if callPos[id.Pos()] {
				calls[f.Origin()]++
			} else {
				values[f.Origin()]++
			}
		}
	}
	for f := range novelFuncs {
		if novelFuncs[f] && calls[f] > 0 && values[f] == 0 {
			p.transparent[f] = true
		}
	}
	if len(p.transparent) == 0 {
		return
	}
	var keep []*Unit
	for _, u := range p.Units {
		r := u.Root()
		if r.Obj != nil && p.transparent[r.Obj.Origin()] {
			continue
		}
		keep = append(keep, u)
	}
	p.Units = keep
}

// IsTransparent: see markTransparent.
func (p *Prog) IsTransparent(f *types.Func) bool { return f != nil && p.transparent[f.Origin()] }

// WithHelpers: the unit followed by the units of the transparent helpers it
// calls (code that moved out of it), recursively — for rules that read the
// syntax of a function body rather than its calls.
func (u *Unit) WithHelpers() []*Unit {
	out := []*Unit{u}
	seen := map[*Unit]bool{u: true}
	for i := 0; i < len(out) && i < 8; i++ {
		for _, cl := range out[i].ownCallsForHelpers() {
			if cl.Callee == nil || !u.Prog.transparent[cl.Callee.Origin()] {
				continue
			}
			if h := u.Prog.UnitOf(cl.Callee); h != nil && !seen[h] {
				seen[h] = true
				out = append(out, h)
			}
		}
	}
	return out
}

func (u *Unit) ownCallsForHelpers() []*Call {
	var out []*Call
	for _, cl := range u.Calls() {
		if cl.Inlined == nil {
			out = append(out, cl)
		}
	}
	return out
}
