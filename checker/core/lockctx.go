package core

import (
	"go/ast"
	"go/types"
	"sort"
)

// LockCtx computes, for every unit, the set of mutexes that MAY be held when
// the unit starts executing on the caller's goroutine: the union over all
// synchronous call chains (direct calls, closure-variable calls, interface
// calls by CHA, function literals passed to a callee that invokes its
// func-typed parameter, deferred literals, and rule-supplied listener edges)
// of the locks held at each call site. `go` statements cut the chain.
type LockCtx struct {
	P     *Prog
	Entry map[*Unit]map[string]string // unit -> lock -> witness (call chain description)
	// Listener edges: supplied by the rules (Emit site -> listener units).
	extra []ctxEdge
}

type ctxEdge struct {
	from *Unit
	loc  Loc
	to   *Unit
	why  string
}

// AddEdge registers a synchronous invocation of `to` from location loc of `from`.
func (lc *LockCtx) AddEdge(from *Unit, loc Loc, to *Unit, why string) {
	lc.extra = append(lc.extra, ctxEdge{from, loc, to, why})
}

func NewLockCtx(p *Prog) *LockCtx {
	return &LockCtx{P: p, Entry: map[*Unit]map[string]string{}}
}

// deferredHeld: locks held while a deferred call registered at d runs.
func deferredHeld(u *Unit, d *Call) map[string]bool {
	g := u.Graph()
	held := g.HeldAt(d.Loc)
	out := map[string]bool{}
	info := u.Info()
	for k := range held {
		// released by a deferred unlock registered after d? then it is released before d's call runs
		releasedEarlier := false
		for _, c := range u.Calls() {
			if !c.Deferred || c.Callee == nil || c.Callee.Pkg() == nil || c.Callee.Pkg().Path() != "sync" {
				continue
			}
			if c.Name != "Unlock" && c.Name != "RUnlock" {
				continue
			}
			lk := LockKey(info, c.Recv)
			if c.Name == "RUnlock" {
				lk += "#R"
			}
			if lk == k && g.Dominates(d.Loc, c.Loc) && !(c.Loc == d.Loc) {
				releasedEarlier = true
			}
		}
		if !releasedEarlier {
			out[k] = true
		}
	}
	return out
}

// Compute runs the fixpoint.
func (lc *LockCtx) Compute() {
	p := lc.P
	type edge struct {
		to   *Unit
		held map[string]bool
		why  string
	}
	edges := map[*Unit][]edge{}
	cg := p.CG()
	// parameter-invocation summaries: callee unit -> param index -> held sets at the invocation of that parameter
	type pinv struct {
		held map[string]bool
	}
	paramCalls := map[*Unit]map[int][]pinv{}
	for _, u := range p.Units {
		if u.Type == nil || u.Type.Params == nil {
			continue
		}
		idx := map[types.Object]int{}
		n := 0
		for _, f := range u.Type.Params.List {
			for _, nm := range f.Names {
				if o := u.Info().Defs[nm]; o != nil {
					idx[o] = n
				}
				n++
			}
		}
		for _, x := range u.AllUnits() { // the parameter may be invoked from a nested literal; keep it simple: own body only
			if x != u {
				continue
			}
			for _, cl := range x.Calls() {
				if cl.Callee != nil || cl.Go {
					continue
				}
				id, ok := ast.Unparen(cl.Expr.Fun).(*ast.Ident)
				if !ok {
					continue
				}
				if i, isParam := idx[ObjOf(u.Info(), id)]; isParam {
					if paramCalls[u] == nil {
						paramCalls[u] = map[int][]pinv{}
					}
					h := u.Graph().HeldAt(cl.Loc)
					if cl.Deferred {
						h = deferredHeld(u, cl)
					}
					paramCalls[u][i] = append(paramCalls[u][i], pinv{h})
				}
			}
		}
	}
	for _, u := range p.Units {
		g := u.Graph()
		for _, cl := range u.Calls() {
			if cl.Go {
				continue
			}
			held := g.HeldAt(cl.Loc)
			if cl.Deferred {
				held = deferredHeld(u, cl)
			}
			var targets []*Unit
			if cl.Callee != nil {
				if t := p.UnitOf(cl.Callee); t != nil {
					targets = append(targets, t)
				} else if sig, ok := cl.Callee.Type().(*types.Signature); ok && sig.Recv() != nil {
					if _, isIface := sig.Recv().Type().Underlying().(*types.Interface); isIface {
						for _, s := range cg.Succ[u] {
							if s.Decl != nil && s.Decl.Name.Name == cl.Name && s.Decl.Recv != nil {
								targets = append(targets, s)
							}
						}
					}
				}
			} else {
				switch f := ast.Unparen(cl.Expr.Fun).(type) {
				case *ast.Ident:
					for x := u; x != nil; x = x.Parent {
						if k := x.Kid(f.Name); k != nil {
							targets = append(targets, k)
							break
						}
					}
				case *ast.FuncLit:
					if k := p.LitUnit(f); k != nil {
						targets = append(targets, k)
					}
				}
			}
			for _, t := range targets {
				edges[u] = append(edges[u], edge{t, held, p.PosStr(cl.Pos())})
				// literals / closure variables passed as arguments that the callee invokes
				for i, a := range cl.Expr.Args {
					var k *Unit
					switch x := ast.Unparen(a).(type) {
					case *ast.FuncLit:
						k = p.LitUnit(x)
					case *ast.Ident:
						for y := u; y != nil; y = y.Parent {
							if kk := y.Kid(x.Name); kk != nil {
								k = kk
								break
							}
						}
					}
					if k == nil {
						continue
					}
					for _, pi := range paramCalls[t][i] {
						h := copySet(held)
						for l := range pi.held {
							h[l] = true
						}
						edges[u] = append(edges[u], edge{k, h, p.PosStr(cl.Pos()) + " via " + t.Key})
					}
				}
			}
		}
	}
	for _, e := range lc.extra {
		held := e.from.Graph().HeldAt(e.loc)
		edges[e.from] = append(edges[e.from], edge{e.to, held, e.why})
	}
	// fixpoint (may = union)
	for _, u := range p.Units {
		lc.Entry[u] = map[string]string{}
	}
	changed := true
	for changed {
		changed = false
		for _, u := range p.Units {
			for _, e := range edges[u] {
				dst := lc.Entry[e.to]
				if dst == nil {
					dst = map[string]string{}
					lc.Entry[e.to] = dst
				}
				for l := range e.held {
					if _, ok := dst[l]; !ok {
						dst[l] = u.Key + " @ " + e.why
						changed = true
					}
				}
				for l, w := range lc.Entry[u] {
					if _, ok := dst[l]; !ok {
						dst[l] = w + " → " + u.Key
						changed = true
					}
				}
			}
		}
	}
}

// MayHeldAt: locks possibly held at loc of u (entry context ∪ local must-held set).
func (lc *LockCtx) MayHeldAt(u *Unit, loc Loc, deferred *Call) map[string]string {
	out := map[string]string{}
	for l, w := range lc.Entry[u] {
		out[l] = w
	}
	var local map[string]bool
	if deferred != nil {
		local = deferredHeld(u, deferred)
	} else {
		local = u.Graph().HeldAt(loc)
	}
	for l := range local {
		out[l] = "held in " + u.Key
	}
	return out
}

// SyncAcquires returns the mutexes acquired (Lock/RLock) by units reachable
// through synchronous calls from roots.
func (p *Prog) SyncAcquires(roots ...*Unit) map[string][]string {
	out := map[string][]string{}
	seen := map[*Unit]bool{}
	var visit func(u *Unit, chain []string)
	cg := p.CG()
	visit = func(u *Unit, chain []string) {
		if u == nil || seen[u] {
			return
		}
		seen[u] = true
		chain = append(append([]string(nil), chain...), u.Key)
		info := u.Info()
		goTargets := map[*Unit]bool{}
		for _, cl := range u.Calls() {
			if cl.Callee != nil && cl.Callee.Pkg() != nil && cl.Callee.Pkg().Path() == "sync" && (cl.Name == "Lock" || cl.Name == "RLock") && !cl.Go {
				k := LockKey(info, cl.Recv)
				if _, ok := out[k]; !ok {
					out[k] = chain
				}
			}
			if cl.Go {
				if t := p.UnitOf(cl.Callee); t != nil {
					goTargets[t] = true
				}
				if fl, ok := ast.Unparen(cl.Expr.Fun).(*ast.FuncLit); ok {
					if t := p.LitUnit(fl); t != nil {
						goTargets[t] = true
					}
				}
			}
		}
		for _, s := range cg.Succ[u] {
			if goTargets[s] {
				continue
			}
			// nested literals are followed only if invoked synchronously: approximated by following all kids except go-literals
			visit(s, chain)
		}
	}
	for _, r := range roots {
		visit(r, nil)
	}
	return out
}

func SortedKeys(m map[string]string) []string {
	var ks []string
	for k := range m {
		ks = append(ks, k)
	}
	sort.Strings(ks)
	return ks
}
