// mutaudit: mutation analysis of the checker itself. It enumerates small
// syntactic mutants of the repository's anchored files (statement deletion,
// condition negation, guard removal), keeps those that still compile and pass
// the repository's own tests, runs every property check on each in a scratch
// copy (outside /repo and /verif, removed afterwards) and lists the survivors —
// edits no rule reports. Survivors are either behaviour-neutral (logging, dead
// code) or gaps in the rule set; the list is triaged by hand. It is an audit
// tool, not a registered check.
package main

import (
	"encoding/json"
	"flag"
	"fmt"
	"go/ast"
	"go/parser"
	"go/token"
	"io/fs"
	"os"
	"os/exec"
	"path/filepath"
	"sort"
	"strings"
	"sync"
)

type mutant struct {
	ID      int    `json:"id"`
	File    string `json:"file"`
	Line    int    `json:"line"`
	Func    string `json:"func"`
	Op      string `json:"op"`
	Snippet string `json:"snippet"`
	start   int
	end     int
	repl    string
	Status  string   `json:"status"` // killed | survived | not-compiling | tests-fail
	Killers []string `json:"killers,omitempty"`
}

func isLog(call *ast.CallExpr) bool {
	if se, ok := call.Fun.(*ast.SelectorExpr); ok {
		if id, ok := se.X.(*ast.Ident); ok && strings.HasSuffix(id.Name, "_log") {
			return true
		}
		if se.Sel.Name == "Debug" || se.Sel.Name == "Printf" {
			return true
		}
	}
	return false
}

func enumerate(repo, rel string) []*mutant {
	path := filepath.Join(repo, rel)
	src, err := os.ReadFile(path)
	if err != nil {
		return nil
	}
	fset := token.NewFileSet()
	f, err := parser.ParseFile(fset, path, src, parser.ParseComments)
	if err != nil {
		return nil
	}
	off := func(p token.Pos) int { return fset.Position(p).Offset }
	var out []*mutant
	for _, d := range f.Decls {
		fd, ok := d.(*ast.FuncDecl)
		if !ok || fd.Body == nil {
			continue
		}
		fname := fd.Name.Name
		if fd.Recv != nil && len(fd.Recv.List) == 1 {
			t := fd.Recv.List[0].Type
			if st, ok := t.(*ast.StarExpr); ok {
				t = st.X
			}
			if ix, ok := t.(*ast.IndexExpr); ok {
				t = ix.X
			}
			if ixl, ok := t.(*ast.IndexListExpr); ok {
				t = ixl.X
			}
			if id, ok := t.(*ast.Ident); ok {
				fname = id.Name + "." + fname
			}
		}
		add := func(n ast.Node, op, repl string, s, e int) {
			sn := string(src[off(n.Pos()):off(n.End())])
			if len(sn) > 90 {
				sn = sn[:87] + "..."
			}
			sn = strings.Join(strings.Fields(sn), " ")
			out = append(out, &mutant{File: rel, Line: fset.Position(n.Pos()).Line, Func: fname, Op: op, Snippet: sn, start: s, end: e, repl: repl})
		}
		ast.Inspect(fd.Body, func(n ast.Node) bool {
			switch s := n.(type) {
			case *ast.ExprStmt:
				if call, ok := s.X.(*ast.CallExpr); ok {
					if isLog(call) {
						return true
					}
					add(s, "delete-call", "", off(s.Pos()), off(s.End()))
				}
			case *ast.AssignStmt:
				if s.Tok == token.ASSIGN || s.Tok == token.ADD_ASSIGN || s.Tok == token.SUB_ASSIGN {
					add(s, "delete-assign", "", off(s.Pos()), off(s.End()))
				}
			case *ast.IncDecStmt:
				add(s, "delete-incdec", "", off(s.Pos()), off(s.End()))
			case *ast.DeferStmt:
				add(s, "delete-defer", "", off(s.Pos()), off(s.End()))
			case *ast.GoStmt:
				add(s, "go-to-sync", "", off(s.Pos()), off(s.Pos())+len("go "))
			case *ast.IfStmt:
				cs, ce := off(s.Cond.Pos()), off(s.Cond.End())
				add(s.Cond, "negate-cond", "!("+string(src[cs:ce])+")", cs, ce)
				// guard removal: if … { …; return/continue/break } without else
				if s.Else == nil && len(s.Body.List) > 0 {
					switch s.Body.List[len(s.Body.List)-1].(type) {
					case *ast.ReturnStmt, *ast.BranchStmt:
						if s.Init == nil {
							add(s, "delete-guard", "", off(s.Pos()), off(s.End()))
						}
					}
				}
				// && / || swap at the top level of the condition
				if be, ok := s.Cond.(*ast.BinaryExpr); ok && (be.Op == token.LAND || be.Op == token.LOR) {
					opPos := off(be.OpPos)
					repl := "||"
					if be.Op == token.LOR {
						repl = "&&"
					}
					add(be, "swap-andor", repl, opPos, opPos+2)
				}
			case *ast.ReturnStmt:
				// early bare return deletion inside nested blocks is covered by delete-guard
			case *ast.BranchStmt:
				if s.Tok == token.CONTINUE || s.Tok == token.BREAK {
					other := "break"
					if s.Tok == token.BREAK {
						other = "continue"
					}
					if s.Label == nil {
						add(s, "swap-break-continue", other, off(s.Pos()), off(s.End()))
					}
				}
			case *ast.BinaryExpr:
				// relational boundary: < ↔ <=, > ↔ >=
				var repl string
				switch s.Op {
				case token.LSS:
					repl = "<="
				case token.LEQ:
					repl = "<"
				case token.GTR:
					repl = ">="
				case token.GEQ:
					repl = ">"
				case token.EQL:
					repl = "!="
				case token.NEQ:
					repl = "=="
				}
				if repl != "" {
					p := off(s.OpPos)
					add(s, "relop", repl, p, p+len(s.Op.String()))
				}
			}
			return true
		})
	}
	return out
}

func copyTree(src, dst string) error {
	return filepath.WalkDir(src, func(p string, d fs.DirEntry, err error) error {
		if err != nil {
			return err
		}
		rel, _ := filepath.Rel(src, p)
		if rel == ".git" {
			return filepath.SkipDir
		}
		t := filepath.Join(dst, rel)
		if d.IsDir() {
			return os.MkdirAll(t, 0o755)
		}
		b, err := os.ReadFile(p)
		if err != nil {
			return err
		}
		return os.WriteFile(t, b, 0o644)
	})
}

func main() {
	repo := flag.String("repo", "/repo", "repository")
	verif := flag.String("verif", "/verif", "verification directory")
	engcheck := flag.String("engcheck", "/verif/bin/engcheck", "checker binary")
	outPath := flag.String("out", "/verif/audit/mutaudit.json", "result file")
	filesArg := flag.String("files", "", "comma-separated relative files (default: the anchored set)")
	workers := flag.Int("j", 12, "parallel workers")
	limit := flag.Int("limit", 0, "max mutants (0 = all)")
	only := flag.String("only", "", "previous result file: re-run only the mutants that survived there (matched by file, func, op, snippet)")
	flag.Parse()
	files := []string{
		"engine/socket.go", "engine/server.go", "engine/base-server.go",
		"transports/transport.go", "transports/polling.go", "transports/polling-jsonp.go", "transports/websocket.go", "transports/webtransport.go", "transports/builder.go",
		"webtransport/conn.go", "webtransport/prepared.go",
		"types/slice.go", "types/set.go", "types/events.go", "types/cors.go", "types/http-context.go", "types/serve.go", "types/websocket-conn.go", "types/webtransport-conn.go",
		"utils/timer.go", "utils/yeast.go", "utils/base64id.go", "utils/parameter-bag.go", "utils/util.go",
	}
	if *filesArg != "" {
		files = strings.Split(*filesArg, ",")
	}
	var ms []*mutant
	for _, f := range files {
		ms = append(ms, enumerate(*repo, f)...)
	}
	for i, m := range ms {
		m.ID = i
	}
	if *only != "" {
		var prev struct {
			Mutants []*mutant `json:"mutants"`
		}
		if b, err := os.ReadFile(*only); err == nil && json.Unmarshal(b, &prev) == nil {
			keep := map[string]bool{}
			for _, m := range prev.Mutants {
				if m.Status == "survived" {
					keep[m.File+"|"+m.Func+"|"+m.Op+"|"+m.Snippet] = true
				}
			}
			var sel []*mutant
			for _, m := range ms {
				if keep[m.File+"|"+m.Func+"|"+m.Op+"|"+m.Snippet] {
					sel = append(sel, m)
				}
			}
			ms = sel
		}
	}
	if *limit > 0 && len(ms) > *limit {
		ms = ms[:*limit]
	}
	fmt.Printf("mutants: %d\n", len(ms))
	env := append(os.Environ(), "GOFLAGS=-mod=mod", "GOPROXY=off", "CGO_ENABLED=0", "GOWORK=off")
	sem := make(chan struct{}, *workers)
	var wg sync.WaitGroup
	var mu sync.Mutex
	done := 0
	for _, m := range ms {
		wg.Add(1)
		go func(m *mutant) {
			defer wg.Done()
			sem <- struct{}{}
			defer func() { <-sem }()
			tmp, err := os.MkdirTemp("", "mutaudit-")
			if err != nil {
				m.Status = "error"
				return
			}
			defer os.RemoveAll(tmp)
			work := filepath.Join(tmp, "repo")
			vdir := filepath.Join(tmp, "verif")
			os.MkdirAll(vdir, 0o755)
			copyTree(*repo, work)
			src, _ := os.ReadFile(filepath.Join(work, m.File))
			mut := string(src[:m.start]) + m.repl + string(src[m.end:])
			os.WriteFile(filepath.Join(work, m.File), []byte(mut), 0o644)
			b := exec.Command("go", "build", "./...")
			b.Dir = work
			b.Env = env
			if err := b.Run(); err != nil {
				m.Status = "not-compiling"
				return
			}
			if strings.HasPrefix(m.File, "types/") || strings.HasPrefix(m.File, "utils/") {
				t := exec.Command("go", "test", "-vet=off", "-count=1", "./types/", "./utils/", "./events/", "./config/")
				t.Dir = work
				t.Env = env
				if err := t.Run(); err != nil {
					m.Status = "tests-fail"
					return
				}
			}
			if kb, err := os.ReadFile(filepath.Join(*verif, "known-findings.json")); err == nil {
				os.WriteFile(filepath.Join(vdir, "known-findings.json"), kb, 0o644)
			}
			c := exec.Command(*engcheck, "-prop", "all", "-tier", "quick", "-repo", work, "-verif", vdir)
			c.Env = env
			out, _ := c.CombinedOutput()
			killers := map[string]bool{}
			for _, line := range strings.Split(string(out), "\n") {
				if strings.HasPrefix(line, "violated: ") || strings.HasPrefix(line, "UNDECIDED ") {
					if i := strings.Index(line, "rule="); i >= 0 {
						r := strings.Fields(line[i+5:])[0]
						killers[r] = true
					}
				}
				if strings.HasPrefix(line, "CHECK-ERROR") {
					killers["CHECK-ERROR"] = true
				}
			}
			if len(killers) == 0 {
				m.Status = "survived"
			} else {
				m.Status = "killed"
				for k := range killers {
					m.Killers = append(m.Killers, k)
				}
				sort.Strings(m.Killers)
			}
			mu.Lock()
			done++
			if done%100 == 0 {
				fmt.Printf("  %d/%d\n", done, len(ms))
			}
			mu.Unlock()
		}(m)
	}
	wg.Wait()
	cnt := map[string]int{}
	for _, m := range ms {
		cnt[m.Status]++
	}
	fmt.Printf("result: %v\n", cnt)
	os.MkdirAll(filepath.Dir(*outPath), 0o755)
	b, _ := json.MarshalIndent(map[string]any{"counts": cnt, "mutants": ms}, "", " ")
	os.WriteFile(*outPath, b, 0o644)
}
