package main

import (
	"encoding/json"
	"fmt"
	"io/fs"
	"os"
	"os/exec"
	"path/filepath"
	"sort"
	"strings"
	"sync"
)

// Mutant is one seeded edit of the repository used by the thorough tier to
// test the checker itself: the edit must still compile, and the rule it
// targets must report it.
type Mutant struct {
	ID       string `json:"id"`
	Property string `json:"property"`
	File     string `json:"file"`
	Old      string `json:"old"`
	New      string `json:"new"`
	Rule     string `json:"expect_rule"`
	Key      string `json:"expect_construct,omitempty"` // substring of the reported construct
	Benign   bool   `json:"benign,omitempty"`           // behaviour-preserving edit: the check must stay silent
	Note     string `json:"note,omitempty"`
	More     []Edit `json:"more,omitempty"`  // further replacements of the same mutant (e.g. an import)
	Patch    string `json:"patch,omitempty"` // unified diff (path relative to the verification directory) applied instead of old/new
	// Superseded: a later fix: commit made this edit harmless for this property
	// on the current tree (re-confirmed: its demonstration passes with it); it is
	// listed with the reason and not replayed for this property.
	Superseded string `json:"superseded,omitempty"`
}

// Edit is an additional replacement.
type Edit struct {
	File string `json:"file"`
	Old  string `json:"old"`
	New  string `json:"new"`
}

var verifDirForMutants = "/verif"

type MutantResult struct {
	ID      string `json:"id"`
	Status  string `json:"status"` // detected | missed | skipped | superseded | not-compiling | silent(ok) | false-alarm
	Rule    string `json:"expect_rule,omitempty"`
	Detail  string `json:"detail,omitempty"`
	Benign  bool   `json:"benign,omitempty"`
	Note    string `json:"note,omitempty"`
	Reports int    `json:"reports"`
}

func loadMutants(dir, prop string) ([]Mutant, error) {
	var out []Mutant
	files, _ := filepath.Glob(filepath.Join(dir, "*.json"))
	sort.Strings(files)
	for _, f := range files {
		b, err := os.ReadFile(f)
		if err != nil {
			return nil, err
		}
		var ms []Mutant
		if err := json.Unmarshal(b, &ms); err != nil {
			return nil, fmt.Errorf("%s: %v", f, err)
		}
		for _, m := range ms {
			if m.Property == prop {
				out = append(out, m)
			}
		}
	}
	return out, nil
}

func copyTree(src, dst string) error {
	return filepath.WalkDir(src, func(p string, d fs.DirEntry, err error) error {
		if err != nil {
			return err
		}
		rel, _ := filepath.Rel(src, p)
		if rel == ".git" {
			return filepath.SkipDir
		}
		t := filepath.Join(dst, rel)
		if d.IsDir() {
			return os.MkdirAll(t, 0o755)
		}
		b, err := os.ReadFile(p)
		if err != nil {
			return err
		}
		return os.WriteFile(t, b, 0o644)
	})
}

// runMutants applies each mutant to a scratch copy of repo (outside /repo and
// /verif), re-runs this binary on the copy and compares with the expectation.
// It never influences the verdict on the real tree.
func runMutants(self, repo, dir, prop string) []MutantResult {
	ms, err := loadMutants(dir, prop)
	if err != nil {
		return []MutantResult{{ID: "load", Status: "skipped", Detail: err.Error()}}
	}
	res := make([]MutantResult, len(ms))
	sem := make(chan struct{}, 8)
	var wg sync.WaitGroup
	for i, m := range ms {
		wg.Add(1)
		go func(i int, m Mutant) {
			defer wg.Done()
			sem <- struct{}{}
			defer func() { <-sem }()
			res[i] = runOne(self, repo, m)
		}(i, m)
	}
	wg.Wait()
	return res
}

func runOne(self, repo string, m Mutant) MutantResult {
	r := MutantResult{ID: m.ID, Rule: m.Rule, Benign: m.Benign, Note: m.Note}
	if m.Superseded != "" {
		r.Status, r.Detail = "superseded", m.Superseded
		return r
	}
	var src []byte
	if m.Patch == "" {
		var err error
		src, err = os.ReadFile(filepath.Join(repo, m.File))
		if err != nil {
			r.Status, r.Detail = "skipped", err.Error()
			return r
		}
		if n := strings.Count(string(src), m.Old); n != 1 {
			r.Status, r.Detail = "skipped", fmt.Sprintf("context occurs %d times in %s (the source changed; mutant not applicable)", n, m.File)
			return r
		}
	}
	tmp, err := os.MkdirTemp("", "engmut-")
	if err != nil {
		r.Status, r.Detail = "skipped", err.Error()
		return r
	}
	defer os.RemoveAll(tmp)
	work := filepath.Join(tmp, "repo")
	vdir := filepath.Join(tmp, "verif")
	os.MkdirAll(vdir, 0o755)
	if err := copyTree(repo, work); err != nil {
		r.Status, r.Detail = "skipped", err.Error()
		return r
	}
	if m.Patch != "" {
		ap := exec.Command("git", "apply", filepath.Join(verifDirForMutants, m.Patch))
		ap.Dir = work
		if out, err := ap.CombinedOutput(); err != nil {
			// the tree moved on (a later fix: commit shifted the context): retry with fuzz
			fz := exec.Command("patch", "-p1", "-s", "-F3", "--no-backup-if-mismatch", "-i", filepath.Join(verifDirForMutants, m.Patch))
			fz.Dir = work
			if out2, err2 := fz.CombinedOutput(); err2 != nil {
				r.Status, r.Detail = "skipped", "patch does not apply to the current tree: "+strings.TrimSpace(string(out))+" / "+strings.TrimSpace(string(out2))
				return r
			}
		}
	} else {
		os.WriteFile(filepath.Join(work, m.File), []byte(strings.Replace(string(src), m.Old, m.New, 1)), 0o644)
	}
	for _, e := range m.More {
		b, err := os.ReadFile(filepath.Join(work, e.File))
		if err != nil || strings.Count(string(b), e.Old) != 1 {
			r.Status, r.Detail = "skipped", fmt.Sprintf("additional edit does not apply to %s", e.File)
			return r
		}
		os.WriteFile(filepath.Join(work, e.File), []byte(strings.Replace(string(b), e.Old, e.New, 1)), 0o644)
	}
	env := append(os.Environ(), "GOFLAGS=-mod=mod", "GOPROXY=off", "CGO_ENABLED=0", "GOWORK=off")
	build := exec.Command("go", "build", "./...")
	build.Dir = work
	build.Env = env
	if out, err := build.CombinedOutput(); err != nil {
		r.Status, r.Detail = "not-compiling", strings.TrimSpace(string(out))
		return r
	}
	// the real known-findings list applies to the mutated copy as well
	if b, err := os.ReadFile(filepath.Join(verifDirForMutants, "known-findings.json")); err == nil {
		os.WriteFile(filepath.Join(vdir, "known-findings.json"), b, 0o644)
	}
	cmd := exec.Command(self, "-prop", m.Property, "-tier", "quick", "-repo", work, "-verif", vdir)
	cmd.Env = env
	out, _ := cmd.CombinedOutput()
	hit := false
	var firstViolation string
	for _, line := range strings.Split(string(out), "\n") {
		if strings.HasPrefix(line, "violated: ") || strings.HasPrefix(line, "UNDECIDED ") {
			r.Reports++
			if firstViolation == "" {
				firstViolation = line
			}
			if strings.HasPrefix(line, "violated: ") && strings.Contains(line, "rule="+m.Rule+" ") && (m.Key == "" || strings.Contains(line, m.Key)) {
				hit = true
				r.Detail = strings.Replace(line, work+"/", "", -1)
			}
		}
	}
	switch {
	case m.Benign && r.Reports == 0:
		r.Status = "silent(ok)"
	case m.Benign:
		r.Status, r.Detail = "false-alarm", firstViolation
	case hit:
		r.Status = "detected"
	default:
		r.Status = "missed"
		if firstViolation != "" {
			r.Detail = "other report: " + firstViolation
		}
	}
	return r
}
