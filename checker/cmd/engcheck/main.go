// engcheck: static checker for zishang520/engine.io properties C01..C20.
package main

import (
	"flag"
	"fmt"
	"os"
	"runtime/debug"
	"sort"
	"strconv"
	"strings"
	"time"

	"engcheck/core"
	"engcheck/rules"
)

func main() {
	prop := flag.String("prop", "all", "property id (C01..C20) or all")
	tier := flag.String("tier", "", "quick | thorough (default $VERIF_TIER or quick)")
	repo := flag.String("repo", "/repo", "repository working tree")
	mut := flag.String("mutants", "", "directory of mutant scripts (thorough tier self-test)")
	verif := flag.String("verif", "/verif", "verification directory (evidence/, out/, known-findings.json)")
	dump := flag.Bool("dump", false, "list units and exit")
	dumpBase := flag.Bool("dump-baseline", false, "print the rename-recovery baseline of the tree (functions, locals) as JSON and exit")
	list := flag.Bool("list", false, "print every obligation with its verdict (diagnosis)")
	noEvidence := flag.Bool("scratch", false, "scratch run (mutant self-test): write evidence/out under -verif as given")
	flag.Parse()
	_ = noEvidence
	if *tier == "" {
		*tier = os.Getenv("VERIF_TIER")
	}
	if *tier != "thorough" {
		*tier = "quick"
	}
	seed, _ := strconv.ParseInt(os.Getenv("VERIF_SEED"), 10, 64)
	started := time.Now()

	core.BaselineOff = *dumpBase
	p, err := core.Load(*repo)
	if err != nil {
		fmt.Printf("CHECK-ERROR cannot load %s: %v\n", *repo, err)
		os.Exit(2)
	}
	if *dumpBase {
		os.Stdout.Write(p.DumpBaseline())
		return
	}
	if *dump {
		for _, u := range p.Units {
			fmt.Println(u.Key, p.PosStr(u.Pos()))
		}
		return
	}
	if err := core.SelfTest(); err != nil {
		fmt.Printf("CHECK-ERROR primitive self-test failed: %v\n", err)
		os.Exit(2)
	}
	known, err := core.LoadKnown(*verif + "/known-findings.json")
	if err != nil {
		fmt.Printf("CHECK-ERROR %v\n", err)
		os.Exit(2)
	}
	var ids []string
	if *prop == "all" {
		for id := range rules.Registry {
			ids = append(ids, id)
		}
		sort.Strings(ids)
	} else {
		for _, id := range strings.Split(*prop, ",") {
			if _, ok := rules.Registry[id]; !ok {
				fmt.Printf("CHECK-ERROR unknown property %q\n", id)
				os.Exit(2)
			}
			ids = append(ids, id)
		}
	}
	code := 0
	for _, id := range ids {
		t0 := started
		if len(ids) > 1 {
			t0 = time.Now()
		}
		c := core.NewCtx(p, id)
		func() {
			defer func() {
				if r := recover(); r != nil {
					c.Undecided(id+".panic", "checker", fmt.Sprintf("rule panicked: %v\n%s", r, debug.Stack()))
				}
			}()
			rules.Registry[id](c, *tier)
		}()
		var extra map[string]any
		if *tier == "thorough" && *mut != "" {
			self, _ := os.Executable()
			verifDirForMutants = *verif
			mres := runMutants(self, *repo, *mut, id)
			cnt := map[string]int{}
			for _, r := range mres {
				cnt[r.Status]++
				fmt.Printf("selftest property=%s mutant=%s status=%s %s\n", id, r.ID, r.Status, r.Detail)
			}
			extra = map[string]any{
				"checker_selftest": map[string]any{
					"what":    "each seeded edit is applied to a scratch copy of the current tree (outside /repo and /verif, removed afterwards), must still compile, and the targeted rule must report it; benign edits must stay silent. Informational: never changes the verdict on /repo.",
					"results": mres,
					"counts":  cnt,
				},
			}
		}
		if *list {
			for _, o := range c.Obs {
				fmt.Printf("ob %s %s %s %s\n", o.Verdict, o.Rule, o.Key, o.Detail)
			}
		}
		res := c.Finish(known, *verif, *tier, seed, t0, extra)
		if res.Violations > 0 {
			code = 1
		} else if res.Undecided > 0 && code == 0 {
			code = 2
		}
	}
	os.Exit(code)
}
