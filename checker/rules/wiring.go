package rules

import (
	"go/ast"
	"go/token"
	"go/types"
	"strings"

	"engcheck/core"
)

// This file holds "wiring" rules: calls that must exist, with the right
// arguments and on the right edge, for a property to have any chance of
// holding. They were added after a statement-deletion / condition-negation
// audit of the checker (cmd/mutaudit) showed that rules stated over existing
// constructs ("every X is guarded") pass vacuously when X is deleted.

// argIsParam: argument i of cl is the j-th parameter of u (or of an enclosing unit when outer is set).
func argIsParam(u *core.Unit, cl *core.Call, i, j int) bool {
	a := cl.Arg(i)
	if a == nil {
		return false
	}
	return isLocal(u.Info(), a, paramName(u, j))
}

// oneCall returns the single call in u (own body) whose key or ".name" matches, or nil.
func oneCall(u *core.Unit, keys ...string) *core.Call {
	cs := u.CallsTo(keys...)
	if len(cs) == 1 {
		return cs[0]
	}
	return nil
}

// lockBalance — every mutex acquired by a function of the listed packages is
// released on every exit (deferred unlock, or unlocked before each return).
func lockBalance(c *core.Ctx, R string, pkgs ...string) {
	c.Rule(R, "no lock leak: in every function of "+strings.Join(pkgs, ", ")+" that acquires a sync.Mutex/RWMutex, no return is reached with the lock still held unless its unlock is deferred (a leaked flushMu / transport mutex / container mutex blocks every later Send, write or access)")
	n := 0
	for _, u := range c.P.Units {
		in := false
		for _, p := range pkgs {
			if u.Pkg == c.P.Pkgs[p] {
				in = true
			}
		}
		if !in {
			continue
		}
		locks := false
		for _, cl := range u.Calls() {
			if cl.Callee != nil && cl.Callee.Pkg() != nil && cl.Callee.Pkg().Path() == "sync" && (cl.Name == "Lock" || cl.Name == "RLock" || cl.Name == "Unlock" || cl.Name == "RUnlock") && !cl.Deferred {
				locks = true
			}
		}
		if !locks {
			continue
		}
		n++
		c.Touch(u)
		g := u.Graph()
		du := g.DeferredUnlocks()
		leak := ""
		for _, r := range returnsIn(u) {
			for k := range g.HeldAt(r.Loc) {
				if !du[k] {
					leak = keyf("%s held at the return at %s", k, c.P.PosStr(r.Stmt.Pos()))
				}
			}
		}
		// … and on no path at all: a lock taken in one branch and not released there reaches the exit held
		for k, pos := range g.MayHeldAtExit() {
			if leak == "" {
				leak = keyf("%s may still be held at the exit at %s", k, c.P.PosStr(pos))
			}
		}
		c.Check(R, u.Key+"/locks-released-on-every-exit", u.Pos(), leak == "", leak)
		// … and nothing is released that is not held (unlock of an unlocked mutex is a fatal runtime error)
		for _, cl := range u.Calls() {
			if cl.Callee == nil || cl.Callee.Pkg() == nil || cl.Callee.Pkg().Path() != "sync" || cl.Inlined != nil || cl.Recv == nil {
				continue
			}
			key := core.LockKey(u.Info(), cl.Recv)
			switch cl.Name {
			case "RUnlock":
				key += "#R"
			case "Unlock":
			default:
				continue
			}
			c.Check(R, keyf("%s/%s-released-only-when-held", u.Key, key), cl.Pos(), g.HeldAt(cl.Loc)[key], keyf("%s is held on every path to its %s", key, cl.Name))
		}
	}
	c.Need(R, "functions that lock", n, 3)
}

// c01SendWiring — Send/Write hand the message to sendPacket.
func c01SendWiring(c *core.Ctx, R string) {
	c.Rule(R, "Send and Write are wired: each calls sendPacket(packet.MESSAGE, data, options, callback) with its own parameters in that order, unconditionally; sendPacket gives a packet without options the default {Compress: true} and builds the packet from its parameters (Type, Data, Options)")
	for _, k := range []string{"engine.(*socket).Send", "engine.(*socket).Write"} {
		u := c.Fn(R, k)
		if u == nil {
			continue
		}
		cl := oneCall(u, sockSendPkt)
		ok := cl != nil && !cl.Go && !cl.Deferred && pktConst(u.Info(), cl.Arg(0), "message") && argIsParam(u, cl, 1, 0) && argIsParam(u, cl, 2, 1) && argIsParam(u, cl, 3, 2)
		if ok {
			for _, r := range returnsIn(u) {
				ok = ok && u.Graph().Dominates(cl.Loc, r.Loc)
			}
		}
		c.Check(R, k+"→sendPacket(MESSAGE,data,options,callback)", u.Pos(), ok, "the application's message reaches the buffer")
	}
	sp := c.Fn(R, sockSendPkt)
	if sp == nil {
		return
	}
	info := sp.Info()
	g := sp.Graph()
	// packet literal
	lit := false
	ast.Inspect(sp.Body, func(n ast.Node) bool {
		cl, isC := n.(*ast.CompositeLit)
		if !isC || core.TypeName(info.TypeOf(cl)) != "Packet" {
			return true
		}
		got := map[string]bool{}
		for _, el := range cl.Elts {
			if kv, isKV := el.(*ast.KeyValueExpr); isKV {
				k, _ := kv.Key.(*ast.Ident)
				if k == nil {
					continue
				}
				switch k.Name {
				case "Type":
					got["Type"] = isLocal(info, kv.Value, paramName(sp, 0))
				case "Data":
					got["Data"] = isLocal(info, kv.Value, paramName(sp, 1))
				case "Options":
					got["Options"] = isLocal(info, kv.Value, paramName(sp, 2))
				}
			}
		}
		lit = got["Type"] && got["Data"] && got["Options"]
		return true
	})
	c.Check(R, sockSendPkt+"/packet{Type,Data,Options}=parameters", sp.Pos(), lit, "the buffered packet carries the caller's type, data and options")
	// default options on the nil edge
	on := paramName(sp, 2)
	okDef := false
	for _, a := range assignsIn(sp, func(l ast.Expr) bool { return isLocal(info, l, on) }) {
		compress := false
		ast.Inspect(a.Rhs, func(n ast.Node) bool {
			if kv, isKV := n.(*ast.KeyValueExpr); isKV {
				if k, _ := kv.Key.(*ast.Ident); k != nil && k.Name == "Compress" {
					if v, isC := core.ConstBool(info, kv.Value); isC && v {
						compress = true
					}
				}
			}
			return true
		})
		okDef = compress && g.GuardedBy(a.Loc, nilGuard(false, func(x *core.Unit, e ast.Expr) bool { return isLocal(x.Info(), e, on) }))
	}
	c.Check(R, sockSendPkt+"/nil-options→{Compress:true}", sp.Pos(), okDef, "caller-supplied options are kept; only a nil one gets the default")
}

// c03ConstructionWiring — NewSocket/Construct/setTransport wire the session.
func c03ConstructionWiring(c *core.Ctx, R string) {
	c.Rule(R, "construction wiring: NewSocket = MakeSocket + Construct(id, server, transport, ctx, protocol) with its parameters in order; Construct stores id, server, request and protocol from its parameters and calls setTransport(transport) ≺ onOpen(); setTransport stores &transport and wires error→onError(err[0]), ready→flush, packet→onPacket(packets[0]) (only when a packet is present), drain→onDrain, close→OnClose(\"transport close\"); Transport()/ReadyState() return the stored value on its present edge")
	if ns := c.Fn(R, newSocket); ns != nil {
		cl := oneCall(ns, "engine.(Socket).Construct", "engine.(*socket).Construct")
		ok := cl != nil
		for i := 0; ok && i < 5; i++ {
			ok = argIsParam(ns, cl, i, i)
		}
		mk := oneCall(ns, "engine.MakeSocket")
		ok = ok && mk != nil && ns.Graph().Dominates(mk.Loc, cl.Loc)
		c.Check(R, newSocket+"→MakeSocket≺Construct(params)", ns.Pos(), ok, "the session is constructed with the handshake's id, server, transport, request and revision")
	}
	if ct := c.Fn(R, "engine.(*socket).Construct"); ct != nil {
		info := ct.Info()
		g := ct.Graph()
		want := map[string]int{"socket.id": 0, "socket.server": 1, "socket.request": 3, "socket.protocol": 4}
		for f, pi := range want {
			ok := false
			for _, a := range fieldAssigns(ct, f) {
				if a.Rhs != nil && isLocal(info, a.Rhs, paramName(ct, pi)) && a.Tok == token.ASSIGN {
					ok = true
					for _, r := range returnsIn(ct) {
						ok = ok && g.Dominates(a.Loc, r.Loc)
					}
				}
			}
			c.Check(R, keyf("engine.(*socket).Construct/%s=param", f), ct.Pos(), ok, "field initialised from the constructor argument on every path")
		}
		st, oo := oneCall(ct, sockSetTr), oneCall(ct, sockOnOpen)
		ok := st != nil && oo != nil && argIsParam(ct, st, 0, 2) && g.Dominates(st.Loc, oo.Loc)
		if ok {
			for _, r := range returnsIn(ct) {
				ok = ok && g.Dominates(oo.Loc, r.Loc)
			}
		}
		c.Check(R, "engine.(*socket).Construct/setTransport(transport)≺onOpen", ct.Pos(), ok, "listeners are attached before the session opens")
	}
	if st := c.Fn(R, sockSetTr); st != nil {
		info := st.Info()
		// s.transport.Store(&transport)
		okStore := false
		for _, cl := range fieldCalls(st, "socket.transport") {
			if cl.Name == "Store" {
				if ue, isU := ast.Unparen(cl.Arg(0)).(*ast.UnaryExpr); isU && ue.Op == token.AND && isLocal(info, ue.X, paramName(st, 0)) && !cl.Deferred && !cl.Go {
					okStore = true
				}
			}
		}
		c.Check(R, sockSetTr+"/transport.Store(&transport)", st.Pos(), okStore, "the given transport becomes the session's current transport")
		bodies := []struct {
			kid, callee string
			check       func(k *core.Unit, cl *core.Call) bool
		}{
			{"onError", "engine.(*socket).onError", func(k *core.Unit, cl *core.Call) bool {
				ta, isTA := ast.Unparen(cl.Arg(0)).(*ast.TypeAssertExpr)
				if !isTA {
					return false
				}
				ix, isIx := ast.Unparen(ta.X).(*ast.IndexExpr)
				if !isIx {
					return false
				}
				v, isC := core.ConstInt(k.Info(), ix.Index)
				return isC && v == 0
			}},
			{"onReady", sockFlush, func(k *core.Unit, cl *core.Call) bool { return true }},
			{"onDrain", "engine.(*socket).onDrain", func(k *core.Unit, cl *core.Call) bool { return true }},
			{"onClose", sockOnClose, func(k *core.Unit, cl *core.Call) bool {
				r, _ := core.ConstString(k.Info(), cl.Arg(0))
				return r == "transport close"
			}},
			{"onPacket", sockOnPacket, func(k *core.Unit, cl *core.Call) bool {
				// guarded by len(packets) > 0
				pn := paramName(k, 0)
				return k.Graph().GuardedBy(cl.Loc, func(x *core.Unit, br core.Branch) int {
					cmp, ok := x.BranchCmp(br)
					if !ok {
						return 0
					}
					ce, isC := ast.Unparen(cmp.X).(*ast.CallExpr)
					if !isC || calleeNameOf(ce) != "len" || len(ce.Args) != 1 || !isLocal(x.Info(), ce.Args[0], pn) {
						return 0
					}
					if e, ok := lenPositive(cmp); ok {
						if e == 0 {
							return 1
						}
						return -1
					}
					return 0
				})
			}},
		}
		for _, b := range bodies {
			k := st.Kid(b.kid)
			ok := false
			if k != nil {
				c.Touch(k)
				if cl := oneCall(k, b.callee); cl != nil && !cl.Go && !cl.Deferred {
					ok = b.check(k, cl)
					if ok && b.kid != "onPacket" {
						for _, r := range returnsIn(k) {
							ok = ok && k.Graph().Dominates(cl.Loc, r.Loc)
						}
					}
				}
			}
			c.Check(R, keyf("%s$%s→%s", sockSetTr, b.kid, b.callee), st.Pos(), ok, "the transport event reaches the session handler")
		}
	}
	// accessors
	if tr := c.Fn(R, "engine.(*socket).Transport"); tr != nil {
		g := tr.Graph()
		ok := false
		for _, r := range returnsIn(tr) {
			if len(r.Stmt.Results) == 1 {
				if se, isS := ast.Unparen(r.Stmt.Results[0]).(*ast.StarExpr); isS {
					v := se.X
					ok = g.GuardedBy(r.Loc, nilGuard(true, func(x *core.Unit, e ast.Expr) bool { return sameObj(x.Info(), e, v) }))
				}
			}
		}
		c.Check(R, "engine.(*socket).Transport/deref-on-non-nil-edge", tr.Pos(), ok, "the stored transport is returned when present")
	}
	for _, k := range []string{"engine.(*socket).ReadyState", "transports.(*transport).ReadyState"} {
		if rs := c.Fn(R, k); rs != nil {
			g := rs.Graph()
			ok := false
			for _, r := range returnsIn(rs) {
				if len(r.Stmt.Results) == 1 {
					if d, isD := rs.SingleDef(r.Stmt.Results[0]); isD {
						if te, isT := d.(*core.TupleElem); isT && te.Index == 0 {
							// returned on the ok edge of the type assertion
							ok = g.GuardedBy(r.Loc, func(x *core.Unit, br core.Branch) int {
								if br.IsCase {
									return 0
								}
								dd, kk := x.SingleDef(br.Cond)
								if !kk {
									return 0
								}
								if t2, isT2 := dd.(*core.TupleElem); isT2 && t2.Index == 1 && t2.X == te.X {
									return 1
								}
								return 0
							})
						}
					}
				}
			}
			c.Check(R, k+"/value-on-ok-edge", rs.Pos(), ok, "the stored state is returned when present")
		}
	}
	_ = types.Universe
}

// c08UpgradeBranchWiring — the effects of the UPGRADE branch and of clearTransport.
func c08UpgradeBranchWiring(c *core.Ctx, R string) {
	c.Rule(R, "upgrade-branch wiring: on UPGRADE the old transport is discarded (Transport().Discard()) before clearTransport, upgrade is emitted with the candidate after setTransport, and a session that is closing gets candidate.Close(→ OnClose(\"forced close\")) after the flush that follows setTransport; clearTransport silences further errors of the old transport (On(\"error\", …)) and closes it (Transport().Close()); the probe text is read from the packet data (io.Copy into the builder) before it is compared")
	op := c.Fn(R, sockUpgrade+"$onPacket")
	if op != nil {
		g := op.Graph()
		info := op.Info()
		var disc, clr, st *core.Call
		for _, cl := range op.Calls() {
			switch {
			case cl.Name == "Discard":
				disc = cl
			case cl.Key == sockClearTr:
				clr = cl
			case cl.Key == sockSetTr:
				st = cl
			}
		}
		okDisc := disc != nil && clr != nil && g.Dominates(disc.Loc, clr.Loc)
		if okDisc {
			ce, isC := ast.Unparen(disc.Recv).(*ast.CallExpr)
			okDisc = isC && op.CalleeKey(ce) == "engine.(*socket).Transport"
		}
		c.Check(R, sockUpgrade+"$onPacket/Discard(old)≺clearTransport", op.Pos(), okDisc, "the old transport is flagged discarded so that its DoClose does not wait for a poll")
		up := filterEv(events(c, op), "emit", "session", "upgrade")
		okUp := len(up) == 1 && st != nil && g.Dominates(st.Loc, up[0].Loc) && isCandidate(op, up[0].Arg(1))
		c.Check(R, sockUpgrade+"$onPacket/setTransport≺emit(upgrade, candidate)", op.Pos(), okUp, "the application is told about the switch")
		// closing edge
		closing := stateIs(sockStateKeys, "closing")
		okCl := false
		for _, cl := range op.CallsTo("transports.(Transport).Close") {
			if len(cl.Expr.Args) == 1 && isCandidate(op, cl.Recv) && g.GuardedBy(cl.Loc, closing) {
				if k := closureArg(op, cl, 0); k != nil {
					for _, oc := range k.CallsTo(sockOnClose) {
						r, _ := core.ConstString(k.Info(), oc.Arg(0))
						okCl = r == "forced close"
					}
				}
			}
		}
		c.Check(R, sockUpgrade+"$onPacket/closing→candidate.Close(forced close)", op.Pos(), okCl, "a graceful close that was waiting completes on the new transport")
		// … after what the session had buffered went to the new transport: the flush that follows setTransport precedes
		// that close (the other order closes the transport under the buffered messages: sent before the close, never delivered)
		okOrder := false
		for _, cl := range op.CallsTo("transports.(Transport).Close") {
			if len(cl.Expr.Args) != 1 || !isCandidate(op, cl.Recv) || !g.GuardedBy(cl.Loc, closing) {
				continue
			}
			for _, fl := range op.CallsTo(sockFlush) {
				if st != nil && g.Dominates(st.Loc, fl.Loc) && g.Dominates(fl.Loc, cl.Loc) {
					okOrder = true
				}
			}
		}
		c.Check(R, sockUpgrade+"$onPacket/setTransport≺flush≺closing-close", op.Pos(), okOrder, "messages buffered while the upgrade was under way are handed to the new transport before a pending graceful close closes it")
		// probe text read before compare
		okProbe := false
		for _, cl := range op.CallsTo("io.Copy") {
			if se, isS := ast.Unparen(cl.Arg(1)).(*ast.SelectorExpr); isS && fieldOf(info, se) == "Packet.Data" {
				// the builder it fills is the one compared with "probe"
				for _, f := range g.Facts() {
					cmp, ok := op.BranchCmp(f.Br)
					if ok && cmp.Val != nil && trimQuotes(cmp.Val.ExactString()) == "probe" {
						if ce, isC := ast.Unparen(cmp.X).(*ast.CallExpr); isC && calleeNameOf(ce) == "String" {
							if s2, isS2 := ce.Fun.(*ast.SelectorExpr); isS2 && sameObj(info, s2.X, cl.Arg(0)) {
								cond := core.Loc{B: f.Br.B, I: len(f.Br.B.Nodes) - 1}
								okProbe = g.Dominates(cl.Loc, cond)
							}
						}
					}
				}
			}
		}
		c.Check(R, sockUpgrade+"$onPacket/probe-text=packet.Data", op.Pos(), okProbe, "the probe comparison looks at the packet's own data")
	}
	ct := c.Fn(R, sockClearTr)
	if ct != nil {
		var silencer *Ev
		for _, e := range filterEv(events(c, ct), "on", "transport", "error") {
			silencer = e
		}
		var cls *core.Call
		for _, cl := range ct.CallsTo("transports.(Transport).Close") {
			if ce, isC := ast.Unparen(cl.Recv).(*ast.CallExpr); isC && ct.CalleeKey(ce) == "engine.(*socket).Transport" {
				cls = cl
			}
		}
		ok := silencer != nil && cls != nil && !cls.Go && !cls.Deferred && ct.Graph().Dominates(silencer.Loc, cls.Loc)
		if ok {
			for _, r := range returnsIn(ct) {
				ok = ok && ct.Graph().Dominates(cls.Loc, r.Loc)
			}
		}
		c.Check(R, sockClearTr+"/silence-errors≺Transport().Close()", ct.Pos(), ok, "the replaced (or closed) session's transport never stays open")
	}
}

// c18Polarity — branch polarities of the callback machinery.
func c18Polarity(c *core.Ctx, R string) {
	c.Rule(R, "polarity of the callback machinery: flush pushes the taken packetsFn group on its non-empty edge and nil on the other; onDrain runs the popped group on the err == nil edge of Shift")
	u := c.Fn(R, sockFlush)
	if u != nil {
		g := u.Graph()
		okPol := true
		n := 0
		for _, cl := range fieldCalls(u, "socket.sentCallbackFn") {
			if cl.Name != "Push" {
				continue
			}
			n++
			a := cl.Arg(0)
			nonEmpty := func(x *core.Unit, br core.Branch) int {
				cmp, ok := x.BranchCmp(br)
				if !ok {
					return 0
				}
				ce, isC := ast.Unparen(cmp.X).(*ast.CallExpr)
				if !isC || calleeNameOf(ce) != "len" || len(ce.Args) != 1 {
					return 0
				}
				d, k := x.SingleDef(ce.Args[0])
				if !k {
					return 0
				}
				dc, _ := ast.Unparen(d).(*ast.CallExpr)
				if dc == nil || calleeNameOf(dc) != "AllAndClear" {
					return 0
				}
				if se, isS := dc.Fun.(*ast.SelectorExpr); !isS || fieldOf(x.Info(), se.X) != "socket.packetsFn" {
					return 0
				}
				if e, ok := lenPositive(cmp); ok {
					if e == 0 {
						return 1
					}
					return -1
				}
				return 0
			}
			if core.IsNil(u.Info(), a) {
				// nil pushed only where the group is known to be empty
				if g.GuardedBy(cl.Loc, nonEmpty) {
					okPol = false
				}
			} else if _, isId := ast.Unparen(a).(*ast.Ident); isId {
				d, k := u.SingleDef(a)
				dc, _ := ast.Unparen(d).(*ast.CallExpr)
				if k && dc != nil && calleeNameOf(dc) == "AllAndClear" {
					// the taken group itself: either pushed unconditionally (single push) or on the non-empty edge
					if len(fieldCallsNamed(u, "socket.sentCallbackFn", "Push")) > 1 && !g.GuardedBy(cl.Loc, nonEmpty) {
						okPol = false
					}
				}
			}
		}
		c.Check(R, sockFlush+"/group-on-non-empty-edge,nil-otherwise", u.Pos(), okPol && n >= 1, "callbacks of the batch are queued exactly when there are some")
	}
	od := c.Fn(R, "engine.(*socket).onDrain")
	if od != nil {
		g := od.Graph()
		ok := false
		var shift *core.Call
		for _, cl := range fieldCalls(od, "socket.sentCallbackFn") {
			if cl.Name == "Shift" {
				shift = cl
			}
		}
		if shift != nil {
			ast.Inspect(od.Body, func(n ast.Node) bool {
				rs, isR := n.(*ast.RangeStmt)
				if !isR || !tupleOf(od, rs.X, shift.Expr, 0) {
					return true
				}
				ok = g.GuardedBy(g.LocOf(rs.X), nilGuard(false, func(x *core.Unit, e ast.Expr) bool { return tupleOf(x, e, shift.Expr, 1) }))
				return true
			})
		}
		c.Check(R, "engine.(*socket).onDrain/run-on-err==nil-edge", od.Pos(), ok, "the popped group runs only when a group was actually popped")
	}
}

func fieldCallsNamed(u *core.Unit, field, name string) []*core.Call {
	var out []*core.Call
	for _, cl := range fieldCalls(u, field) {
		if cl.Name == name {
			out = append(out, cl)
		}
	}
	return out
}

// casPolarity — the effects of a CompareAndSwap transition are on its success edge and the failure edge returns.
func casPolarity(c *core.Ctx, R string) {
	c.Rule(R, "CAS polarity: in onOpen and Close the transition's effects (SetSid/sendPacket/arming; closeTransport) are dominated by the success edge of the CompareAndSwap and its failure edge returns without effects; in OnClose the teardown and the close event are on the `previous != closed` edge")
	type row struct {
		unit    string
		effects func(cl *core.Call) bool
	}
	rows := []row{
		{sockOnOpen, func(cl *core.Call) bool {
			return cl.Name == "SetSid" || cl.Key == sockSendPkt || cl.Key == "engine.(*socket).schedulePing" || cl.Key == "engine.(*socket).resetPingTimeout"
		}},
		{sockClose, func(cl *core.Call) bool { return evKind(cl.Key) == "once" }},
	}
	for _, r := range rows {
		u := c.Fn(R, r.unit)
		if u == nil {
			continue
		}
		g := u.Graph()
		var cas *core.Call
		for _, cl := range fieldCalls(u, "socket.readyState") {
			if cl.Name == "CompareAndSwap" {
				cas = cl
			}
		}
		if cas == nil {
			c.Violate(R, r.unit+"/CAS-success-edge", u.Pos(), "no CompareAndSwap transition found")
			continue
		}
		succ := func(x *core.Unit, br core.Branch) int {
			if br.IsCase {
				return 0
			}
			e := ast.Unparen(br.Cond)
			if e == ast.Expr(cas.Expr) {
				return 1
			}
			if d, k := x.SingleDef(e); k && ast.Unparen(d) == ast.Expr(cas.Expr) {
				return 1
			}
			return 0
		}
		n := 0
		ok := true
		for _, cl := range u.Calls() {
			if r.effects(cl) {
				n++
				ok = ok && g.GuardedBy(cl.Loc, succ)
			}
		}
		// in Close the post-transition closeTransport (not the discard fast path, which precedes the CAS)
		if r.unit == sockClose {
			for _, cl := range u.CallsTo("engine.(*socket).closeTransport") {
				if g.CanFollow(cas.Loc, cl.Loc) {
					n++
					ok = ok && g.GuardedBy(cl.Loc, succ)
				}
			}
		}
		c.Check(R, r.unit+"/effects-on-CAS-success-edge", cas.Pos(), ok && n >= 1, keyf("%d effect(s), all on the success edge", n))
	}
}

// noBaseBypass — C11.8 / C12.3b / C03.8b: the transports use embedding as
// inheritance. A call through the embedded field (p.Transport.M(), j.Polling.M())
// runs the *base* implementation; where the embedding type overrides M that is a
// "super" call and is legitimate only inside the override itself. Anywhere
// else it silently skips the override (polling.OnClose is what releases a
// pending poll before the transport is marked closed).
func noBaseBypass(c *core.Ctx, R string) {
	c.Rule(R, "no bypass of an overriding method: in package transports a call through an embedded field (x.Transport.M / x.Polling.M) whose embedding struct type itself declares M is allowed only inside that overriding method (a super call); elsewhere the call must go through the outer value so that the override runs — polling.OnClose (release of the pending poll), polling.OnData, jsonp.OnData/DoWrite")
	n, supers := 0, 0
	for _, u := range c.P.Units {
		if u.Pkg == nil || u.Pkg.Types == nil || u.Pkg.Types.Name() != "transports" {
			continue
		}
		info := u.Info()
		for _, cl := range u.Calls() {
			if cl.Recv == nil {
				continue
			}
			fs, ok := ast.Unparen(cl.Recv).(*ast.SelectorExpr)
			if !ok {
				continue
			}
			sel := info.Selections[fs]
			if sel == nil || sel.Kind() != types.FieldVal {
				continue
			}
			fv, _ := sel.Obj().(*types.Var)
			if fv == nil || !fv.Embedded() {
				continue
			}
			// the embedding struct type
			outer := sel.Recv()
			if pt, ok := outer.(*types.Pointer); ok {
				outer = pt.Elem()
			}
			named, _ := types.Unalias(outer).(*types.Named)
			if named == nil {
				continue
			}
			n++
			overrides := false
			for i := 0; i < named.NumMethods(); i++ {
				if named.Method(i).Name() == cl.Name {
					overrides = true
				}
			}
			if !overrides {
				continue
			}
			supers++
			root := u.Root()
			inOverride := root.Decl != nil && root.Decl.Name.Name == cl.Name && root.Decl.Recv != nil && len(root.Decl.Recv.List) == 1 && core.TypeName(info.TypeOf(root.Decl.Recv.List[0].Type)) == named.Obj().Name() && u == root
			c.Check(R, keyf("%s/%s.%s.%s()", u.Key, named.Obj().Name(), fv.Name(), cl.Name), cl.Pos(), inOverride, keyf("%s overrides %s: the base implementation may be called only from the override itself", named.Obj().Name(), cl.Name))
		}
	}
	c.Need(R, "calls through an embedded transport field", n, 6)
	c.Need(R, "super calls inside their override", supers, 4)
}

// recvName returns the receiver identifier name of a method unit.
func recvName(u *core.Unit) string {
	if u.Decl == nil || u.Decl.Recv == nil || len(u.Decl.Recv.List) != 1 || len(u.Decl.Recv.List[0].Names) != 1 {
		return ""
	}
	return u.Decl.Recv.List[0].Names[0].Name
}

// accessorAgreement — setters store their parameter in one field and the
// getter of the same name reads that field. The state machine rules reason
// about SetWritable / SetReadyState / SetMaxHttpBufferSize … call sites; they
// mean nothing if the accessor bodies do not do what their names say.
// setters whose field has no getter method (it is read directly by the mechanism it configures): the store itself is
// the obligation — an empty SetReadLimit leaves the WebTransport read limit at "unlimited"
var setterWithoutGetter = map[string]string{
	"webtransport.Conn.SetReadLimit": "Conn.readLimit",
}

func accessorAgreement(c *core.Ctx, R string) {
	c.Rule(R, "accessor agreement (transports.transport, engine.socket, types.HttpContext): every one-parameter SetX method stores exactly its parameter into one field (f = p, f.Store(p) or f.Store(&p)), unconditionally, and the getter X / GetX / IsX of the same type reads that same field (f, f.Load(), *f.Load()) and no other field; Discard stores true into the field Discarded reads; Prototype/Proto likewise")
	type tspec struct{ pkg, typ string }
	n := 0
	for _, ts := range []tspec{{"transports", "transport"}, {"engine", "socket"}, {"types", "HttpContext"}, {"engine", "baseServer"}, {"engine", "server"}, {"webtransport", "Conn"}} {
		ms := map[string]*core.Unit{}
		for _, m := range methodsOf(c, ts.pkg, ts.typ) {
			ms[m.Decl.Name.Name] = m
		}
		fieldsReadBy := func(m *core.Unit) map[string]bool {
			out := map[string]bool{}
			info := m.Info()
			ast.Inspect(m.Body, func(x ast.Node) bool {
				if se, ok := x.(*ast.SelectorExpr); ok {
					if f := fieldOf(info, se); f != "" && strings.HasPrefix(f, ts.typ+".") {
						out[f] = true
					}
				}
				return true
			})
			return out
		}
		for name, m := range ms {
			var getterNames []string
			var want ast.Expr // nil = the parameter
			switch {
			case strings.HasPrefix(name, "Set") && len(name) > 3 && m.Decl.Type.Params != nil && m.Decl.Type.Params.NumFields() == 1:
				base := name[3:]
				getterNames = []string{base, "Get" + base, "Is" + base}
			case name == "Discard":
				getterNames = []string{"Discarded"}
			case name == "Prototype":
				getterNames = []string{"Proto"}
			default:
				continue
			}
			_ = want
			info := m.Info()
			g := m.Graph()
			pn := paramName(m, 0)
			// the store
			field := ""
			stores := 0
			uncond := true
			for _, a := range assignsIn(m, func(l ast.Expr) bool { return strings.HasPrefix(fieldOf(info, l), ts.typ+".") }) {
				if name == "Discard" || isLocal(info, a.Rhs, pn) {
					field = fieldOf(info, a.Lhs)
					stores++
					for _, r := range returnsIn(m) {
						if !g.Dominates(a.Loc, r.Loc) {
							uncond = false
						}
					}
				}
			}
			for _, cl := range m.Calls() {
				if cl.Name != "Store" || cl.Recv == nil || !strings.HasPrefix(fieldOf(info, cl.Recv), ts.typ+".") || len(cl.Expr.Args) != 1 {
					continue
				}
				a := ast.Unparen(cl.Expr.Args[0])
				if ue, ok := a.(*ast.UnaryExpr); ok && ue.Op == token.AND {
					a = ue.X
				}
				okArg := isLocal(info, a, pn)
				if name == "Discard" {
					v, isC := core.ConstBool(info, a)
					okArg = isC && v
				}
				if okArg {
					field = fieldOf(info, cl.Recv)
					stores++
					for _, r := range returnsIn(m) {
						if !g.Dominates(cl.Loc, r.Loc) {
							uncond = false
						}
					}
				}
			}
			var getter *core.Unit
			for _, gn := range getterNames {
				if ms[gn] != nil {
					getter = ms[gn]
				}
			}
			if want, must := setterWithoutGetter[ts.pkg+"."+ts.typ+"."+name]; must {
				n++
				c.Check(R, keyf("%s.(*%s).%s/stores-its-parameter", ts.pkg, ts.typ, name), m.Pos(), stores == 1 && uncond && field == want, keyf("%d store(s) of the parameter, into %q (want %s), unconditional=%v", stores, field, want, uncond))
				continue
			}
			if getter == nil && stores == 0 {
				continue // not an accessor pair of this type (e.g. SetHttpServer on server without a stored param is still caught below when a getter exists)
			}
			n++
			okSet := stores == 1 && uncond
			c.Check(R, keyf("%s.(*%s).%s/stores-its-parameter", ts.pkg, ts.typ, name), m.Pos(), okSet, keyf("%d store(s) of the parameter into a field of %s, unconditional=%v", stores, ts.typ, uncond))
			if getter != nil && okSet {
				rd := fieldsReadBy(getter)
				okGet := rd[field] && len(rd) == 1
				c.Check(R, keyf("%s.(*%s).%s/reads-%s", ts.pkg, ts.typ, getter.Decl.Name.Name, field), getter.Pos(), okGet, keyf("getter reads %v, setter writes %s", keys(rd), field))
			}
		}
	}
	c.Need(R, "setter/getter pairs", n, 12)
}

// constructorChain — the transports and servers emulate inheritance: MakeX
// registers the outermost value as prototype, NewX = MakeX + Construct, and
// each Construct first runs the embedded base's Construct.
func constructorChain(c *core.Ctx, R string) {
	c.Rule(R, "constructor chain: every MakeX of transports / engine builds the value, calls x.Prototype(x) with that same value (so that Proto() dispatches DoClose / OnData / OnRequest / DoWrite to the outermost override) and returns it; NewX calls MakeX, then Construct with its own parameters, and returns that value; a Construct of a type that embeds a base with Construct calls the base's Construct first (super call) with the same argument")
	n := 0
	for _, u := range c.P.Units {
		if u.Decl == nil || u.Decl.Recv != nil || u.Pkg == nil || u.Pkg.Types == nil {
			continue
		}
		pk := u.Pkg.Types.Name()
		if pk != "transports" && pk != "engine" {
			continue
		}
		name := u.Decl.Name.Name
		info := u.Info()
		switch {
		case strings.HasPrefix(name, "Make") && len(name) > 4:
			ps := u.CallsTo(".Prototype")
			if len(ps) == 0 {
				// required whenever the result type has a Prototype method (transports, servers); MakeSocket has none
				needs := false
				if u.Type.Results != nil && len(u.Type.Results.List) == 1 {
					if t := info.TypeOf(u.Type.Results.List[0].Type); t != nil {
						ms := types.NewMethodSet(t)
						for i := 0; i < ms.Len(); i++ {
							if ms.At(i).Obj().Name() == "Prototype" {
								needs = true
							}
						}
					}
				}
				if needs {
					n++
					c.Violate(R, keyf("%s.%s/Prototype(self)-then-return", pk, name), u.Pos(), "the made value never registers itself as prototype: Proto() dispatches to the embedded base instead of the outermost override")
				}
				continue
			}
			n++
			ok := len(ps) == 1 && ps[0].Recv != nil && len(ps[0].Expr.Args) == 1 && sameObj(info, ps[0].Recv, ps[0].Expr.Args[0])
			if ok {
				for _, r := range returnsIn(u) {
					ok = ok && len(r.Stmt.Results) == 1 && sameObj(info, r.Stmt.Results[0], ps[0].Recv) && u.Graph().Dominates(ps[0].Loc, r.Loc)
				}
			}
			c.Check(R, keyf("%s.%s/Prototype(self)-then-return", pk, name), u.Pos(), ok, "x.Prototype(x) on the value that is returned")
		case strings.HasPrefix(name, "New") && len(name) > 3:
			mk := u.CallsTo(pk + ".Make" + name[3:])
			if len(mk) != 1 {
				continue
			}
			n++
			cs := u.CallsTo(".Construct")
			ok := len(cs) == 1 && cs[0].Recv != nil
			if ok {
				d, isD := u.SingleDef(cs[0].Recv)
				ok = isD && ast.Unparen(d) == ast.Expr(mk[0].Expr)
				// forwards all its parameters in order
				np := 0
				if u.Type.Params != nil {
					for _, f := range u.Type.Params.List {
						np += len(f.Names)
					}
				}
				ok = ok && len(cs[0].Expr.Args) == np
				for i := 0; ok && i < np; i++ {
					ok = argIsParam(u, cs[0], i, i)
				}
				for _, r := range returnsIn(u) {
					ok = ok && len(r.Stmt.Results) == 1 && sameObj(info, r.Stmt.Results[0], cs[0].Recv) && u.Graph().Dominates(cs[0].Loc, r.Loc)
				}
			}
			c.Check(R, keyf("%s.%s/Make-then-Construct(params)", pk, name), u.Pos(), ok, "the value made is constructed with the caller's arguments and returned")
		}
	}
	// super calls
	for _, u := range c.P.Units {
		if u.Decl == nil || u.Decl.Recv == nil || u.Decl.Name.Name != "Construct" || u.Pkg == nil || u.Pkg.Types == nil || u.Pkg.Types.Name() != "transports" {
			continue
		}
		info := u.Info()
		rt := info.TypeOf(u.Decl.Recv.List[0].Type)
		if pt, ok := rt.(*types.Pointer); ok {
			rt = pt.Elem()
		}
		st, ok := rt.Underlying().(*types.Struct)
		if !ok {
			continue
		}
		hasBase := false
		for i := 0; i < st.NumFields(); i++ {
			if f := st.Field(i); f.Embedded() {
				ms := types.NewMethodSet(f.Type())
				for j := 0; j < ms.Len(); j++ {
					if ms.At(j).Obj().Name() == "Construct" {
						hasBase = true
					}
				}
			}
		}
		if !hasBase {
			continue
		}
		n++
		ok = false
		for _, cl := range u.CallsTo(".Construct") {
			if fs, isS := ast.Unparen(cl.Recv).(*ast.SelectorExpr); isS {
				if sel := info.Selections[fs]; sel != nil && sel.Kind() == types.FieldVal {
					if fv, _ := sel.Obj().(*types.Var); fv != nil && fv.Embedded() && len(cl.Expr.Args) == 1 && argIsParam(u, cl, 0, 0) {
						first := true
						for _, other := range u.Calls() {
							if other != cl && other.Pos() < cl.Pos() {
								first = false
							}
						}
						ok = first
					}
				}
			}
		}
		c.Check(R, u.Key+"/super-Construct-first", u.Pos(), ok, "the embedded base is constructed first, with the same context")
	}
	c.Need(R, "constructor-chain obligations", n, 12)
}
