package rules

import (
	"go/ast"
	"go/token"
	"go/types"
	"strings"

	"engcheck/core"
)

// This file holds "wiring" rules: calls that must exist, with the right
// arguments and on the right edge, for a property to have any chance of
// holding. They were added after a statement-deletion / condition-negation
// audit of the checker (cmd/mutaudit) showed that rules stated over existing
// constructs ("every X is guarded") pass vacuously when X is deleted.

// argIsParam: argument i of cl is the j-th parameter of u (or of an enclosing unit when outer is set).
func argIsParam(u *core.Unit, cl *core.Call, i, j int) bool {
	a := cl.Arg(i)
	if a == nil {
		return false
	}
	return isLocal(u.Info(), a, paramName(u, j))
}

// oneCall returns the single call in u (own body) whose key or ".name" matches, or nil.
func oneCall(u *core.Unit, keys ...string) *core.Call {
	cs := u.CallsTo(keys...)
	if len(cs) == 1 {
		return cs[0]
	}
	return nil
}

// lockBalance — every mutex acquired by a function of the listed packages is
// released on every exit (deferred unlock, or unlocked before each return).
func lockBalance(c *core.Ctx, R string, pkgs ...string) {
	c.Rule(R, "no lock leak: in every function of "+strings.Join(pkgs, ", ")+" that acquires a sync.Mutex/RWMutex, no return is reached with the lock still held unless its unlock is deferred (a leaked flushMu / transport mutex / container mutex blocks every later Send, write or access)")
	n := 0
	for _, u := range c.P.Units {
		in := false
		for _, p := range pkgs {
			if u.Pkg == c.P.Pkgs[p] {
				in = true
			}
		}
		if !in {
			continue
		}
		locks := false
		for _, cl := range u.Calls() {
			if cl.Callee != nil && cl.Callee.Pkg() != nil && cl.Callee.Pkg().Path() == "sync" && (cl.Name == "Lock" || cl.Name == "RLock") && !cl.Deferred {
				locks = true
			}
		}
		if !locks {
			continue
		}
		n++
		c.Touch(u)
		g := u.Graph()
		du := g.DeferredUnlocks()
		leak := ""
		for _, r := range returnsIn(u) {
			for k := range g.HeldAt(r.Loc) {
				if !du[k] {
					leak = keyf("%s held at the return at %s", k, c.P.PosStr(r.Stmt.Pos()))
				}
			}
		}
		c.Check(R, u.Key+"/locks-released-on-every-exit", u.Pos(), leak == "", leak)
	}
	c.Need(R, "functions that lock", n, 3)
}

// c01SendWiring — Send/Write hand the message to sendPacket.
func c01SendWiring(c *core.Ctx, R string) {
	c.Rule(R, "Send and Write are wired: each calls sendPacket(packet.MESSAGE, data, options, callback) with its own parameters in that order, unconditionally; sendPacket gives a packet without options the default {Compress: true} and builds the packet from its parameters (Type, Data, Options)")
	for _, k := range []string{"engine.(*socket).Send", "engine.(*socket).Write"} {
		u := c.Fn(R, k)
		if u == nil {
			continue
		}
		cl := oneCall(u, sockSendPkt)
		ok := cl != nil && !cl.Go && !cl.Deferred && pktConst(u.Info(), cl.Arg(0), "message") && argIsParam(u, cl, 1, 0) && argIsParam(u, cl, 2, 1) && argIsParam(u, cl, 3, 2)
		if ok {
			for _, r := range returnsIn(u) {
				ok = ok && u.Graph().Dominates(cl.Loc, r.Loc)
			}
		}
		c.Check(R, k+"→sendPacket(MESSAGE,data,options,callback)", u.Pos(), ok, "the application's message reaches the buffer")
	}
	sp := c.Fn(R, sockSendPkt)
	if sp == nil {
		return
	}
	info := sp.Info()
	g := sp.Graph()
	// packet literal
	lit := false
	ast.Inspect(sp.Body, func(n ast.Node) bool {
		cl, isC := n.(*ast.CompositeLit)
		if !isC || core.TypeName(info.TypeOf(cl)) != "Packet" {
			return true
		}
		got := map[string]bool{}
		for _, el := range cl.Elts {
			if kv, isKV := el.(*ast.KeyValueExpr); isKV {
				k, _ := kv.Key.(*ast.Ident)
				if k == nil {
					continue
				}
				switch k.Name {
				case "Type":
					got["Type"] = isLocal(info, kv.Value, paramName(sp, 0))
				case "Data":
					got["Data"] = isLocal(info, kv.Value, paramName(sp, 1))
				case "Options":
					got["Options"] = isLocal(info, kv.Value, paramName(sp, 2))
				}
			}
		}
		lit = got["Type"] && got["Data"] && got["Options"]
		return true
	})
	c.Check(R, sockSendPkt+"/packet{Type,Data,Options}=parameters", sp.Pos(), lit, "the buffered packet carries the caller's type, data and options")
	// default options on the nil edge
	on := paramName(sp, 2)
	okDef := false
	for _, a := range assignsIn(sp, func(l ast.Expr) bool { return isLocal(info, l, on) }) {
		compress := false
		ast.Inspect(a.Rhs, func(n ast.Node) bool {
			if kv, isKV := n.(*ast.KeyValueExpr); isKV {
				if k, _ := kv.Key.(*ast.Ident); k != nil && k.Name == "Compress" {
					if v, isC := core.ConstBool(info, kv.Value); isC && v {
						compress = true
					}
				}
			}
			return true
		})
		okDef = compress && g.GuardedBy(a.Loc, nilGuard(false, func(x *core.Unit, e ast.Expr) bool { return isLocal(x.Info(), e, on) }))
	}
	c.Check(R, sockSendPkt+"/nil-options→{Compress:true}", sp.Pos(), okDef, "caller-supplied options are kept; only a nil one gets the default")
}

// c03ConstructionWiring — NewSocket/Construct/setTransport wire the session.
func c03ConstructionWiring(c *core.Ctx, R string) {
	c.Rule(R, "construction wiring: NewSocket = MakeSocket + Construct(id, server, transport, ctx, protocol) with its parameters in order; Construct stores id, server, request and protocol from its parameters and calls setTransport(transport) ≺ onOpen(); setTransport stores &transport and wires error→onError(err[0]), ready→flush, packet→onPacket(packets[0]) (only when a packet is present), drain→onDrain, close→OnClose(\"transport close\"); Transport()/ReadyState() return the stored value on its present edge")
	if ns := c.Fn(R, newSocket); ns != nil {
		cl := oneCall(ns, "engine.(Socket).Construct", "engine.(*socket).Construct")
		ok := cl != nil
		for i := 0; ok && i < 5; i++ {
			ok = argIsParam(ns, cl, i, i)
		}
		mk := oneCall(ns, "engine.MakeSocket")
		ok = ok && mk != nil && ns.Graph().Dominates(mk.Loc, cl.Loc)
		c.Check(R, newSocket+"→MakeSocket≺Construct(params)", ns.Pos(), ok, "the session is constructed with the handshake's id, server, transport, request and revision")
	}
	if ct := c.Fn(R, "engine.(*socket).Construct"); ct != nil {
		info := ct.Info()
		g := ct.Graph()
		want := map[string]int{"socket.id": 0, "socket.server": 1, "socket.request": 3, "socket.protocol": 4}
		for f, pi := range want {
			ok := false
			for _, a := range fieldAssigns(ct, f) {
				if a.Rhs != nil && isLocal(info, a.Rhs, paramName(ct, pi)) && a.Tok == token.ASSIGN {
					ok = true
					for _, r := range returnsIn(ct) {
						ok = ok && g.Dominates(a.Loc, r.Loc)
					}
				}
			}
			c.Check(R, keyf("engine.(*socket).Construct/%s=param", f), ct.Pos(), ok, "field initialised from the constructor argument on every path")
		}
		st, oo := oneCall(ct, sockSetTr), oneCall(ct, sockOnOpen)
		ok := st != nil && oo != nil && argIsParam(ct, st, 0, 2) && g.Dominates(st.Loc, oo.Loc)
		if ok {
			for _, r := range returnsIn(ct) {
				ok = ok && g.Dominates(oo.Loc, r.Loc)
			}
		}
		c.Check(R, "engine.(*socket).Construct/setTransport(transport)≺onOpen", ct.Pos(), ok, "listeners are attached before the session opens")
	}
	if st := c.Fn(R, sockSetTr); st != nil {
		info := st.Info()
		// s.transport.Store(&transport)
		okStore := false
		for _, cl := range fieldCalls(st, "socket.transport") {
			if cl.Name == "Store" {
				if ue, isU := ast.Unparen(cl.Arg(0)).(*ast.UnaryExpr); isU && ue.Op == token.AND && isLocal(info, ue.X, paramName(st, 0)) && !cl.Deferred && !cl.Go {
					okStore = true
				}
			}
		}
		c.Check(R, sockSetTr+"/transport.Store(&transport)", st.Pos(), okStore, "the given transport becomes the session's current transport")
		bodies := []struct {
			kid, callee string
			check       func(k *core.Unit, cl *core.Call) bool
		}{
			{"onError", "engine.(*socket).onError", func(k *core.Unit, cl *core.Call) bool {
				ta, isTA := ast.Unparen(cl.Arg(0)).(*ast.TypeAssertExpr)
				if !isTA {
					return false
				}
				ix, isIx := ast.Unparen(ta.X).(*ast.IndexExpr)
				if !isIx {
					return false
				}
				v, isC := core.ConstInt(k.Info(), ix.Index)
				return isC && v == 0
			}},
			{"onReady", sockFlush, func(k *core.Unit, cl *core.Call) bool { return true }},
			{"onDrain", "engine.(*socket).onDrain", func(k *core.Unit, cl *core.Call) bool { return true }},
			{"onClose", sockOnClose, func(k *core.Unit, cl *core.Call) bool {
				r, _ := core.ConstString(k.Info(), cl.Arg(0))
				return r == "transport close"
			}},
			{"onPacket", sockOnPacket, func(k *core.Unit, cl *core.Call) bool {
				// guarded by len(packets) > 0
				pn := paramName(k, 0)
				return k.Graph().GuardedBy(cl.Loc, func(x *core.Unit, br core.Branch) int {
					cmp, ok := x.BranchCmp(br)
					if !ok {
						return 0
					}
					ce, isC := ast.Unparen(cmp.X).(*ast.CallExpr)
					if !isC || calleeNameOf(ce) != "len" || len(ce.Args) != 1 || !isLocal(x.Info(), ce.Args[0], pn) {
						return 0
					}
					if e, ok := lenPositive(cmp); ok {
						if e == 0 {
							return 1
						}
						return -1
					}
					return 0
				})
			}},
		}
		for _, b := range bodies {
			k := st.Kid(b.kid)
			ok := false
			if k != nil {
				c.Touch(k)
				if cl := oneCall(k, b.callee); cl != nil && !cl.Go && !cl.Deferred {
					ok = b.check(k, cl)
					if ok && b.kid != "onPacket" {
						for _, r := range returnsIn(k) {
							ok = ok && k.Graph().Dominates(cl.Loc, r.Loc)
						}
					}
				}
			}
			c.Check(R, keyf("%s$%s→%s", sockSetTr, b.kid, b.callee), st.Pos(), ok, "the transport event reaches the session handler")
		}
	}
	// accessors
	if tr := c.Fn(R, "engine.(*socket).Transport"); tr != nil {
		g := tr.Graph()
		ok := false
		for _, r := range returnsIn(tr) {
			if len(r.Stmt.Results) == 1 {
				if se, isS := ast.Unparen(r.Stmt.Results[0]).(*ast.StarExpr); isS {
					v := se.X
					ok = g.GuardedBy(r.Loc, nilGuard(true, func(x *core.Unit, e ast.Expr) bool { return sameObj(x.Info(), e, v) }))
				}
			}
		}
		c.Check(R, "engine.(*socket).Transport/deref-on-non-nil-edge", tr.Pos(), ok, "the stored transport is returned when present")
	}
	for _, k := range []string{"engine.(*socket).ReadyState", "transports.(*transport).ReadyState"} {
		if rs := c.Fn(R, k); rs != nil {
			g := rs.Graph()
			ok := false
			for _, r := range returnsIn(rs) {
				if len(r.Stmt.Results) == 1 {
					if d, isD := rs.SingleDef(r.Stmt.Results[0]); isD {
						if te, isT := d.(*core.TupleElem); isT && te.Index == 0 {
							// returned on the ok edge of the type assertion
							ok = g.GuardedBy(r.Loc, func(x *core.Unit, br core.Branch) int {
								if br.IsCase {
									return 0
								}
								dd, kk := x.SingleDef(br.Cond)
								if !kk {
									return 0
								}
								if t2, isT2 := dd.(*core.TupleElem); isT2 && t2.Index == 1 && t2.X == te.X {
									return 1
								}
								return 0
							})
						}
					}
				}
			}
			c.Check(R, k+"/value-on-ok-edge", rs.Pos(), ok, "the stored state is returned when present")
		}
	}
	_ = types.Universe
}

// c08UpgradeBranchWiring — the effects of the UPGRADE branch and of clearTransport.
func c08UpgradeBranchWiring(c *core.Ctx, R string) {
	c.Rule(R, "upgrade-branch wiring: on UPGRADE the old transport is discarded (Transport().Discard()) before clearTransport, upgrade is emitted with the candidate after setTransport, and a session that is closing gets candidate.Close(→ OnClose(\"forced close\")); clearTransport silences further errors of the old transport (On(\"error\", …)) and closes it (Transport().Close()); the probe text is read from the packet data (io.Copy into the builder) before it is compared")
	op := c.Fn(R, sockUpgrade+"$onPacket")
	if op != nil {
		g := op.Graph()
		info := op.Info()
		var disc, clr, st *core.Call
		for _, cl := range op.Calls() {
			switch {
			case cl.Name == "Discard":
				disc = cl
			case cl.Key == sockClearTr:
				clr = cl
			case cl.Key == sockSetTr:
				st = cl
			}
		}
		okDisc := disc != nil && clr != nil && g.Dominates(disc.Loc, clr.Loc)
		if okDisc {
			ce, isC := ast.Unparen(disc.Recv).(*ast.CallExpr)
			okDisc = isC && op.CalleeKey(ce) == "engine.(*socket).Transport"
		}
		c.Check(R, sockUpgrade+"$onPacket/Discard(old)≺clearTransport", op.Pos(), okDisc, "the old transport is flagged discarded so that its DoClose does not wait for a poll")
		up := filterEv(events(c, op), "emit", "session", "upgrade")
		okUp := len(up) == 1 && st != nil && g.Dominates(st.Loc, up[0].Loc) && isCandidate(op, up[0].Arg(1))
		c.Check(R, sockUpgrade+"$onPacket/setTransport≺emit(upgrade, candidate)", op.Pos(), okUp, "the application is told about the switch")
		// closing edge
		closing := stateIs(sockStateKeys, "closing")
		okCl := false
		for _, cl := range op.CallsTo("transports.(Transport).Close") {
			if len(cl.Expr.Args) == 1 && isCandidate(op, cl.Recv) && g.GuardedBy(cl.Loc, closing) {
				if k := closureArg(op, cl, 0); k != nil {
					for _, oc := range k.CallsTo(sockOnClose) {
						r, _ := core.ConstString(k.Info(), oc.Arg(0))
						okCl = r == "forced close"
					}
				}
			}
		}
		c.Check(R, sockUpgrade+"$onPacket/closing→candidate.Close(forced close)", op.Pos(), okCl, "a graceful close that was waiting completes on the new transport")
		// probe text read before compare
		okProbe := false
		for _, cl := range op.CallsTo("io.Copy") {
			if se, isS := ast.Unparen(cl.Arg(1)).(*ast.SelectorExpr); isS && fieldOf(info, se) == "Packet.Data" {
				// the builder it fills is the one compared with "probe"
				for _, f := range g.Facts() {
					cmp, ok := op.BranchCmp(f.Br)
					if ok && cmp.Val != nil && trimQuotes(cmp.Val.ExactString()) == "probe" {
						if ce, isC := ast.Unparen(cmp.X).(*ast.CallExpr); isC && calleeNameOf(ce) == "String" {
							if s2, isS2 := ce.Fun.(*ast.SelectorExpr); isS2 && sameObj(info, s2.X, cl.Arg(0)) {
								cond := core.Loc{B: f.Br.B, I: len(f.Br.B.Nodes) - 1}
								okProbe = g.Dominates(cl.Loc, cond)
							}
						}
					}
				}
			}
		}
		c.Check(R, sockUpgrade+"$onPacket/probe-text=packet.Data", op.Pos(), okProbe, "the probe comparison looks at the packet's own data")
	}
	ct := c.Fn(R, sockClearTr)
	if ct != nil {
		var silencer *Ev
		for _, e := range filterEv(events(c, ct), "on", "transport", "error") {
			silencer = e
		}
		var cls *core.Call
		for _, cl := range ct.CallsTo("transports.(Transport).Close") {
			if ce, isC := ast.Unparen(cl.Recv).(*ast.CallExpr); isC && ct.CalleeKey(ce) == "engine.(*socket).Transport" {
				cls = cl
			}
		}
		ok := silencer != nil && cls != nil && !cls.Go && !cls.Deferred && ct.Graph().Dominates(silencer.Loc, cls.Loc)
		if ok {
			for _, r := range returnsIn(ct) {
				ok = ok && ct.Graph().Dominates(cls.Loc, r.Loc)
			}
		}
		c.Check(R, sockClearTr+"/silence-errors≺Transport().Close()", ct.Pos(), ok, "the replaced (or closed) session's transport never stays open")
	}
}

// c18Polarity — branch polarities of the callback machinery.
func c18Polarity(c *core.Ctx, R string) {
	c.Rule(R, "polarity of the callback machinery: flush pushes the taken packetsFn group on its non-empty edge and nil on the other; onDrain runs the popped group on the err == nil edge of Shift")
	u := c.Fn(R, sockFlush)
	if u != nil {
		g := u.Graph()
		okPol := true
		n := 0
		for _, cl := range fieldCalls(u, "socket.sentCallbackFn") {
			if cl.Name != "Push" {
				continue
			}
			n++
			a := cl.Arg(0)
			nonEmpty := func(x *core.Unit, br core.Branch) int {
				cmp, ok := x.BranchCmp(br)
				if !ok {
					return 0
				}
				ce, isC := ast.Unparen(cmp.X).(*ast.CallExpr)
				if !isC || calleeNameOf(ce) != "len" || len(ce.Args) != 1 {
					return 0
				}
				d, k := x.SingleDef(ce.Args[0])
				if !k {
					return 0
				}
				dc, _ := ast.Unparen(d).(*ast.CallExpr)
				if dc == nil || calleeNameOf(dc) != "AllAndClear" {
					return 0
				}
				if se, isS := dc.Fun.(*ast.SelectorExpr); !isS || fieldOf(x.Info(), se.X) != "socket.packetsFn" {
					return 0
				}
				if e, ok := lenPositive(cmp); ok {
					if e == 0 {
						return 1
					}
					return -1
				}
				return 0
			}
			if core.IsNil(u.Info(), a) {
				// nil pushed only where the group is known to be empty
				if g.GuardedBy(cl.Loc, nonEmpty) {
					okPol = false
				}
			} else if _, isId := ast.Unparen(a).(*ast.Ident); isId {
				d, k := u.SingleDef(a)
				dc, _ := ast.Unparen(d).(*ast.CallExpr)
				if k && dc != nil && calleeNameOf(dc) == "AllAndClear" {
					// the taken group itself: either pushed unconditionally (single push) or on the non-empty edge
					if len(fieldCallsNamed(u, "socket.sentCallbackFn", "Push")) > 1 && !g.GuardedBy(cl.Loc, nonEmpty) {
						okPol = false
					}
				}
			}
		}
		c.Check(R, sockFlush+"/group-on-non-empty-edge,nil-otherwise", u.Pos(), okPol && n >= 1, "callbacks of the batch are queued exactly when there are some")
	}
	od := c.Fn(R, "engine.(*socket).onDrain")
	if od != nil {
		g := od.Graph()
		ok := false
		var shift *core.Call
		for _, cl := range fieldCalls(od, "socket.sentCallbackFn") {
			if cl.Name == "Shift" {
				shift = cl
			}
		}
		if shift != nil {
			ast.Inspect(od.Body, func(n ast.Node) bool {
				rs, isR := n.(*ast.RangeStmt)
				if !isR || !tupleOf(od, rs.X, shift.Expr, 0) {
					return true
				}
				ok = g.GuardedBy(g.LocOf(rs.X), nilGuard(false, func(x *core.Unit, e ast.Expr) bool { return tupleOf(x, e, shift.Expr, 1) }))
				return true
			})
		}
		c.Check(R, "engine.(*socket).onDrain/run-on-err==nil-edge", od.Pos(), ok, "the popped group runs only when a group was actually popped")
	}
}

func fieldCallsNamed(u *core.Unit, field, name string) []*core.Call {
	var out []*core.Call
	for _, cl := range fieldCalls(u, field) {
		if cl.Name == name {
			out = append(out, cl)
		}
	}
	return out
}

// casPolarity — the effects of a CompareAndSwap transition are on its success edge and the failure edge returns.
func casPolarity(c *core.Ctx, R string) {
	c.Rule(R, "CAS polarity: in onOpen and Close the transition's effects (SetSid/sendPacket/arming; closeTransport) are dominated by the success edge of the CompareAndSwap and its failure edge returns without effects; in OnClose the teardown and the close event are on the `previous != closed` edge")
	type row struct {
		unit    string
		effects func(cl *core.Call) bool
	}
	rows := []row{
		{sockOnOpen, func(cl *core.Call) bool {
			return cl.Name == "SetSid" || cl.Key == sockSendPkt || cl.Key == "engine.(*socket).schedulePing" || cl.Key == "engine.(*socket).resetPingTimeout"
		}},
		{sockClose, func(cl *core.Call) bool { return evKind(cl.Key) == "once" }},
	}
	for _, r := range rows {
		u := c.Fn(R, r.unit)
		if u == nil {
			continue
		}
		g := u.Graph()
		var cas *core.Call
		for _, cl := range fieldCalls(u, "socket.readyState") {
			if cl.Name == "CompareAndSwap" {
				cas = cl
			}
		}
		if cas == nil {
			c.Violate(R, r.unit+"/CAS-success-edge", u.Pos(), "no CompareAndSwap transition found")
			continue
		}
		succ := func(x *core.Unit, br core.Branch) int {
			if br.IsCase {
				return 0
			}
			e := ast.Unparen(br.Cond)
			if e == ast.Expr(cas.Expr) {
				return 1
			}
			if d, k := x.SingleDef(e); k && ast.Unparen(d) == ast.Expr(cas.Expr) {
				return 1
			}
			return 0
		}
		n := 0
		ok := true
		for _, cl := range u.Calls() {
			if r.effects(cl) {
				n++
				ok = ok && g.GuardedBy(cl.Loc, succ)
			}
		}
		// in Close the post-transition closeTransport (not the discard fast path, which precedes the CAS)
		if r.unit == sockClose {
			for _, cl := range u.CallsTo("engine.(*socket).closeTransport") {
				if g.CanFollow(cas.Loc, cl.Loc) {
					n++
					ok = ok && g.GuardedBy(cl.Loc, succ)
				}
			}
		}
		c.Check(R, r.unit+"/effects-on-CAS-success-edge", cas.Pos(), ok && n >= 1, keyf("%d effect(s), all on the success edge", n))
	}
}

// noBaseBypass — C11.8 / C12.3b / C03.8b: the transports use embedding as
// inheritance. A call through the embedded field (p.Transport.M(), j.Polling.M())
// runs the *base* implementation; where the embedding type overrides M that is a
// "super" call and is legitimate only inside the override itself. Anywhere
// else it silently skips the override (polling.OnClose is what releases a
// pending poll before the transport is marked closed).
func noBaseBypass(c *core.Ctx, R string) {
	c.Rule(R, "no bypass of an overriding method: in package transports a call through an embedded field (x.Transport.M / x.Polling.M) whose embedding struct type itself declares M is allowed only inside that overriding method (a super call); elsewhere the call must go through the outer value so that the override runs — polling.OnClose (release of the pending poll), polling.OnData, jsonp.OnData/DoWrite")
	n, supers := 0, 0
	for _, u := range c.P.Units {
		if u.Pkg == nil || u.Pkg.Types == nil || u.Pkg.Types.Name() != "transports" {
			continue
		}
		info := u.Info()
		for _, cl := range u.Calls() {
			if cl.Recv == nil {
				continue
			}
			fs, ok := ast.Unparen(cl.Recv).(*ast.SelectorExpr)
			if !ok {
				continue
			}
			sel := info.Selections[fs]
			if sel == nil || sel.Kind() != types.FieldVal {
				continue
			}
			fv, _ := sel.Obj().(*types.Var)
			if fv == nil || !fv.Embedded() {
				continue
			}
			// the embedding struct type
			outer := sel.Recv()
			if pt, ok := outer.(*types.Pointer); ok {
				outer = pt.Elem()
			}
			named, _ := types.Unalias(outer).(*types.Named)
			if named == nil {
				continue
			}
			n++
			overrides := false
			for i := 0; i < named.NumMethods(); i++ {
				if named.Method(i).Name() == cl.Name {
					overrides = true
				}
			}
			if !overrides {
				continue
			}
			supers++
			root := u.Root()
			inOverride := root.Decl != nil && root.Decl.Name.Name == cl.Name && root.Decl.Recv != nil && len(root.Decl.Recv.List) == 1 && core.TypeName(info.TypeOf(root.Decl.Recv.List[0].Type)) == named.Obj().Name() && u == root
			c.Check(R, keyf("%s/%s.%s.%s()", u.Key, named.Obj().Name(), fv.Name(), cl.Name), cl.Pos(), inOverride, keyf("%s overrides %s: the base implementation may be called only from the override itself", named.Obj().Name(), cl.Name))
		}
	}
	c.Need(R, "calls through an embedded transport field", n, 6)
	c.Need(R, "super calls inside their override", supers, 4)
}
