package rules

import (
	"go/ast"
	"go/token"
	"go/types"
	"strings"

	"engcheck/core"
)

func init() {
	register("C10", func(c *core.Ctx, tier string) {
		limitFailureReported(c, "C10.11")
		wsInflatedBound(c, "C10.9")
		v3BinaryPayloadCodec(c, "C10.10", true)
		pollingEffects(c, "C10.6")
		accessorAgreement(c, "C10.5")
		c10BoundedBody(c, "C10.1")
		c10DeclaredLength(c)
		c10LimitBeforeRead(c, "C10.3")
		wtReadLimit(c, "C10.4")
		wtClampAndSkip(c, "C10.5")
		c06OptionHandover(c) // the polling / webtransport limits come from MaxHttpBufferSize (C06.7)
	})
}

// isRequestBody: e is <x>.Request().Body (possibly through a local).
func isRequestBody(u *core.Unit, e ast.Expr) bool {
	d, ok := u.SingleDef(e)
	if !ok {
		return false
	}
	se, isS := ast.Unparen(d).(*ast.SelectorExpr)
	if !isS || se.Sel.Name != "Body" {
		return false
	}
	if v, isV := core.ObjOf(u.Info(), se).(*types.Var); isV && v.IsField() && v.Pkg() != nil && v.Pkg().Path() == "net/http" {
		return true
	}
	return false
}

func limitFromOption(u *core.Unit, e ast.Expr) bool {
	ch := calleeChain(u, u.Resolve(e))
	return len(ch) >= 1 && strings.HasSuffix(ch[len(ch)-1], ".MaxHttpBufferSize")
}

func c10BoundedBody(c *core.Ctx, R string) {
	c.Rule(R, "bounded body read: every use of a request body (http.Request.Body) in /repo other than Close and nil tests passes it to http.MaxBytesReader / io.LimitReader with a limit taken from MaxHttpBufferSize(); a Content-Length comparison alone does not bound a chunked or mis-declared body")
	n := 0
	for _, u := range c.P.Units {
		info := u.Info()
		var uses []ast.Expr
		ast.Inspect(u.Body, func(nd ast.Node) bool {
			if _, isLit := nd.(*ast.FuncLit); isLit {
				return false
			}
			switch x := nd.(type) {
			case *ast.Ident:
				if v, isV := core.ObjOf(info, x).(*types.Var); isV && !v.IsField() && info.Uses[x] != nil && isRequestBody(u, x) {
					uses = append(uses, x)
				}
			}
			return true
		})
		if len(uses) == 0 {
			continue
		}
		c.Touch(u)
		// classify each use by its enclosing call
		for _, cl := range u.Calls() {
			for ai, a := range cl.Expr.Args {
				id, isId := ast.Unparen(a).(*ast.Ident)
				if !isId {
					continue
				}
				hit := false
				for _, x := range uses {
					if x == ast.Expr(id) {
						hit = true
					}
				}
				if !hit {
					continue
				}
				n++
				switch cl.Key {
				case "net/http.MaxBytesReader":
					c.Check(R, keyf("%s/body→MaxBytesReader(limit)", u.Key), cl.Pos(), ai == 1 && limitFromOption(u, cl.Arg(2)), "limit = MaxHttpBufferSize()")
				case "io.LimitReader":
					c.Check(R, keyf("%s/body→LimitReader(limit)", u.Key), cl.Pos(), ai == 0 && limitFromOption(u, stripAddOne(info, cl.Arg(1))), "limit derives from MaxHttpBufferSize()")
				default:
					c.Violate(R, keyf("%s/body→%s(unbounded)", u.Key, cl.Name), cl.Pos(), "the request body is read without a limit: a body without Content-Length is consumed and delivered whatever its size")
				}
			}
			// method calls on the body itself
			if cl.Recv != nil {
				if id, isId := ast.Unparen(cl.Recv).(*ast.Ident); isId {
					for _, x := range uses {
						if x == ast.Expr(id) && cl.Name != "Close" {
							n++
							c.Violate(R, keyf("%s/body.%s(unbounded)", u.Key, cl.Name), cl.Pos(), "direct read of the request body")
						}
					}
				}
			}
		}
	}
	c.Need(R, "request-body read sites", n, 1)
	// the limited reader is what is actually drained
	if od := c.Fn(R, "transports.(*polling).onDataRequest"); od != nil {
		ok := false
		for _, cl := range od.Calls() {
			if cl.Name == "ReadFrom" {
				_, key := od.AsCall(cl.Arg(0))
				ok = key == "net/http.MaxBytesReader" || key == "io.LimitReader"
			}
		}
		c.Check(R, "transports.(*polling).onDataRequest/ReadFrom(limited)", od.Pos(), ok, "the payload buffer is filled from the limited reader")
		// overflow answered 413
		g := od.Graph()
		tooLarge := false
		for _, cl := range od.Calls() {
			if cl.Name == "SetStatusCode" {
				if v, isC := core.ConstInt(od.Info(), cl.Arg(0)); isC && v == 413 {
					if g.GuardedBy(cl.Loc, boolCallGuard(true, "errors.As")) {
						tooLarge = true
					}
				}
			}
		}
		c.Check(R, "transports.(*polling).onDataRequest/overflow→413", od.Pos(), tooLarge, "exceeding the limit while reading is answered 413")
	}
}

func stripAddOne(info *types.Info, e ast.Expr) ast.Expr {
	terms, _ := linear(info, e)
	if len(terms) == 1 && terms[0].Sign == 1 {
		return terms[0].E
	}
	return e
}

func c10DeclaredLength(c *core.Ctx) {
	const R = "C10.2"
	c.Rule(R, "declared length refused early: in onDataRequest `ContentLength > MaxHttpBufferSize()` is tested before the body is read; its true edge runs cleanup(), sets status 413 (StatusRequestEntityTooLarge) and writes the response without reading the body")
	u := c.Fn(R, "transports.(*polling).onDataRequest")
	if u == nil {
		return
	}
	g := u.Graph()
	info := u.Info()
	declared := func(x *core.Unit, br core.Branch) int {
		cmp, ok := x.BranchCmp(br)
		if !ok || cmp.Y == nil {
			return 0
		}
		isCL := func(e ast.Expr) bool {
			se, isS := ast.Unparen(e).(*ast.SelectorExpr)
			return isS && se.Sel.Name == "ContentLength"
		}
		if isCL(cmp.X) && limitFromOption(x, cmp.Y) && cmp.Op == token.GTR {
			return 1
		}
		if isCL(cmp.Y) && limitFromOption(x, cmp.X) && cmp.Op == token.LSS {
			return 1
		}
		return 0
	}
	var status, write, clean *core.Call
	for _, cl := range u.Calls() {
		if !g.GuardedBy(cl.Loc, declared) {
			continue
		}
		switch {
		case cl.Name == "SetStatusCode":
			status = cl
		case cl.Key == "types.(*HttpContext).Write":
			write = cl
		case cl.Callee == nil && cl.Name == "cleanup":
			clean = cl
		}
	}
	ok := status != nil && write != nil && clean != nil
	if ok {
		v, isC := core.ConstInt(info, status.Arg(0))
		ok = isC && v == 413 && g.Dominates(clean.Loc, write.Loc) && g.Dominates(status.Loc, write.Loc)
	}
	c.Check(R, "transports.(*polling).onDataRequest/declared-too-large→cleanup,413,write", u.Pos(), ok, "oversized declared bodies are refused with 413")
	// the body read is on the pass edge
	okRead := false
	for _, cl := range u.Calls() {
		if cl.Name == "ReadFrom" {
			okRead = g.GuardedBy(cl.Loc, func(x *core.Unit, br core.Branch) int { return -declared(x, br) })
		}
	}
	c.Check(R, "transports.(*polling).onDataRequest/read-only-after-length-test", u.Pos(), okRead, "the body is read only when the declared length is within the limit")
}

func c10LimitBeforeRead(c *core.Ctx, R string) {
	c.Rule(R, "limit installed before the first read: HandleUpgrade sets conn.SetReadLimit(Opts().MaxHttpBufferSize()) before onWebSocket on the upgrade-success edge; OnWebTransportSession sets wtc.SetReadLimit(Opts().MaxHttpBufferSize()) before the first NextReader and stores that same Conn in ctx.WebTransport")
	if hu := c.Fn(R, "engine.(*server).HandleUpgrade"); hu != nil {
		cb := c.KidOf(R, hu, "callback")
		if cb != nil {
			g := cb.Graph()
			var lim, ows *core.Call
			for _, cl := range cb.Calls() {
				if cl.Name == "SetReadLimit" {
					lim = cl
				}
				if cl.Key == srvOnWS {
					ows = cl
				}
			}
			ok := lim != nil && ows != nil && g.Dominates(lim.Loc, ows.Loc) && limitFromOption(cb, lim.Arg(0))
			c.Check(R, "engine.(*server).HandleUpgrade$callback/SetReadLimit≺onWebSocket", cb.Pos(), ok, "gorilla enforces the limit from the first frame")
		}
	}
	if wt := c.Fn(R, srvOnWT); wt != nil {
		g := wt.Graph()
		info := wt.Info()
		var lim, nr *core.Call
		for _, cl := range wt.Calls() {
			if cl.Name == "SetReadLimit" {
				lim = cl
			}
			if cl.Name == "NextReader" && nr == nil {
				nr = cl
			}
		}
		ok := lim != nil && nr != nil && g.Dominates(lim.Loc, nr.Loc) && limitFromOption(wt, lim.Arg(0)) && sameObj(info, lim.Recv, nr.Recv)
		// stored in ctx.WebTransport
		stored := false
		for _, a := range fieldAssigns(wt, "HttpContext.WebTransport") {
			ast.Inspect(a.Rhs, func(n ast.Node) bool {
				if kv, isKV := n.(*ast.KeyValueExpr); isKV && lim != nil && sameObj(info, kv.Value, lim.Recv) {
					stored = true
				}
				return true
			})
		}
		c.Check(R, srvOnWT+"/SetReadLimit≺NextReader∧stored", wt.Pos(), ok && stored, "the limited connection is the one read from and handed to the transport")
	}
}
