package rules

import (
	"go/ast"
	"go/token"
	"go/types"
	"sort"
	"strings"

	"engcheck/core"
)

func init() {
	register("C18", func(c *core.Ctx, tier string) {
		packetAndCallbackPaired(c, "C18.10")
		closeSerialisedWithFlush(c, "C18.12")
		c18PacketCreate(c)
		c18FlushSkeleton(c)
		c18NoLateCallbacks(c)
		takeAndSend(c, "C18.9") // the value announced by the flush events is the value taken from the buffer and handed over
		c20Snapshot(c, "C18.2b")
		sliceFifoShapes(c, "C18.2c")
		c01AtomicTake(c)
		c18QueueAlignment(c)
		c18Polarity(c, "C18.3b")
		lockBalance(c, "C18.7", "engine", "transports", "types", "utils")
		c18TransportDrain(c)
		c03CloseEpilogue(c) // C18.5 = C03.3: both callback queues are dropped before the close event
		c18NotHeld(c)
	})
}

func c18PacketCreate(c *core.Ctx) {
	const R = "C18.1"
	c.Rule(R, "in sendPacket, on the accepted edge: exactly one Emit(\"packetCreate\", packet) ≺ writeBuffer.Push(packet) ≺ [packetsFn.Push(callback) iff callback != nil] ≺ flush(), all with the same packet value")
	u := c.Fn(R, sockSendPkt)
	if u == nil {
		return
	}
	info := u.Info()
	g := u.Graph()
	pcs := filterEv(events(c, u), "emit", "session", "packetCreate")
	var push, cbPush, fl *core.Call
	for _, cl := range u.Calls() {
		if cl.Name == "Push" && cl.Recv != nil && fieldOf(info, cl.Recv) == "socket.writeBuffer" {
			push = cl
		}
		if cl.Name == "Push" && cl.Recv != nil && fieldOf(info, cl.Recv) == "socket.packetsFn" {
			cbPush = cl
		}
		if cl.Key == sockFlush {
			fl = cl
		}
	}
	ok := len(pcs) == 1 && push != nil && fl != nil && cbPush != nil
	if ok {
		same := sameObj(info, pcs[0].Arg(1), push.Arg(0))
		inLoop := g.Reach(g.After(pcs[0].Loc), func(s core.State) bool { return s.B == pcs[0].Loc.B && s.I == pcs[0].Loc.I }, nil, nil)
		cbGuard := g.GuardedBy(cbPush.Loc, nilGuard(true, func(x *core.Unit, e ast.Expr) bool { return isLocal(x.Info(), e, paramName(u, 3)) })) &&
			isLocal(info, cbPush.Arg(0), paramName(u, 3))
		ok = same && !inLoop && g.Dominates(pcs[0].Loc, push.Loc) && g.Dominates(push.Loc, fl.Loc) &&
			g.Dominates(push.Loc, cbPush.Loc) && g.CanFollow(cbPush.Loc, fl.Loc) && cbGuard
	}
	c.Check(R, sockSendPkt+"/packetCreate≺Push≺callback≺flush", u.Pos(), ok, keyf("%d packetCreate emit site(s); order and same packet value", len(pcs)))
}

func c18FlushSkeleton(c *core.Ctx) {
	const R = "C18.2"
	c.Rule(R, "in flush, on the non-empty edge: Emit(\"flush\", wbuf) ≺ server.Emit(\"flush\", s, wbuf) ≺ sentCallbackFn.Push ≺ Transport().Send(wbuf) ≺ Emit(\"drain\") ≺ server.Emit(\"drain\", s), once each, the same wbuf in all three uses, none of them on the empty-buffer or not-writable edge")
	u := c.Fn(R, sockFlush)
	if u == nil {
		return
	}
	_ = u.Info()
	g := u.Graph()
	pick := func(class, ev string) *Ev {
		l := filterEv(events(c, u), "emit", class, ev)
		if len(l) == 1 {
			return l[0]
		}
		return nil
	}
	fs, fsv, ds, dsv := pick("session", "flush"), pick("server", "flush"), pick("session", "drain"), pick("server", "drain")
	var send *core.Call
	for _, cl := range u.CallsTo("transports.(Transport).Send") {
		send = cl
	}
	var pushes []*core.Call
	for _, cl := range fieldCalls(u, "socket.sentCallbackFn") {
		if cl.Name == "Push" {
			pushes = append(pushes, cl)
		}
	}
	if !c.Exists(R, sockFlush+"/skeleton-present", u.Pos(), fs != nil && fsv != nil && ds != nil && dsv != nil && send != nil && len(pushes) >= 1,
		"one session flush, one server flush, one session drain, one server drain emit, one Send, ≥1 sentCallbackFn.Push") {
		return
	}
	var pushLocs []core.Loc
	for _, p := range pushes {
		pushLocs = append(pushLocs, p.Loc)
	}
	order := g.Dominates(fs.Loc, fsv.Loc) && g.DominatesAny(pushLocs, send.Loc) && g.Dominates(send.Loc, ds.Loc) && g.Dominates(ds.Loc, dsv.Loc)
	for _, p := range pushes {
		order = order && g.Dominates(fsv.Loc, p.Loc)
	}
	c.Check(R, sockFlush+"/flush≺flush@server≺push≺Send≺drain≺drain@server", u.Pos(), order, "event and hand-off order")
	same := sameVal(u, fs.Arg(1), send.Arg(0)) && sameVal(u, fsv.Arg(2), send.Arg(0))
	c.Check(R, sockFlush+"/same-batch-in-events-and-Send", fs.Pos(), same, "the flush events carry exactly the packets handed to the transport")
	// non-empty guard: len(wbuf) > 0
	nonEmpty := func(x *core.Unit, br core.Branch) int {
		cmp, ok := x.BranchCmp(br)
		if !ok {
			return 0
		}
		ce, isC := ast.Unparen(cmp.X).(*ast.CallExpr)
		if !isC || calleeNameOf(ce) != "len" || len(ce.Args) != 1 || !sameObj(x.Info(), ce.Args[0], send.Arg(0)) {
			return 0
		}
		if ge, ok := lenPositive(cmp); ok {
			if ge == 0 {
				return 1
			}
			return -1
		}
		return 0
	}
	for _, e := range []*Ev{fs, fsv, ds, dsv} {
		okG := g.GuardedBy(e.Loc, nonEmpty) && g.GuardedBy(e.Loc, writableTrue())
		c.Check(R, keyf("%s/emit(%s)@%s-only-on-handoff", sockFlush, e.Event, e.Class), e.Pos(), okG, "emitted only when a non-empty batch is handed to a writable transport")
	}
	noLoop := func(l core.Loc) bool {
		return !g.Reach(g.After(l), func(s core.State) bool { return s.B == l.B && s.I == l.I }, nil, nil)
	}
	c.Check(R, sockFlush+"/once-each", u.Pos(), noLoop(fs.Loc) && noLoop(ds.Loc) && noLoop(send.Loc), "no cycle contains the events or the Send")
}

// C18.8 — callbacks of a closed session are dropped, not run late. Two sites
// cooperate: (a) flush takes the pending callbacks (packetsFn.AllAndClear)
// only after its flush events, so a listener that closes the session — which
// clears both queues — cannot be followed by a Push of callbacks taken before
// the close; (b) the transport's drain listener (onDrain) is detached by the
// cleanup closure, so a drain of the torn-down transport cannot pop what (a)
// might have left. Either half alone keeps the behaviour (a stale group that
// nothing pops, or a stale listener that finds empty queues): the rule is
// violated only when both are gone.
func c18NoLateCallbacks(c *core.Ctx) {
	const R = "C18.8"
	c.Rule(R, "no late send callbacks (two-site, disjunctive): in flush the callbacks pushed to sentCallbackFn are taken by packetsFn.AllAndClear() after both flush events (no application listener runs between taking and queueing them), OR setTransport's cleanup closure removes the (drain, onDrain) listener from the transport — with neither, a session closed by a flush listener queues callbacks after OnClose cleared the queues and the torn-down transport's drain runs them after the close event")
	fl := c.Fn(R, sockFlush)
	st := c.Fn(R, sockSetTr)
	if fl == nil || st == nil {
		return
	}
	g := fl.Graph()
	var take *core.Call
	for _, cl := range fieldCalls(fl, "socket.packetsFn") {
		if cl.Name == "AllAndClear" {
			take = cl
		}
	}
	var lastFlush *Ev
	for _, e := range filterEv(events(c, fl), "emit", "", "flush") {
		if lastFlush == nil || g.Dominates(lastFlush.Loc, e.Loc) {
			lastFlush = e
		}
	}
	halfA := take != nil && lastFlush != nil && g.Dominates(lastFlush.Loc, take.Loc)
	halfB := false
	var cleanup *core.Unit
	for _, cl := range st.Calls() {
		if cl.Name == "Push" && cl.Recv != nil && fieldOf(st.Info(), cl.Recv) == "socket.cleanupFn" {
			cleanup = closureArg(st, cl, 0)
		}
	}
	if cleanup != nil {
		c.Touch(cleanup)
		regs := regSites(c, st, "on", "once")
		rems := regSites(c, cleanup, "remove")
		for _, r := range regs {
			if r.ev.Event != "drain" {
				continue
			}
			for _, m := range rems {
				if m.ev.Event == "drain" && m.listener != nil && m.listener == r.listener && m.recvObj == r.recvObj {
					halfB = true
				}
			}
		}
	}
	c.Check(R, sockFlush+"/callbacks-taken-after-flush-events ∨ "+sockSetTr+"/drain-listener-detached", fl.Pos(), halfA || halfB,
		keyf("callbacks taken after the flush events: %v; drain listener removed by the transport cleanup: %v — with both false a send callback can run after the close event", halfA, halfB))
}

func c18QueueAlignment(c *core.Ctx) {
	const R = "C18.3"
	c.Rule(R, "callback queue alignment: exactly one group is pushed to sentCallbackFn per hand-off on every path (the packetsFn.AllAndClear() result or nil), onDrain pops exactly one group per transport drain and runs its functions in slice order; sentCallbackFn is mutated only by flush (Push), onDrain (Shift), OnClose (Clear); packetsFn only by sendPacket (Push), flush (AllAndClear), OnClose (Clear)")
	u := c.Fn(R, sockFlush)
	if u != nil {
		g := u.Graph()
		var pushes []*core.Call
		for _, cl := range fieldCalls(u, "socket.sentCallbackFn") {
			if cl.Name == "Push" {
				pushes = append(pushes, cl)
			}
		}
		var send *core.Call
		for _, cl := range u.CallsTo("transports.(Transport).Send") {
			send = cl
		}
		ok := send != nil && len(pushes) >= 1
		if ok {
			var locs []core.Loc
			for _, p := range pushes {
				locs = append(locs, p.Loc)
			}
			ok = g.DominatesAny(locs, send.Loc)
			for i := range pushes {
				for j := range pushes {
					if i != j && g.CanFollow(pushes[i].Loc, pushes[j].Loc) {
						ok = false
					}
				}
			}
			// what is pushed: the taken packetsFn group, or nil
			// what is pushed: nil / the zero value, the packetsFn.AllAndClear()
			// value, or a local every definition of which is one of those
			// (followed through locals, so `group = packetsFn` is the taken group)
			var isTaken func(e ast.Expr, depth int) bool
			isTaken = func(e ast.Expr, depth int) bool {
				if e == nil || depth > 4 {
					return false
				}
				if _, isZero := e.(*core.ZeroValue); isZero {
					return true
				}
				if core.IsNil(u.Info(), e) {
					return true
				}
				if ce, isCall := ast.Unparen(e).(*ast.CallExpr); isCall {
					if calleeNameOf(ce) != "AllAndClear" {
						return false
					}
					se, isS := ce.Fun.(*ast.SelectorExpr)
					return isS && fieldOf(u.Info(), se.X) == "socket.packetsFn"
				}
				v, _ := core.ObjOf(u.Info(), e).(*types.Var)
				if v == nil {
					return false
				}
				defs := u.DefsOf(v)
				if len(defs) == 0 {
					return false
				}
				for _, d := range defs {
					if !isTaken(d, depth+1) {
						return false
					}
				}
				return true
			}
			for _, p := range pushes {
				if !isTaken(p.Arg(0), 0) {
					ok = false
				}
			}
		}
		c.Check(R, sockFlush+"/one-group-per-handoff", u.Pos(), ok, keyf("%d Push sites, exactly one on every path to Send, value = packetsFn.AllAndClear() or nil", len(pushes)))
		// the callbacks travel with their packets: they are taken exactly when packets were taken, and a nil group is
		// queued only when no callback was taken (mutation audit round 4: both conditions could be negated unnoticed)
		takenFrom := func(field string) func(x *core.Unit, e ast.Expr) bool {
			return func(x *core.Unit, e ast.Expr) bool {
				v, _ := core.ObjOf(x.Info(), e).(*types.Var)
				if v == nil {
					return false
				}
				for _, d := range x.DefsOf(v) {
					if ce, isCall := ast.Unparen(d).(*ast.CallExpr); isCall && calleeNameOf(ce) == "AllAndClear" {
						if se, isS := ce.Fun.(*ast.SelectorExpr); isS && fieldOf(x.Info(), se.X) == field {
							return true
						}
					}
				}
				return false
			}
		}
		havePackets := lenNonEmpty(takenFrom("socket.writeBuffer"))
		haveCallbacks := lenNonEmpty(takenFrom("socket.packetsFn"))
		okTake, takes := true, 0
		for _, cl := range fieldCalls(u, "socket.packetsFn") {
			if cl.Name == "AllAndClear" {
				takes++
				okTake = okTake && g.GuardedBy(cl.Loc, havePackets)
			}
		}
		okNil := true
		for _, p := range pushes {
			if core.IsNil(u.Info(), p.Arg(0)) && !g.GuardedBy(p.Loc, gNot(haveCallbacks)) {
				okNil = false
			}
			okNil = okNil && g.GuardedBy(p.Loc, havePackets)
		}
		c.Check(R, sockFlush+"/callbacks-taken-with-their-packets", u.Pos(), takes >= 1 && okTake && okNil, keyf("%d take(s) of packetsFn, each on the edge where packets were taken: %v; every Push on that edge, a literal nil only where no callback was taken: %v", takes, okTake, okNil))
	}
	od := c.Fn(R, "engine.(*socket).onDrain")
	if od != nil {
		var shifts []*core.Call
		for _, cl := range fieldCalls(od, "socket.sentCallbackFn") {
			if cl.Name == "Shift" {
				shifts = append(shifts, cl)
			}
		}
		ok := len(shifts) == 1
		if ok {
			// range over the shifted group, calling the range value once
			ok = false
			ast.Inspect(od.Body, func(n ast.Node) bool {
				rs, isR := n.(*ast.RangeStmt)
				if !isR || !tupleOf(od, rs.X, shifts[0].Expr, 0) {
					return true
				}
				v, isId := rs.Value.(*ast.Ident)
				if !isId {
					return true
				}
				calls := 0
				ast.Inspect(rs.Body, func(x ast.Node) bool {
					if ce, isC := x.(*ast.CallExpr); isC && isLocal(od.Info(), ce.Fun, v.Name) {
						calls++
					}
					return true
				})
				ok = calls == 1
				return true
			})
		}
		c.Check(R, "engine.(*socket).onDrain/one-Shift-run-in-order", od.Pos(), ok, "one group popped per drain; its callbacks run once each in slice order")
	}
	n := whoMutates(c, R, "socket.sentCallbackFn", map[string][]string{"Push": {sockFlush}, "Shift": {"engine.(*socket).onDrain"}, "Clear": {sockOnClose}})
	n += whoMutates(c, R, "socket.packetsFn", map[string][]string{"Push": {sockSendPkt}, "AllAndClear": {sockFlush}, "Clear": {sockOnClose}})
	c.Need(R, "mutations of the callback queues", n, 6)
}

func c18TransportDrain(c *core.Ctx) {
	const R = "C18.4"
	c.Rule(R, "callbacks cannot run before their flush event: a group is pushed after Emit(\"flush\") (C18.2) and popped only by a transport drain, which transports emit only from their send completion: polling.write's DoWrite callback on the err == nil edge, and the deferred epilogue of websocket.send / webTransport.send")
	allowed := map[string]bool{"transports.(*websocket).send$defer": true, "transports.(*webTransport).send$defer": true}
	n := 0
	for _, u := range c.P.Units {
		for _, e := range filterEv(events(c, u), "emit", "transport", "drain") {
			n++
			c.Touch(u)
			ok := allowed[u.Key]
			if !ok && u.Owner() != nil && u.Owner().Key == "transports.(*polling).write" {
				// the callback passed to DoWrite, on its err == nil edge
				pn := paramName(u, 0)
				ok = u.Graph().GuardedBy(e.Loc, nilGuard(false, func(x *core.Unit, ex ast.Expr) bool { return isLocal(x.Info(), ex, pn) }))
				used := false
				for _, cl := range u.Owner().Calls() {
					if cl.Name == "DoWrite" && closureArg(u.Owner(), cl, 3) == u {
						used = true
					}
				}
				ok = ok && used
			}
			c.Check(R, keyf("%s/emit(drain)@transport", u.Key), e.Pos(), ok, "transport drain is emitted only on send completion")
		}
	}
	c.Need(R, "transport drain emit sites", n, 3)
	// the session listens to transport drain with onDrain (wired in setTransport)
	if st := c.Fn(R, sockSetTr); st != nil {
		ok := false
		for _, e := range filterEv(events(c, st), "on", "transport", "drain") {
			if k := closureArg(st, e.Call, 1); k != nil && len(k.CallsTo("engine.(*socket).onDrain")) == 1 {
				ok = true
			}
		}
		c.Check(R, sockSetTr+"/On(drain)→onDrain", st.Pos(), ok, "transport drain is wired to onDrain")
	}
}

// appCallbackSite is a point where application code may run.
type appSite struct {
	u    *core.Unit
	loc  core.Loc
	call *core.Call
	what string
}

// wireListeners adds Emit→listener edges for every (class, event) pair registered in /repo.
func wireListeners(c *core.Ctx, lc *core.LockCtx) int {
	type ke struct{ class, ev string }
	listeners := map[ke][]*core.Unit{}
	for _, u := range c.P.Units {
		for _, e := range events(c, u) {
			if (e.Kind != "on" && e.Kind != "once") || e.Event == "" {
				continue
			}
			for i := 1; i < len(e.Expr.Args); i++ {
				if k := closureArg(u, e.Call, i); k != nil {
					listeners[ke{e.Class, e.Event}] = append(listeners[ke{e.Class, e.Event}], k)
				}
			}
		}
	}
	n := 0
	for _, u := range c.P.Units {
		for _, e := range events(c, u) {
			if e.Kind != "emit" || e.Event == "" {
				continue
			}
			for _, l := range listeners[ke{e.Class, e.Event}] {
				lc.AddEdge(u, e.Loc, l, keyf("Emit(%q)@%s at %s", e.Event, e.Class, c.P.PosStr(e.Pos())))
				n++
			}
		}
	}
	return n
}

func c18NotHeld(c *core.Ctx) {
	const R = "C18.6"
	c.Rule(R, "NOT-HELD(locks @ application callbacks): where application code can run (an Emit on a session or server, a SendCallback, the AllowRequest hook, a middleware) no mutex may be held that Socket.Send/Write/Close can re-acquire on the same goroutine (synchronous static call graph, go statements cut the chain, interface calls by CHA, listener edges from the repo's own On/Once registrations, deferred calls ordered LIFO); may-held sets are propagated interprocedurally")
	var roots []*core.Unit
	for _, k := range []string{"engine.(*socket).Send", "engine.(*socket).Write", "engine.(*socket).Close"} {
		if u := c.Fn(R, k); u != nil {
			roots = append(roots, u)
		}
	}
	acq := c.P.SyncAcquires(roots...)
	// only mutexes of repository-wide objects matter (a session / transport / context / container instance)
	reacq := map[string][]string{}
	for k, chain := range acq {
		if strings.Contains(k, ".") {
			reacq[k] = chain
		}
	}
	// the same, from Close alone: a lock that Close can take is reported under its own construct, so that a
	// recorded Send re-entry finding does not hide a new Close re-entry on the same emit
	reacqClose := map[string][]string{}
	if len(roots) == 3 {
		for k, chain := range c.P.SyncAcquires(roots[2]) {
			if strings.Contains(k, ".") {
				reacqClose[k] = chain
			}
		}
	}
	var rl []string
	for k := range reacq {
		rl = append(rl, k)
	}
	sort.Strings(rl)
	c.Note("mutexes re-acquirable synchronously from Socket.Send/Write/Close: " + strings.Join(rl, ", "))
	c.Check(R, "engine.(*socket).Send/re-acquires-flushMu", roots[0].Pos(), len(reacq["socket.flushMu"]) > 0, keyf("Send → sendPacket → flush locks flushMu: %v", reacq["socket.flushMu"]))

	lc := core.NewLockCtx(c.P)
	nEdges := wireListeners(c, lc)
	lc.Compute()
	c.Note(keyf("listener edges wired: %d", nEdges))

	// container locks are instance-specific: holding cleanupFn's Slice.mu does not block Send (which locks other Slice instances);
	// they are reported only if the same field instance is involved — out of reach statically, so Slice/Set/Map/ParameterBag
	// internal mutexes are excluded and the exclusion is stated here.
	excluded := map[string]bool{"Slice.mu": true, "Set.mu": true, "Map.mu": true, "ParameterBag.mu": true}

	var sites []appSite
	for _, u := range c.P.Units {
		if u.Pkg == c.P.Pkgs["types"] && (strings.Contains(u.Key, "emmiter") || strings.Contains(u.Key, "oneTimeListener")) {
			continue
		}
		for _, e := range events(c, u) {
			if e.Kind == "emit" && (e.Class == "session" || e.Class == "server") {
				sites = append(sites, appSite{u, e.Loc, e.Call, keyf("emit(%s)@%s", e.Event, e.Class)})
			}
		}
		for _, cl := range u.Calls() {
			if cl.Callee != nil {
				continue
			}
			t := u.Info().TypeOf(cl.Expr.Fun)
			if t == nil {
				continue
			}
			switch core.TypeName(t) {
			case "SendCallback":
				sites = append(sites, appSite{u, cl.Loc, cl, "SendCallback"})
			case "Middleware":
				sites = append(sites, appSite{u, cl.Loc, cl, "middleware"})
			case "AllowRequest":
				sites = append(sites, appSite{u, cl.Loc, cl, "AllowRequest"})
			default:
				// allowRequest := opts.AllowRequest(); allowRequest(ctx)
				if d, ok := u.SingleDef(cl.Expr.Fun); ok {
					if ce, isC := ast.Unparen(d).(*ast.CallExpr); isC && calleeNameOf(ce) == "AllowRequest" {
						sites = append(sites, appSite{u, cl.Loc, cl, "AllowRequest"})
					}
				}
				if ix, isIx := ast.Unparen(cl.Expr.Fun).(*ast.IndexExpr); isIx && fieldOf(u.Info(), ix.X) == "baseServer.middlewares" {
					sites = append(sites, appSite{u, cl.Loc, cl, "middleware"})
				}
			}
		}
	}
	n := 0
	for _, s := range sites {
		n++
		c.Touch(s.u)
		var def *core.Call
		if s.call.Deferred {
			def = s.call
		}
		held := lc.MayHeldAt(s.u, s.loc, def)
		var bad, badClose []string
		for l, w := range held {
			base := strings.TrimSuffix(l, "#R")
			if excluded[base] {
				continue
			}
			if _, re := reacq[base]; re {
				bad = append(bad, keyf("%s (%s)", l, w))
			}
			if chain, re := reacqClose[base]; re {
				badClose = append(badClose, keyf("%s (%s; Close re-locks it via %v)", l, w, chain))
			}
		}
		sort.Strings(bad)
		sort.Strings(badClose)
		closedNow := s.u.Key == sockOnClose && s.what == "emit(close)@session" && s.u.Graph().GuardedBy(s.loc, onCloseLicence())
		if !closedNow {
			// Close on a closed session returns before doing anything; everywhere else it must not need a held lock
			under := ""
			if len(badClose) > 0 {
				under = " under " + strings.SplitN(badClose[0], " ", 2)[0]
			}
			c.Check(R, keyf("%s/%s%s ← Close", s.u.Key, s.what, under), s.call.Pos(), len(badClose) == 0,
				keyf("application code runs with %v possibly held; a listener calling Close re-locks it on the same goroutine (self-deadlock)", badClose))
		}
		// named exception: the session's close event. At that point the state has been swapped to "closed"
		// (the emit is dominated by the transition's licence), and C03.5 shows sendPacket reaches flush only
		// when the state is neither closing nor closed, while Close never flushes: flushMu cannot be re-acquired.
		if len(bad) > 0 && s.u.Key == sockOnClose && s.what == "emit(close)@session" && s.u.Graph().GuardedBy(s.loc, onCloseLicence()) {
			onlyFlush := true
			for _, b := range bad {
				if !strings.HasPrefix(b, "socket.flushMu ") {
					onlyFlush = false
				}
			}
			if onlyFlush {
				c.Check(R, keyf("%s/%s", s.u.Key, s.what), s.call.Pos(), true, "flushMu may be held here (graceful Close waiting for drain), but the state is closed: Send is a no-op before flush (C03.5) and Close does not flush")
				continue
			}
		}
		under := ""
		if len(bad) > 0 {
			under = " under " + strings.SplitN(bad[0], " ", 2)[0]
		}
		key := keyf("%s/%s%s", s.u.Key, s.what, under)
		c.Check(R, key, s.call.Pos(), len(bad) == 0,
			keyf("application code runs with %v possibly held; Send → sendPacket → flush re-locks it on the same goroutine (self-deadlock)", bad))
	}
	c.Need(R, "application callback sites", n, 25)
	_ = types.Universe
}

// sliceFifoShapes — C18.2c / C20.2c / C01.8c: the queue primitives the session
// relies on (write buffer, callback groups) have the sequence semantics their
// names promise.
func sliceFifoShapes(c *core.Ctx, R string) {
	c.Rule(R, "queue primitives of types.Slice (shape table): Push stores append(s.elements, elements...) — at the tail, all of them; Shift returns s.elements[0] read before the update and drops exactly that element (s.elements[1:], or append(s.elements[:0], s.elements[1:]...), or copy(s.elements, s.elements[1:]) followed by [:len-1] — a copy in the other direction keeps the head and drops the tail); Pop returns s.elements[len-1] and stores s.elements[:len-1]; clear stores s.elements[:0] (or nil)")
	info0 := func(u *core.Unit) *types.Info { return u.Info() }
	isElems := func(u *core.Unit, e ast.Expr) bool { return fieldOf(info0(u), e) == "Slice.elements" }
	isLen := func(u *core.Unit, e ast.Expr) bool {
		ce, ok := ast.Unparen(e).(*ast.CallExpr)
		return ok && calleeNameOf(ce) == "len" && len(ce.Args) == 1 && isElems(u, ce.Args[0])
	}
	isLenMinus1 := func(u *core.Unit, e ast.Expr) bool {
		be, ok := ast.Unparen(u.Deep(e)).(*ast.BinaryExpr) // `last := len(s.elements) - 1` names the same expression
		if !ok || be.Op != token.SUB || !isLen(u, be.X) {
			return false
		}
		v, isC := core.ConstInt(info0(u), be.Y)
		return isC && v == 1
	}
	constIs := func(u *core.Unit, e ast.Expr, want int64) bool {
		if e == nil {
			return false
		}
		v, ok := core.ConstInt(info0(u), e)
		return ok && v == want
	}
	// tailFrom1: s.elements[1:]
	tailFrom1 := func(u *core.Unit, e ast.Expr) bool {
		se, ok := ast.Unparen(e).(*ast.SliceExpr)
		return ok && isElems(u, se.X) && constIs(u, se.Low, 1) && se.High == nil
	}
	// headEmpty: s.elements[:0]
	headEmpty := func(u *core.Unit, e ast.Expr) bool {
		se, ok := ast.Unparen(e).(*ast.SliceExpr)
		return ok && isElems(u, se.X) && (se.Low == nil || constIs(u, se.Low, 0)) && constIs(u, se.High, 0)
	}
	allButLast := func(u *core.Unit, e ast.Expr) bool {
		se, ok := ast.Unparen(e).(*ast.SliceExpr)
		return ok && isElems(u, se.X) && (se.Low == nil || constIs(u, se.Low, 0)) && se.High != nil && isLenMinus1(u, se.High)
	}
	// Push
	if u := c.Fn(R, "types.(*Slice).Push"); u != nil {
		as := fieldAssigns(u, "Slice.elements")
		ok := len(as) == 1
		if ok {
			ce, isC := ast.Unparen(as[0].Rhs).(*ast.CallExpr)
			ok = isC && calleeNameOf(ce) == "append" && len(ce.Args) == 2 && isElems(u, ce.Args[0]) && ce.Ellipsis.IsValid() && isLocal(u.Info(), ce.Args[1], paramName(u, 0))
		}
		c.Check(R, "types.(*Slice).Push/append-at-tail", u.Pos(), ok, "s.elements = append(s.elements, elements...)")
	}
	// Shift
	if u := c.Fn(R, "types.(*Slice).Shift"); u != nil {
		g := u.Graph()
		var readHead *Assign
		for _, a := range assignsIn(u, func(l ast.Expr) bool { _, isI := ast.Unparen(l).(*ast.Ident); return isI }) {
			if ix, isIx := ast.Unparen(a.Rhs).(*ast.IndexExpr); isIx && isElems(u, ix.X) && constIs(u, ix.Index, 0) {
				a := a
				readHead = &a
			}
		}
		as := fieldAssigns(u, "Slice.elements")
		ok := readHead != nil && len(as) == 1
		why := "head read, single update"
		if ok {
			rhs := as[0].Rhs
			switch {
			case tailFrom1(u, rhs):
				why = "s.elements[1:]"
			case func() bool {
				ce, isC := ast.Unparen(rhs).(*ast.CallExpr)
				return isC && calleeNameOf(ce) == "append" && len(ce.Args) == 2 && headEmpty(u, ce.Args[0]) && tailFrom1(u, ce.Args[1]) && ce.Ellipsis.IsValid()
			}():
				why = "append(s.elements[:0], s.elements[1:]...)"
			case allButLast(u, rhs):
				// needs the shift-down copy first
				down := false
				for _, cl := range u.Calls() {
					if cl.Callee == nil && cl.Name == "copy" && len(cl.Expr.Args) == 2 && g.Dominates(cl.Loc, as[0].Loc) {
						dst := cl.Expr.Args[0]
						dstWhole := isElems(u, dst)
						if se, isS := ast.Unparen(dst).(*ast.SliceExpr); isS && isElems(u, se.X) && (se.Low == nil || constIs(u, se.Low, 0)) {
							dstWhole = true
						}
						if dstWhole && tailFrom1(u, cl.Expr.Args[1]) {
							down = true
						}
					}
				}
				ok = down
				why = "copy(s.elements, s.elements[1:]) then [:len-1]"
			default:
				ok = false
				why = "unrecognised update: " + core.ExprString(rhs)
			}
			ok = ok && g.Dominates(readHead.Loc, as[0].Loc)
		}
		c.Check(R, "types.(*Slice).Shift/returns-and-drops-the-head", u.Pos(), ok, why)
	}
	// Pop
	if u := c.Fn(R, "types.(*Slice).Pop"); u != nil {
		g := u.Graph()
		var readLast *Assign
		for _, a := range assignsIn(u, func(l ast.Expr) bool { _, isI := ast.Unparen(l).(*ast.Ident); return isI }) {
			if ix, isIx := ast.Unparen(a.Rhs).(*ast.IndexExpr); isIx && isElems(u, ix.X) && isLenMinus1(u, ix.Index) {
				a := a
				readLast = &a
			}
		}
		as := fieldAssigns(u, "Slice.elements")
		ok := readLast != nil && len(as) == 1 && allButLast(u, as[0].Rhs) && g.Dominates(readLast.Loc, as[0].Loc)
		c.Check(R, "types.(*Slice).Pop/returns-and-drops-the-last", u.Pos(), ok, "element = s.elements[len-1]; s.elements = s.elements[:len-1]")
	}
	// clear
	if u := c.Fn(R, "types.(*Slice).clear"); u != nil {
		as := fieldAssigns(u, "Slice.elements")
		ok := len(as) == 1 && (headEmpty(u, as[0].Rhs) || core.IsNil(u.Info(), as[0].Rhs))
		c.Check(R, "types.(*Slice).clear/empties", u.Pos(), ok, "s.elements = s.elements[:0]")
	}
}
