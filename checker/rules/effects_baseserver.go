package rules

import (
	"go/ast"
	"go/token"
	"strings"

	"engcheck/core"
)

// retMatch finds return statements of u whose first result is the package
// variable `name` (a *types.CodeMessage) and, when ctxName != "", whose second
// result is a map literal with "name": ctxName.
func codeReturns(u *core.Unit, name, ctxName string) []Ret {
	var out []Ret
	for _, r := range returnsIn(u) {
		if len(r.Stmt.Results) < 1 {
			continue
		}
		id, ok := ast.Unparen(r.Stmt.Results[0]).(*ast.Ident)
		if !ok || id.Name != name {
			continue
		}
		if ctxName != "" {
			hit := false
			if len(r.Stmt.Results) >= 2 {
				ast.Inspect(r.Stmt.Results[1], func(n ast.Node) bool {
					if kv, isKV := n.(*ast.KeyValueExpr); isKV {
						k, _ := core.ConstString(u.Info(), kv.Key)
						v, _ := core.ConstString(u.Info(), kv.Value)
						if k == "name" && v == ctxName {
							hit = true
						}
					}
					return true
				})
			}
			if !hit {
				continue
			}
		}
		out = append(out, r)
	}
	return out
}

// baseServerEffects — effect tables of engine/base-server.go.
func baseServerEffects(c *core.Ctx, R string) {
	c.Rule(R, "effect table of engine/base-server.go: Verify — each documented refusal is returned on exactly its own edge (UNKNOWN_TRANSPORT: transport not enabled or webtransport; BAD_REQUEST/INVALID_ORIGIN: CheckInvalidHeaderChar(Origin); UNKNOWN_SID: sid given ∧ not in the client table; BAD_REQUEST/TRANSPORT_MISMATCH: ¬upgrade ∧ previous transport ≠ requested; BAD_HANDSHAKE_METHOD: no sid ∧ method ≠ GET; BAD_REQUEST/TRANSPORT_HANDSHAKE_ERROR: no sid ∧ websocket ∧ ¬upgrade; FORBIDDEN: hook present ∧ hook error) and the admitting return lies on the pass edge of every one of them; Construct installs the documented defaults (pingTimeout 20 s, pingInterval 25 s, upgradeTimeout 10 s, maxHttpBufferSize 1e6, transports {polling, websocket}, allowUpgrades, compression threshold 1024, EIO3 off) before merging the caller's options, fills the cookie defaults only where unset; ComputePath takes the caller's path / trailing-slash only when explicitly given; Use appends; ApplyMiddlewares calls back at once when there is no middleware, advances to i+1 while one remains and calls back nil after the last")
	// ---- Verify ----
	if u := c.Fn(R, "engine.(*baseServer).Verify"); u != nil && localAnchors(c, R, u, "transport", "sid", "method", "previousTransport", "allowRequest") {
		g := u.Graph()
		info := u.Info()
		enabled := func(x *core.Unit, br core.Branch) int {
			if br.IsCase {
				return 0
			}
			if ce, key := x.AsCall(br.Cond); ce != nil && strings.HasSuffix(key, ".Has") {
				return 1
			}
			return 0
		}
		isWT := gLocalStrIs("transport", "webtransport")
		isWS := gLocalStrIs("transport", "websocket")
		badOrigin := boolCallGuard(true, "utils.CheckInvalidHeaderChar")
		hasSid := gStrLocalNonEmpty("sid")
		notGet := gNot(gLocalStrIs("method", "GET"))
		upgrade := gBoolLocal(paramName(u, 1))
		mismatch := func(x *core.Unit, br core.Branch) int {
			cmp, ok := x.BranchCmp(br)
			if !ok || cmp.Y == nil || !isLocalAnyDepth(x, cmp.X, "previousTransport") || !isLocalAnyDepth(x, cmp.Y, "transport") {
				return 0
			}
			switch cmp.Op {
			case token.NEQ:
				return 1
			case token.EQL:
				return -1
			}
			return 0
		}
		hook := gNilLocal("allowRequest", true)
		type row struct {
			code, ctx string
			on, off   []core.Guard
		}
		rows := []row{
			{"UNKNOWN_TRANSPORT", "", nil, []core.Guard{gNot(isWT), badOrigin, hasSid, gNot(hasSid)}},
			{"BAD_REQUEST", "INVALID_ORIGIN", []core.Guard{badOrigin, enabled, gNot(isWT)}, nil},
			{"UNKNOWN_SID", "", []core.Guard{hasSid, notFound(), gNot(badOrigin), enabled}, nil},
			{"BAD_REQUEST", "TRANSPORT_MISMATCH", []core.Guard{hasSid, gNot(upgrade)}, nil},
			{"BAD_HANDSHAKE_METHOD", "", []core.Guard{gNot(hasSid), notGet, gNot(badOrigin), enabled}, nil},
			{"BAD_REQUEST", "TRANSPORT_HANDSHAKE_ERROR", []core.Guard{gNot(hasSid), isWS, gNot(upgrade), gNot(notGet)}, nil},
			{"FORBIDDEN", "", []core.Guard{gNot(hasSid), hook, gErrNonNil(), gNot(notGet)}, nil},
		}
		for _, rw := range rows {
			rs := codeReturns(u, rw.code, rw.ctx)
			ok := len(rs) >= 1
			for _, r := range rs {
				for _, gd := range rw.on {
					ok = ok && g.GuardedBy(r.Loc, gd)
				}
				for _, gd := range rw.off {
					ok = ok && !g.GuardedBy(r.Loc, gd)
				}
			}
			pos := u.Pos()
			if len(rs) > 0 {
				pos = rs[0].Stmt.Pos()
			}
			c.Check(R, keyf("engine.(*baseServer).Verify/%s[%s]-on-its-own-edge", rw.code, rw.ctx), pos, ok, keyf("%d return(s) of this refusal, each on the documented edge", len(rs)))
		}
		// the first TRANSPORT_MISMATCH (requested ≠ previous) also needs the mismatch test
		okMM := false
		for _, r := range codeReturns(u, "BAD_REQUEST", "TRANSPORT_MISMATCH") {
			if g.GuardedBy(r.Loc, mismatch) {
				okMM = true
			}
		}
		c.Check(R, "engine.(*baseServer).Verify/TRANSPORT_MISMATCH-on-previous≠requested", u.Pos(), okMM, "a plain request naming another transport than the session's is refused on the previousTransport != transport edge")
		// the admitting return
		nAdmit := 0
		for _, r := range returnsIn(u) {
			if len(r.Stmt.Results) == 2 && core.IsNil(info, r.Stmt.Results[0]) {
				nAdmit++
				ok := g.GuardedBy(r.Loc, enabled) && g.GuardedBy(r.Loc, gNot(isWT)) && g.GuardedBy(r.Loc, gNot(badOrigin))
				c.Check(R, "engine.(*baseServer).Verify/admit-only-past-every-check", r.Stmt.Pos(), ok, "the admitting return is reached only with an enabled non-webtransport transport name and a well-formed Origin")
			}
		}
		c.Need(R, "admitting returns of Verify", nAdmit, 1)
	}
	// ---- Construct defaults ----
	if u := c.Fn(R, "engine.(*baseServer).Construct"); u != nil && localAnchors(c, R, u, "cookie") {
		info := u.Info()
		ms := func(name string, millis int64) callMatch {
			return func(x *core.Unit, cl *core.Call) bool {
				if cl.Name != name || cl.Arg(0) == nil {
					return false
				}
				v, ok := core.ConstInt(x.Info(), cl.Arg(0))
				return ok && v == millis*1_000_000
			}
		}
		f := requireEffects(c, R, u, []effect{
			{name: "default pingTimeout=20s", match: ms("SetPingTimeout", 20000)},
			{name: "default pingInterval=25s", match: ms("SetPingInterval", 25000)},
			{name: "default upgradeTimeout=10s", match: ms("SetUpgradeTimeout", 10000)},
			{name: "default maxHttpBufferSize=1e6", match: mNameInt("SetMaxHttpBufferSize", 0, 1000000)},
			{name: "default allowUpgrades=true", match: mNameBool("SetAllowUpgrades", 0, true)},
			{name: "default allowEIO3=false", match: mNameBool("SetAllowEIO3", 0, false)},
			{name: "default transports={polling,websocket}", match: func(x *core.Unit, cl *core.Call) bool {
				if cl.Name != "SetTransports" || cl.Arg(0) == nil {
					return false
				}
				ce, isC := ast.Unparen(cl.Arg(0)).(*ast.CallExpr)
				if !isC || len(ce.Args) != 2 {
					return false
				}
				return strings.HasSuffix(selPath(ce.Args[0]), "POLLING") && strings.HasSuffix(selPath(ce.Args[1]), "WEBSOCKET")
			}},
			{name: "default compression threshold=1024", match: func(x *core.Unit, cl *core.Call) bool {
				if cl.Name != "SetHttpCompression" || cl.Arg(0) == nil {
					return false
				}
				hit := false
				ast.Inspect(cl.Arg(0), func(n ast.Node) bool {
					if kv, isKV := n.(*ast.KeyValueExpr); isKV {
						if v, ok := core.ConstInt(x.Info(), kv.Value); ok && v == 1024 {
							hit = true
						}
					}
					return true
				})
				return hit
			}},
			{name: "Assign(opts)", match: mName("Assign")},
		})
		if as := f["Assign(opts)"]; as != nil {
			stored := false
			for _, a := range fieldAssigns(u, "baseServer.opts") {
				if a.Rhs != nil && ast.Unparen(a.Rhs) == ast.Expr(as.Expr) {
					stored = true
				}
			}
			after := true
			for name, cl := range f {
				if name != "Assign(opts)" && !u.Graph().Dominates(cl.Loc, as.Loc) {
					after = false
				}
			}
			c.Check(R, "engine.(*baseServer).Construct/opts=defaults.Assign(caller)", as.Pos(), stored && after, "the caller's options are merged over the complete set of defaults and stored")
		}
		// cookie defaults only where unset
		g := u.Graph()
		lenIs := func(field string, zero bool) core.Guard {
			// `len(c.Field) == 0` / `c.Field == ""` and their negations, in any of the equivalent spellings
			nonEmpty := gStrExprNonEmpty(func(x *core.Unit, e ast.Expr) bool { return strings.HasSuffix(selPath(e), "."+field) })
			if zero {
				return gNot(nonEmpty)
			}
			return nonEmpty
		}
		for _, cd := range []struct {
			field string
			guard core.Guard
		}{
			{"Name", lenIs("Name", true)},
			{"Path", lenIs("Path", true)},
			{"HttpOnly", lenIs("Path", false)},
		} {
			n := 0
			for _, a := range assignsIn(u, func(l ast.Expr) bool { return strings.HasSuffix(selPath(l), "cookie."+cd.field) }) {
				n++
				c.Check(R, "engine.(*baseServer).Construct/cookie."+cd.field+"-default-only-where-unset", a.Stmt.Pos(), g.GuardedBy(a.Loc, cd.guard), "a configured cookie attribute is not overwritten by the default")
			}
			c.Need(R, "cookie."+cd.field+" default", n, 1)
		}
		for _, a := range assignsIn(u, func(l ast.Expr) bool { return strings.HasSuffix(selPath(l), "cookie.SameSite") }) {
			// The licensing condition is evaluated over the finite domain of
			// http.SameSite: it must hold for 0 (the value of a field that was
			// not set — SameSiteDefaultMode is 1, fix ffdb8f0) and must not hold
			// for an explicitly configured Lax / Strict / None.
			var cond ast.Expr
			ast.Inspect(u.Root().Body, func(n ast.Node) bool {
				if is, isIf := n.(*ast.IfStmt); isIf && is.Body.Pos() <= a.Stmt.Pos() && a.Stmt.End() <= is.Body.End() {
					cond = is.Cond // innermost wins: Inspect visits outer first
				}
				return true
			})
			var eval func(e ast.Expr, v int64) (bool, bool)
			eval = func(e ast.Expr, v int64) (bool, bool) {
				switch x := ast.Unparen(e).(type) {
				case *ast.BinaryExpr:
					switch x.Op {
					case token.LOR, token.LAND:
						l, okL := eval(x.X, v)
						r, okR := eval(x.Y, v)
						if !okL || !okR {
							return false, false
						}
						if x.Op == token.LOR {
							return l || r, true
						}
						return l && r, true
					case token.EQL, token.NEQ:
						val, side := x.Y, x.X
						if !strings.HasSuffix(selPath(side), ".SameSite") {
							val, side = x.X, x.Y
						}
						if !strings.HasSuffix(selPath(side), ".SameSite") {
							return false, false
						}
						k, okK := core.ConstInt(u.Info(), val)
						if !okK {
							return false, false
						}
						return (k == v) == (x.Op == token.EQL), true
					}
				}
				return false, false
			}
			okSS := cond != nil
			for v := int64(0); v <= 4 && okSS; v++ {
				holds, known := eval(cond, v)
				switch {
				case !known:
					okSS = false
				case v == 0:
					okSS = holds
				case v >= 2:
					okSS = !holds
				}
			}
			c.Check(R, "engine.(*baseServer).Construct/cookie.SameSite-default-only-where-unset", a.Stmt.Pos(), okSS, "SameSite is defaulted to Lax when the field was left unset (value 0; SameSiteDefaultMode is 1) and never when Lax / Strict / None was configured")
		}
		requireEffects(c, R, u, []effect{{name: "SetCookie(cookie)", match: mName("SetCookie"), on: []core.Guard{gNilLocal("cookie", true)}}})
		_ = info
	}
	// ---- ComputePath ----
	if u := c.Fn(R, "engine.(*baseServer).ComputePath"); u != nil && localAnchors(c, R, u, "path", "addTrailingSlash") {
		g := u.Graph()
		given := func(accessor string) core.Guard {
			return nilGuard(true, func(x *core.Unit, e ast.Expr) bool {
				_, key := x.AsCall(e)
				return strings.HasSuffix(key, "."+accessor)
			})
		}
		for _, sp := range []struct{ local, accessor, source string }{
			{"path", "GetRawPath", "Path"},
			{"addTrailingSlash", "GetRawAddTrailingSlash", "AddTrailingSlash"},
		} {
			n := 0
			for _, a := range assignsIn(u, func(l ast.Expr) bool { return isLocal(u.Info(), l, sp.local) }) {
				if a.Tok != token.ASSIGN || a.Rhs == nil {
					continue
				}
				uses := false
				ast.Inspect(a.Rhs, func(nd ast.Node) bool {
					if ce, isC := nd.(*ast.CallExpr); isC && calleeNameOf(ce) == sp.source {
						uses = true
					}
					return true
				})
				if !uses {
					continue
				}
				n++
				c.Check(R, keyf("engine.(*baseServer).ComputePath/%s-from-options-only-when-given", sp.local), a.Stmt.Pos(), g.GuardedBy(a.Loc, given(sp.accessor)) && g.GuardedBy(a.Loc, gNilLocal(paramName(u, 0), true)), "the caller's value replaces the default only when it was explicitly set")
			}
			c.Need(R, "override of "+sp.local+" in ComputePath", n, 1)
		}
	}
	// ---- Use / ApplyMiddlewares ----
	if u := c.Fn(R, "engine.(*baseServer).Use"); u != nil {
		ok := false
		for _, a := range fieldAssigns(u, "baseServer.middlewares") {
			if ce, isC := ast.Unparen(a.Rhs).(*ast.CallExpr); isC && calleeNameOf0(ce) == "append" && len(ce.Args) == 2 && fieldOf(u.Info(), ce.Args[0]) == "baseServer.middlewares" && isLocal(u.Info(), ce.Args[1], paramName(u, 0)) {
				ok = true
			}
		}
		c.Check(R, "engine.(*baseServer).Use/appends", u.Pos(), ok, "bs.middlewares = append(bs.middlewares, fn)")
	}
	if u := c.Fn(R, "engine.(*baseServer).ApplyMiddlewares"); u != nil && localAnchors(c, R, u, "apply") {
		g := u.Graph()
		none := func(x *core.Unit, br core.Branch) int {
			cmp, ok := x.BranchCmp(br)
			if !ok || cmp.Val == nil {
				return 0
			}
			ce, _ := ast.Unparen(cmp.X).(*ast.CallExpr)
			if ce == nil || calleeNameOf0(ce) != "len" || len(ce.Args) != 1 || fieldOf(x.Info(), ce.Args[0]) != "baseServer.middlewares" {
				return 0
			}
			switch cmp.Op {
			case token.EQL:
				return 1
			case token.NEQ, token.GTR:
				return -1
			}
			return 0
		}
		requireEffects(c, R, u, []effect{
			{name: "no-middleware→callback(nil)", match: mLocalCall(paramName(u, 1)), on: []core.Guard{none}},
			{name: "some→apply(0)", match: mLocalCall("apply"), on: []core.Guard{gNot(none)}},
		})
		ret := false
		for _, r := range returnsIn(u) {
			if g.GuardedBy(r.Loc, none) {
				ret = true
			}
		}
		c.Check(R, "engine.(*baseServer).ApplyMiddlewares/no-middleware→return", u.Pos(), ret, "the chain is not started on an empty list")
		// the continuation passed to each middleware
		for _, k := range []*core.Unit{c.Fn(R, "engine.(*baseServer).ApplyMiddlewares$apply$middlewares.arg1")} {
			if k == nil {
				continue
			}
			more := func(x *core.Unit, br core.Branch) int {
				be, isB := ast.Unparen(br.Cond).(*ast.BinaryExpr)
				if br.IsCase || !isB {
					return 0
				}
				lhs, rhs, pol := ltNorm(be) // i+1 < len(…), in any of its spellings (len(…) > i+1, !(i+1 >= len(…)) …)
				if pol == 0 {
					return 0
				}
				ce, _ := ast.Unparen(rhs).(*ast.CallExpr)
				if ce == nil || calleeNameOf0(ce) != "len" {
					return 0
				}
				if add, isA := ast.Unparen(lhs).(*ast.BinaryExpr); isA && add.Op == token.ADD {
					if v, ok := core.ConstInt(x.Info(), add.Y); ok && v == 1 {
						return pol
					}
				}
				return 0
			}
			c.Touch(k)
			requireEffects(c, R, k, []effect{
				{name: "error→callback(err)", match: mLocalCall(paramName(u, 1)), on: []core.Guard{gErrNonNil()}},
				{name: "more→apply(i+1)", match: mLocalCall("apply"), on: []core.Guard{more}, off: []core.Guard{gErrNonNil()}},
				{name: "last→callback(nil)", match: mLocalCall(paramName(u, 1)), on: []core.Guard{gNot(more)}, off: []core.Guard{gErrNonNil()}},
			})
		}
	}
}

func hasLocalCall(u *core.Unit, name string) bool {
	for _, cl := range u.Calls() {
		if cl.Callee == nil && cl.Name == name {
			return true
		}
	}
	return false
}
