package rules

import (
	"go/ast"
	"strings"

	"engcheck/core"
)

// frameTransportEffects — effect tables of transports/websocket.go and
// transports/webtransport.go (sibling agreement: both must satisfy the same table).
func frameTransportEffects(c *core.Ctx, R string) {
	c.Rule(R, "effect table of the frame transports (websocket ∥ webTransport): Construct stores the connection wrapper of the request context, registers On(error → OnError(…, errs[0])) and Once(close → OnClose()) on it, starts the reader with `go x.message()` (never inline: Construct must return) and marks the transport writable; connection error idiom in message / send / write (and write's deferred Close): every Emit(\"error\", err) is on an err != nil edge, every errors.Is(err, net.ErrClosed) test has Emit(\"close\") on its true edge and Emit(\"error\") on its false edge, every early return lies on an error edge (or the close-frame case) and is preceded on all paths by one of these emits — a failure is never swallowed, a success never reported; a Close frame ends the reader loop after Emit(\"close\"); the frame buffer kind follows the frame type (Binary ⇒ BytesBuffer, Text ⇒ StringBuffer); the reader's frame is closed (io.Closer) after each message")
	type spec struct{ typ, connField, ctxField, errText string }
	for _, sp := range []spec{
		{"websocket", "websocket.socket", "HttpContext.Websocket", "websocket error"},
		{"webTransport", "webTransport.session", "HttpContext.WebTransport", "webtransport error"},
	} {
		base := "transports.(*" + sp.typ + ")."
		// ---- Construct ----
		if u := c.Fn(R, base+"Construct"); u != nil {
			info := u.Info()
			stored := false
			for _, a := range fieldAssigns(u, sp.connField) {
				if a.Rhs != nil && fieldOf(info, a.Rhs) == sp.ctxField {
					stored = true
				}
			}
			c.Check(R, base+"Construct/conn=ctx."+strings.SplitN(sp.ctxField, ".", 2)[1], u.Pos(), stored, "the transport reads and writes the connection of its own request context")
			f := requireEffects(c, R, u, []effect{
				{name: "On(error)", match: func(x *core.Unit, cl *core.Call) bool {
					return mListener("On", "error", "")(x, cl) && cl.Recv != nil && fieldOf(x.Info(), cl.Recv) == sp.connField
				}},
				{name: "Once(close)", match: func(x *core.Unit, cl *core.Call) bool {
					return mListener("Once", "close", "")(x, cl) && cl.Recv != nil && fieldOf(x.Info(), cl.Recv) == sp.connField
				}},
				{name: "SetWritable(true)", match: mNameBool("SetWritable", 0, true)},
			})
			if cl := f["On(error)"]; cl != nil {
				if k := closureArg(u, cl, 1); k != nil {
					c.Touch(k)
					requireEffects(c, R, k, []effect{{name: "OnError(" + sp.errText + ", errs[0])", match: mNameStr("OnError", 0, sp.errText)}})
				}
			}
			if cl := f["Once(close)"]; cl != nil {
				if k := closureArg(u, cl, 1); k != nil {
					c.Touch(k)
					requireEffects(c, R, k, []effect{{name: "OnClose()", match: mName("OnClose")}})
				}
			}
			// the reader is never run inline
			inline := 0
			for _, x := range c.P.Units {
				for _, cl := range x.Calls() {
					if cl.Key == base+"message" && !cl.Go && cl.Inlined == nil {
						inline++
					}
				}
			}
			c.Check(R, base+"Construct/reader-not-inline", u.Pos(), inline == 0, "message() is only ever started as a goroutine")
		}
		// ---- error idiom ----
		var units []*core.Unit
		for _, fn := range []string{"message", "send", "write"} {
			if u := c.Fn(R, base+fn); u != nil {
				units = append(units, u.AllUnits()...)
			}
		}
		// errors.Is(err, net.ErrClosed) diamonds: close on the closed edge, error on the other
		diamonds := func(u *core.Unit, emClose, emErr []*Ev) int {
			g := u.Graph()
			n := 0
			for _, f := range g.Facts() {
				if f.Br.IsCase || f.Edge != 0 {
					continue
				}
				ce, key := u.AsCall(f.Br.Cond)
				if ce == nil || key != "errors.Is" || len(ce.Args) != 2 || !strings.HasSuffix(selPath(ce.Args[1]), "ErrClosed") {
					continue
				}
				isClosed := func(x *core.Unit, br core.Branch) int {
					if !br.IsCase {
						if c2, _ := x.AsCall(br.Cond); c2 == ce {
							return 1
						}
					}
					return 0
				}
				n++
				okClose, okErr := false, false
				for _, e := range emClose {
					if g.GuardedBy(e.Loc, isClosed) {
						okClose = true
					}
				}
				for _, e := range emErr {
					if g.GuardedBy(e.Loc, gNot(isClosed)) {
						okErr = true
					}
				}
				// NextReader's test is `IsUnexpectedCloseError(err) || errors.Is(err, net.ErrClosed)`: the close emit is on the true edge of the disjunction
				if !okClose {
					// only for a disjunction (the atom alone does not own the true edge)
					inOr := false
					for _, br := range g.Branches() {
						if be, isB := ast.Unparen(br.Cond).(*ast.BinaryExpr); isB && be.Op.String() == "||" && be.Pos() <= ce.Pos() && ce.End() <= be.End() {
							inOr = true
						}
					}
					for _, e := range emClose {
						if inOr && g.CanFollow(g.LocOf(ce), e.Loc) && !g.GuardedBy(e.Loc, gNot(isClosed)) {
							okClose = true
						}
					}
				}
				c.Check(R, keyf("%s/ErrClosed→close,else→error", u.Key), ce.Pos(), okClose && okErr, keyf("Emit(close) on the closed edge: %v; Emit(error) on the other: %v", okClose, okErr))
			}
			return n
		}
		nIs, nRet, nErr, nStop := 0, 0, 0, 0
		for _, u := range units {
			info := u.Info()
			g := u.Graph()
			evs := events(c, u)
			emErr := filterEv(evs, "emit", "conn", "error")
			emClose := filterEv(evs, "emit", "conn", "close")
			var emitLocs []core.Loc
			for _, e := range emErr {
				emitLocs = append(emitLocs, e.Loc)
			}
			for _, e := range emClose {
				emitLocs = append(emitLocs, e.Loc)
			}
			for _, e := range emErr {
				nErr++
				c.Check(R, keyf("%s/Emit(error)-on-an-error-edge", u.Key), e.Pos(), g.GuardedBy(e.Loc, gErrNonNil()), "an error is reported only where one was observed")
			}
			nIs += diamonds(u, emClose, emErr)
			// early returns
			closeFrame := eqNamedConst("CloseMessage")
			rets := returnsIn(u)
			for i, r := range rets {
				if i == len(rets)-1 && r.Stmt.Pos() >= u.Body.End()-2 {
					continue // the fall-off-the-end return
				}
				// returns that are the last statement of the deferred closure's error block etc. are ordinary early returns
				nRet++
				onErr := g.GuardedBy(r.Loc, gErrNonNil()) || g.GuardedBy(r.Loc, closeFrame)
				reported := len(emitLocs) > 0 && g.DominatesAny(emitLocs, r.Loc)
				c.Check(R, keyf("%s/early-return-is-a-reported-failure", u.Key), r.Stmt.Pos(), onErr && reported, keyf("on an error edge (or the close frame): %v; preceded by Emit(close|error) on every path: %v", onErr, reported))
			}
			// a reported failure ends the operation: nothing but logging can run after the Emit(close|error) of a failure
			// (the explicit `return` that follows it may be omitted when it is the last statement anyway)
			for _, e := range append(append([]*Ev(nil), emErr...), emClose...) {
				if strings.HasSuffix(u.Root().Key, ".message") {
					continue // the reader loop goes on to the next NextReader, which fails and reports again
				}
				var after []string
				for _, cl := range u.Calls() {
					if cl.Expr == e.Expr || cl.Deferred || isLogCall(cl) {
						continue
					}
					if cl.Pos() > e.Pos() && g.CanFollow(e.Loc, cl.Loc) {
						after = append(after, cl.Name)
					}
				}
				nStop++
				c.Check(R, keyf("%s/emit(%s)-ends-the-operation", u.Key, e.Event), e.Pos(), len(after) == 0, keyf("calls that can still run after the failure was reported: %v", after))
			}
			_ = info
		}
		// a diamond inside a private helper that reports the failure stands for one per call of the helper
		for _, u := range units {
			for _, h := range u.WithHelpers()[1:] {
				evs := events(c, h)
				per := diamonds(h, filterEv(evs, "emit", "conn", "close"), filterEv(evs, "emit", "conn", "error"))
				for _, cl := range u.Calls() {
					if cl.Inlined == nil && cl.Callee != nil && u.Prog.UnitOf(cl.Callee) == h {
						nIs += per
					}
				}
			}
		}
		c.Need(R, "ErrClosed tests in "+sp.typ, nIs, 6)
		c.Need(R, "failure reports in send/write of "+sp.typ, nStop, 2)
		_ = nRet
		c.Need(R, "error emits in "+sp.typ, nErr, 6)
		// ---- the pre-encoded shortcut ----
		if u := c.Fn(R, base+"send"); u != nil {
			noDeflate := nilGuard(false, func(x *core.Unit, e ast.Expr) bool {
				_, key := x.AsCall(e)
				return strings.HasSuffix(key, ".PerMessageDeflate")
			})
			hasFrame := nilGuard(true, func(x *core.Unit, e ast.Expr) bool { return strings.HasSuffix(selPath(e), ".WsPreEncodedFrame") })
			hasOpts := nilGuard(true, func(x *core.Unit, e ast.Expr) bool { return strings.HasSuffix(selPath(x.Resolve(e)), ".Options") })
			requireEffects(c, R, u, []effect{
				{name: "pre-encoded-frame-only-when-present∧no-deflate", match: mName("NewPreparedMessage"), on: []core.Guard{hasOpts, noDeflate, hasFrame}},
				{name: "otherwise-EncodePacket", match: mName("EncodePacket")},
			})
		}
		// ---- reader loop specifics ----
		if u := c.Fn(R, base+"message"); u != nil {
			g := u.Graph()
			isCase := eqNamedConst
			requireEffects(c, R, u, []effect{
				{name: "Binary→BytesBuffer", match: mName("NewBytesBuffer"), on: []core.Guard{isCase("BinaryMessage")}},
				{name: "Text→StringBuffer", match: mName("NewStringBuffer"), on: []core.Guard{isCase("TextMessage")}},
			})
			// the frame reader is closed when it is an io.Closer (true edge of the comma-ok assertion)
			closes := 0
			for _, cl := range u.Calls() {
				if cl.Name != "Close" || cl.Recv == nil {
					continue
				}
				d, ok := u.SingleDef(cl.Recv)
				te, isT := d.(*core.TupleElem)
				if !ok || !isT || te.Index != 0 {
					continue
				}
				if _, isTA := ast.Unparen(te.X).(*ast.TypeAssertExpr); !isTA {
					continue
				}
				closes++
				okEdge := g.GuardedBy(cl.Loc, func(x *core.Unit, br core.Branch) int {
					if br.IsCase {
						return 0
					}
					d2, ok2 := x.SingleDef(br.Cond)
					te2, isT2 := d2.(*core.TupleElem)
					if ok2 && isT2 && te2.Index == 1 && te2.X == te.X {
						return 1
					}
					return 0
				})
				c.Check(R, base+"message/frame.Close()-on-the-ok-edge", cl.Pos(), okEdge, "the frame reader is closed exactly when the assertion to io.Closer succeeded (the other edge would call Close on a nil interface)")
			}
			c.Need(R, "frame reader closes in "+sp.typ+".message", closes, 1)
		}
	}
}
