package rules

import (
	"go/ast"
	"go/constant"
	"go/token"
	"go/types"
	"os"
	"path/filepath"
	"regexp"
	"strconv"
	"strings"

	"engcheck/core"
)

var protoErrors = map[string]struct {
	code int64
	msg  string
}{
	"UNKNOWN_TRANSPORT":            {0, "Transport unknown"},
	"UNKNOWN_SID":                  {1, "Session ID unknown"},
	"BAD_HANDSHAKE_METHOD":         {2, "Bad handshake method"},
	"BAD_REQUEST":                  {3, "Bad request"},
	"FORBIDDEN":                    {4, "Forbidden"},
	"UNSUPPORTED_PROTOCOL_VERSION": {5, "Unsupported protocol version"},
}

func init() {
	register("C05", func(c *core.Ctx, tier string) {
		requestRevalidatesTransport(c, "C05.14")
		muxEffects(c, "C05.7c")
		baseServerEffects(c, "C05.12")
		serverEffects(c, "C05.11")
		c05ErrorTable(c)
		c05Precedence(c)
		c05RevisionLast(c)
		c05AbortMapping(c)
		c05OneEvent(c)
		c05NoSessionOnReject(c)
		c05MountPath(c)
		c05UpgradeRejection(c)
		c05QueryAccessors(c)
		c05OriginPredicate(c)
	})
}

// codeVars evaluates the package-level *types.CodeMessage variables of engine.
func codeVars(c *core.Ctx) map[string]struct {
	code int64
	msg  string
	pos  token.Pos
} {
	out := map[string]struct {
		code int64
		msg  string
		pos  token.Pos
	}{}
	pk := c.P.Pkgs["engine"]
	for _, f := range pk.Syntax {
		for _, d := range f.Decls {
			gd, ok := d.(*ast.GenDecl)
			if !ok || gd.Tok != token.VAR {
				continue
			}
			for _, s := range gd.Specs {
				vs := s.(*ast.ValueSpec)
				for i, nm := range vs.Names {
					if i >= len(vs.Values) {
						continue
					}
					ue, ok := vs.Values[i].(*ast.UnaryExpr)
					if !ok {
						continue
					}
					cl, ok := ue.X.(*ast.CompositeLit)
					if !ok {
						continue
					}
					t := pk.TypesInfo.TypeOf(cl)
					if t == nil || core.TypeName(t) != "CodeMessage" {
						continue
					}
					e := struct {
						code int64
						msg  string
						pos  token.Pos
					}{-1, "", nm.Pos()}
					for _, el := range cl.Elts {
						kv, ok := el.(*ast.KeyValueExpr)
						if !ok {
							continue
						}
						k, _ := kv.Key.(*ast.Ident)
						if k == nil {
							continue
						}
						switch k.Name {
						case "Code":
							if v, ok := core.ConstInt(pk.TypesInfo, kv.Value); ok {
								e.code = v
							}
						case "Message":
							if v, ok := core.ConstString(pk.TypesInfo, kv.Value); ok {
								e.msg = v
							}
						}
					}
					out[nm.Name] = e
				}
			}
		}
	}
	return out
}

func readmeTable(dir string) map[int64]string {
	b, err := os.ReadFile(filepath.Join(dir, "README.md"))
	if err != nil {
		return nil
	}
	out := map[int64]string{}
	re := regexp.MustCompile(`(?m)^\|\s*(\d+)\s*\|\s*"([^"]+)"`)
	lines := string(b)
	i := strings.Index(lines, "| Code | Message |")
	if i < 0 {
		return nil
	}
	seg := lines[i:]
	if j := strings.Index(seg, "\n\n"); j > 0 {
		seg = seg[:j]
	}
	for _, m := range re.FindAllStringSubmatch(seg, -1) {
		n, _ := strconv.ParseInt(m[1], 10, 64)
		out[n] = m[2]
	}
	return out
}

func c05ErrorTable(c *core.Ctx) {
	const R = "C05.1"
	c.Rule(R, "TABLE(error codes): the six *types.CodeMessage variables of package engine, evaluated as constants, equal the documented table (0 Transport unknown, 1 Session ID unknown, 2 Bad handshake method, 3 Bad request, 4 Forbidden, 5 Unsupported protocol version) and the table in /repo/README.md; codes are pairwise distinct")
	vars := codeVars(c)
	readme := readmeTable(c.P.Dir)
	if readme == nil {
		c.Note("README.md error table not found; the protocol table quoted in the property statement is the only oracle")
	}
	seen := map[int64]string{}
	for name, want := range protoErrors {
		got, ok := vars[name]
		if !c.Exists(R, "engine."+name+"/declared", token.NoPos, ok, "error variable present") {
			continue
		}
		okv := got.code == want.code && got.msg == want.msg
		if readme != nil {
			okv = okv && readme[got.code] == got.msg
		}
		if prev, dup := seen[got.code]; dup {
			okv = false
			_ = prev
		}
		seen[got.code] = name
		c.Check(R, "engine."+name, got.pos, okv, keyf("code=%d message=%q; documented code=%d message=%q; README[%d]=%q", got.code, got.msg, want.code, want.msg, got.code, readme[got.code]))
	}
	c.Need(R, "error variables", len(vars), 6)
}

// rejectReturn is a return of Verify/Handshake whose first result is an error variable.
type rejectReturn struct {
	name string // variable name, with the context "name" constant when present
	code string
	ret  Ret
	br   *core.Fact // innermost deciding fact (edge dominating the return)
}

func mapLitString(info *types.Info, e ast.Expr, key string) string {
	cl, ok := ast.Unparen(e).(*ast.CompositeLit)
	if !ok {
		return ""
	}
	for _, el := range cl.Elts {
		kv, ok := el.(*ast.KeyValueExpr)
		if !ok {
			continue
		}
		if k, ok := core.ConstString(info, kv.Key); ok && k == key {
			v, _ := core.ConstString(info, kv.Value)
			return v
		}
	}
	return ""
}

// innermostFact: the innermost branch (whole condition, whatever its && / || structure) one of whose
// edges dominates loc; returned as a Fact whose Br.Cond is the whole condition and Edge the dominating edge.
func innermostFact(g *core.Graph, loc core.Loc) *core.Fact {
	var best *core.Fact
	for _, br := range g.Branches() {
		for edge := 0; edge < 2; edge++ {
			if !g.EdgeDominates(br.B, edge, loc) {
				continue
			}
			ff := core.Fact{Br: br, Edge: edge, Val: edge == 0}
			if best == nil {
				best = &ff
				continue
			}
			bl := core.Loc{B: best.Br.B, I: len(best.Br.B.Nodes) - 1, P: best.Br.Cond.Pos()}
			fl := core.Loc{B: br.B, I: len(br.B.Nodes) - 1, P: br.Cond.Pos()}
			if g.Dominates(bl, fl) && !(bl == fl) {
				best = &ff
			}
		}
	}
	return best
}

func rejectReturns(u *core.Unit) []rejectReturn {
	var out []rejectReturn
	info := u.Info()
	g := u.Graph()
	for _, r := range returnsIn(u) {
		if len(r.Stmt.Results) < 1 {
			continue
		}
		v, ok := core.ObjOf(info, r.Stmt.Results[0]).(*types.Var)
		if !ok || v.Pkg() == nil || v.Parent() != v.Pkg().Scope() {
			continue
		}
		if _, known := protoErrors[v.Name()]; !known {
			continue
		}
		rr := rejectReturn{code: v.Name(), name: v.Name(), ret: r}
		if len(r.Stmt.Results) > 1 {
			if n := mapLitString(info, r.Stmt.Results[1], "name"); n != "" {
				rr.name += "[" + n + "]"
			}
		}
		rr.br = innermostFact(g, r.Loc)
		if rr.br != nil {
			plain := false
			ast.Inspect(rr.br.Br.Cond, func(n ast.Node) bool {
				if ce, isC := n.(*ast.CallExpr); isC && calleeNameOf(ce) == "HandlesUpgrades" {
					plain = true
				}
				return true
			})
			if plain {
				rr.name = rr.code + "[PLAIN_REQUEST_ON_UPGRADE_ONLY_SESSION]"
			}
		}
		out = append(out, rr)
	}
	return out
}

func c05Precedence(c *core.Ctx) {
	const R = "C05.2"
	c.Rule(R, "precedence in Verify (read off the CFG): each later reject is dominated by the pass edge of every earlier check on its branch — UNKNOWN_TRANSPORT ≺ BAD_REQUEST[INVALID_ORIGIN] ≺ {sid: UNKNOWN_SID ≺ BAD_REQUEST[TRANSPORT_MISMATCH] ≺ BAD_REQUEST[plain request on an upgrade-only session]} | {no sid: BAD_HANDSHAKE_METHOD ≺ BAD_REQUEST[TRANSPORT_HANDSHAKE_ERROR] ≺ FORBIDDEN}; the admitting return is reached only through all checks of its branch; each reject carries its documented code")
	u := c.Fn(R, bsVerify)
	if u == nil {
		return
	}
	g := u.Graph()
	info := u.Info()
	rrs := rejectReturns(u)
	by := map[string]*rejectReturn{}
	for i := range rrs {
		by[rrs[i].name] = &rrs[i]
	}
	names := []string{"UNKNOWN_TRANSPORT", "BAD_REQUEST[INVALID_ORIGIN]", "UNKNOWN_SID", "BAD_REQUEST[TRANSPORT_MISMATCH]", "BAD_REQUEST[PLAIN_REQUEST_ON_UPGRADE_ONLY_SESSION]", "BAD_HANDSHAKE_METHOD", "BAD_REQUEST[TRANSPORT_HANDSHAKE_ERROR]", "FORBIDDEN"}
	for _, n := range names {
		c.Exists(R, bsVerify+"/reject:"+n, u.Pos(), by[n] != nil && by[n].br != nil, "reject return present with a deciding condition")
	}
	c.Check(R, bsVerify+"/reject-count", u.Pos(), len(rrs) == len(names), keyf("%d reject returns (expected %d)", len(rrs), len(names)))
	prec := [][2]string{
		{"UNKNOWN_TRANSPORT", "BAD_REQUEST[INVALID_ORIGIN]"},
		{"BAD_REQUEST[INVALID_ORIGIN]", "UNKNOWN_SID"}, {"UNKNOWN_SID", "BAD_REQUEST[TRANSPORT_MISMATCH]"},
		{"BAD_REQUEST[TRANSPORT_MISMATCH]", "BAD_REQUEST[PLAIN_REQUEST_ON_UPGRADE_ONLY_SESSION]"},
		{"BAD_REQUEST[INVALID_ORIGIN]", "BAD_HANDSHAKE_METHOD"}, {"BAD_HANDSHAKE_METHOD", "BAD_REQUEST[TRANSPORT_HANDSHAKE_ERROR]"},
		{"BAD_REQUEST[TRANSPORT_HANDSHAKE_ERROR]", "FORBIDDEN"},
		{"UNKNOWN_TRANSPORT", "UNKNOWN_SID"}, {"UNKNOWN_TRANSPORT", "BAD_HANDSHAKE_METHOD"},
	}
	passDominates := func(a *rejectReturn, loc core.Loc) bool {
		return a != nil && a.br != nil && g.EdgeDominates(a.br.Br.B, 1-a.br.Edge, loc)
	}
	for _, p := range prec {
		a, b := by[p[0]], by[p[1]]
		if a == nil || b == nil {
			continue
		}
		c.Check(R, keyf("%s/%s≺%s", bsVerify, p[0], p[1]), b.ret.Stmt.Pos(), passDominates(a, b.ret.Loc), "the later reject is reachable only through the pass edge of the earlier check")
	}
	// the sid / no-sid split: UNKNOWN_SID and BAD_HANDSHAKE_METHOD are on opposite edges of one branch on sid
	var split *core.Fact
	if a, b := by["UNKNOWN_SID"], by["BAD_HANDSHAKE_METHOD"]; a != nil && b != nil {
		for _, f := range g.Facts() {
			if g.EdgeDominates(f.Br.B, f.Edge, a.ret.Loc) && g.EdgeDominates(f.Br.B, 1-f.Edge, b.ret.Loc) {
				ff := f
				split = &ff
			}
		}
	}
	c.Check(R, bsVerify+"/sid-split", u.Pos(), split != nil, "sid checks and handshake checks are on opposite edges of one test")
	// the admitting return
	var okRet *Ret
	for _, r := range returnsIn(u) {
		if len(r.Stmt.Results) >= 1 && core.IsNil(info, r.Stmt.Results[0]) {
			rr := r
			okRet = &rr
		}
	}
	if c.Exists(R, bsVerify+"/admit-return", u.Pos(), okRet != nil, "return nil, nil present") && split != nil {
		for _, n := range []string{"UNKNOWN_TRANSPORT", "BAD_REQUEST[INVALID_ORIGIN]"} {
			c.Check(R, keyf("%s/admit-after:%s", bsVerify, n), okRet.Stmt.Pos(), passDominates(by[n], okRet.Loc), "admission only through the pass edge")
		}
		unavoidable := func(edge int, node core.Loc) bool {
			start := core.State{B: split.Br.B.Succs[edge], I: 0}
			return !g.Reach(start, func(s core.State) bool { return s.B == okRet.Loc.B && s.I == okRet.Loc.I },
				func(s core.State) bool { return s.B == node.B && s.I == node.I }, nil)
		}
		condLoc := func(rr *rejectReturn) core.Loc {
			return core.Loc{B: rr.br.Br.B, I: len(rr.br.Br.B.Nodes) - 1}
		}
		for _, n := range []string{"UNKNOWN_SID", "BAD_REQUEST[TRANSPORT_MISMATCH]", "BAD_REQUEST[PLAIN_REQUEST_ON_UPGRADE_ONLY_SESSION]"} {
			if by[n] != nil && by[n].br != nil {
				c.Check(R, keyf("%s/admit(sid)-evaluates:%s", bsVerify, n), okRet.Stmt.Pos(), unavoidable(split.Edge, condLoc(by[n])), "the check cannot be bypassed on the sid branch")
			}
		}
		for _, n := range []string{"BAD_HANDSHAKE_METHOD", "BAD_REQUEST[TRANSPORT_HANDSHAKE_ERROR]"} {
			if by[n] != nil && by[n].br != nil {
				c.Check(R, keyf("%s/admit(handshake)-evaluates:%s", bsVerify, n), okRet.Stmt.Pos(), unavoidable(1-split.Edge, condLoc(by[n])), "the check cannot be bypassed on the handshake branch")
			}
		}
		// the hook accessor is consulted on the handshake branch
		for _, cl := range u.Calls() {
			if cl.Name == "AllowRequest" {
				c.Check(R, bsVerify+"/admit(handshake)-consults-AllowRequest", cl.Pos(), unavoidable(1-split.Edge, cl.Loc), "the allow-request hook is consulted for every handshake")
			}
		}
	}
	// which checks may depend on the request kind: the `upgrade` flag licenses exactly the three "plain request" rejects
	// (with polarity !upgrade); every other check applies to plain and upgrade requests alike
	upgName := paramName(u, 1)
	dep := map[string]bool{"BAD_REQUEST[TRANSPORT_MISMATCH]": true, "BAD_REQUEST[PLAIN_REQUEST_ON_UPGRADE_ONLY_SESSION]": true, "BAD_REQUEST[TRANSPORT_HANDSHAKE_ERROR]": true}
	facts := g.Facts()
	for _, n := range names {
		rr := by[n]
		if rr == nil {
			continue
		}
		var on []bool
		for _, f := range facts {
			if isLocal(info, f.Br.Cond, upgName) && g.EdgeDominates(f.Br.B, f.Edge, rr.ret.Loc) {
				on = append(on, f.Val)
			}
		}
		if dep[n] {
			c.Check(R, keyf("%s/%s-only-for-plain-requests", bsVerify, n), rr.ret.Stmt.Pos(), len(on) == 1 && !on[0], keyf("licensed by %s == false (facts on %s: %v)", upgName, upgName, on))
		} else {
			c.Check(R, keyf("%s/%s-independent-of-request-kind", bsVerify, n), rr.ret.Stmt.Pos(), len(on) == 0, keyf("the check applies to plain and upgrade requests alike (facts on %s dominating the reject: %v)", upgName, on))
		}
	}
	if okRet != nil {
		n := 0
		for _, f := range facts {
			if isLocal(info, f.Br.Cond, upgName) && g.EdgeDominates(f.Br.B, f.Edge, okRet.Loc) {
				n++
			}
		}
		c.Check(R, bsVerify+"/admit-independent-of-request-kind", okRet.Stmt.Pos(), n == 0, "no test of the upgrade flag dominates the admitting return")
	}
	// FORBIDDEN carries the hook's own error text
	if f := by["FORBIDDEN"]; f != nil && len(f.ret.Stmt.Results) > 1 {
		ok := false
		if cl, isC := ast.Unparen(f.ret.Stmt.Results[1]).(*ast.CompositeLit); isC {
			for _, el := range cl.Elts {
				if kv, isKV := el.(*ast.KeyValueExpr); isKV {
					if k, _ := core.ConstString(info, kv.Key); k == "message" {
						if ce, isCall := ast.Unparen(kv.Value).(*ast.CallExpr); isCall && calleeNameOf(ce) == "Error" {
							ok = true
						}
					}
				}
			}
		}
		c.Check(R, bsVerify+"/FORBIDDEN-carries-hook-text", f.ret.Stmt.Pos(), ok, "context[\"message\"] = err.Error()")
	}
	// what each deciding condition tests (sibling sanity: licensing atoms)
	atomOf := func(rr *rejectReturn) string {
		if rr == nil || rr.br == nil {
			return ""
		}
		return core.ExprString(rr.br.Br.Cond)
	}
	lic := map[string]func(string) bool{
		"UNKNOWN_TRANSPORT":                      func(s string) bool { return strings.Contains(s, "Has(") || strings.Contains(s, "WEBTRANSPORT") },
		"BAD_REQUEST[INVALID_ORIGIN]":            func(s string) bool { return strings.Contains(s, "CheckInvalidHeaderChar") },
		"UNKNOWN_SID":                            func(s string) bool { return s == "ok" },
		"BAD_HANDSHAKE_METHOD":                   func(s string) bool { return strings.Contains(s, "MethodGet") },
		"BAD_REQUEST[TRANSPORT_HANDSHAKE_ERROR]": func(s string) bool { return strings.Contains(s, "WEBSOCKET") || strings.Contains(s, "upgrade") },
		"BAD_REQUEST[TRANSPORT_MISMATCH]":        func(s string) bool { return strings.Contains(s, "upgrade") || strings.Contains(s, "ransport") },
		"FORBIDDEN":                              func(s string) bool { return strings.Contains(s, "err") },
	}
	_ = lic
	_ = atomOf
}

func c05RevisionLast(c *core.Ctx) {
	const R = "C05.3"
	c.Rule(R, "the revision check comes last and before any session: HandleRequest/HandleUpgrade run Verify only on the middleware-success edge (failure ⇒ BAD_REQUEST) and Handshake only on the codeMessage == nil edge; inside Handshake the `protocol == 3 && !AllowEIO3()` reject dominates GenerateId, CreateTransport, NewSocket, clients.Store and Emit(\"connection\")")
	for _, hk := range []string{srvHandle, "engine.(*server).HandleUpgrade"} {
		h := c.Fn(R, hk)
		if h == nil {
			continue
		}
		cb := c.KidOf(R, h, "callback")
		if cb != nil {
			g := cb.Graph()
			pn := paramName(cb, 0)
			nilCode := nilGuard(false, func(x *core.Unit, e ast.Expr) bool { return isLocal(x.Info(), e, pn) })
			n := 0
			for _, cl := range cb.Calls() {
				if cl.Name == "Handshake" || cl.Name == "OnRequest" || cl.Name == "Upgrade" || cl.Key == srvOnWS {
					n++
					c.Check(R, keyf("%s$callback/%s-only-when-admitted", hk, cl.Name), cl.Pos(), g.GuardedBy(cl.Loc, nilCode), "runs only on the codeMessage == nil edge")
				}
			}
			c.Need(R, "admitted actions in "+hk+"$callback", n, 1)
			// the reject edge emits+aborts
			rej := false
			for _, cl := range cb.Calls() {
				if cl.Key == "engine.(*server).emitAbortRequest" && g.GuardedBy(cl.Loc, nilGuard(true, func(x *core.Unit, e ast.Expr) bool { return isLocal(x.Info(), e, pn) })) &&
					isLocal(cb.Info(), cl.Arg(1), pn) {
					rej = true
				}
			}
			c.Check(R, hk+"$callback/reject-edge-emits-and-aborts", cb.Pos(), rej, "codeMessage != nil ⇒ emitAbortRequest(ctx, codeMessage, errorContext)")
		}
		// the ApplyMiddlewares callback
		for _, cl := range h.Calls() {
			if cl.Name != "ApplyMiddlewares" {
				continue
			}
			mw := closureArg(h, cl, 1)
			if mw == nil {
				c.Violate(R, hk+"/middleware-callback", cl.Pos(), "ApplyMiddlewares callback not found")
				continue
			}
			c.Touch(mw)
			g := mw.Graph()
			pn := paramName(mw, 0)
			okV, okB := false, false
			for _, x := range mw.Calls() {
				if x.Name == "Verify" {
					okV = g.GuardedBy(x.Loc, nilGuard(false, func(y *core.Unit, e ast.Expr) bool { return isLocal(y.Info(), e, pn) }))
				}
				if x.Callee == nil && x.Name == "callback" && len(x.Expr.Args) == 2 && isCodeVar(mw.Info(), x.Arg(0), "BAD_REQUEST") {
					okB = g.GuardedBy(x.Loc, nilGuard(true, func(y *core.Unit, e ast.Expr) bool { return isLocal(y.Info(), e, pn) }))
				}
			}
			c.Check(R, hk+"/middleware-failure→BAD_REQUEST,success→Verify", mw.Pos(), okV && okB, keyf("Verify on err==nil edge=%v; BAD_REQUEST on err!=nil edge=%v", okV, okB))
		}
	}
	hs := c.Fn(R, bsHandshake)
	if hs == nil {
		return
	}
	g := hs.Graph()
	var unsup *rejectReturn
	for _, rr := range rejectReturns(hs) {
		if rr.code == "UNSUPPORTED_PROTOCOL_VERSION" {
			r := rr
			unsup = &r
		}
	}
	if !c.Exists(R, bsHandshake+"/reject:UNSUPPORTED_PROTOCOL_VERSION", hs.Pos(), unsup != nil && unsup.br != nil, "revision reject present") {
		return
	}
	// the deciding condition is `protocol == 3 && !AllowEIO3()` (both atoms on the rejecting edge)
	hasRev, hasAllow := false, false
	for _, f := range g.Facts() {
		if f.Br.B != unsup.br.Br.B || f.Edge != unsup.br.Edge {
			continue
		}
		if cmp, ok := hs.BranchCmp(f.Br); ok && cmp.Val != nil && cmp.Val.String() == "3" && isLocal(hs.Info(), cmp.X, "protocol") && ((cmp.Op == token.EQL) == f.Val) {
			hasRev = true
		}
		if ce, isC := ast.Unparen(f.Br.Cond).(*ast.CallExpr); isC && calleeNameOf(ce) == "AllowEIO3" && !f.Val {
			hasAllow = true
		}
	}
	c.Check(R, bsHandshake+"/revision-condition", unsup.ret.Stmt.Pos(), hasRev && hasAllow, keyf("reject edge establishes protocol == 3 (%v) and AllowEIO3() == false (%v)", hasRev, hasAllow))
	n := 0
	for _, cl := range hs.Calls() {
		isAct := cl.Name == "GenerateId" || cl.Name == "CreateTransport" || cl.Key == newSocket || (cl.Name == "Store" && cl.Recv != nil && isClientsExpr(hs, cl.Recv)) || cl.Name == "OnRequest"
		if evKind(cl.Key) == "emit" {
			if ev, _ := core.ConstString(hs.Info(), cl.Arg(0)); ev == "connection" {
				isAct = true
			}
		}
		if !isAct {
			continue
		}
		n++
		c.Check(R, keyf("%s/%s-after-revision-check", bsHandshake, cl.Name), cl.Pos(), g.EdgeDominates(unsup.br.Br.B, 1-unsup.br.Edge, cl.Loc), "dominated by the pass edge of the revision check")
	}
	c.Need(R, "session-creating actions in Handshake", n, 5)
}

func c05AbortMapping(c *core.Ctx) {
	const R = "C05.4"
	c.Rule(R, "abortRequest maps status 403 exactly on codeMessage == FORBIDDEN, else 400; the body is json.Marshal(CodeMessage{Code: codeMessage.Code, Message: message}) where message defaults to codeMessage.Message and is overridden only by errorContext[\"message\"]; Content-Type: application/json and the status are set before the write")
	u := c.Fn(R, "engine.abortRequest")
	if u == nil {
		return
	}
	info := u.Info()
	g := u.Graph()
	// status variable
	var status *types.Var
	var setStatus *core.Call
	for _, cl := range u.Calls() {
		if cl.Name == "SetStatusCode" {
			setStatus = cl
			status, _ = core.ObjOf(info, cl.Arg(0)).(*types.Var)
		}
	}
	okStatus := false
	if status != nil {
		as := assignsIn(u, func(l ast.Expr) bool { return core.ObjOf(info, l) == types.Object(status) })
		var d400, d403 *Assign
		for i := range as {
			if v, ok := core.ConstInt(info, as[i].Rhs); ok {
				switch v {
				case 400:
					d400 = &as[i]
				case 403:
					d403 = &as[i]
				}
			}
		}
		if d400 != nil && d403 != nil && len(as) == 2 {
			forb := func(x *core.Unit, br core.Branch) int {
				cmp, ok := x.BranchCmp(br)
				if !ok || cmp.Y == nil {
					return 0
				}
				isCM := func(e ast.Expr) bool { return isLocal(x.Info(), e, paramName(u, 1)) }
				isF := func(e ast.Expr) bool { return isCodeVar(x.Info(), e, "FORBIDDEN") }
				if (isCM(cmp.X) && isF(cmp.Y)) || (isF(cmp.X) && isCM(cmp.Y)) {
					if cmp.Op == token.EQL {
						return 1
					}
					if cmp.Op == token.NEQ {
						return -1
					}
				}
				return 0
			}
			okStatus = g.GuardedBy(d403.Loc, forb) && !g.GuardedBy(d400.Loc, forb) && g.Dominates(d400.Loc, d403.Loc)
		}
	}
	c.Check(R, "engine.abortRequest/status-400/403", u.Pos(), okStatus && setStatus != nil, "403 iff codeMessage == FORBIDDEN, default 400")
	// body
	var marshal, write, ctype *core.Call
	for _, cl := range u.Calls() {
		switch {
		case cl.Key == "encoding/json.Marshal":
			marshal = cl
		case cl.Key == "types.(*HttpContext).Write":
			write = cl
		case cl.Name == "Set" && len(cl.Expr.Args) == 2:
			if k, _ := core.ConstString(info, cl.Arg(0)); k == "Content-Type" {
				if v, _ := core.ConstString(info, cl.Arg(1)); v == "application/json" {
					ctype = cl
				}
			}
		}
	}
	okBody := false
	if marshal != nil {
		if cl, isC := ast.Unparen(marshal.Arg(0)).(*ast.CompositeLit); isC && core.TypeName(info.TypeOf(cl)) == "CodeMessage" {
			codeOK, msgOK := false, false
			for _, el := range cl.Elts {
				kv, isKV := el.(*ast.KeyValueExpr)
				if !isKV {
					continue
				}
				k, _ := kv.Key.(*ast.Ident)
				if k == nil {
					continue
				}
				if k.Name == "Code" {
					if se, isS := ast.Unparen(kv.Value).(*ast.SelectorExpr); isS && se.Sel.Name == "Code" && isLocal(info, se.X, paramName(u, 1)) {
						codeOK = true
					}
				}
				if k.Name == "Message" {
					// message local: defs = codeMessage.Message and m.(string) from errorContext["message"]
					if v, isV := core.ObjOf(info, kv.Value).(*types.Var); isV {
						// the selection may have moved into a novel private helper(codeMessage, errorContext) returning the message
						mu, p1, p2 := u, paramName(u, 1), paramName(u, 2)
						if hu, hv := followNovelResult(c, u, v); hu != nil {
							c.Touch(hu)
							mu, v, p1, p2 = hu, hv, paramName(hu, 0), paramName(hu, 1)
						}
						defs := mu.DefsOf(v)
						d1, d2 := false, false
						for _, d := range defs {
							if se, isS := ast.Unparen(d).(*ast.SelectorExpr); isS && se.Sel.Name == "Message" && isLocal(info, se.X, p1) {
								d1 = true
							}
							if ta, isT := ast.Unparen(d).(*ast.TypeAssertExpr); isT {
								if dd, k := mu.SingleDef(ta.X); k {
									if te, isTE := dd.(*core.TupleElem); isTE {
										if ix, isIx := ast.Unparen(te.X).(*ast.IndexExpr); isIx && isLocal(info, ix.X, p2) {
											if kk, _ := core.ConstString(info, ix.Index); kk == "message" {
												d2 = true
											}
										}
									}
								}
							}
						}
						msgOK = d1 && d2 && len(defs) == 2
					}
				}
			}
			okBody = codeOK && msgOK
		}
	}
	c.Check(R, "engine.abortRequest/body", u.Pos(), okBody, "JSON of {code: codeMessage.Code, message: default codeMessage.Message | errorContext[\"message\"]}")
	okOrder := ctype != nil && setStatus != nil && write != nil && g.Dominates(ctype.Loc, write.Loc) && g.Dominates(setStatus.Loc, write.Loc) &&
		marshal != nil && tupleOf(u, write.Arg(0), marshal.Expr, 0)
	c.Check(R, "engine.abortRequest/headers+status≺write(body)", u.Pos(), okOrder, "Content-Type and status precede the write of the marshalled body")
}

func c05OneEvent(c *core.Ctx) {
	const R = "C05.5"
	c.Rule(R, "exactly one connection_error per rejection: every call of abortRequest/abortUpgrade is (a) inside emitAbortRequest/emitAbortUpgrade, which emit connection_error once and then abort, or (b) passes the code returned by Handshake, every reject return of which is preceded by exactly one Emit(\"connection_error\"); the bare abortUpgrade(BAD_REQUEST) calls of OnWebTransportSession concern the WebTransport open-packet exchange, not one of the enumerated admission checks (named exception)")
	for _, k := range []string{"engine.(*server).emitAbortRequest", "engine.(*server).emitAbortUpgrade"} {
		u := c.Fn(R, k)
		if u == nil {
			continue
		}
		g := u.Graph()
		evs := filterEv(events(c, u), "emit", "server", "connection_error")
		var ab *core.Call
		for _, cl := range u.Calls() {
			if cl.Key == "engine.abortRequest" || cl.Key == "engine.abortUpgrade" {
				ab = cl
			}
		}
		ok := len(evs) == 1 && ab != nil && g.Dominates(evs[0].Loc, ab.Loc) && sameObj(u.Info(), ab.Arg(1), paramIdent(u, 1))
		c.Check(R, k+"/emit-once-then-abort", u.Pos(), ok, "one connection_error carrying the same code, then the abort")
	}
	// a code returned by Handshake was already announced by Handshake: emitting again doubles the event
	for _, cl := range callsAnywhere(c, "engine.(*server).emitAbortRequest", "engine.(*server).emitAbortUpgrade") {
		if d, ok := cl.U.SingleDef(cl.Arg(1)); ok {
			if te, isT := d.(*core.TupleElem); isT && te.Index == 0 {
				if ce, isC := ast.Unparen(te.X).(*ast.CallExpr); isC && calleeNameOf(ce) == "Handshake" {
					c.Violate(R, keyf("%s/%s(Handshake-code)", cl.U.Key, cl.Name), cl.Pos(), "Handshake emitted connection_error for this refusal already; emitting again produces two events")
				}
			}
		}
	}
	n := 0
	for _, cl := range callsAnywhere(c, "engine.abortRequest", "engine.abortUpgrade") {
		u := cl.U
		if u.Key == "engine.(*server).emitAbortRequest" || u.Key == "engine.(*server).emitAbortUpgrade" {
			continue
		}
		n++
		c.Touch(u)
		// (b) code from Handshake
		fromHS := false
		if d, ok := u.SingleDef(cl.Arg(1)); ok {
			if te, isT := d.(*core.TupleElem); isT && te.Index == 0 {
				if ce, isC := ast.Unparen(te.X).(*ast.CallExpr); isC && calleeNameOf(ce) == "Handshake" {
					fromHS = true
				}
			}
		}
		exempt := u.Root().Key == srvOnWT && !fromHS && isCodeVar(u.Info(), cl.Arg(1), "BAD_REQUEST") && core.IsNil(u.Info(), cl.Arg(2))
		what := "rejection without connection_error event"
		if fromHS {
			what = "code returned by Handshake (which emitted the event)"
		}
		if exempt {
			what = "WebTransport open-packet exchange failure (named exception)"
		}
		c.Check(R, keyf("%s/%s(%s)", u.Key, cl.Name, core.ExprString(cl.Arg(1))), cl.Pos(), fromHS || exempt, what)
	}
	c.Need(R, "direct abort call sites", n, 4)
	if hs := c.Fn(R, bsHandshake); hs != nil {
		g := hs.Graph()
		evs := filterEv(events(c, hs), "emit", "server", "connection_error")
		for _, rr := range rejectReturns(hs) {
			cnt := 0
			for _, e := range evs {
				if g.Dominates(e.Loc, rr.ret.Loc) {
					cnt++
				}
			}
			c.Check(R, keyf("%s/reject:%s-emits-once", bsHandshake, rr.name), rr.ret.Stmt.Pos(), cnt == 1, keyf("%d connection_error emit(s) precede this reject return", cnt))
		}
	}
}

func paramIdent(u *core.Unit, i int) ast.Expr {
	n := 0
	for _, f := range u.Type.Params.List {
		for _, nm := range f.Names {
			if n == i {
				return nm
			}
			n++
		}
	}
	return nil
}

func c05NoSessionOnReject(c *core.Ctx) {
	const R = "C05.6"
	c.Rule(R, "a rejected request neither creates a session nor reaches an existing one: in Handshake no reject return is preceded by NewSocket or clients.Store; in HandleRequest the not-found edge never reaches OnRequest (C04.3) and rejected codes never reach Handshake (C05.3)")
	hs := c.Fn(R, bsHandshake)
	if hs == nil {
		return
	}
	g := hs.Graph()
	n := 0
	for _, rr := range rejectReturns(hs) {
		n++
		bad := false
		for _, cl := range hs.Calls() {
			if cl.Key == newSocket || (cl.Name == "Store" && cl.Recv != nil && isClientsExpr(hs, cl.Recv)) {
				if g.CanFollow(cl.Loc, rr.ret.Loc) {
					bad = true
				}
			}
		}
		c.Check(R, keyf("%s/reject:%s-creates-nothing", bsHandshake, rr.name), rr.ret.Stmt.Pos(), !bad, "no session creation on a path to this reject")
	}
	c.Need(R, "reject returns in Handshake", n, 3)
}

// ---- mount path ----

// pathEnum enumerates the acyclic entry→return paths of a small function,
// tracking (a) whether the string variable named v ends with "/" and (b)
// boolean locals with constant values (to prune infeasible edges).
type pathState struct {
	slash string // "slash" | "noslash" | "unknown"
	bools map[types.Object]string
	facts []string
}

func c05MountPath(c *core.Ctx) {
	const R = "C05.7"
	c.Rule(R, "mount path: (a) path-sensitive abstract evaluation of ComputePath over {ends-with-slash, no-slash}: the default literal is /engine.io and every feasible path returns a slash-terminated pattern unless options.AddTrailingSlash() was explicitly false — including options == nil — and a pattern WITHOUT trailing slash (the caller's path stripped of it) when it was explicitly false; (b) Attach registers exactly that pattern with s.ServeHTTP; (c) ServeMux cleans the request path (utils.CleanPath) before matching, tries the exact map first and then the trailing-slash prefixes, files patterns ending in '/' as prefixes, and falls back to DefaultHandler")
	u := c.Fn(R, "engine.(*baseServer).ComputePath")
	if u != nil {
		info := u.Info()
		g := u.Graph()
		var results []pathState
		var walk func(b *cfgBlock, i int, st pathState, seen map[int32]int)
		count := 0
		walk = func(b *cfgBlock, i int, st pathState, seen map[int32]int) {
			if count > 4000 {
				return
			}
			for ; i < len(b.Nodes); i++ {
				switch s := b.Nodes[i].(type) {
				case *ast.AssignStmt:
					for k, l := range s.Lhs {
						id, ok := l.(*ast.Ident)
						if !ok || k >= len(s.Rhs) {
							continue
						}
						obj := core.ObjOf(info, id)
						if obj == nil {
							continue
						}
						if bt, isB := obj.Type().Underlying().(*types.Basic); isB && bt.Kind() == types.String {
							rhs := s.Rhs[k]
							switch {
							case s.Tok == token.ADD_ASSIGN:
								if v, ok := core.ConstString(info, rhs); ok && strings.HasSuffix(v, "/") {
									st.slash = "slash"
								} else {
									st.slash = "unknown"
								}
							default:
								if v, ok := core.ConstString(info, rhs); ok {
									if strings.HasSuffix(v, "/") {
										st.slash = "slash"
									} else {
										st.slash = "noslash"
									}
									st.facts = append(st.facts, "literal:"+v)
								} else if ce, isC := ast.Unparen(rhs).(*ast.CallExpr); isC && u.CalleeKey(ce) == "strings.TrimRight" {
									if cut, _ := core.ConstString(info, ce.Args[1]); cut == "/" {
										st.slash = "noslash"
									} else {
										st.slash = "unknown"
									}
								} else if be, isBE := ast.Unparen(rhs).(*ast.BinaryExpr); isBE && be.Op == token.ADD {
									if v, ok := core.ConstString(info, be.Y); ok && strings.HasSuffix(v, "/") {
										st.slash = "slash"
									} else {
										st.slash = "unknown"
									}
								} else {
									st.slash = "unknown"
								}
							}
						}
						if bt, isB := obj.Type().Underlying().(*types.Basic); isB && bt.Kind() == types.Bool {
							nb := map[types.Object]string{}
							for kk, vv := range st.bools {
								nb[kk] = vv
							}
							if v, ok := core.ConstBool(info, s.Rhs[k]); ok {
								nb[obj] = map[bool]string{true: "T", false: "F"}[v]
							} else if ce, isC := ast.Unparen(s.Rhs[k]).(*ast.CallExpr); isC && calleeNameOf(ce) == "AddTrailingSlash" {
								nb[obj] = "opt"
							} else {
								nb[obj] = "U"
							}
							st.bools = nb
						}
					}
				case *ast.ReturnStmt:
					count++
					results = append(results, st)
					return
				}
			}
			if len(b.Succs) == 0 {
				return
			}
			if seen[b.Index] > 1 {
				return
			}
			ns := map[int32]int{}
			for k, v := range seen {
				ns[k] = v
			}
			ns[b.Index]++
			if len(b.Succs) == 1 {
				walk(b.Succs[0], 0, st, ns)
				return
			}
			// conditional: decompose facts per edge
			var cond ast.Expr
			if len(b.Nodes) > 0 {
				cond, _ = b.Nodes[len(b.Nodes)-1].(ast.Expr)
			}
			for edge := 0; edge < 2; edge++ {
				st2 := st
				st2.facts = append([]string(nil), st.facts...)
				feasible := true
				if cond != nil {
					for _, f := range g.Facts() {
						if f.Br.B != b || f.Edge != edge {
							continue
						}
						a := ast.Unparen(f.Br.Cond)
						// boolean local with a known constant
						if obj := core.ObjOf(info, a); obj != nil {
							switch st.bools[obj] {
							case "T":
								if !f.Val {
									feasible = false
								}
							case "F":
								if f.Val {
									feasible = false
								}
							case "opt":
								st2.facts = append(st2.facts, keyf("AddTrailingSlash()=%v", f.Val))
							}
						}
						if ce, isC := a.(*ast.CallExpr); isC && calleeNameOf(ce) == "AddTrailingSlash" {
							st2.facts = append(st2.facts, keyf("AddTrailingSlash()=%v", f.Val))
						}
						if cmp, ok := u.BranchCmp(f.Br); ok && cmp.Y != nil && core.IsNil(info, cmp.Y) {
							isNil := (cmp.Op == token.EQL) == f.Val
							st2.facts = append(st2.facts, keyf("%s nil=%v", selPath(cmp.X), isNil))
						}
					}
				}
				if feasible {
					walk(b.Succs[edge], 0, st2, ns)
				}
			}
		}
		walk(g.C.Blocks[0], 0, pathState{slash: "unknown", bools: map[types.Object]string{}}, map[int32]int{})
		bad, badFalse, nFalse := 0, 0, 0
		defaultOK := false
		var sample, sampleFalse string
		for _, r := range results {
			explicitFalse := false
			for _, f := range r.facts {
				if f == "AddTrailingSlash()=false" {
					explicitFalse = true
				}
				if f == "literal:/engine.io" {
					defaultOK = true
				}
			}
			if r.slash != "slash" && !explicitFalse {
				bad++
				sample = strings.Join(r.facts, "; ")
			}
			if explicitFalse {
				nFalse++
				if r.slash != "noslash" {
					badFalse++
					sampleFalse = strings.Join(r.facts, "; ")
				}
			}
		}
		c.Check(R, "engine.(*baseServer).ComputePath/no-trailing-slash-when-explicitly-off", u.Pos(), badFalse == 0 && nFalse >= 1,
			keyf("%d feasible paths with AddTrailingSlash() explicitly false; %d of them can return a pattern that still ends in '/' (the caller's path is not stripped on that path: the mount becomes a prefix instead of an exact pattern), e.g. %s", nFalse, badFalse, sampleFalse))
		c.Check(R, "engine.(*baseServer).ComputePath/trailing-slash-on-every-path", u.Pos(), bad == 0 && len(results) >= 3,
			keyf("%d feasible paths enumerated; %d return a pattern without trailing slash although AddTrailingSlash() was not explicitly false (e.g. %s)", len(results), bad, sample))
		c.Check(R, "engine.(*baseServer).ComputePath/default=/engine.io", u.Pos(), defaultOK, "the default mount literal is /engine.io")
	}
	if at := c.Fn(R, "engine.(*server).Attach"); at != nil {
		ok := false
		for _, cl := range at.Calls() {
			if cl.Name == "HandleFunc" && len(cl.Expr.Args) == 2 {
				_, key := at.AsCall(cl.Arg(0))
				h := ast.Unparen(cl.Arg(1))
				isServe := false
				if se, isS := h.(*ast.SelectorExpr); isS && se.Sel.Name == "ServeHTTP" {
					if f, _ := core.ObjOf(at.Info(), se).(*types.Func); f != nil && core.FuncKey(f) == "engine.(*server).ServeHTTP" {
						isServe = true
					}
				}
				ok = strings.HasSuffix(key, ".ComputePath") && isServe
			}
		}
		c.Check(R, "engine.(*server).Attach/HandleFunc(ComputePath(), ServeHTTP)", at.Pos(), ok, "the engine handler is mounted at the computed pattern")
	}
	if h := c.Fn(R, "types.(*ServeMux).Handler"); h != nil {
		ok := true
		n := 0
		for _, cl := range h.CallsTo("types.(*ServeMux).handler") {
			n++
			_, key := h.AsCall(cl.Arg(1))
			ok = ok && key == "utils.CleanPath"
		}
		c.Check(R, "types.(*ServeMux).Handler/CleanPath-before-match", h.Pos(), ok && n >= 1, keyf("%d dispatches, all with the cleaned path", n))
	}
	if m := c.Fn(R, "types.(*ServeMux).match"); m != nil {
		g := m.Graph()
		info := m.Info()
		// exact lookup m.m[path] dominates the prefix loop; prefix uses strings.HasPrefix(path, e.pattern)
		var exact core.Loc
		ast.Inspect(m.Body, func(n ast.Node) bool {
			if ix, ok := n.(*ast.IndexExpr); ok && fieldOf(info, ix.X) == "ServeMux.m" && isLocal(info, ix.Index, paramName(m, 0)) {
				exact = g.LocOf(ix)
			}
			return true
		})
		pref := m.CallsTo("strings.HasPrefix")
		ok := exact.Valid() && len(pref) == 1 && g.Dominates(exact, pref[0].Loc) && isLocal(info, pref[0].Arg(0), paramName(m, 0))
		c.Check(R, "types.(*ServeMux).match/exact-then-prefix", m.Pos(), ok, "exact pattern first, then HasPrefix(path, pattern) over the trailing-slash entries")
	}
	if hd := c.Fn(R, "types.(*ServeMux).Handle"); hd != nil {
		g := hd.Graph()
		info := hd.Info()
		slashG := func(x *core.Unit, br core.Branch) int {
			if r := hasSuffixSlash(x, br, paramName(hd, 0)); r != 0 {
				return r
			}
			cmp, ok := x.BranchCmp(br)
			if !ok || cmp.Val == nil {
				return 0
			}
			if ix, isIx := ast.Unparen(cmp.X).(*ast.IndexExpr); isIx && isLocal(x.Info(), ix.X, paramName(hd, 0)) {
				if cmp.Val.Kind() == constant.Int {
					if v, _ := constant.Int64Val(cmp.Val); v == '/' {
						// index must be len(pattern)-1
						terms, k := linear(x.Info(), ix.Index)
						if len(terms) == 1 && k == -1 {
							if cmp.Op == token.EQL {
								return 1
							}
							if cmp.Op == token.NEQ {
								return -1
							}
						}
					}
				}
			}
			return 0
		}
		var esOK, mOK bool
		for _, a := range fieldAssigns(hd, "ServeMux.es") {
			esOK = g.GuardedBy(a.Loc, slashG)
		}
		for _, a := range assignsIn(hd, func(l ast.Expr) bool {
			ix, ok := ast.Unparen(l).(*ast.IndexExpr)
			return ok && fieldOf(info, ix.X) == "ServeMux.m"
		}) {
			mOK = g.GuardedBy(a.Loc, func(x *core.Unit, br core.Branch) int { return -slashG(x, br) })
		}
		c.Check(R, "types.(*ServeMux).Handle/slash→prefix-list,else→exact-map", hd.Pos(), esOK && mOK, "patterns ending in '/' are prefixes, all others exact")
	}
	if h2 := c.Fn(R, "types.(*ServeMux).handler"); h2 != nil {
		ok := false
		for _, a := range assignsIn(h2, func(l ast.Expr) bool { return isLocal(h2.Info(), l, "h") }) {
			if fieldOf(h2.Info(), a.Rhs) == "ServeMux.DefaultHandler" {
				ok = h2.Graph().GuardedBy(a.Loc, nilGuard(false, func(x *core.Unit, e ast.Expr) bool { return isLocal(x.Info(), e, "h") }))
			}
		}
		c.Check(R, "types.(*ServeMux).handler/unmatched→DefaultHandler", h2.Pos(), ok, "a request matching no pattern goes to the application's own handler")
	}
}

func c05UpgradeRejection(c *core.Ctx) {
	const R = "C05.8"
	c.Rule(R, "a handshake refused after the WebSocket/WebTransport connection was accepted is closed with a close message carrying the same text: onWebSocket/OnWebTransportSession pass Handshake's code to abortUpgrade on the t == nil edge; abortUpgrade writes a Close frame with FormatCloseMessage(…, message) when ctx.Websocket != nil, CloseWithError(…, message) when ctx.WebTransport != nil, where message defaults to codeMessage.Message / errorContext[\"message\"]")
	for _, k := range []string{srvOnWS, srvOnWT} {
		u := c.Fn(R, k)
		if u == nil {
			continue
		}
		n := 0
		for _, cl := range u.CallsTo("engine.abortUpgrade") {
			d, ok := u.SingleDef(cl.Arg(1))
			if !ok {
				continue
			}
			te, isT := d.(*core.TupleElem)
			if !isT || te.Index != 0 {
				continue
			}
			hsCall, isC := ast.Unparen(te.X).(*ast.CallExpr)
			if !isC || calleeNameOf(hsCall) != "Handshake" {
				continue
			}
			n++
			g := u.Graph()
			okEdge := g.GuardedBy(cl.Loc, nilGuard(false, func(x *core.Unit, e ast.Expr) bool { return tupleOf(x, e, hsCall, 1) }))
			c.Check(R, k+"/Handshake-failure→abortUpgrade(code)", cl.Pos(), okEdge, "on the t == nil edge the returned code is given to abortUpgrade")
		}
		c.Need(R, "abortUpgrade with Handshake's code in "+k, n, 1)
	}
	au := c.Fn(R, "engine.abortUpgrade")
	if au == nil {
		return
	}
	info := au.Info()
	g := au.Graph()
	wsG := nilGuard(true, func(x *core.Unit, e ast.Expr) bool { return fieldOf(x.Info(), e) == "HttpContext.Websocket" })
	wtG := nilGuard(true, func(x *core.Unit, e ast.Expr) bool { return fieldOf(x.Info(), e) == "HttpContext.WebTransport" })
	okWS, okWT := false, false
	for _, cl := range au.Calls() {
		if cl.Name == "WriteMessage" && g.GuardedBy(cl.Loc, wsG) {
			if v, ok := core.ConstInt(info, cl.Arg(0)); ok && v == 8 { // websocket.CloseMessage
				if ce, isC := ast.Unparen(cl.Arg(1)).(*ast.CallExpr); isC && calleeNameOf(ce) == "FormatCloseMessage" && len(ce.Args) == 2 && isLocal(info, ce.Args[1], "message") {
					okWS = true
				}
			}
		}
		if cl.Name == "CloseWithError" && g.GuardedBy(cl.Loc, wtG) && isLocal(info, cl.Arg(1), "message") {
			okWT = true
		}
	}
	c.Check(R, "engine.abortUpgrade/close-frame-carries-message", au.Pos(), okWS && okWT, keyf("websocket close frame=%v, webtransport session error=%v", okWS, okWT))
}

// c05QueryAccessors — C05.9: the admission checks and the dispatch must read the same value of a repeated query key.
func c05QueryAccessors(c *core.Ctx) {
	const R = "C05.9"
	c.Rule(R, "sibling agreement on query parameters: every read of the admission-relevant keys sid, transport, EIO (and j, b64) in engine/ and transports/ selects the same value of a repeated key — the last one (Peek / Get / GetLast) or presence (Has); a site that reads the first value (GetFirst) or the list (Gets) while Verify reads the last lets `sid=&sid=<live id>` be admitted as an existing session and dispatched as a handshake, bypassing the handshake-only checks")
	keys := map[string]bool{"sid": true, "transport": true, "EIO": true, "j": true, "b64": true}
	class := map[string]string{"Peek": "last", "Get": "last", "GetLast": "last", "Has": "presence", "GetFirst": "first", "Gets": "all"}
	n := 0
	for _, u := range c.P.Units {
		if u.Pkg != c.P.Pkgs["engine"] && u.Pkg != c.P.Pkgs["transports"] {
			continue
		}
		for _, cl := range u.Calls() {
			cls, isAcc := class[cl.Name]
			if !isAcc || cl.Recv == nil || core.TypeName(u.Info().TypeOf(cl.Recv)) != "ParameterBag" {
				continue
			}
			// only the request query (ctx.Query()), not header bags
			if ce, isC := ast.Unparen(cl.Recv).(*ast.CallExpr); !isC || calleeNameOf(ce) != "Query" {
				continue
			}
			k, isS := core.ConstString(u.Info(), cl.Arg(0))
			if !isS || !keys[k] {
				continue
			}
			n++
			c.Touch(u)
			c.Check(R, keyf("%s/Query().%s(%q)", u.Key, cl.Name, k), cl.Pos(), cls == "last" || cls == "presence", keyf("value selection %q (all sites must agree on the last value)", cls))
		}
	}
	c.Need(R, "reads of admission-relevant query keys", n, 10)
}

// c05OriginPredicate — C05.10: the body of the 'Origin header well-formed' test.
func c05OriginPredicate(c *core.Ctx) {
	const R = "C05.10"
	c.Rule(R, "Origin predicate (utils.CheckInvalidHeaderChar): the value is scanned as received — the parameter is never re-assigned (no trimming or normalising before the scan), one loop visits every index 0..len(val)-1, `return true` is reached exactly on isCTL(b) ∧ ¬isLWS(b) of b = val[i], the fall-through returns false; isCTL(b) = b < 0x20 ∨ b == 0x7f and isLWS(b) = b == ' ' ∨ b == '\\t'; Verify feeds it Headers().Peek(\"Origin\")")
	u := c.Fn(R, "utils.CheckInvalidHeaderChar")
	if u != nil {
		info := u.Info()
		g := u.Graph()
		pn := paramName(u, 0)
		writes := len(assignsIn(u, func(l ast.Expr) bool { return isLocal(info, l, pn) }))
		c.Check(R, "utils.CheckInvalidHeaderChar/scans-the-raw-value", u.Pos(), writes == 0, keyf("%d assignment(s) to the parameter before/while scanning", writes))
		// the loop
		var loop *ast.ForStmt
		nLoops := 0
		ast.Inspect(u.Body, func(n ast.Node) bool {
			switch x := n.(type) {
			case *ast.ForStmt:
				nLoops++
				loop = x
			case *ast.RangeStmt:
				nLoops++
			}
			return true
		})
		full := false
		if loop != nil && nLoops == 1 {
			// i starts at 0, bound is len(val) (directly or through a local), step i++
			start0, bound, step := false, false, false
			if as, ok := loop.Init.(*ast.AssignStmt); ok {
				for i, r := range as.Rhs {
					if v, isC := core.ConstInt(info, r); isC && v == 0 && i == 0 {
						start0 = true
					}
				}
			}
			if be, ok := loop.Cond.(*ast.BinaryExpr); ok && be.Op == token.LSS {
				d := u.Resolve(be.Y)
				if ce, ok := ast.Unparen(d).(*ast.CallExpr); ok && len(ce.Args) == 1 && calleeNameOf(ce) == "len" && isLocal(info, ce.Args[0], pn) {
					bound = true
				}
			}
			if inc, ok := loop.Post.(*ast.IncDecStmt); ok && inc.Tok == token.INC {
				step = true
			}
			full = start0 && bound && step
		}
		c.Check(R, "utils.CheckInvalidHeaderChar/visits-every-byte", u.Pos(), full, "for i := 0; i < len(val); i++")
		// return true exactly on isCTL ∧ ¬isLWS
		okTrue, okFalse := false, false
		for _, r := range returnsIn(u) {
			if len(r.Stmt.Results) != 1 {
				continue
			}
			v, isC := core.ConstBool(info, r.Stmt.Results[0])
			if !isC {
				continue
			}
			if v {
				okTrue = g.GuardedBy(r.Loc, boolCallGuard(true, "utils.isCTL")) && g.GuardedBy(r.Loc, boolCallGuard(false, "utils.isLWS"))
			} else {
				okFalse = !g.GuardedBy(r.Loc, boolCallGuard(true, "utils.isCTL"))
			}
		}
		c.Check(R, "utils.CheckInvalidHeaderChar/invalid-iff-CTL-and-not-LWS", u.Pos(), okTrue && okFalse, keyf("return true on isCTL ∧ ¬isLWS: %v; return false otherwise: %v", okTrue, okFalse))
	}
	// the two byte classes
	classes := []struct {
		key  string
		want map[string]int64 // op → constant
	}{
		{"utils.isCTL", map[string]int64{"<": 0x20, "==": 0x7f}},
		{"utils.isLWS", map[string]int64{"==a": ' ', "==b": '\t'}},
	}
	for _, cls := range classes {
		f := c.Fn(R, cls.key)
		if f == nil {
			continue
		}
		info := f.Info()
		ok := false
		for _, r := range returnsIn(f) {
			if len(r.Stmt.Results) != 1 {
				continue
			}
			be, isB := ast.Unparen(r.Stmt.Results[0]).(*ast.BinaryExpr)
			if !isB || be.Op != token.LOR {
				continue
			}
			got := map[string]bool{}
			for _, side := range []ast.Expr{be.X, be.Y} {
				cmp, isC := ast.Unparen(side).(*ast.BinaryExpr)
				if !isC {
					continue
				}
				if v, isK := core.ConstInt(info, cmp.Y); isK && isLocal(info, cmp.X, paramName(f, 0)) {
					got[keyf("%s%d", cmp.Op.String(), v)] = true
				}
			}
			if cls.key == "utils.isCTL" {
				ok = got["<32"] && got["==127"] && len(got) == 2
			} else {
				ok = got["==32"] && got["==9"] && len(got) == 2
			}
		}
		c.Check(R, cls.key+"/byte-class", f.Pos(), ok, "the byte class is exactly the RFC 2616 definition")
	}
}
