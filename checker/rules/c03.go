package rules

import (
	"go/ast"
	"go/constant"
	"go/token"
	"go/types"
	"strings"

	"engcheck/core"
)

const (
	sockPkg      = "engine.(*socket)."
	sockOnClose  = "engine.(*socket).OnClose"
	sockClose    = "engine.(*socket).Close"
	sockOnOpen   = "engine.(*socket).onOpen"
	sockOnPacket = "engine.(*socket).onPacket"
	sockFlush    = "engine.(*socket).flush"
	sockSendPkt  = "engine.(*socket).sendPacket"
	sockSetTr    = "engine.(*socket).setTransport"
	sockClearTr  = "engine.(*socket).clearTransport"
	sockUpgrade  = "engine.(*socket).MaybeUpgrade"
)

var sockStateKeys = []string{"engine.(*socket).ReadyState", "engine.(Socket).ReadyState"}
var trStateKeys = []string{"transports.(*transport).ReadyState", "transports.(Transport).ReadyState"}

var stateOrder = map[string]int{"opening": 0, "open": 1, "closing": 2, "closed": 3}

func init() {
	register("C03", func(c *core.Ctx, tier string) {
		abortedPostNotAnError(c, "C03.18")
		bufferedCloseRechecksWritable(c, "C03.19")
		closedByPacketListener(c, "C03.20")
		eofWithCompleteFrame(c, "C03.21")
		upgradeAttemptConcludedOnce(c, "C03.22")
		deliveryOrderedWithClose(c, "C03.23")
		c08UpgradeBranchWiring(c, "C03.24") // the old transport is discarded before it is torn down: its Discard can complete a buffered close, which must happen ahead of the closed re-check
		pingBody(c, "C03.16") // a session that stopped being open still ends with a close event: the ping deadline is armed whatever became of the ping
		baseTransportEffects(c, "C03.14")
		variadicIndexSafety(c, "C03.15")
		frameTransportEffects(c, "C03.13")
		accessorAgreement(c, "C03.12")
		c03StateWrites(c)
		casPolarity(c, "C03.2b")
		c03ConstructionWiring(c, "C03.9")
		c03CloseEpilogue(c)
		c03Reasons(c)
		c03Silence(c)
		c03ListenerPairs(c)
		c03TransportGuards(c)
		c03AdmittedStates(c, "C03.5b", nil)
		c11ReleaseAtClose(c, "C03.8") // the caller's close callback (→ OnClose("forced close")) is run on every polling DoClose path
		c12CallbackBeforeTeardown(c)  // … and by websocket/webtransport DoClose, handed over by transport.Close
		c12CloseWaitsForBuffer(c)     // closeTransport's callback reports 'forced close'
		c03PeerCloseClassification(c)
		c03WhoClosesTransport(c)
	})
}

// sessionStateExpr: e denotes the session's ready state: a call of
// ReadyState() (possibly via a local) or the previous value returned by
// readyState.Swap (possibly via a local).
func sessionStateExpr(u *core.Unit, e ast.Expr, keys []string, field string) bool {
	call, key := u.AsCall(e)
	if call == nil {
		return false
	}
	for _, k := range keys {
		if key == k {
			return true
		}
	}
	if field != "" && (key == "sync/atomic.(*Value).Swap" || key == "sync/atomic.(*Value).Load") {
		if se, ok := call.Fun.(*ast.SelectorExpr); ok && fieldOf(u.Info(), se.X) == field {
			return true
		}
	}
	return false
}

// stateExcludes: guard establishing "state != st" (directly, or by pinning
// the state to another value).
func stateExcludes(keys []string, field string, sts ...string) core.Guard {
	return func(u *core.Unit, br core.Branch) int {
		cmp, ok := u.BranchCmp(br)
		if !ok || cmp.Val == nil {
			return 0
		}
		if !sessionStateExpr(u, cmp.X, keys, field) {
			return 0
		}
		if cmp.Val.Kind() != constant.String {
			return 0
		}
		v := constant.StringVal(cmp.Val)
		isExcluded := false
		for _, st := range sts {
			if v == st {
				isExcluded = true
			}
		}
		switch {
		case cmp.Op == token.EQL && !isExcluded:
			return 1 // X == other-state ⇒ X ∉ sts
		case cmp.Op == token.NEQ && !isExcluded:
			return -1
		case cmp.Op == token.NEQ && isExcluded && len(sts) == 1:
			return 1 // X != st
		case cmp.Op == token.EQL && isExcluded && len(sts) == 1:
			return -1
		}
		return 0
	}
}

func trimQuotes(s string) string {
	if len(s) >= 2 && s[0] == '"' {
		return s[1 : len(s)-1]
	}
	return s
}

// excludesAll: loc is guarded against every state in sts (each possibly by a different test).
func excludesAll(g *core.Graph, loc core.Loc, keys []string, field string, sts ...string) bool {
	for _, st := range sts {
		if !g.GuardedBy(loc, stateExcludes(keys, field, st)) {
			return false
		}
	}
	return true
}

// C03.1/2 — state-write table and atomic transitions.
func c03StateWrites(c *core.Ctx) {
	const R1, R2 = "C03.1", "C03.2"
	c.Rule(R1, "every write of socket.readyState is in the table {MakeSocket: Store(opening); onOpen: opening→open; Close: open→closing; OnClose: *→closed}: constants in the four-state order, each transition strictly forward")
	c.Rule(R2, "ATOMIC(test, write): every non-initial transition is a single CompareAndSwap(old,new) / Swap(closed) on the state (its result licensing the branch), never a separate ReadyState() test followed by a Store — otherwise two close causes can both pass the test (two close events) or Close can overwrite \"closed\"")
	n := 0
	expect := map[string]string{
		"engine.MakeSocket": "Store(opening)",
		sockOnOpen:          "CompareAndSwap(opening,open)",
		sockClose:           "CompareAndSwap(open,closing)",
		sockOnClose:         "Swap(closed)",
	}
	seen := map[string]bool{}
	for _, u := range c.P.Units {
		info := u.Info()
		for _, cl := range u.Calls() {
			if cl.Recv == nil || fieldOf(info, cl.Recv) != "socket.readyState" {
				continue
			}
			switch cl.Name {
			case "Load":
				continue
			case "Store", "Swap", "CompareAndSwap":
			default:
				continue
			}
			n++
			c.Touch(u)
			root := u.Root().Key
			var desc string
			ok := false
			switch cl.Name {
			case "Store":
				v, isC := core.ConstString(info, cl.Arg(0))
				desc = keyf("Store(%s)", v)
				if u.Key == "engine.(*socket).SetReadyState" {
					// the generic setter: must have no caller on a session inside /repo (checked below)
					c.Check(R1, u.Key+"/generic-setter", cl.Pos(), true, "SetReadyState stores its argument; callers are enumerated separately")
					continue
				}
				ok = isC && v == "opening" && root == "engine.MakeSocket"
				if isC && v != "opening" {
					c.Violate(R2, keyf("%s/%s", u.Key, desc), cl.Pos(), "a non-initial state is written with a plain Store: the licensing test and the write are not one atomic step")
				}
			case "CompareAndSwap":
				o, ok1 := core.ConstString(info, cl.Arg(0))
				nw, ok2 := core.ConstString(info, cl.Arg(1))
				desc = keyf("CompareAndSwap(%s,%s)", o, nw)
				_, inO := stateOrder[o]
				_, inN := stateOrder[nw]
				ok = ok1 && ok2 && inO && inN && stateOrder[o] < stateOrder[nw]
				// the result must license the continuation: used as a branch condition
				used := casResultBranches(u, cl)
				if !used && u.Key == sockClose && o == "open" && nw == "closing" {
					// the discarding Close: its effect (closeTransport(true)) is licensed by the test state ∈ {open, closing}
					// that dominates it, for either outcome of the transition; the CompareAndSwap only publishes "closing"
					// so that a transport switch under way closes the new transport (fix 22efbbe)
					used = stateSetString(admittedStates(u, cl.Loc, sockStateKeys, "socket.readyState")) == "{open,closing}" && paramGuard(u, cl.Loc, 0)
				}
				c.Check(R2, keyf("%s/%s/result-licenses", u.Key, desc), cl.Pos(), used, "the CompareAndSwap result decides whether the transition's effects run")
			case "Swap":
				v, isC := core.ConstString(info, cl.Arg(0))
				desc = keyf("Swap(%s)", v)
				ok = isC && v == "closed"
				used := false
				g := u.Graph()
				for _, f := range g.Facts() {
					cmp, k := u.BranchCmp(f.Br)
					if k && cmp.Val != nil && trimQuotes(cmp.Val.ExactString()) == "closed" {
						if call, _ := u.AsCall(cmp.X); call == cl.Expr {
							used = true
						}
					}
				}
				c.Check(R2, keyf("%s/%s/result-licenses", u.Key, desc), cl.Pos(), used, "the previous state returned by Swap is compared with \"closed\" to license the close effects")
			}
			want := expect[root]
			seen[root] = seen[root] || (want == desc)
			c.Check(R1, keyf("%s/%s", u.Key, desc), cl.Pos(), ok && want == desc, keyf("state write %s in %s (table expects %q)", desc, root, want))
		}
	}
	for fn, w := range expect {
		c.Exists(R1, fn+"/"+w+"/present", token.NoPos, seen[fn], "the transition of the table is present")
	}
	c.Need(R1, "writes of socket.readyState", n, 4)
	// nobody in /repo calls SetReadyState on a session
	for _, cl := range callsAnywhere(c, "engine.(*socket).SetReadyState", "engine.(Socket).SetReadyState") {
		c.Violate(R2, keyf("%s/SetReadyState(%s)", cl.U.Key, core.ExprString(cl.Arg(0))), cl.Pos(), "session state written through the non-atomic generic setter")
	}
}

// casResultBranches: the call is (part of) a branch condition, directly or via a local.
func casResultBranches(u *core.Unit, cl *core.Call) bool {
	g := u.Graph()
	for _, f := range g.Facts() {
		e := ast.Unparen(f.Br.Cond)
		if e == cl.Expr {
			return true
		}
		if d, ok := u.SingleDef(e); ok && ast.Unparen(d) == cl.Expr {
			return true
		}
	}
	return false
}

// closedLicence: guard for the body of OnClose (previous state != closed).
func onCloseLicence() core.Guard {
	return stateExcludes(sockStateKeys, "socket.readyState", "closed")
}

// C03.3 — close epilogue.
func c03CloseEpilogue(c *core.Ctx) {
	const R = "C03.3"
	c.Rule(R, "in OnClose, on the licensed branch: ClearTimeout(pingIntervalTimer), ClearTimeout(pingTimeoutTimer), packetsFn.Clear, sentCallbackFn.Clear and clearTransport all precede the single Emit(\"close\", reason, …); no other function emits \"close\" on a session")
	u := c.Fn(R, sockOnClose)
	if u == nil {
		return
	}
	info := u.Info()
	g := u.Graph()
	evs := filterEv(events(c, u), "emit", "session", "close")
	if !c.Check(R, sockOnClose+"/emit(close)-once", u.Pos(), len(evs) == 1, keyf("%d Emit(\"close\") sites", len(evs))) {
		return
	}
	em := evs[0]
	c.Check(R, sockOnClose+"/emit(close)-licensed", em.Pos(), g.GuardedBy(em.Loc, onCloseLicence()), "the close event is emitted only by the caller that performed the transition to closed")
	c.Check(R, sockOnClose+"/emit(close)-carries-reason", em.Pos(), isLocal(info, em.Arg(1), paramName(u, 0)), "the event carries the reason given by the close cause")
	// not inside a loop
	inLoop := g.Reach(g.After(em.Loc), func(s core.State) bool { return s.B == em.Loc.B && s.I == em.Loc.I }, nil, nil)
	c.Check(R, sockOnClose+"/emit(close)-not-in-loop", em.Pos(), !inLoop, "no cycle contains the emit")
	type pre struct {
		what string
		find func(cl *core.Call) bool
	}
	pres := []pre{
		{"ClearTimeout(pingIntervalTimer)", func(cl *core.Call) bool {
			return (cl.Key == clearTOKey || cl.Key == clearIVKey) && timerHolder(info, cl.Arg(0)) == "socket.pingIntervalTimer"
		}},
		{"ClearTimeout(pingTimeoutTimer)", func(cl *core.Call) bool {
			return (cl.Key == clearTOKey || cl.Key == clearIVKey) && timerHolder(info, cl.Arg(0)) == "socket.pingTimeoutTimer"
		}},
		{"packetsFn.Clear", func(cl *core.Call) bool {
			return cl.Name == "Clear" && cl.Recv != nil && fieldOf(info, cl.Recv) == "socket.packetsFn"
		}},
		{"sentCallbackFn.Clear", func(cl *core.Call) bool {
			return cl.Name == "Clear" && cl.Recv != nil && fieldOf(info, cl.Recv) == "socket.sentCallbackFn"
		}},
		{"clearTransport", func(cl *core.Call) bool { return cl.Key == sockClearTr }},
	}
	calls := u.Calls()
	for _, p := range pres {
		ok := false
		var pos token.Pos = u.Pos()
		for _, cl := range calls {
			if p.find(cl) && !cl.Deferred && !cl.Go && g.Dominates(cl.Loc, em.Loc) {
				ok = true
				pos = cl.Pos()
			}
		}
		c.Check(R, keyf("%s/%s≺emit(close)", sockOnClose, p.what), pos, ok, "teardown step precedes the close event on every path")
	}
	// WHO emits close on a session
	for _, x := range c.P.Units {
		for _, e := range filterEv(events(c, x), "emit", "session", "close") {
			c.Check(R, keyf("%s/emit(close)@session", x.Key), e.Pos(), x.Key == sockOnClose, "only OnClose may emit the session's close event")
		}
	}
}

// C03.4 — documented close reasons.
func c03Reasons(c *core.Ctx) {
	const R = "C03.4"
	c.Rule(R, "every call of (*socket).OnClose passes a constant reason from {transport close, transport error, ping timeout, parse error, forced close}")
	doc := map[string]bool{"transport close": true, "transport error": true, "ping timeout": true, "parse error": true, "forced close": true}
	n := 0
	for _, cl := range callsAnywhere(c, sockOnClose, "engine.(Socket).OnClose") {
		n++
		c.Touch(cl.U)
		v, isC := core.ConstString(cl.U.Info(), cl.Arg(0))
		c.Check(R, keyf("%s/OnClose(%q)", cl.U.Key, v), cl.Pos(), isC && doc[v], keyf("reason constant=%v documented=%v", isC, doc[v]))
	}
	c.Need(R, "call sites of socket.OnClose", n, 6)
}

// C03.5 — silence after close.
func c03Silence(c *core.Ctx) {
	const R = "C03.5"
	c.Rule(R, "every session-level Emit of message|data|packet|heartbeat|upgrade|flush|drain|packetCreate (and the server-level flush/drain of a session) is dominated by a ready-state test excluding \"closed\"; sendPacket buffers, emits and flushes only when the state is neither closing nor closed (Send after close is a no-op); send callbacks are silenced by C03.3 (queues cleared and drain listener removed before the close event)")
	silent := map[string]bool{"message": true, "data": true, "packet": true, "heartbeat": true, "upgrade": true, "flush": true, "drain": true, "packetCreate": true}
	n := 0
	for _, u := range c.P.Units {
		if u.Pkg != c.P.Pkgs["engine"] {
			continue
		}
		for _, e := range events(c, u) {
			if e.Kind != "emit" || !silent[e.Event] {
				continue
			}
			isSession := e.Class == "session"
			isServerOfSession := e.Class == "server" && (e.Event == "flush" || e.Event == "drain") && u.Root().Key == sockFlush
			if !isSession && !isServerOfSession {
				continue
			}
			n++
			c.Touch(u)
			g := u.Graph()
			ok := excludesAll(g, e.Loc, sockStateKeys, "socket.readyState", "closed")
			c.Check(R, keyf("%s/emit(%s)@%s", u.Key, e.Event, e.Class), e.Pos(), ok, "dominated by a state test that excludes closed")
		}
	}
	c.Need(R, "session-level emits of the silenced events", n, 10)
	sp := c.Fn(R, sockSendPkt)
	if sp != nil {
		g := sp.Graph()
		info := sp.Info()
		m := 0
		for _, cl := range sp.Calls() {
			effect := cl.Key == sockFlush || evKind(cl.Key) == "emit" ||
				(cl.Name == "Push" && cl.Recv != nil && (fieldOf(info, cl.Recv) == "socket.writeBuffer" || fieldOf(info, cl.Recv) == "socket.packetsFn"))
			if !effect {
				continue
			}
			m++
			ok := excludesAll(g, cl.Loc, sockStateKeys, "socket.readyState", "closing", "closed")
			c.Check(R, keyf("%s/%s-only-when-not-closing-or-closed", sockSendPkt, cl.Name), cl.Pos(), ok, "Send after Close/close has no effect")
		}
		c.Need(R, "effects in sendPacket", m, 4)
	}
}

// regSite is a listener registration or removal.
type regSite struct {
	ev       *Ev
	listener types.Object
	recvObj  types.Object
}

func regSites(c *core.Ctx, u *core.Unit, kinds ...string) []regSite {
	var out []regSite
	for _, e := range events(c, u) {
		hit := false
		for _, k := range kinds {
			if e.Kind == k {
				hit = true
			}
		}
		if !hit || e.Event == "" {
			continue
		}
		rs := regSite{ev: e}
		if a := e.Arg(1); a != nil {
			rs.listener = core.ObjOf(u.Info(), a)
		}
		rs.recvObj = core.ObjOf(u.Info(), e.Recv)
		out = append(out, rs)
	}
	return out
}

// C03.6 — listener pairing.
func c03ListenerPairs(c *core.Ctx) {
	const R = "C03.6"
	c.Rule(R, "PAIR(listeners): each On/Once registered by setTransport on the transport has a RemoveListener with the same emitter, event and listener variable in the cleanup closure pushed to cleanupFn (error and close use Once); clearTransport runs every cleanup and empties the list; same pairing for MaybeUpgrade's four registrations vs its cleanup closure")
	st := c.Fn(R, sockSetTr)
	if st != nil {
		regs := regSites(c, st, "on", "once")
		var cleanup *core.Unit
		for _, cl := range st.Calls() {
			if cl.Name == "Push" && cl.Recv != nil && fieldOf(st.Info(), cl.Recv) == "socket.cleanupFn" {
				cleanup = closureArg(st, cl, 0)
			}
		}
		c.Exists(R, sockSetTr+"/cleanup-pushed", st.Pos(), cleanup != nil, "a cleanup closure is pushed to cleanupFn")
		var rems []regSite
		if cleanup != nil {
			c.Touch(cleanup)
			rems = regSites(c, cleanup, "remove")
		}
		pairCheck(c, R, sockSetTr, regs, rems, map[string]string{"error": "once", "close": "once"})
		c.Need(R, "listener registrations in setTransport", len(regs), 5)
	}
	mu := c.Fn(R, sockUpgrade)
	if mu != nil {
		regs := regSites(c, mu, "on", "once")
		cu := c.KidOf(R, mu, "cleanup")
		var rems []regSite
		if cu != nil {
			rems = regSites(c, cu, "remove")
		}
		pairCheck(c, R, sockUpgrade, regs, rems, map[string]string{"close": "once", "error": "once"})
		c.Need(R, "listener registrations in MaybeUpgrade", len(regs), 4)
	}
	ct := c.Fn(R, sockClearTr)
	if ct != nil {
		ok := false
		for _, cl := range ct.Calls() {
			if cl.Name == "DoWrite" && cl.Recv != nil && fieldOf(ct.Info(), cl.Recv) == "socket.cleanupFn" {
				k := closureArg(ct, cl, 0)
				if k == nil {
					continue
				}
				c.Touch(k)
				// calls each element inside a range over its parameter and returns an empty slice of it
				pn := paramName(k, 0)
				calledAll, emptied := false, false
				ast.Inspect(k.Body, func(n ast.Node) bool {
					if rs, isR := n.(*ast.RangeStmt); isR && isLocal(k.Info(), rs.X, pn) {
						if v, isId := rs.Value.(*ast.Ident); isId {
							ast.Inspect(rs.Body, func(x ast.Node) bool {
								if ce, isC := x.(*ast.CallExpr); isC && isLocal(k.Info(), ce.Fun, v.Name) {
									calledAll = true
								}
								return true
							})
						}
					}
					return true
				})
				for _, r := range returnsIn(k) {
					if len(r.Stmt.Results) == 1 {
						if core.IsNil(k.Info(), r.Stmt.Results[0]) {
							emptied = true
						}
						if se, isS := ast.Unparen(r.Stmt.Results[0]).(*ast.SliceExpr); isS && se.High != nil {
							if v, isC := core.ConstInt(k.Info(), se.High); isC && v == 0 {
								emptied = true
							}
						}
					}
				}
				ok = calledAll && emptied
			}
		}
		c.Check(R, sockClearTr+"/runs-and-empties-cleanupFn", ct.Pos(), ok, "every registered cleanup runs and the list is emptied")
	}
}

func pairCheck(c *core.Ctx, R, where string, regs, rems []regSite, mustOnce map[string]string) {
	for _, r := range regs {
		found := false
		for _, m := range rems {
			if m.ev.Event == r.ev.Event && m.listener != nil && m.listener == r.listener && m.recvObj == r.recvObj {
				found = true
			}
		}
		lname := "?"
		if r.listener != nil {
			lname = r.listener.Name()
		}
		c.Check(R, keyf("%s/%s(%s,%s)@%s↔RemoveListener", where, r.ev.Kind, r.ev.Event, lname, r.ev.Class), r.ev.Pos(), found,
			"registration has a matching RemoveListener (same emitter, event, listener) in the cleanup")
		if want, ok := mustOnce[r.ev.Event]; ok && r.ev.Class == "transport" || (ok && r.ev.Class == "session") {
			c.Check(R, keyf("%s/%s(%s)-is-%s", where, r.ev.Kind, r.ev.Event, want), r.ev.Pos(), r.ev.Kind == want, "terminal events are listened to with Once")
		}
	}
}

// C03.7 — transport-level guards.
func c03TransportGuards(c *core.Ctx) {
	const R = "C03.7"
	c.Rule(R, "transport.Close reaches DoClose only when the transport state is neither closing nor closed; transport.OnClose emits close only when the state was not closed")
	if tc := c.Fn(R, "transports.(*transport).Close"); tc != nil {
		g := tc.Graph()
		n := 0
		for _, cl := range tc.Calls() {
			if cl.Name == "DoClose" {
				n++
				c.Check(R, "transports.(*transport).Close/DoClose-guarded", cl.Pos(), excludesAll(g, cl.Loc, trStateKeys, "transport._readyState", "closing", "closed"), "DoClose is skipped for a closing or closed transport")
			}
		}
		c.Need(R, "DoClose call in transport.Close", n, 1)
	}
	if to := c.Fn(R, "transports.(*transport).OnClose"); to != nil {
		g := to.Graph()
		n := 0
		for _, e := range filterEv(events(c, to), "emit", "", "close") {
			n++
			c.Check(R, "transports.(*transport).OnClose/emit(close)-guarded", e.Pos(), excludesAll(g, e.Loc, trStateKeys, "transport._readyState", "closed"), "a closed transport does not emit close again")
		}
		c.Need(R, "Emit(close) in transport.OnClose", n, 1)
	}
}

// admittedStates evaluates, for each of the four session states, whether loc
// is reachable when every comparison of the session state with a constant on
// the way is decided as if the state had that value (abstract interpretation
// over the finite state domain; other conditions are left undecided = both
// edges possible).
func admittedStates(u *core.Unit, loc core.Loc, keys []string, field string) map[string]bool {
	g := u.Graph()
	out := map[string]bool{}
	branches := map[*cfgBlock]core.Branch{}
	for _, br := range g.Branches() {
		branches[br.B] = br
	}
	// three-valued evaluation of a condition under "state == st": 1 true, -1 false, 0 unknown
	var eval func(e ast.Expr, st string) int
	atom := func(br core.Branch, st string) int {
		cmp, ok := u.BranchCmp(br)
		if !ok || cmp.Val == nil || cmp.Val.Kind() != constant.String || !sessionStateExpr(u, cmp.X, keys, field) {
			return 0
		}
		v := constant.StringVal(cmp.Val)
		switch cmp.Op {
		case token.EQL:
			if st == v {
				return 1
			}
			return -1
		case token.NEQ:
			if st != v {
				return 1
			}
			return -1
		}
		return 0
	}
	eval = func(e ast.Expr, st string) int {
		e = ast.Unparen(e)
		switch x := e.(type) {
		case *ast.UnaryExpr:
			if x.Op == token.NOT {
				return -eval(x.X, st)
			}
		case *ast.BinaryExpr:
			switch x.Op {
			case token.LAND:
				a, b := eval(x.X, st), eval(x.Y, st)
				if a == -1 || b == -1 {
					return -1
				}
				if a == 1 && b == 1 {
					return 1
				}
				return 0
			case token.LOR:
				a, b := eval(x.X, st), eval(x.Y, st)
				if a == 1 || b == 1 {
					return 1
				}
				if a == -1 && b == -1 {
					return -1
				}
				return 0
			}
		}
		return atom(core.Branch{Cond: e}, st)
	}
	for st := range stateOrder {
		st := st
		edgeOK := func(from *cfgBlock, k int) bool {
			br, ok := branches[from]
			if !ok {
				return true
			}
			var v int
			if br.IsCase {
				v = atom(br, st)
			} else {
				v = eval(br.Cond, st)
			}
			if v == 1 && k == 1 {
				return false
			}
			if v == -1 && k == 0 {
				return false
			}
			return true
		}
		if g.Reach(g.Entry(), func(s core.State) bool { return s.B == loc.B && s.I == loc.I }, nil, edgeOK) {
			out[st] = true
		}
	}
	return out
}

func stateSetString(m map[string]bool) string {
	var out []string
	for _, s := range []string{"opening", "open", "closing", "closed"} {
		if m[s] {
			out = append(out, s)
		}
	}
	return "{" + strings.Join(out, ",") + "}"
}

// c03AdmittedStates — the exact set of session states in which each guarded effect runs.
// only: restrict to the listed table rows (nil = all).
func c03AdmittedStates(c *core.Ctx, R string, only map[string]bool) {
	c.Rule(R, "exact admitted-state table (abstract evaluation of the ready-state comparisons over {opening, open, closing, closed}): packet delivery in onPacket runs exactly in {open}; sendPacket's effects exactly in {opening, open}; flush hands a batch over in {opening, open, closing} (a closing session must still drain its buffer, otherwise a graceful Close never completes); the ping-timeout callback closes the session in {opening, open, closing} (a closing session whose client is gone must still time out); the upgrade switch in {opening, open, closing}; a guard that is too strict is as wrong as one that is too loose")
	type row struct {
		id    string
		unit  string
		find  func(u *core.Unit) *core.Call
		want  string
		field string
	}
	rows := []row{
		{"onPacket/emit(packet)", sockOnPacket, func(u *core.Unit) *core.Call {
			for _, e := range filterEv(events(c, u), "emit", "session", "packet") {
				return e.Call
			}
			return nil
		}, "{open}", "socket.readyState"},
		{"sendPacket/Push", sockSendPkt, func(u *core.Unit) *core.Call {
			for _, cl := range fieldCalls(u, "socket.writeBuffer") {
				if cl.Name == "Push" {
					return cl
				}
			}
			return nil
		}, "{opening,open}", "socket.readyState"},
		{"flush/Send", sockFlush, func(u *core.Unit) *core.Call {
			for _, cl := range u.CallsTo("transports.(Transport).Send") {
				return cl
			}
			return nil
		}, "{opening,open,closing}", "socket.readyState"},
		{"resetPingTimeout$callback/OnClose(ping timeout)", "engine.(*socket).resetPingTimeout", func(u *core.Unit) *core.Call {
			for _, st := range u.CallsTo(setTimeoutKey) {
				if k := closureArg(u, st, 0); k != nil {
					for _, cl := range k.CallsTo(sockOnClose) {
						return cl
					}
				}
			}
			return nil
		}, "{opening,open,closing}", "socket.readyState"},
		{"MaybeUpgrade$onPacket/setTransport", sockUpgrade + "$onPacket", func(u *core.Unit) *core.Call {
			for _, cl := range u.CallsTo(sockSetTr) {
				return cl
			}
			return nil
		}, "{opening,open,closing}", "socket.readyState"},
		{"Close/closeTransport(discard)", sockClose, func(u *core.Unit) *core.Call {
			// the first closeTransport call (discard branch)
			for _, cl := range u.CallsTo("engine.(*socket).closeTransport") {
				return cl
			}
			return nil
		}, "{open,closing}", "socket.readyState"},
	}
	for _, r := range rows {
		if only != nil && !only[r.id] {
			continue
		}
		u := c.Fn(R, r.unit)
		if u == nil {
			continue
		}
		cl := r.find(u)
		if cl == nil {
			c.Violate(R, "engine/"+r.id, u.Pos(), "effect not found")
			continue
		}
		c.Touch(cl.U)
		where := cl.U
		if cl.Inlined != nil {
			where = u // made by a transparent helper: judged at the helper call, in the caller's graph
		}
		got := stateSetString(admittedStates(where, cl.Loc, sockStateKeys, r.field))
		c.Check(R, "engine/"+r.id+"@states", cl.Pos(), got == r.want, keyf("runs in %s, table says %s", got, r.want))
	}
}

// c03PeerCloseClassification — C03.10: which cause a connection failure is
// reported as. A close frame / close error from the peer is "transport close";
// everything else is "transport error".
func c03PeerCloseClassification(c *core.Ctx) {
	const R = "C03.10"
	c.Rule(R, "cause classification (sibling agreement websocket.message ∥ webTransport.message ∥ HandleUpgrade's Upgrader.Error): a read failure is reported as Emit(\"error\") — hence close reason 'transport error' — only on the false edge of IsUnexpectedCloseError(err) called without a list of expected codes (= every close error of the peer, whatever its status code), and Emit(\"close\") — 'transport close' — is reachable after that test; a classification that depends on the close code (IsCloseError(err, codes…), IsUnexpectedCloseError(err, codes…)) reports a peer close with an unusual code under the wrong cause")
	sites := 0
	var units []*core.Unit
	for _, k := range []string{"transports.(*websocket).message", "transports.(*webTransport).message"} {
		if u := c.Fn(R, k); u != nil {
			units = append(units, u)
		}
	}
	if hu := c.Fn(R, "engine.(*server).HandleUpgrade"); hu != nil {
		cands := hu.AllUnits()
		// the Upgrader's Error callback may be built by a novel private helper that returns the closure
		for _, k := range hu.AllUnits() {
			for _, cl := range k.Calls() {
				if cl.Inlined == nil && cl.Callee != nil && c.P.IsTransparent(cl.Callee) {
					if h := c.P.UnitOf(cl.Callee); h != nil {
						cands = append(cands, h.AllUnits()...)
					}
				}
			}
		}
		for _, k := range cands {
			if k != hu && len(k.CallsTo(".IsUnexpectedCloseError", ".IsCloseError")) > 0 {
				units = append(units, k)
			}
		}
	}
	for _, u := range units {
		g := u.Graph()
		cls := u.CallsTo(".IsUnexpectedCloseError", ".IsCloseError")
		if !c.Exists(R, u.Key+"/close-classifier-present", u.Pos(), len(cls) > 0, "the read-error edge distinguishes a peer close from an error") {
			continue
		}
		evs := events(c, u)
		for _, cl := range cls {
			sites++
			anyClose := cl.Name == "IsUnexpectedCloseError" && len(cl.Expr.Args) == 1
			c.Check(R, keyf("%s/%s(err)-without-code-list", u.Key, cl.Name), cl.Pos(), anyClose, "every close error of the peer counts as a close, whatever its status code")
			notClose := func(x *core.Unit, br core.Branch) int {
				if br.IsCase {
					return 0
				}
				if ce, _ := x.AsCall(br.Cond); ce != nil && ce == cl.Expr {
					return -1
				}
				return 0
			}
			okErr, okClose := false, false
			for _, e := range filterEv(evs, "emit", "conn", "error") {
				if g.GuardedBy(e.Loc, notClose) {
					okErr = true
				}
			}
			for _, e := range filterEv(evs, "emit", "conn", "close") {
				if g.CanFollow(cl.Loc, e.Loc) && !g.GuardedBy(e.Loc, notClose) {
					okClose = true
				}
			}
			c.Check(R, keyf("%s/error-iff-not-a-peer-close", u.Key), cl.Pos(), okErr && okClose, keyf("Emit(error) on the not-a-close edge: %v; Emit(close) on the other: %v", okErr, okClose))
		}
	}
	c.Need(R, "close classifiers on read-error edges", sites, 2) // the two reader loops; the Upgrader.Error callback has no listener yet and may classify or not
}

// c03WhoClosesTransport — C03.11: who may declare a transport closed. The
// transport's close event is what the session reports as 'transport close';
// an application-initiated Close must reach the session through the callback
// handed to DoClose ('forced close') first.
func c03WhoClosesTransport(c *core.Ctx) {
	const R = "C03.11"
	c.Rule(R, "WHO(transport.OnClose): a transport is declared closed (OnClose → Emit(\"close\") → session reason 'transport close') only by the connection-close listeners installed by websocket.Construct / webTransport.Construct, by polling.OnData on a client close packet, by polling.DoClose's completion closure (after the caller's callback) and by polling.OnClose's super call; transport.Close itself only marks 'closing' and delegates to DoClose — an OnClose there pre-empts the 'forced close' callback of a buffered polling close (wrong reason, session unregistered before its close packet is delivered)")
	allowed := map[string]bool{
		"transports.(*websocket).Construct":    true,
		"transports.(*webTransport).Construct": true,
		"transports.(*polling).OnData":         true,
		"transports.(*polling).OnClose":        true,
		"transports.(*polling).DoClose":        true,
	}
	n := 0
	for _, u := range c.P.Units {
		for _, cl := range u.Calls() {
			if cl.Name != "OnClose" || cl.Recv == nil || emitterClass(cl.RecvTypeName()) != "transport" {
				continue
			}
			n++
			c.Check(R, keyf("%s/%s.OnClose()", u.Key, selPath(cl.Recv)), cl.Pos(), allowed[u.Root().Key], "only the connection-close listeners, the client close packet and polling's DoClose completion may declare a transport closed")
		}
	}
	c.Need(R, "call sites of a transport's OnClose", n, 5)
}

// paramGuard: loc is on the true edge of a test of the unit's i-th (boolean) parameter.
func paramGuard(u *core.Unit, loc core.Loc, i int) bool {
	pn := paramName(u, i)
	return u.Graph().GuardedBy(loc, func(x *core.Unit, br core.Branch) int {
		if !br.IsCase && isLocal(x.Info(), br.Cond, pn) {
			return 1
		}
		return 0
	})
}
