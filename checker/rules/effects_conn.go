package rules

import (
	"go/ast"
	"go/token"
	"go/types"
	"strings"

	"engcheck/core"
)

// gBoolField: condition is the boolean struct field "Type.field" (true edge).
func gBoolField(field string) core.Guard {
	return func(u *core.Unit, br core.Branch) int {
		if !br.IsCase && fieldOf(u.Info(), br.Cond) == field {
			return 1
		}
		return 0
	}
}

// gAfter restricts a guard to branches whose condition lies textually after pos (the nearest test after an intervening write).
func gAfter(g core.Guard, pos token.Pos) core.Guard {
	return func(u *core.Unit, br core.Branch) int {
		if br.Cond == nil || br.Cond.Pos() <= pos {
			return 0
		}
		return g(u, br)
	}
}

// gFieldNonNil: `<x>.<field> != nil`.
func gFieldNonNil(field string, nonNil bool) core.Guard {
	return nilGuard(nonNil, func(u *core.Unit, e ast.Expr) bool { return fieldOf(u.Info(), e) == field })
}

// fieldStore checks that unit u assigns to struct field `field` a value accepted by okRhs, and returns those assignments.
func fieldStores(u *core.Unit, field string, okRhs func(ast.Expr) bool) []Assign {
	var out []Assign
	for _, a := range fieldAssigns(u, field) {
		if a.Rhs != nil && okRhs(a.Rhs) {
			out = append(out, a)
		}
	}
	return out
}

// connWriteEffects — effect table of the write path of webtransport/conn.go.
func connWriteEffects(c *core.Ctx, R string) {
	c.Rule(R, "effect table of the WebTransport write path: Conn.write takes the write token (<-c.mu) and gives it back by defer, returns the sticky writeErr when set, writes buf0 alone iff buf1 is empty and both buffers otherwise, and turns a stream error into writeFatal(err) (stored as the first sticky error); beginMessage closes a writer left open, binds the messageWriter to the connection (mw.c = c, frameType, pos = header room) and takes the pooled buffer only on the ok edge of the pool assertion; NextWriter publishes &mw as the connection's writer; endMessage records its error once (w.err == nil edge), clears c.writer and returns the pooled buffer; flushFrame brackets the write with the isWriting flag (panic only on the inconsistent edge), ends the message with the write error on the error edge, with errWriteClosed on the final edge, and otherwise resets pos / frameType for the continuation; Write / WriteString / ReadFrom / Close refuse on the sticky w.err edge; WriteMessage takes the single-frame fast path exactly on the isServer edge; WritePreparedMessage propagates the rendering error before writing")
	// ---- Conn.write ----
	if u := c.Fn(R, wtWrite); u != nil {
		info := u.Info()
		g := u.Graph()
		// token
		takes, gives := false, false
		ast.Inspect(u.Body, func(n ast.Node) bool {
			switch s := n.(type) {
			case *ast.UnaryExpr:
				if s.Op == token.ARROW && fieldOf(info, s.X) == "Conn.mu" {
					takes = true
				}
			case *ast.DeferStmt:
				ast.Inspect(s.Call, func(m ast.Node) bool {
					if ss, ok := m.(*ast.SendStmt); ok && fieldOf(info, ss.Chan) == "Conn.mu" {
						gives = true
					}
					return true
				})
			}
			return true
		})
		c.Check(R, wtWrite+"/write-token-taken-and-returned-by-defer", u.Pos(), takes && gives, keyf("<-c.mu: %v; deferred c.mu <- …: %v (a token that is not returned blocks every later write for ever)", takes, gives))
		buf1Empty := func(x *core.Unit, br core.Branch) int {
			cmp, ok := x.BranchCmp(br)
			if !ok || cmp.Val == nil || cmp.Val.ExactString() != "0" {
				return 0
			}
			ce, _ := ast.Unparen(cmp.X).(*ast.CallExpr)
			if ce == nil || calleeNameOf0(ce) != "len" || len(ce.Args) != 1 || !isLocal(x.Info(), ce.Args[0], paramName(u, 3)) {
				return 0
			}
			switch cmp.Op {
			case token.EQL:
				return 1
			case token.NEQ, token.GTR:
				return -1
			}
			return 0
		}
		requireEffects(c, R, u, []effect{
			{name: "buf1-empty→stream.Write(buf0)", match: func(x *core.Unit, cl *core.Call) bool {
				return cl.Name == "Write" && cl.Recv != nil && fieldOf(x.Info(), cl.Recv) == "Conn.stream" && isLocal(x.Info(), cl.Arg(0), paramName(u, 2))
			}, on: []core.Guard{buf1Empty}},
			{name: "otherwise→writeBufs(buf0,buf1)", match: func(x *core.Unit, cl *core.Call) bool {
				return cl.Name == "writeBufs" && len(cl.Expr.Args) == 2 && isLocal(x.Info(), cl.Arg(0), paramName(u, 2)) && isLocal(x.Info(), cl.Arg(1), paramName(u, 3))
			}, on: []core.Guard{gNot(buf1Empty)}},
			{name: "stream-error→writeFatal(err)", match: mName("writeFatal"), on: []core.Guard{gErrNonNil()}},
		})
		// sticky error first
		sticky := false
		for _, r := range returnsIn(u) {
			if len(r.Stmt.Results) == 1 && g.GuardedBy(r.Loc, gErrNonNil()) {
				if d, ok := u.SingleDef(r.Stmt.Results[0]); ok && fieldOf(info, d) == "Conn.writeErr" {
					sticky = true
				}
			}
		}
		c.Check(R, wtWrite+"/sticky-writeErr→return", u.Pos(), sticky, "after a fatal write error every later write reports it without touching the stream")
		// both stream operations are checked: writeFatal on each error edge, success only past the last check
		var lastIO *core.Call
		for _, cl := range u.Calls() {
			if (cl.Name == "Write" && cl.Recv != nil && fieldOf(info, cl.Recv) == "Conn.stream") || cl.Name == "writeBufs" {
				if lastIO == nil || cl.Pos() > lastIO.Pos() {
					lastIO = cl
				}
			}
		}
		nFatal := 0
		for _, cl := range u.CallsTo(".writeFatal") {
			if g.GuardedBy(cl.Loc, gErrNonNil()) {
				nFatal++
			}
		}
		okSucc := false
		for _, r := range returnsIn(u) {
			if len(r.Stmt.Results) == 1 && core.IsNil(info, r.Stmt.Results[0]) && lastIO != nil {
				okSucc = g.GuardedBy(r.Loc, gAfter(gNot(gErrNonNil()), lastIO.Pos()))
			}
		}
		c.Check(R, wtWrite+"/every-stream-error-is-fatal,success-only-past-the-check", u.Pos(), nFatal >= 2 && okSucc, keyf("writeFatal on %d error edges (deadline, write); `return nil` only after the write's error test passed: %v", nFatal, okSucc))
	}
	if u := c.Fn(R, "webtransport.(*Conn).writeFatal"); u != nil {
		g := u.Graph()
		first := fieldStores(u, "Conn.writeErr", func(e ast.Expr) bool { return anyErr(u, e) })
		ok := len(first) == 1 && g.GuardedBy(first[0].Loc, gFieldNonNil("Conn.writeErr", false))
		c.Check(R, "webtransport.(*Conn).writeFatal/first-error-is-kept", u.Pos(), ok, "c.writeErr = err exactly on the c.writeErr == nil edge")
	}
	// ---- beginMessage ----
	if u := c.Fn(R, "webtransport.(*Conn).beginMessage"); u != nil {
		g := u.Graph()
		info := u.Info()
		mw := paramName(u, 0)
		bound := false
		for _, a := range assignsIn(u, func(l ast.Expr) bool {
			return strings.HasSuffix(selPath(l), mw+".c") && fieldOf(info, l) == "messageWriter.c"
		}) {
			if isLocal(info, a.Rhs, recvName(u)) {
				bound = true
				for _, r := range returnsIn(u) {
					if len(r.Stmt.Results) == 1 && core.IsNil(info, r.Stmt.Results[0]) && !g.Dominates(a.Loc, r.Loc) {
						bound = false
					}
				}
			}
		}
		c.Check(R, "webtransport.(*Conn).beginMessage/mw.c=c-before-success", u.Pos(), bound, "the writer is bound to this connection on every successful exit")
		okPool := func(x *core.Unit, br core.Branch) int {
			if br.IsCase {
				return 0
			}
			d, ok := x.SingleDef(br.Cond)
			te, isT := d.(*core.TupleElem)
			if ok && isT && te.Index == 1 {
				if _, isTA := ast.Unparen(te.X).(*ast.TypeAssertExpr); isTA {
					return 1
				}
			}
			return 0
		}
		fromPool, fresh := false, false
		for _, a := range fieldAssigns(u, "Conn.writeBuf") {
			if a.Rhs == nil {
				continue
			}
			if strings.HasSuffix(selPath(a.Rhs), ".buf") && g.GuardedBy(a.Loc, okPool) && g.GuardedBy(a.Loc, gFieldNonNil("Conn.writeBuf", false)) {
				fromPool = true
			}
			if ce, isC := ast.Unparen(a.Rhs).(*ast.CallExpr); isC && calleeNameOf0(ce) == "make" && g.GuardedBy(a.Loc, gNot(okPool)) && g.GuardedBy(a.Loc, gFieldNonNil("Conn.writeBuf", false)) {
				fresh = true
			}
		}
		c.Check(R, "webtransport.(*Conn).beginMessage/pooled-buffer-on-ok-edge,fresh-otherwise", u.Pos(), fromPool && fresh, keyf("pool buffer taken on the ok edge: %v; fresh buffer on the other: %v (both only when writeBuf == nil)", fromPool, fresh))
		requireEffects(c, R, u, []effect{
			{name: "open-writer→Close", match: func(x *core.Unit, cl *core.Call) bool {
				return cl.Name == "Close" && cl.Recv != nil && fieldOf(x.Info(), cl.Recv) == "Conn.writer"
			}, on: []core.Guard{gFieldNonNil("Conn.writer", true)}},
		})
	}
	// ---- NextWriter ----
	if u := c.Fn(R, "webtransport.(*Conn).NextWriter"); u != nil {
		info := u.Info()
		pub := false
		for _, a := range fieldAssigns(u, "Conn.writer") {
			if ue, ok := ast.Unparen(a.Rhs).(*ast.UnaryExpr); ok && ue.Op == token.AND {
				pub = true
				for _, r := range returnsIn(u) {
					if len(r.Stmt.Results) == 2 && core.IsNil(info, r.Stmt.Results[1]) {
						pub = pub && u.Graph().Dominates(a.Loc, r.Loc) && fieldOf(info, r.Stmt.Results[0]) == "Conn.writer"
					}
				}
			}
		}
		c.Check(R, "webtransport.(*Conn).NextWriter/c.writer=&mw-and-returned", u.Pos(), pub, "the new writer becomes the connection's open writer (so that the next message closes it if the application does not)")
	}
	// ---- endMessage ----
	if u := c.Fn(R, "webtransport.(*messageWriter).endMessage"); u != nil {
		g := u.Graph()
		already := gFieldNonNil("messageWriter.err", true)
		rec := fieldStores(u, "messageWriter.err", func(e ast.Expr) bool { return isLocal(u.Info(), e, paramName(u, 0)) })
		okRec := len(rec) == 1 && g.GuardedBy(rec[0].Loc, gNot(already))
		clr := fieldStores(u, "Conn.writer", func(e ast.Expr) bool { return core.IsNil(u.Info(), e) })
		okClr := len(clr) == 1 && g.GuardedBy(clr[0].Loc, gNot(already))
		early := false
		for _, r := range returnsIn(u) {
			if g.GuardedBy(r.Loc, already) {
				early = true
			}
		}
		c.Check(R, "webtransport.(*messageWriter).endMessage/record-once", u.Pos(), okRec && okClr && early, keyf("w.err = err on the first call only: %v; c.writer = nil: %v; later calls return at once: %v", okRec, okClr, early))
	}
	// ---- flushFrame ----
	if u := c.Fn(R, wtFlush); u != nil {
		g := u.Graph()
		info := u.Info()
		writing := gBoolField("Conn.isWriting")
		var wr *core.Call
		for _, cl := range u.CallsTo(wtWrite) {
			wr = cl
		}
		if c.Exists(R, wtFlush+"/c.write", u.Pos(), wr != nil, "the frame is handed to Conn.write") {
			pcs := panicCalls(u)
			okP := len(pcs) == 2
			if okP {
				before, after := pcs[0], pcs[1]
				okP = g.GuardedBy(before.Loc, writing) && g.Dominates(before.Loc, wr.Loc) == false && before.Pos() < wr.Pos() &&
					g.GuardedBy(after.Loc, gAfter(gNot(writing), wr.Pos())) && after.Pos() > wr.Pos()
			}
			c.Check(R, wtFlush+"/concurrent-write-panics-only-on-the-inconsistent-edges", u.Pos(), okP, "panic before the write only when isWriting is already set, after it only when it was reset by someone else")
			setT := fieldStores(u, "Conn.isWriting", func(e ast.Expr) bool { v, ok := core.ConstBool(info, e); return ok && v })
			setF := fieldStores(u, "Conn.isWriting", func(e ast.Expr) bool { v, ok := core.ConstBool(info, e); return ok && !v })
			okFlag := len(setT) == 1 && len(setF) == 1 && g.Dominates(setT[0].Loc, wr.Loc) && g.Dominates(wr.Loc, setF[0].Loc)
			c.Check(R, wtFlush+"/isWriting-brackets-the-write", u.Pos(), okFlag, "isWriting = true ≺ c.write ≺ isWriting = false")
			// the frame handed over is writeBuf[framePos:pos] + extra with the message's frame type
		}
		final := gBoolLocal(paramName(u, 0))
		failed := gErrNonNil()
		requireEffects(c, R, u, []effect{
			{name: "write-error→endMessage(err)", match: func(x *core.Unit, cl *core.Call) bool {
				return cl.Name == "endMessage" && anyErr(x, cl.Arg(0)) && !strings.Contains(selPath(cl.Arg(0)), "errWriteClosed")
			}, on: []core.Guard{failed}},
			{name: "final→endMessage(errWriteClosed)", match: func(x *core.Unit, cl *core.Call) bool {
				return cl.Name == "endMessage" && strings.HasSuffix(selPath(cl.Arg(0)), "errWriteClosed")
			}, on: []core.Guard{final}, off: []core.Guard{failed}},
		})
		cont := fieldStores(u, "messageWriter.pos", func(e ast.Expr) bool { return strings.HasSuffix(selPath(e), "maxFrameHeaderSize") })
		okCont := len(cont) == 1 && g.GuardedBy(cont[0].Loc, gNot(final)) && !g.GuardedBy(cont[0].Loc, failed)
		c.Check(R, wtFlush+"/continuation-resets-pos", u.Pos(), okCont, "after a non-final frame the buffer position returns to the header room")
	}
	// ---- sticky writer error ----
	for _, k := range []string{"webtransport.(*messageWriter).Write", "webtransport.(*messageWriter).WriteString", "webtransport.(*messageWriter).ReadFrom", "webtransport.(*messageWriter).Close"} {
		u := c.Fn(R, k)
		if u == nil {
			continue
		}
		g := u.Graph()
		closed := gFieldNonNil("messageWriter.err", true)
		ret := false
		for _, r := range returnsIn(u) {
			if g.GuardedBy(r.Loc, closed) {
				for _, res := range r.Stmt.Results {
					if fieldOf(u.Info(), res) == "messageWriter.err" {
						ret = true
					}
				}
			}
		}
		work := true
		for _, cl := range u.Calls() {
			if (cl.Name == "flushFrame" || cl.Name == "ncopy" || cl.Name == "Read") && !g.GuardedBy(cl.Loc, gNot(closed)) {
				work = false
			}
		}
		c.Check(R, k+"/closed-writer-refuses", u.Pos(), ret && work, keyf("returns w.err on the w.err != nil edge: %v; every flush / copy lies on the other edge: %v", ret, work))
	}
	// ---- ReadFrom (io.Copy into the writer uses it) ----
	if u := c.Fn(R, "webtransport.(*messageWriter).ReadFrom"); u != nil {
		g := u.Graph()
		info := u.Info()
		full := func(x *core.Unit, br core.Branch) int {
			cmp, ok := x.BranchCmp(br)
			if !ok || cmp.Y == nil || fieldOf(x.Info(), cmp.X) != "messageWriter.pos" {
				return 0
			}
			switch cmp.Op {
			case token.EQL, token.GEQ:
				return 1
			case token.NEQ, token.LSS:
				return -1
			}
			return 0
		}
		requireEffects(c, R, u, []effect{{name: "buffer-full→flushFrame", match: mName("flushFrame"), on: []core.Guard{full}}})
		c.Check(R, "webtransport.(*messageWriter).ReadFrom/loop-has-an-exit", u.Pos(), len(returnsIn(u)) >= 2, keyf("%d reachable returns (sticky-error exit and the exit after the copy loop)", len(returnsIn(u))))
		// every error test inside the loop leaves it on its non-nil edge and stays on the nil edge
		nT := 0
		seen := map[ast.Expr]bool{}
		for _, f := range g.Facts() {
			if f.Br.IsCase || seen[f.Br.Cond] {
				continue
			}
			cmp, ok := u.BranchCmp(f.Br)
			if !ok || cmp.Y == nil || !core.IsNil(info, cmp.Y) || !anyErr(u, cmp.X) || fieldOf(info, cmp.X) != "" {
				continue
			}
			seen[f.Br.Cond] = true
			nT++
			nonNilEdge, nilEdge := -1, -1
			for _, ff := range g.Facts() {
				if ff.Br.Cond == f.Br.Cond {
					if (cmp.Op == token.NEQ) == ff.Val {
						nonNilEdge = ff.Edge
					} else {
						nilEdge = ff.Edge
					}
				}
			}
			ok = nonNilEdge >= 0 && nilEdge >= 0 && g.EdgeLeavesLoop(f.Br.B, nonNilEdge) && !g.EdgeLeavesLoop(f.Br.B, nilEdge)
			c.Check(R, "webtransport.(*messageWriter).ReadFrom/error→leave-loop,success→continue", f.Br.Cond.Pos(), ok, keyf("the copy loop stops exactly when a flush or a read failed (error edge leaves: %v, success edge leaves: %v)", nonNilEdge >= 0 && g.EdgeLeavesLoop(f.Br.B, nonNilEdge), nilEdge >= 0 && g.EdgeLeavesLoop(f.Br.B, nilEdge)))
		}
		c.Need(R, "error tests in ReadFrom's loop", nT, 2)
		// EOF is the normal end
		okEOF := false
		for _, a := range assignsIn(u, func(l ast.Expr) bool { return anyErr(u, l) }) {
			if a.Rhs != nil && core.IsNil(info, a.Rhs) {
				okEOF = g.GuardedBy(a.Loc, func(x *core.Unit, br core.Branch) int {
					be, isB := ast.Unparen(br.Cond).(*ast.BinaryExpr)
					if br.IsCase || !isB || !strings.HasSuffix(selPath(be.Y), "io.EOF") {
						return 0
					}
					if be.Op == token.EQL {
						return 1
					}
					if be.Op == token.NEQ {
						return -1
					}
					return 0
				})
			}
		}
		c.Check(R, "webtransport.(*messageWriter).ReadFrom/EOF→nil", u.Pos(), okEOF, "the source's io.EOF (and only it) is turned into a nil error")
	}
	// ---- ncopy ----
	if u := c.Fn(R, "webtransport.(*messageWriter).ncopy"); u != nil && localAnchors(c, R, u, "n") {
		noRoom := func(x *core.Unit, br core.Branch) int {
			cmp, ok := x.BranchCmp(br)
			if !ok || cmp.Val == nil || cmp.Val.ExactString() != "0" || !isLocalAnyDepth(x, cmp.X, "n") {
				return 0
			}
			switch cmp.Op {
			case token.LEQ, token.EQL:
				return 1
			case token.GTR:
				return -1
			}
			return 0
		}
		f := requireEffects(c, R, u, []effect{{name: "no-room→flushFrame", match: mName("flushFrame"), on: []core.Guard{noRoom}}})
		if fl := f["no-room→flushFrame"]; fl != nil {
			re := false
			for _, a := range assignsIn(u, func(l ast.Expr) bool { return isLocal(u.Info(), l, "n") }) {
				if a.Tok == token.ASSIGN && u.Graph().Dominates(fl.Loc, a.Loc) && u.Graph().GuardedBy(a.Loc, noRoom) {
					if be, isB := ast.Unparen(a.Rhs).(*ast.BinaryExpr); isB && be.Op == token.SUB {
						re = true
					}
				}
			}
			c.Check(R, "webtransport.(*messageWriter).ncopy/room-recomputed-after-flush", fl.Pos(), re, "n = len(writeBuf) - pos again once the buffer was flushed")
		}
	}
	// ---- Write's large-message shortcut ----
	if u := c.Fn(R, "webtransport.(*messageWriter).Write"); u != nil {
		isSrv := func(x *core.Unit, br core.Branch) int {
			if !br.IsCase && fieldOf(x.Info(), br.Cond) == "Conn.isServer" {
				return 1
			}
			return 0
		}
		large := func(x *core.Unit, br core.Branch) int {
			be, isB := ast.Unparen(br.Cond).(*ast.BinaryExpr)
			if br.IsCase || !isB || be.Op != token.GTR {
				return 0
			}
			if ce, isC := ast.Unparen(be.X).(*ast.CallExpr); isC && calleeNameOf0(ce) == "len" && isLocal(x.Info(), ce.Args[0], paramName(u, 0)) {
				return 1
			}
			return 0
		}
		requireEffects(c, R, u, []effect{
			{name: "direct-flush-only-for-large∧server", match: func(x *core.Unit, cl *core.Call) bool {
				return cl.Name == "flushFrame" && isLocal(x.Info(), cl.Arg(1), paramName(u, 0))
			}, on: []core.Guard{large, isSrv}},
		})
	}
	// ---- WriteMessage ----
	if u := c.Fn(R, "webtransport.(*Conn).WriteMessage"); u != nil {
		isSrv := gBoolField("Conn.isServer")
		requireEffects(c, R, u, []effect{
			{name: "server→single-frame-fast-path", match: func(x *core.Unit, cl *core.Call) bool {
				v, ok := core.ConstBool(x.Info(), cl.Arg(0))
				return cl.Name == "flushFrame" && ok && v
			}, on: []core.Guard{isSrv}},
			{name: "client→NextWriter", match: mName("NextWriter"), on: []core.Guard{gNot(isSrv)}},
			{name: "client→Write(data)", match: mName("Write"), on: []core.Guard{gNot(isSrv)}, after: "client→NextWriter"},
			{name: "client→Close()", match: mName("Close"), on: []core.Guard{gNot(isSrv)}, after: "client→Write(data)"},
		})
	}
	// ---- WritePreparedMessage ----
	if u := c.Fn(R, "webtransport.(*Conn).WritePreparedMessage"); u != nil {
		g := u.Graph()
		info := u.Info()
		var wr *core.Call
		for _, cl := range u.CallsTo(wtWrite) {
			wr = cl
		}
		if wr != nil {
			setT := fieldStores(u, "Conn.isWriting", func(e ast.Expr) bool { v, ok := core.ConstBool(info, e); return ok && v })
			setF := fieldStores(u, "Conn.isWriting", func(e ast.Expr) bool { v, ok := core.ConstBool(info, e); return ok && !v })
			c.Check(R, "webtransport.(*Conn).WritePreparedMessage/isWriting-brackets-the-write", u.Pos(), len(setT) == 1 && len(setF) == 1 && g.Dominates(setT[0].Loc, wr.Loc) && g.Dominates(wr.Loc, setF[0].Loc), "isWriting = true ≺ c.write ≺ isWriting = false")
			pcs := panicCalls(u)
			okP := len(pcs) == 2 && g.GuardedBy(pcs[0].Loc, gBoolField("Conn.isWriting")) && pcs[0].Pos() < wr.Pos() && g.GuardedBy(pcs[1].Loc, gAfter(gNot(gBoolField("Conn.isWriting")), wr.Pos())) && pcs[1].Pos() > wr.Pos()
			c.Check(R, "webtransport.(*Conn).WritePreparedMessage/concurrent-write-panics-only-on-the-inconsistent-edges", u.Pos(), okP, "panic only when the flag is inconsistent")
		}
	}
}

// connReadEffects — effect table of NextReader / ReadMessage / the close-error predicates.
func connReadEffects(c *core.Ctx, R string) {
	c.Rule(R, "effect table of the WebTransport read path: NextReader closes and forgets the previous reader, forgets the previous messageReader and restarts the per-message length, loops while readErr == nil, stores hideTempErr(err) in readErr and leaves the loop on an advanceFrame error, hands a reader out exactly for Text / Binary frames (c.reader = the fresh messageReader), and on every error exit increments the repeated-read counter, panicking only at >= 1000; messageReader.Read forgets itself when the frame is exhausted; ReadMessage returns NextReader's error before reading; IsCloseError is true exactly when a listed code equals the error's, IsUnexpectedCloseError false exactly then and true for every other close error; hideTempErr rewraps only net.Error values; NewConn fills in the default buffer sizes only when none was given and allocates a write buffer only when neither a buffer nor a pool was supplied")
	if u := c.Fn(R, wtNextReader); u != nil && localAnchors(c, R, u, "frameType") {
		g := u.Graph()
		info := u.Info()
		failed := gErrNonNil()
		st := fieldStores(u, "Conn.readErr", func(e ast.Expr) bool {
			ce, key := u.AsCall(e)
			return ce != nil && strings.HasSuffix(key, ".hideTempErr")
		})
		okStore := len(st) == 1 && g.GuardedBy(st[0].Loc, failed)
		// (the loop condition re-tests readErr, so break and continue are equivalent after the store)
		c.Check(R, wtNextReader+"/frame-error→readErr=hideTempErr(err)", u.Pos(), okStore, "the first frame error is stored as the sticky read error, on the error edge")
		// per-message reset
		rst := fieldStores(u, "Conn.readLength", func(e ast.Expr) bool { v, ok := core.ConstInt(info, e); return ok && v == 0 })
		fr := fieldStores(u, "Conn.reader", func(e ast.Expr) bool { return core.IsNil(info, e) })
		fm := fieldStores(u, "Conn.messageReader", func(e ast.Expr) bool { return core.IsNil(info, e) })
		c.Check(R, wtNextReader+"/per-message-reset", u.Pos(), len(rst) == 1 && len(fr) == 1 && len(fm) == 1, keyf("readLength = 0: %d; reader = nil: %d; messageReader = nil: %d", len(rst), len(fr), len(fm)))
		// the data-frame test
		notType := func(name string) core.Guard {
			return func(x *core.Unit, br core.Branch) int {
				cmp, ok := x.BranchCmp(br)
				if !ok || !isLocalAnyDepth(x, cmp.X, "frameType") {
					return 0
				}
				rhs := ""
				if be, isB := ast.Unparen(br.Cond).(*ast.BinaryExpr); isB {
					rhs = selPath(be.Y)
				}
				if rhs != name {
					return 0
				}
				switch cmp.Op {
				case token.EQL:
					return -1
				case token.NEQ:
					return 1
				}
				return 0
			}
		}
		nHand := 0
		for _, r := range returnsIn(u) {
			if len(r.Stmt.Results) == 3 && !core.IsNil(info, r.Stmt.Results[1]) {
				nHand++
				ok := !g.GuardedBy(r.Loc, notType("TextMessage")) && !g.GuardedBy(r.Loc, notType("BinaryMessage")) && !g.GuardedBy(r.Loc, failed)
				// and the published reader is the fresh messageReader
				pub := false
				for _, a := range fieldStores(u, "Conn.reader", func(e ast.Expr) bool { return fieldOf(info, e) == "Conn.messageReader" }) {
					if g.Dominates(a.Loc, r.Loc) {
						pub = true
					}
				}
				// … or both slots are given the same local, which holds the fresh reader
				for _, a := range fieldAssigns(u, "Conn.reader") {
					for _, b := range fieldAssigns(u, "Conn.messageReader") {
						if a.Rhs != nil && b.Rhs != nil && g.Dominates(a.Loc, r.Loc) && g.Dominates(b.Loc, r.Loc) {
							if o := core.ObjOf(info, a.Rhs); o != nil && o == core.ObjOf(info, b.Rhs) {
								if _, isV := o.(*types.Var); isV && !o.(*types.Var).IsField() {
									pub = true
								}
							}
						}
					}
				}
				c.Check(R, wtNextReader+"/reader-handed-out-exactly-for-data-frames", r.Stmt.Pos(), ok && pub, keyf("not on a non-data or error edge: %v; c.reader = c.messageReader first: %v", ok, pub))
			}
		}
		c.Need(R, "reader-returning exits of NextReader", nHand, 1)
		// the condition that licenses the hand-out is true exactly for Text and Binary (evaluated over the frame-type domain)
		text, _ := pkgConstInt(c, "webtransport", "TextMessage")
		bin, _ := pkgConstInt(c, "webtransport", "BinaryMessage")
		nCond := 0
		ast.Inspect(u.Body, func(n ast.Node) bool {
			is, ok := n.(*ast.IfStmt)
			if !ok {
				return true
			}
			hands := false
			ast.Inspect(is.Body, func(m ast.Node) bool {
				if r, isR := m.(*ast.ReturnStmt); isR && len(r.Results) == 3 && !core.IsNil(info, r.Results[1]) {
					hands = true
				}
				return true
			})
			if !hands {
				return true
			}
			if _, isCmp := evalIntCond(u, is.Cond, "frameType", text); !isCmp {
				return true
			}
			nCond++
			exact := true
			for _, v := range []int64{-1, 0, 1, 2, 3, 8, 9, 10} {
				got, _ := evalIntCond(u, is.Cond, "frameType", v)
				if got != (v == text || v == bin) {
					exact = false
				}
			}
			c.Check(R, wtNextReader+"/data-frame-test-is-exactly-Text∨Binary", is.Cond.Pos(), exact, "evaluated for frameType ∈ {-1,0,1,2,3,8,9,10}: true exactly for TextMessage and BinaryMessage")
			return true
		})
		c.Need(R, "data-frame test in NextReader", nCond, 1)
		// other frame types keep looping: some path from the data test leads back to advanceFrame — the loop-carried edge exists iff the test's false edge does not return
		loops := false
		for _, cl := range u.CallsTo(wtAdvance) {
			if g.CanFollow(cl.Loc, cl.Loc) {
				loops = true
			}
		}
		c.Check(R, wtNextReader+"/non-data-frames-are-skipped", u.Pos(), loops, "a frame that is neither Text nor Binary leads back to advanceFrame")
		// the repeated-read guard
		inc, thr := false, false
		ast.Inspect(u.Body, func(n ast.Node) bool {
			switch s := n.(type) {
			case *ast.IncDecStmt:
				if s.Tok == token.INC && fieldOf(info, s.X) == "Conn.readErrCount" {
					inc = true
				}
			case *ast.BinaryExpr:
				if fieldOf(info, s.X) == "Conn.readErrCount" && s.Op == token.GEQ {
					if v, ok := core.ConstInt(info, s.Y); ok && v == 1000 {
						thr = true
					}
				}
			}
			return true
		})
		c.Check(R, wtNextReader+"/repeated-read-guard(++,>=1000)", u.Pos(), inc && thr, "the documented guard counts every failed call and trips at the thousandth")
	}
	if u := c.Fn(R, wtMRRead); u != nil {
		g := u.Graph()
		info := u.Info()
		exhausted := func(x *core.Unit, br core.Branch) int {
			cmp, ok := x.BranchCmp(br)
			if !ok || cmp.Val == nil || cmp.Val.ExactString() != "0" || fieldOf(x.Info(), cmp.X) != "Conn.readRemaining" {
				return 0
			}
			switch cmp.Op {
			case token.GTR:
				return -1
			case token.LEQ, token.EQL:
				return 1
			}
			return 0
		}
		fg := fieldStores(u, "Conn.messageReader", func(e ast.Expr) bool { return core.IsNil(info, e) })
		c.Check(R, wtMRRead+"/exhausted-frame→forget-reader", u.Pos(), len(fg) == 1 && g.GuardedBy(fg[0].Loc, exhausted), "c.messageReader = nil exactly when the frame has no bytes left")
	}
	if u := c.Fn(R, "webtransport.(*Conn).ReadMessage"); u != nil {
		g := u.Graph()
		nr := u.CallsTo(wtNextReader)
		ra := u.CallsTo("io.ReadAll")
		ok := len(nr) == 1 && len(ra) == 1 && g.Dominates(nr[0].Loc, ra[0].Loc) && g.GuardedBy(ra[0].Loc, gNot(gErrNonNil()))
		c.Check(R, "webtransport.(*Conn).ReadMessage/NextReader≺(err==nil)≺ReadAll", u.Pos(), ok, "the message is read only from a reader NextReader handed out without error")
	}
	// ---- close-error predicates ----
	for _, sp := range []struct {
		key       string
		onMatch   bool
		afterLoop bool
	}{{"webtransport.IsCloseError", true, false}, {"webtransport.IsUnexpectedCloseError", false, true}} {
		u := c.Fn(R, sp.key)
		if u == nil {
			continue
		}
		g := u.Graph()
		info := u.Info()
		same := func(x *core.Unit, br core.Branch) int {
			cmp, ok := x.BranchCmp(br)
			if !ok || cmp.Y == nil || !strings.HasSuffix(selPath(cmp.X), ".Code") {
				return 0
			}
			switch cmp.Op {
			case token.EQL:
				return 1
			case token.NEQ:
				return -1
			}
			return 0
		}
		isCE := func(x *core.Unit, br core.Branch) int {
			if br.IsCase {
				return 0
			}
			d, ok := x.SingleDef(br.Cond)
			te, isT := d.(*core.TupleElem)
			if ok && isT && te.Index == 1 {
				if _, isTA := ast.Unparen(te.X).(*ast.TypeAssertExpr); isTA {
					return 1
				}
			}
			return 0
		}
		okMatch, okOther, okNotCE := false, !sp.afterLoop, false
		for _, r := range returnsIn(u) {
			if len(r.Stmt.Results) != 1 {
				continue
			}
			v, isC := core.ConstBool(info, r.Stmt.Results[0])
			if !isC {
				continue
			}
			switch {
			case g.GuardedBy(r.Loc, same):
				okMatch = v == sp.onMatch
			case g.GuardedBy(r.Loc, isCE):
				okOther = v == !sp.onMatch
			case !g.GuardedBy(r.Loc, isCE):
				okNotCE = !v
			}
		}
		c.Check(R, sp.key+"/truth-table", u.Pos(), okMatch && okOther && okNotCE, keyf("listed code ⇒ %v: %v; other close error ⇒ %v: %v; not a close error ⇒ false: %v", sp.onMatch, okMatch, !sp.onMatch, okOther, okNotCE))
	}
	// ---- NewConn defaults ----
	if u := c.Fn(R, "webtransport.NewConn"); u != nil && localAnchors(c, R, u, "br", "writeBuf", "writeBufferPool") {
		g := u.Graph()
		info := u.Info()
		noBr := gNilLocal("br", false)
		noBuf := gNilLocal("writeBuf", false)
		noPool := gNilLocal("writeBufferPool", false)
		okBr, okBuf := false, false
		for _, a := range assignsIn(u, func(l ast.Expr) bool { return isLocal(info, l, "br") }) {
			if g.GuardedBy(a.Loc, noBr) {
				okBr = true
			}
		}
		for _, a := range assignsIn(u, func(l ast.Expr) bool { return isLocal(info, l, "writeBuf") }) {
			if g.GuardedBy(a.Loc, noBuf) && g.GuardedBy(a.Loc, noPool) {
				okBuf = true
			}
		}
		c.Check(R, "webtransport.NewConn/defaults-only-when-not-supplied", u.Pos(), okBr && okBuf, keyf("bufio reader created only when none given: %v; write buffer allocated only when neither buffer nor pool given: %v", okBr, okBuf))
	}
}
