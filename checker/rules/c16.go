package rules

import (
	"go/ast"
	"go/constant"
	"go/token"
	"go/types"
	"strings"

	"engcheck/core"
	"golang.org/x/tools/go/types/typeutil"
)

func init() {
	register("C16", func(c *core.Ctx, tier string) {
		jsonpNoBinary(c, "C16.6b")
		jsonpSelection(c, "C16.6c")
		v3BinaryPayloadCodec(c, "C16.10", false)
		errPolarity(c, "C16.4b", "transports")
		pollingEffects(c, "C16.8")
		c16Encoded(c)
		c16Headers(c)
		c16Gate(c)
		c16ContainsHelper(c)
		c16Codecs(c)
		c16JsonpHead(c)
		c16JsonpBody(c)
		c16HeadersFn(c, "C16.7")
	})
}

func c16Encoded(c *core.Ctx) {
	const R = "C16.1"
	c.Rule(R, "what is encoded is what was handed over: polling.send gives EncodePayload the packets parameter itself, extended only by one CLOSE packet on the shouldClose edge; revision 3 passes SupportsBinary(), revision 4 nothing else; the encoded buffer is the one given to write, which hands it to DoWrite")
	u := c.Fn(R, "transports.(*polling).send")
	if u == nil {
		return
	}
	info := u.Info()
	g := u.Graph()
	pn := paramName(u, 0)
	// the only reassignment of packets is packets = append(packets, &Packet{Type: CLOSE})
	as := assignsIn(u, func(l ast.Expr) bool { return isLocal(info, l, pn) })
	okAs := true
	for _, a := range as {
		ce, isC := ast.Unparen(a.Rhs).(*ast.CallExpr)
		if !isC || calleeNameOf(ce) != "append" || len(ce.Args) != 2 || !isLocal(info, ce.Args[0], pn) {
			okAs = false
			continue
		}
		hasClose := false
		ast.Inspect(ce.Args[1], func(n ast.Node) bool {
			if kv, isKV := n.(*ast.KeyValueExpr); isKV && pktConst(info, kv.Value, "close") {
				hasClose = true
			}
			return true
		})
		okAs = okAs && hasClose
	}
	c.Check(R, "transports.(*polling).send/packets-only-extended-by-CLOSE", u.Pos(), okAs && len(as) <= 1, keyf("%d reassignment(s) of the batch", len(as)))
	n := 0
	is3 := func(x *core.Unit, br core.Branch) int {
		cmp, ok := x.BranchCmp(br)
		if !ok || cmp.Val == nil || cmp.Val.String() != "3" {
			return 0
		}
		if ce, isC := ast.Unparen(cmp.X).(*ast.CallExpr); isC && calleeNameOf(ce) == "Protocol" {
			if cmp.Op == token.EQL {
				return 1
			}
			if cmp.Op == token.NEQ {
				return -1
			}
		}
		return 0
	}
	for _, cl := range u.Calls() {
		if !strings.HasSuffix(cl.Key, ".EncodePayload") {
			continue
		}
		n++
		v3 := g.GuardedBy(cl.Loc, is3)
		okArgs := isLocal(info, cl.Arg(0), pn)
		if v3 {
			okArgs = okArgs && len(cl.Expr.Args) == 2 && calleeNameOf(asCallExpr(cl.Arg(1))) == "SupportsBinary"
		} else {
			okArgs = okArgs && len(cl.Expr.Args) == 1
		}
		// its result goes to write — on the edge where the encoder reported no error
		defOf := func(x ast.Expr, idx int) bool { // x is the local that received result idx of this call
			v, _ := core.ObjOf(info, x).(*types.Var)
			if v == nil {
				return false
			}
			for _, d := range u.DefsOf(v) {
				if te, isT := d.(*core.TupleElem); isT && te.Index == idx && ast.Unparen(te.X) == cl.Expr {
					return true
				}
			}
			return false
		}
		errNil := nilGuard(false, func(_ *core.Unit, x ast.Expr) bool { return defOf(x, 1) })
		toWrite, checked := false, false
		for _, w := range u.CallsTo("transports.(*polling).write") {
			if defOf(w.Arg(0), 0) {
				toWrite = true
				checked = g.GuardedBy(w.Loc, errNil)
			}
		}
		c.Check(R, keyf("transports.(*polling).send/EncodePayload(v3=%v)→write", v3), cl.Pos(), okArgs && toWrite, "encodes the batch and writes the result")
		c.Check(R, keyf("transports.(*polling).send/EncodePayload(v3=%v)/written-only-when-encoded", v3), cl.Pos(), checked, "the buffer is handed to write only on the err == nil edge of the encoder (a failed reader yields a nil buffer: DoWrite dereferences it on a goroutine nobody recovers)")
	}
	c.Need(R, "EncodePayload calls in polling.send", n, 2)
	if w := c.Fn(R, "transports.(*polling).write"); w != nil {
		ok := false
		for _, cl := range w.Calls() {
			if cl.Name == "DoWrite" && isLocal(w.Info(), cl.Arg(1), paramName(w, 0)) && isLocal(w.Info(), cl.Arg(2), paramName(w, 1)) {
				ok = true
			}
		}
		c.Check(R, "transports.(*polling).write/DoWrite(data,options)", w.Pos(), ok, "the encoded buffer and options reach DoWrite unchanged")
	}
}

func asCallExpr(e ast.Expr) *ast.CallExpr {
	ce, _ := ast.Unparen(e).(*ast.CallExpr)
	if ce == nil {
		return &ast.CallExpr{Fun: &ast.Ident{Name: ""}}
	}
	return ce
}

func c16Headers(c *core.Ctx) {
	const R = "C16.2"
	c.Rule(R, "header table in polling.DoWrite: Content-Type is text/plain; charset=UTF-8 iff the buffer is a *types.StringBuffer, else application/octet-stream; every respond(x, len) passes strconv.Itoa(x.Len()) of the same x that is copied to the response; Content-Encoding is set only on the path that responds with the compressed buffer, to the same coding given to compress")
	u := c.Fn(R, "transports.(*polling).DoWrite")
	if u == nil {
		return
	}
	info := u.Info()
	g := u.Graph()
	// content type
	as := assignsIn(u, func(l ast.Expr) bool { return isLocal(info, l, "contentType") })
	okCT := false
	if len(as) == 2 {
		var bin, txt *Assign
		for i := range as {
			s, _ := core.ConstString(info, as[i].Rhs)
			if s == "application/octet-stream" {
				bin = &as[i]
			}
			if s == "text/plain; charset=UTF-8" {
				txt = &as[i]
			}
		}
		if bin != nil && txt != nil {
			// txt under a type-switch case *types.StringBuffer on the data parameter
			isStr := false
			for _, f := range g.Facts() {
				if !f.Val || !g.EdgeDominates(f.Br.B, f.Edge, txt.Loc) {
					continue
				}
				if f.Br.TypeSwitch != nil {
					if t := info.TypeOf(f.Br.Cond); t != nil && strings.HasSuffix(t.String(), "types.StringBuffer") {
						isStr = true
					}
					continue
				}
				// the same test as a comma-ok assertion: `_, isText := data.(*types.StringBuffer); if isText`
				if d, k := u.SingleDef(f.Br.Cond); k {
					if te, isT := d.(*core.TupleElem); isT && te.Index == 1 {
						if ta, isTA := ast.Unparen(te.X).(*ast.TypeAssertExpr); isTA && ta.Type != nil {
							if t := info.TypeOf(ta.Type); t != nil && strings.HasSuffix(t.String(), "types.StringBuffer") {
								isStr = true
							}
						}
					}
				}
			}
			okCT = isStr && g.Dominates(bin.Loc, txt.Loc)
		}
	}
	c.Check(R, "transports.(*polling).DoWrite/Content-Type", u.Pos(), okCT, "text iff *types.StringBuffer")
	// respond calls
	n := 0
	var compressedRespond *core.Call
	for _, cl := range u.Calls() {
		if cl.Callee != nil || cl.Name != "respond" {
			continue
		}
		n++
		ok := false
		if ce, isC := ast.Unparen(cl.Arg(1)).(*ast.CallExpr); isC && u.CalleeKey(ce) == "strconv.Itoa" && len(ce.Args) == 1 {
			if le, isL := ast.Unparen(ce.Args[0]).(*ast.CallExpr); isL && calleeNameOf(le) == "Len" {
				if se, isS := le.Fun.(*ast.SelectorExpr); isS && sameObj(info, se.X, cl.Arg(0)) {
					ok = true
				}
			}
		}
		c.Check(R, keyf("transports.(*polling).DoWrite/respond#%d(x, Itoa(x.Len()))", n), cl.Pos(), ok, "Content-Length is the length of the buffer that is sent")
		if !isLocal(info, cl.Arg(0), paramName(u, 1)) {
			compressedRespond = cl
		}
	}
	c.Need(R, "respond calls in DoWrite", n, 2)
	if rs := c.KidOf(R, u, "respond"); rs != nil {
		ri := rs.Info()
		okLen, okCopy := false, false
		for _, cl := range rs.Calls() {
			if cl.Name == "Set" {
				if k, _ := core.ConstString(ri, cl.Arg(0)); k == "Content-Length" && isLocal(ri, cl.Arg(1), paramName(rs, 1)) {
					okLen = true
				}
			}
			if cl.Key == "io.Copy" && isLocal(ri, cl.Arg(1), paramName(rs, 0)) {
				okCopy = true
			}
		}
		c.Check(R, "transports.(*polling).DoWrite$respond/sets-length-and-copies-same-buffer", rs.Pos(), okLen && okCopy, "respond writes the buffer whose length it announces")
	}
	// Content-Encoding
	var ce *core.Call
	nCE := 0
	for _, cl := range u.Calls() {
		if cl.Name == "Set" {
			if k, _ := core.ConstString(info, cl.Arg(0)); k == "Content-Encoding" {
				ce = cl
				nCE++
			}
		}
	}
	comp := u.CallsTo("transports.(*polling).compress")
	ok := ce != nil && nCE == 1 && compressedRespond != nil && len(comp) == 1
	if ok {
		ok = g.Dominates(ce.Loc, compressedRespond.Loc) && sameObj(info, ce.Arg(1), comp[0].Arg(1)) && tupleOf(u, compressedRespond.Arg(0), comp[0].Expr, 0)
		// no uncompressed respond after the header was set
		for _, cl := range u.Calls() {
			if cl.Callee == nil && cl.Name == "respond" && cl != compressedRespond && g.CanFollow(ce.Loc, cl.Loc) {
				ok = false
			}
		}
	}
	c.Check(R, "transports.(*polling).DoWrite/Content-Encoding-only-with-compressed-body", u.Pos(), ok, "the coding header names the coding actually applied to the body sent")
}

func c16Gate(c *core.Ctx) {
	const R = "C16.3"
	c.Rule(R, "compression gate: the compressed respond is dominated by HttpCompression() != nil ∧ options != nil ∧ options.Compress ∧ data.Len() >= Threshold ∧ coding != \"\" where the coding is chosen from the request's Accept-Encoding; polling.send sets Compress iff some packet of the batch has Options.Compress")
	u := c.Fn(R, "transports.(*polling).DoWrite")
	if u != nil {
		info := u.Info()
		g := u.Graph()
		comp := u.CallsTo("transports.(*polling).compress")
		if c.Check(R, "transports.(*polling).DoWrite/compress-once", u.Pos(), len(comp) == 1, keyf("%d compress calls", len(comp))) {
			loc := comp[0].Loc
			conds := map[string]core.Guard{
				"HttpCompression()!=nil": nilGuard(true, func(x *core.Unit, e ast.Expr) bool {
					return calleeNameOf(asCallExpr(e)) == "HttpCompression"
				}),
				"options!=nil": nilGuard(true, func(x *core.Unit, e ast.Expr) bool { return isLocal(x.Info(), e, paramName(u, 2)) }),
				"options.Compress": func(x *core.Unit, br core.Branch) int {
					if se, isS := ast.Unparen(br.Cond).(*ast.SelectorExpr); isS && se.Sel.Name == "Compress" && isLocal(x.Info(), se.X, paramName(u, 2)) {
						return 1
					}
					return 0
				},
				"Len()>=Threshold": func(x *core.Unit, br core.Branch) int {
					cmp, ok := x.BranchCmp(br)
					if !ok || cmp.Y == nil {
						return 0
					}
					isLen := calleeNameOf(asCallExpr(cmp.X)) == "Len"
					isThr := false
					if se, isS := ast.Unparen(x.Resolve(cmp.Y)).(*ast.SelectorExpr); isS && se.Sel.Name == "Threshold" {
						isThr = true
					}
					if !isLen || !isThr {
						return 0
					}
					switch cmp.Op {
					case token.GEQ:
						return 1
					case token.LSS:
						return -1
					}
					return 0
				},
				"coding!=\"\"": func(x *core.Unit, br core.Branch) int {
					cmp, ok := x.BranchCmp(br)
					if !ok || cmp.Val == nil || cmp.Val.Kind() != constant.String || constant.StringVal(cmp.Val) != "" {
						return 0
					}
					if !sameObj(x.Info(), cmp.X, comp[0].Arg(1)) {
						return 0
					}
					switch cmp.Op {
					case token.NEQ:
						return 1
					case token.EQL:
						return -1
					}
					return 0
				},
			}
			for name, gd := range conds {
				c.Check(R, "transports.(*polling).DoWrite/gate:"+name, comp[0].Pos(), g.GuardedBy(loc, gd), "compression only on this edge")
			}
			// coding from Accept-Encoding through utils.Contains
			okSrc := false
			if d, ok := u.SingleDef(comp[0].Arg(1)); ok {
				if ce, isC := ast.Unparen(d).(*ast.CallExpr); isC && (u.CalleeKey(ce) == "transports.acceptedCoding" || u.CalleeKey(ce) == "utils.Contains") {
					ast.Inspect(ce.Args[0], func(n ast.Node) bool {
						if e, isE := n.(ast.Expr); isE {
							if s, isS := core.ConstString(info, e); isS && s == "Accept-Encoding" {
								okSrc = true
							}
						}
						return true
					})
				}
			}
			c.Check(R, "transports.(*polling).DoWrite/coding-from-Accept-Encoding", comp[0].Pos(), okSrc, "the coding is one the request's Accept-Encoding names")
		}
	}
	if sd := c.Fn(R, "transports.(*polling).send"); sd != nil {
		info := sd.Info()
		g := sd.Graph()
		// option := &Options{Compress:false}; set true under packetData.Options.Compress inside the range over packets
		okInit, okSet := false, false
		for _, x := range sd.WithHelpers() { // the literal may have moved into an extracted helper with the loop
			ast.Inspect(x.Body, func(n ast.Node) bool {
				if kv, isKV := n.(*ast.KeyValueExpr); isKV {
					if k, _ := kv.Key.(*ast.Ident); k != nil && k.Name == "Compress" {
						if v, isC := core.ConstBool(info, kv.Value); isC && !v {
							okInit = true
						}
					}
				}
				return true
			})
		}
		ast.Inspect(sd.Body, func(n ast.Node) bool {
			if kv, isKV := n.(*ast.KeyValueExpr); isKV {
				if k, _ := kv.Key.(*ast.Ident); k != nil && k.Name == "Compress" {
					if v, isC := core.ConstBool(info, kv.Value); isC && !v {
						okInit = true
					}
				}
			}
			return true
		})
		for _, a := range assignsIn(sd, func(l ast.Expr) bool {
			se, ok := ast.Unparen(l).(*ast.SelectorExpr)
			return ok && se.Sel.Name == "Compress"
		}) {
			if v, isC := core.ConstBool(info, a.Rhs); isC && v {
				okSet = g.GuardedBy(a.Loc, func(x *core.Unit, br core.Branch) int {
					if se, isS := ast.Unparen(br.Cond).(*ast.SelectorExpr); isS && se.Sel.Name == "Compress" {
						if inner, isI := ast.Unparen(se.X).(*ast.SelectorExpr); isI && inner.Sel.Name == "Options" {
							return 1
						}
					}
					return 0
				})
			}
		}
		// the same decision made by a novel private helper (extract-function): Compress: helper(packets), where the helper
		// returns true exactly on the Options.Compress edge of a packet and false otherwise
		if !okInit && !okSet {
			wants := func(x *core.Unit, br core.Branch) int {
				if se, isS := ast.Unparen(br.Cond).(*ast.SelectorExpr); isS && se.Sel.Name == "Compress" {
					if inner, isI := ast.Unparen(se.X).(*ast.SelectorExpr); isI && inner.Sel.Name == "Options" {
						return 1
					}
				}
				return 0
			}
			ast.Inspect(sd.Body, func(n ast.Node) bool {
				kv, isKV := n.(*ast.KeyValueExpr)
				if !isKV {
					return true
				}
				if k, _ := kv.Key.(*ast.Ident); k == nil || k.Name != "Compress" {
					return true
				}
				ce, isC := ast.Unparen(kv.Value).(*ast.CallExpr)
				if !isC {
					return true
				}
				f, _ := typeutil.Callee(info, ce).(*types.Func)
				if f == nil || !core.IsNovel(f) {
					return true
				}
				h := c.P.UnitOf(f)
				if h == nil {
					return true
				}
				c.Touch(h)
				hg := h.Graph()
				nT, nF := 0, 0
				good := true
				for _, r := range returnsIn(h) {
					if len(r.Stmt.Results) != 1 {
						good = false
						continue
					}
					v, isB := core.ConstBool(h.Info(), r.Stmt.Results[0])
					if !isB {
						good = false
						continue
					}
					if v {
						nT++
						good = good && hg.GuardedBy(r.Loc, wants)
					} else {
						nF++
						good = good && !hg.GuardedBy(r.Loc, wants)
					}
				}
				if good && nT >= 1 && nF >= 1 {
					okInit, okSet = true, true
				}
				return true
			})
		}
		c.Check(R, "transports.(*polling).send/Compress-iff-some-packet-asks", sd.Pos(), okInit && okSet, "default false, true when a packet of the batch has Options.Compress")
	}
}

func c16Codecs(c *core.Ctx) {
	const R = "C16.4"
	c.Rule(R, "TABLE(coding token → codec) in polling.compress: gzip→compress/gzip, deflate→compress/zlib (HTTP's deflate is the zlib container, RFC 9110 §8.4.1.2), br→andybalholm/brotli, zstd→klauspost/compress/zstd; the token list offered to utils.Contains equals the set of case labels; each writer wraps the returned buffer and is closed by a deferred Close")
	u := c.Fn(R, "transports.(*polling).compress")
	if u == nil {
		return
	}
	info := u.Info()
	g := u.Graph()
	want := map[string]string{"gzip": "compress/gzip", "deflate": "compress/zlib", "br": "github.com/andybalholm/brotli", "zstd": "github.com/klauspost/compress/zstd"}
	cases := map[string]bool{}
	var bufVar types.Object
	for _, a := range assignsIn(u, func(l ast.Expr) bool { return isLocal(info, l, "buf") }) {
		bufVar = core.ObjOf(info, a.Lhs)
	}
	for _, f := range g.Facts() {
		if f.Br.TypeSwitch != nil {
			continue
		}
		tok, isS := "", false
		if f.Br.IsCase {
			if !f.Val {
				continue
			}
			tok, isS = core.ConstString(info, f.Br.Cond)
		} else if cmp, ok := u.BranchCmp(f.Br); ok && cmp.Val != nil && cmp.Val.Kind() == constant.String {
			// the same table written as an if / else-if chain: `encoding == "gzip"` on its true edge
			if (cmp.Op == token.EQL && f.Val) || (cmp.Op == token.NEQ && !f.Val) {
				tok, isS = constant.StringVal(cmp.Val), true
			}
		}
		if !isS {
			continue
		}
		cases[tok] = true
		// the writer constructor on this arm
		var ctor *core.Call
		for _, cl := range u.Calls() {
			if cl.Callee == nil || cl.Callee.Pkg() == nil || !strings.HasPrefix(cl.Name, "NewWriter") {
				continue
			}
			if g.EdgeDominates(f.Br.B, f.Edge, cl.Loc) {
				ctor = cl
			}
		}
		ok := ctor != nil && ctor.Callee.Pkg().Path() == want[tok] && bufVar != nil && core.ObjOf(info, ctor.Arg(0)) == bufVar
		pkg := ""
		if ctor != nil {
			pkg = ctor.Callee.Pkg().Path()
		}
		// deferred Close of that writer on the same arm
		closed := false
		if ctor != nil {
			for _, cl := range u.Calls() {
				if cl.Deferred && cl.Name == "Close" && cl.Recv != nil && g.EdgeDominates(f.Br.B, f.Edge, cl.Loc) {
					if d, k := u.SingleDef(cl.Recv); k {
						if te, isT := d.(*core.TupleElem); isT && ast.Unparen(te.X) == ast.Expr(ctor.Expr) {
							closed = true
						} else if ast.Unparen(d) == ast.Expr(ctor.Expr) {
							closed = true
						}
					}
				}
			}
		}
		c.Check(R, keyf("transports.(*polling).compress/case %q", tok), f.Br.Cond.Pos(), ok && closed, keyf("codec package %s (want %s), wraps the returned buffer, deferred Close=%v", pkg, want[tok], closed))
	}
	for tok := range want {
		c.Exists(R, keyf("transports.(*polling).compress/case %q/present", tok), u.Pos(), cases[tok], "coding implemented")
	}
	// returned value is buf
	okRet := false
	for _, r := range returnsIn(u) {
		if len(r.Stmt.Results) == 2 && core.IsNil(info, r.Stmt.Results[1]) && core.ObjOf(info, r.Stmt.Results[0]) == bufVar {
			okRet = true
		}
	}
	c.Check(R, "transports.(*polling).compress/returns-wrapped-buffer", u.Pos(), okRet, "the buffer the writers fill is what is returned")
	// offered tokens == case labels
	if dw := c.Fn(R, "transports.(*polling).DoWrite"); dw != nil {
		offered := map[string]bool{}
		for _, cl := range dw.CallsTo("transports.acceptedCoding", "utils.Contains") {
			if lit, isL := ast.Unparen(cl.Arg(1)).(*ast.CompositeLit); isL {
				for _, el := range lit.Elts {
					if s, isS := core.ConstString(dw.Info(), el); isS {
						offered[s] = true
					}
				}
			}
		}
		same := len(offered) == len(cases) && len(offered) > 0
		for t := range offered {
			if !cases[t] {
				same = false
			}
		}
		c.Check(R, "transports.(*polling)/offered-codings=implemented-codings", dw.Pos(), same, keyf("offered %v, implemented %v (an offered token without a codec would send an empty body labelled as encoded)", setKeys(offered), setKeys(cases)))
	}
}

func setKeys(m map[string]bool) []string {
	var out []string
	for k := range m {
		out = append(out, k)
	}
	sortStrings(out)
	return out
}

func c16JsonpHead(c *core.Ctx) {
	const R = "C16.5"
	c.Rule(R, "JSONP head is digits only (taint): the only request-derived value concatenated into jsonp.head passes through rNumber.ReplaceAllString(·, \"\") where rNumber's pattern is the complement of [0-9]; head/foot literals are `___eio[` … `](` and `);`")
	u := c.Fn(R, "transports.(*jsonp).Construct")
	if u == nil {
		return
	}
	info := u.Info()
	okHead, okFoot := false, false
	for _, a := range fieldAssigns(u, "jsonp.head") {
		var parts []ast.Expr
		var flat func(e ast.Expr)
		flat = func(e ast.Expr) {
			if be, isB := ast.Unparen(e).(*ast.BinaryExpr); isB && be.Op == token.ADD {
				flat(be.X)
				flat(be.Y)
				return
			}
			parts = append(parts, ast.Unparen(e))
		}
		flat(a.Rhs)
		if len(parts) == 3 {
			p0, ok0 := core.ConstString(info, parts[0])
			p2, ok2 := core.ConstString(info, parts[2])
			mid := false
			if ce, isC := parts[1].(*ast.CallExpr); isC && u.CalleeKey(ce) == "regexp.(*Regexp).ReplaceAllString" && len(ce.Args) == 2 {
				if se, isS := ce.Fun.(*ast.SelectorExpr); isS {
					if v, isV := core.ObjOf(info, se.X).(*types.Var); isV && v.Name() == "rNumber" {
						if r, isR := core.ConstString(info, ce.Args[1]); isR && r == "" {
							mid = true
						}
					}
				}
			}
			okHead = ok0 && ok2 && p0 == "___eio[" && p2 == "](" && mid
		}
	}
	for _, a := range fieldAssigns(u, "jsonp.foot") {
		s, _ := core.ConstString(info, a.Rhs)
		okFoot = s == ");"
	}
	c.Check(R, "transports.(*jsonp).Construct/head=___eio[digits](", u.Pos(), okHead, "the j parameter reaches the response only through the digit filter")
	c.Check(R, "transports.(*jsonp).Construct/foot=);", u.Pos(), okFoot, "fixed foot")
	// the pattern
	okPat := false
	for _, f := range c.P.Pkgs["transports"].Syntax {
		ast.Inspect(f, func(n ast.Node) bool {
			vs, isV := n.(*ast.ValueSpec)
			if !isV {
				return true
			}
			for i, nm := range vs.Names {
				if nm.Name == "rNumber" && i < len(vs.Values) {
					if ce, isC := vs.Values[i].(*ast.CallExpr); isC && len(ce.Args) == 1 {
						if p, isS := core.ConstString(c.P.Pkgs["transports"].TypesInfo, ce.Args[0]); isS && (p == `[^0-9]` || p == `\D` || p == `[^\d]`) {
							okPat = true
						}
					}
				}
			}
			return true
		})
	}
	c.Check(R, "transports.rNumber/pattern=[^0-9]", u.Pos(), okPat, "the filter removes every non-digit")
	// nobody else writes head/foot
	for _, ua := range fieldAssignsAnywhere(c, "jsonp.head") {
		c.Check(R, keyf("%s/writes-jsonp.head", ua.U.Key), ua.Stmt.Pos(), ua.U.Key == "transports.(*jsonp).Construct", "head is fixed at construction")
	}
}

func c16JsonpBody(c *core.Ctx) {
	const R = "C16.6"
	c.Rule(R, "JSONP body is one JSON string literal: jsonp.DoWrite builds the response from head, the output of json.Encoder.Encode(<string>) (default HTML/U+2028/U+2029 escaping: SetEscapeHTML is never called) minus its trailing newline, then foot — and delegates to Polling.DoWrite for headers and length")
	u := c.Fn(R, "transports.(*jsonp).DoWrite")
	if u == nil {
		return
	}
	info := u.Info()
	g := u.Graph()
	var res types.Object
	var newBuf, enc, trunc, foot, deleg *core.Call
	for _, cl := range u.Calls() {
		switch {
		case cl.Key == "types.NewStringBufferString" && fieldOf(info, cl.Arg(0)) == "jsonp.head":
			newBuf = cl
		case cl.Key == "encoding/json.(*Encoder).Encode":
			enc = cl
		case cl.Name == "Truncate":
			trunc = cl
		case cl.Name == "WriteString" && fieldOf(info, cl.Arg(0)) == "jsonp.foot":
			foot = cl
		case cl.Name == "DoWrite" && cl.Recv != nil && fieldOf(info, cl.Recv) == "jsonp.Polling":
			deleg = cl
		case cl.Name == "SetEscapeHTML":
			c.Violate(R, "transports.(*jsonp).DoWrite/SetEscapeHTML", cl.Pos(), "HTML escaping of the JSON string is configured away: </script> and U+2028/2029 would reach the script body")
		}
	}
	for _, a := range assignsIn(u, func(l ast.Expr) bool { _, ok := l.(*ast.Ident); return ok }) {
		if newBuf != nil && ast.Unparen(a.Rhs) == ast.Expr(newBuf.Expr) {
			res = core.ObjOf(info, a.Lhs)
		}
	}
	ok := newBuf != nil && enc != nil && trunc != nil && foot != nil && deleg != nil && res != nil
	detail := keyf("anchors: newBuf=%v enc=%v trunc=%v foot=%v delegate=%v res=%v", newBuf != nil, enc != nil, trunc != nil, foot != nil, deleg != nil, res != nil)
	if ok {
		// encoder writes into res; Encode gets a string
		encInto := false
		for _, cl := range u.CallsTo("encoding/json.NewEncoder") {
			if core.ObjOf(info, cl.Arg(0)) == res {
				encInto = true
			}
		}
		t := info.TypeOf(enc.Arg(0))
		isStr := false
		if b, isB := t.Underlying().(*types.Basic); isB && b.Info()&types.IsString != 0 {
			isStr = true
		}
		// Truncate(res.Len() - 1)
		terms, k := linear(info, trunc.Arg(0))
		truncOK := len(terms) == 1 && k == -1 && calleeNameOf(asCallExpr(terms[0].E)) == "Len"
		order := g.Dominates(enc.Loc, trunc.Loc) && g.Dominates(trunc.Loc, foot.Loc) && g.Dominates(foot.Loc, deleg.Loc)
		same := core.ObjOf(info, trunc.Recv) == res && core.ObjOf(info, foot.Recv) == res && core.ObjOf(info, deleg.Arg(1)) == res
		// no other write into res
		others := 0
		for _, cl := range u.Calls() {
			if cl.Recv != nil && core.ObjOf(info, cl.Recv) == res && strings.HasPrefix(cl.Name, "Write") && cl != foot {
				others++
			}
		}
		ok = encInto && isStr && truncOK && order && same && others == 0
		detail = keyf("encoder writes into the response buffer=%v, Encode(string)=%v, Truncate(Len-1)=%v, order=%v, same buffer=%v, other writes=%d", encInto, isStr, truncOK, order, same, others)
	}
	c.Check(R, "transports.(*jsonp).DoWrite/head+Encode(string)-newline+foot→Polling.DoWrite", u.Pos(), ok, "the body is exactly head, one escaped JSON string, foot: "+detail)
}

// c16HeadersFn — C16.7 / C17.3a.
func c16HeadersFn(c *core.Ctx, R string) {
	c.Rule(R, "polling.headers adds Cache-Control: no-store, emits the headers event exactly once with (headers, ctx) and returns the same bag")
	u := c.Fn(R, "transports.(*polling).headers")
	if u == nil {
		return
	}
	info := u.Info()
	g := u.Graph()
	evs := filterEv(events(c, u), "emit", "transport", "headers")
	cache := false
	for _, cl := range u.Calls() {
		if cl.Name == "Set" {
			k, _ := core.ConstString(info, cl.Arg(0))
			v, _ := core.ConstString(info, cl.Arg(1))
			if k == "Cache-Control" && v == "no-store" {
				cache = true
			}
		}
	}
	ok := len(evs) == 1 && cache
	if ok {
		ok = isLocal(info, evs[0].Arg(1), paramName(u, 1)) && isLocal(info, evs[0].Arg(2), paramName(u, 0))
		for _, r := range returnsIn(u) {
			ok = ok && g.Dominates(evs[0].Loc, r.Loc) && isLocal(info, r.Stmt.Results[0], paramName(u, 1))
		}
		inLoop := g.Reach(g.After(evs[0].Loc), func(s core.State) bool { return s.B == evs[0].Loc.B && s.I == evs[0].Loc.I }, nil, nil)
		ok = ok && !inLoop
	}
	c.Check(R, "transports.(*polling).headers/no-store+emit(headers)-once", u.Pos(), ok, "one headers event per call, same bag returned")
}

// c16ContainsHelper — C16.3b: the negotiation helper picks a coding only when the request's Accept-Encoding lists it
// as a whole token with a non-zero weight (fix e5a0b03: substring matching let `gzip;q=0` and `pack200-gzip` select gzip).
func c16ContainsHelper(c *core.Ctx) {
	const R = "C16.3b"
	c.Rule(R, "transports.acceptedCoding(header, offered): the header is cut at ',' into items and each item at ';' into name and parameters; names are compared as whole, trimmed, lower-cased tokens (a map keyed by the token — no strings.Contains / HasPrefix / Index over the header); an item whose q parameter does not parse to a value > 0 is not accepted; the result is an element of offered, tried in order, on the edge where the token was accepted, and \"\" otherwise")
	u := c.Fn(R, "transports.acceptedCoding")
	if u == nil {
		return
	}
	info := u.Info()
	g := u.Graph()
	splitComma, cutSemi, substr := false, false, ""
	qPositive := false
	for _, x := range u.AllUnits() {
		for _, cl := range x.Calls() {
			switch cl.Key {
			case "strings.Split":
				if v, ok := core.ConstString(info, cl.Arg(1)); ok && v == "," && isLocal(info, cl.Arg(0), paramName(u, 0)) {
					splitComma = true
				}
			case "strings.Cut":
				if v, ok := core.ConstString(info, cl.Arg(1)); ok && v == ";" {
					cutSemi = true
				}
			case "strings.Contains", "strings.ContainsAny", "strings.HasPrefix", "strings.HasSuffix", "strings.Index":
				substr = cl.Key
			}
		}
	}
	// q > 0 decides acceptance
	ast.Inspect(u.Body, func(n ast.Node) bool {
		if be, ok := n.(*ast.BinaryExpr); ok && be.Op == token.GTR {
			if v, isC := core.ConstInt(info, be.Y); isC && v == 0 {
				if d, k := u.SingleDef(be.X); k {
					if te, isT := d.(*core.TupleElem); isT {
						if ce, isCall := ast.Unparen(te.X).(*ast.CallExpr); isCall && u.CalleeKey(ce) == "strconv.ParseFloat" {
							qPositive = true
						}
					}
				}
			}
		}
		return true
	})
	// result: a range element of `offered` on the accepted edge, "" otherwise
	var loopVar string
	ast.Inspect(u.Body, func(n ast.Node) bool {
		if rs, isR := n.(*ast.RangeStmt); isR && isLocal(info, rs.X, paramName(u, 1)) {
			if v, isId := rs.Value.(*ast.Ident); isId {
				loopVar = v.Name
			}
		}
		return true
	})
	accepted := func(x *core.Unit, br core.Branch) int {
		ix, isIx := ast.Unparen(br.Cond).(*ast.IndexExpr)
		if !isIx || loopVar == "" || !isLocal(x.Info(), ix.Index, loopVar) {
			return 0
		}
		if _, isMap := x.Info().TypeOf(ix.X).Underlying().(*types.Map); isMap {
			return 1
		}
		return 0
	}
	okRet, okEmpty := false, false
	for _, r := range returnsIn(u) {
		if len(r.Stmt.Results) != 1 {
			continue
		}
		if loopVar != "" && isLocal(info, r.Stmt.Results[0], loopVar) {
			okRet = g.GuardedBy(r.Loc, accepted)
		}
		if sv, isS := core.ConstString(info, r.Stmt.Results[0]); isS && sv == "" {
			okEmpty = true
		}
	}
	c.Check(R, "transports.acceptedCoding/whole-token-with-non-zero-weight", u.Pos(), splitComma && cutSemi && substr == "" && qPositive && okRet && okEmpty,
		keyf("items cut at ',': %v; parameters cut at ';': %v; substring test over the header: %q; q parsed and required > 0: %v; an offered coding returned on its accepted edge: %v; \"\" otherwise: %v", splitComma, cutSemi, substr, qPositive, okRet, okEmpty))
}

// jsonpSelection — C16.6c = C02.21: who gets the JSONP variant, and what its
// inbound side hands on (mutation audit round 4: both tests could be negated).
func jsonpSelection(c *core.Ctx, R string) {
	c.Rule(R, "JSONP selection and inbound wiring: PollingBuilder.New builds the JSONP transport exactly for a request that carries the j parameter (Query().Has(\"j\") true edge → NewJSONP, otherwise NewPolling); jsonp.OnData hands the form field d — and only when it is present — to the base Polling.OnData as a string buffer, and reports a body that is not a form as an error")
	if u := c.Fn(R, "transports.(*PollingBuilder).New"); u != nil {
		g := u.Graph()
		hasJ := func(x *core.Unit, br core.Branch) int {
			if br.IsCase {
				return 0
			}
			ce, _ := x.AsCall(br.Cond)
			if ce == nil || calleeNameOf(ce) != "Has" || len(ce.Args) != 1 {
				return 0
			}
			if k, isC := core.ConstString(x.Info(), ce.Args[0]); isC && k == "j" {
				return 1
			}
			return 0
		}
		okJ, okP, nJ, nP := true, true, 0, 0
		for _, cl := range u.Calls() {
			switch cl.Key {
			case "transports.NewJSONP":
				nJ++
				okJ = okJ && g.GuardedBy(cl.Loc, hasJ)
			case "transports.NewPolling":
				nP++
				okP = okP && g.GuardedBy(cl.Loc, gNot(hasJ))
			}
		}
		c.Check(R, "transports.(*PollingBuilder).New/j→JSONP,else→Polling", u.Pos(), nJ == 1 && nP == 1 && okJ && okP, keyf("NewJSONP on the Has(\"j\") edge: %v (%d); NewPolling on the other: %v (%d)", okJ, nJ, okP, nP))
	}
	if u := c.Fn(R, "transports.(*jsonp).OnData"); u != nil {
		g := u.Graph()
		hasD := func(x *core.Unit, br core.Branch) int {
			if br.IsCase {
				return 0
			}
			ce, _ := x.AsCall(br.Cond)
			if ce == nil || calleeNameOf(ce) != "Has" || len(ce.Args) != 1 {
				return 0
			}
			if k, isC := core.ConstString(x.Info(), ce.Args[0]); isC && k == "d" {
				return 1
			}
			return 0
		}
		n, ok := 0, true
		for _, cl := range u.Calls() {
			if cl.Name == "OnData" && cl.Recv != nil && fieldOf(u.Info(), cl.Recv) == "jsonp.Polling" {
				n++
				ok = ok && g.GuardedBy(cl.Loc, hasD) && g.GuardedBy(cl.Loc, gNot(gErrNonNil()))
				// the payload derives from the d field
				fromD := false
				ast.Inspect(u.Body, func(nd ast.Node) bool {
					if ce, isC := nd.(*ast.CallExpr); isC && calleeNameOf(ce) == "Get" && len(ce.Args) == 1 {
						if k, isS := core.ConstString(u.Info(), ce.Args[0]); isS && k == "d" {
							fromD = true
						}
					}
					return true
				})
				ok = ok && fromD
			}
		}
		perr := false
		for _, cl := range u.Calls() {
			if cl.Name == "OnError" && g.GuardedBy(cl.Loc, gErrNonNil()) {
				perr = true
			}
		}
		c.Check(R, "transports.(*jsonp).OnData/d-present→Polling.OnData,parse-error→OnError", u.Pos(), n == 1 && ok && perr, keyf("%d hand-over(s) to the base OnData, on the Has(\"d\") ∧ no-error edge with the d field: %v; a parse error is reported: %v", n, ok, perr))
	}
}
