package rules

import (
	"go/ast"
	"go/token"
	"go/types"
	"strings"

	"engcheck/core"

	"golang.org/x/tools/go/types/typeutil"
)

func init() {
	register("C06", func(c *core.Ctx, tier string) {
		baseServerEffects(c, "C06.10")
		accessorAgreement(c, "C06.8")
		constructorChain(c, "C06.9")
		c06OpenFields(c)
		c06Order(c)
		c06InitialPacket(c)
		c06Upgrades(c)
		c06OneSession(c)
		c03ConstructionWiring(c, "C06.5b")
		casPolarity(c, "C06.2b")
		c06Revision(c)
		c06OptionHandover(c)
		wtCandidateRevision(c, "C06.11")
		initialPacketBuffered(c, "C06.3b")
		announcedBeforeDispatch(c, "C06.12")
		timerNilSafe(c, "C07.4") // heartbeat mode keyed on the session revision (arming table)
	})
}

// optChain: e is (through conversions / a division by time.Millisecond) a call chain ending in Opts().<name>().
func optAccessor(u *core.Unit, e ast.Expr) (name string, perMs bool) {
	info := u.Info()
	e = stripConv(info, e)
	if be, ok := e.(*ast.BinaryExpr); ok && be.Op == token.QUO {
		if v, ok := core.ObjOf(info, be.Y).(*types.Const); ok && v.Name() == "Millisecond" && v.Pkg().Path() == "time" {
			perMs = true
			e = stripConv(info, be.X)
		}
	}
	ch := calleeChain(u, e)
	if len(ch) >= 2 && strings.HasSuffix(ch[len(ch)-2], ".Opts") {
		k := ch[len(ch)-1]
		return k[strings.LastIndex(k, ".")+1:], perMs
	}
	return "", perMs
}

func c06OpenFields(c *core.Ctx) {
	const R = "C06.1"
	c.Rule(R, "open-packet field table in (*socket).onOpen: the map given to json.Marshal has exactly the keys sid, upgrades, pingInterval, pingTimeout, maxPayload with values s.id; s.getAvailableUpgrades(); Opts().PingInterval()/time.Millisecond; Opts().PingTimeout()/time.Millisecond; Opts().MaxHttpBufferSize()")
	u := c.Fn(R, sockOnOpen)
	if u == nil {
		return
	}
	info := u.Info()
	ms := u.CallsTo("encoding/json.Marshal")
	if !c.Check(R, sockOnOpen+"/json.Marshal-once", u.Pos(), len(ms) == 1, keyf("%d Marshal calls", len(ms))) {
		return
	}
	lit, ok := ast.Unparen(ms[0].Arg(0)).(*ast.CompositeLit)
	if !c.Exists(R, sockOnOpen+"/open-packet-map-literal", ms[0].Pos(), ok, "the open packet is a map literal") {
		return
	}
	got := map[string]ast.Expr{}
	for _, el := range lit.Elts {
		if kv, isKV := el.(*ast.KeyValueExpr); isKV {
			if k, isS := core.ConstString(info, kv.Key); isS {
				got[k] = kv.Value
			}
		}
	}
	c.Check(R, sockOnOpen+"/open-packet-keys", lit.Pos(), len(got) == 5 && len(lit.Elts) == 5, keyf("keys: %v", mapKeys(got)))
	if v := got["sid"]; v != nil {
		c.Check(R, sockOnOpen+"/open.sid", v.Pos(), fieldOf(info, v) == "socket.id", "sid = s.id")
	}
	if v := got["upgrades"]; v != nil {
		_, key := u.AsCall(v)
		c.Check(R, sockOnOpen+"/open.upgrades", v.Pos(), key == "engine.(*socket).getAvailableUpgrades", "upgrades = s.getAvailableUpgrades()")
	}
	for key, want := range map[string]string{"pingInterval": "PingInterval", "pingTimeout": "PingTimeout"} {
		if v := got[key]; v != nil {
			name, perMs := optAccessor(u, v)
			c.Check(R, sockOnOpen+"/open."+key, v.Pos(), name == want && perMs, keyf("%s = Opts().%s() / time.Millisecond (accessor=%s, in ms=%v)", key, want, name, perMs))
		} else {
			c.Violate(R, sockOnOpen+"/open."+key, lit.Pos(), "field missing")
		}
	}
	if v := got["maxPayload"]; v != nil {
		name, perMs := optAccessor(u, v)
		c.Check(R, sockOnOpen+"/open.maxPayload", v.Pos(), name == "MaxHttpBufferSize" && !perMs, keyf("maxPayload = Opts().MaxHttpBufferSize() (accessor=%s)", name))
	} else {
		c.Violate(R, sockOnOpen+"/open.maxPayload", lit.Pos(), "field missing")
	}
}

func mapKeys(m map[string]ast.Expr) []string {
	var out []string
	for k := range m {
		out = append(out, k)
	}
	sortStrings(out)
	return out
}

// pktConst: e is the packet type constant with the given value.
func pktConst(info *types.Info, e ast.Expr, v string) bool {
	s, ok := core.ConstString(info, e)
	return ok && s == v
}

func c06Order(c *core.Ctx) {
	const R = "C06.2"
	c.Rule(R, "order in onOpen: opening→open transition ≺ Transport().SetSid(s.id) ≺ sendPacket(OPEN, marshalled map) ≺ [sendPacket(MESSAGE, initial packet)] ≺ Emit(\"open\") ≺ heartbeat arming; the OPEN packet is the first sendPacket and its data derives from the Marshal result; onOpen is called only by Construct")
	u := c.Fn(R, sockOnOpen)
	if u == nil {
		return
	}
	info := u.Info()
	g := u.Graph()
	var cas, setSid, openPkt, msgPkt, arm3, arm4 *core.Call
	var sends []*core.Call
	for _, cl := range u.Calls() {
		switch {
		case cl.Name == "CompareAndSwap" && cl.Recv != nil && fieldOf(info, cl.Recv) == "socket.readyState":
			cas = cl
		case cl.Name == "SetSid":
			setSid = cl
		case cl.Key == sockSendPkt:
			sends = append(sends, cl)
			if pktConst(info, cl.Arg(0), "open") {
				openPkt = cl
			}
			if pktConst(info, cl.Arg(0), "message") {
				msgPkt = cl
			}
		case cl.Key == "engine.(*socket).resetPingTimeout":
			arm3 = cl
		case cl.Key == "engine.(*socket).schedulePing":
			arm4 = cl
		}
	}
	evOpen := filterEv(events(c, u), "emit", "session", "open")
	ok := cas != nil && setSid != nil && openPkt != nil && len(evOpen) == 1 && arm3 != nil && arm4 != nil
	if ok {
		ok = g.Dominates(cas.Loc, setSid.Loc) && g.Dominates(setSid.Loc, openPkt.Loc) && g.Dominates(openPkt.Loc, evOpen[0].Loc) &&
			g.Dominates(evOpen[0].Loc, arm3.Loc) && g.Dominates(evOpen[0].Loc, arm4.Loc) && fieldOf(info, setSid.Arg(0)) == "socket.id"
		for _, s := range sends {
			if s != openPkt && !g.Dominates(openPkt.Loc, s.Loc) {
				ok = false
			}
		}
		if msgPkt != nil {
			ok = ok && g.Dominates(openPkt.Loc, msgPkt.Loc) && g.CanFollow(msgPkt.Loc, evOpen[0].Loc)
		}
	}
	c.Check(R, sockOnOpen+"/open-sequence", u.Pos(), ok, "transition ≺ SetSid ≺ OPEN ≺ [initial MESSAGE] ≺ Emit(open) ≺ arming")
	// OPEN data derives from Marshal
	okData := false
	if openPkt != nil {
		ms := u.CallsTo("encoding/json.Marshal")
		if len(ms) == 1 {
			ast.Inspect(openPkt.Arg(1), func(n ast.Node) bool {
				if id, isId := n.(*ast.Ident); isId && tupleOf(u, id, ms[0].Expr, 0) {
					okData = true
				}
				return true
			})
		}
	}
	c.Check(R, sockOnOpen+"/OPEN-data=Marshal(map)", u.Pos(), okData, "the OPEN packet carries the marshalled open-packet map")
	n := 0
	for _, cl := range callsAnywhere(c, sockOnOpen) {
		n++
		c.Check(R, keyf("%s/calls-onOpen", cl.U.Key), cl.Pos(), cl.U.Key == "engine.(*socket).Construct", "onOpen callers ⊆ {Construct}")
	}
	c.Need(R, "callers of onOpen", n, 1)
}

func c06InitialPacket(c *core.Ctx) {
	const R = "C06.3"
	c.Rule(R, "the initial packet is per-session data: the reader stored once in the server options is consumed by the first encode, so the data of the MESSAGE sendPacket in onOpen must be re-pointed at a Clone() of the configured buffer (on the edge where it is a types.BufferInterface) before it is sent; a non-cloneable reader can be consumed only once by construction (not decided)")
	u := c.Fn(R, sockOnOpen)
	if u == nil {
		return
	}
	info := u.Info()
	g := u.Graph()
	n := 0
	for _, cl := range u.CallsTo(sockSendPkt) {
		if !pktConst(info, cl.Arg(0), "message") {
			continue
		}
		n++
		v, _ := core.ObjOf(info, cl.Arg(1)).(*types.Var)
		ok := false
		if v != nil {
			for _, a := range assignsIn(u, func(l ast.Expr) bool { return core.ObjOf(info, l) == types.Object(v) }) {
				ce, isC := ast.Unparen(a.Rhs).(*ast.CallExpr)
				if !isC || calleeNameOf(ce) != "Clone" {
					continue
				}
				// receiver is the type-asserted configured reader
				se, _ := ce.Fun.(*ast.SelectorExpr)
				if se == nil {
					continue
				}
				d, k := u.SingleDef(se.X)
				te, isT := d.(*core.TupleElem)
				if !k || !isT || te.Index != 0 {
					continue
				}
				ta, isTA := ast.Unparen(te.X).(*ast.TypeAssertExpr)
				if !isTA || core.ObjOf(info, ta.X) != types.Object(v) {
					continue
				}
				if g.CanFollow(a.Loc, cl.Loc) {
					ok = true
				}
				// the asserted type admits every buffer kind of the repository (text and binary alike)
				if at := info.TypeOf(ta.Type); at != nil {
					missing := []string{}
					for _, impl := range bufferImpls(c) {
						if it, isI := at.Underlying().(*types.Interface); isI {
							if !types.Implements(impl, it) {
								missing = append(missing, impl.String())
							}
						} else if !types.Identical(at, impl) || len(bufferImpls(c)) > 1 {
							if !types.Identical(at, impl) {
								missing = append(missing, impl.String())
							}
						}
					}
					c.Check(R, sockOnOpen+"/clone-covers-every-buffer-kind", ta.Pos(), len(missing) == 0 && len(bufferImpls(c)) >= 2, keyf("the clone edge is taken for every types.BufferInterface implementation; not covered: %v", missing))
				}
			}
			// the variable itself comes from Opts().InitialPacket()
		}
		c.Check(R, sockOnOpen+"/initial-packet-cloned-per-session", cl.Pos(), ok, "the shared options reader is replaced by its Clone() before sendPacket")
		// sent exactly when one is configured (mutation audit round 4): on the non-nil edge of the value read from
		// Opts().InitialPacket(), and on nothing else
		fromOpts := false
		if v != nil {
			for _, d := range u.DefsOf(v) {
				if ce, isC := ast.Unparen(d).(*ast.CallExpr); isC && calleeNameOf(ce) == "InitialPacket" {
					fromOpts = true
				}
			}
		}
		configured := nilGuard(true, func(x *core.Unit, e ast.Expr) bool { return v != nil && core.ObjOf(x.Info(), e) == types.Object(v) })
		also := ""
		var open *core.Call
		for _, oc := range u.CallsTo(sockSendPkt) {
			if pktConst(info, oc.Arg(0), "open") {
				open = oc
			}
		}
		for _, f := range g.Facts() {
			// what decides the open packet as well (the opening → open transition) is not a condition of the message
			if open != nil && g.EdgeDominates(f.Br.B, f.Edge, open.Loc) {
				continue
			}
			if g.EdgeDominates(f.Br.B, f.Edge, cl.Loc) && configured(u, f.Br) == 0 {
				also = core.ExprString(f.Br.Cond)
			}
		}
		c.Check(R, sockOnOpen+"/initial-packet-sent-iff-configured", cl.Pos(), fromOpts && open != nil && g.Dominates(open.Loc, cl.Loc) && g.GuardedBy(cl.Loc, configured) && also == "",
			keyf("the data is Opts().InitialPacket(): %v; sent on its non-nil edge: %v; further conditions: %q", fromOpts, g.GuardedBy(cl.Loc, configured), also))
	}
	c.Need(R, "initial MESSAGE sendPacket in onOpen", n, 1)
}

func c06Upgrades(c *core.Ctx) {
	const R = "C06.4"
	c.Rule(R, "upgrades list: getAvailableUpgrades ranges over server.Upgrades(Transport().Name()).Keys() and appends a name only when Opts().Transports().Has(name); baseServer.Upgrades returns an empty set when !AllowUpgrades(); builder table: polling → {websocket, webtransport}, websocket/webtransport → ∅; builder names equal the registry keys")
	u := c.Fn(R, "engine.(*socket).getAvailableUpgrades")
	if u != nil {
		info := u.Info()
		g := u.Graph()
		var rs *ast.RangeStmt
		ast.Inspect(u.Body, func(n ast.Node) bool {
			if r, ok := n.(*ast.RangeStmt); ok && rs == nil {
				rs = r
			}
			return true
		})
		ok := false
		if rs != nil {
			ch := calleeChain(u, rs.X)
			src := len(ch) >= 2 && strings.HasSuffix(ch[len(ch)-1], ".Keys") && strings.HasSuffix(ch[len(ch)-2], ".Upgrades")
			// argument of Upgrades is Transport().Name()
			argOK := false
			ast.Inspect(rs.X, func(n ast.Node) bool {
				if ce, isC := n.(*ast.CallExpr); isC && calleeNameOf(ce) == "Upgrades" && len(ce.Args) == 1 {
					a := calleeChain(u, ce.Args[0])
					argOK = len(a) == 2 && strings.HasSuffix(a[0], ".Transport") && strings.HasSuffix(a[1], ".Name")
				}
				return true
			})
			v, _ := rs.Value.(*ast.Ident)
			appOK := false
			for _, cl := range u.Calls() {
				if cl.Name == "append" && cl.Callee == nil && v != nil && len(cl.Expr.Args) == 2 && isLocal(info, cl.Arg(1), v.Name) {
					appOK = g.GuardedBy(cl.Loc, func(x *core.Unit, br core.Branch) int {
						ce, isC := ast.Unparen(br.Cond).(*ast.CallExpr)
						if !isC || calleeNameOf(ce) != "Has" || len(ce.Args) != 1 || !isLocal(x.Info(), ce.Args[0], v.Name) {
							return 0
						}
						a := calleeChain(x, ce)
						if len(a) >= 3 && strings.HasSuffix(a[len(a)-2], ".Transports") && strings.HasSuffix(a[len(a)-3], ".Opts") {
							return 1
						}
						return 0
					})
				}
			}
			ok = src && argOK && appOK
		}
		c.Check(R, "engine.(*socket).getAvailableUpgrades/filter", u.Pos(), ok, "upgrade targets of the current transport, kept only when enabled on the server")
	}
	if up := c.Fn(R, "engine.(*baseServer).Upgrades"); up != nil {
		g := up.Graph()
		okEmpty := false
		for _, r := range returnsIn(up) {
			if len(r.Stmt.Results) == 1 {
				if ce, isC := ast.Unparen(r.Stmt.Results[0]).(*ast.CallExpr); isC && calleeNameOf(ce) == "NewSet" && len(ce.Args) == 0 {
					okEmpty = g.GuardedBy(r.Loc, func(x *core.Unit, br core.Branch) int {
						if ce2, isC2 := ast.Unparen(br.Cond).(*ast.CallExpr); isC2 && calleeNameOf(ce2) == "AllowUpgrades" {
							return -1
						}
						return 0
					})
				}
			}
		}
		delegates := false
		for _, cl := range up.Calls() {
			if cl.Name == "UpgradesTo" {
				delegates = true
			}
		}
		c.Check(R, "engine.(*baseServer).Upgrades/disabled→∅", up.Pos(), okEmpty && delegates, "empty set when upgrades are disabled, the builder's UpgradesTo otherwise")
	}
	want := map[string][]string{"PollingBuilder": {"websocket", "webtransport"}, "WebSocketBuilder": {}, "WebTransportBuilder": {}}
	names := map[string]string{"PollingBuilder": "polling", "WebSocketBuilder": "websocket", "WebTransportBuilder": "webtransport"}
	for b, w := range want {
		if ut := c.Fn(R, "transports.(*"+b+").UpgradesTo"); ut != nil {
			var got []string
			okShape := false
			for _, r := range returnsIn(ut) {
				if len(r.Stmt.Results) == 1 {
					if ce, isC := ast.Unparen(r.Stmt.Results[0]).(*ast.CallExpr); isC && calleeNameOf(ce) == "NewSet" {
						okShape = true
						for _, a := range ce.Args {
							if s, isS := core.ConstString(ut.Info(), a); isS {
								got = append(got, s)
							}
						}
					}
				}
			}
			sortStrings(got)
			c.Check(R, "transports.(*"+b+").UpgradesTo", ut.Pos(), okShape && strings.Join(got, ",") == strings.Join(w, ","), keyf("upgrades to %v (want %v)", got, w))
		}
		if nm := c.Fn(R, "transports.(*"+b+").Name"); nm != nil {
			ok := false
			for _, r := range returnsIn(nm) {
				if len(r.Stmt.Results) == 1 {
					if s, isS := core.ConstString(nm.Info(), r.Stmt.Results[0]); isS && s == names[b] {
						ok = true
					}
				}
			}
			c.Check(R, "transports.(*"+b+").Name", nm.Pos(), ok, keyf("Name() == %q", names[b]))
		}
	}
	// registry keys ↔ builders
	for _, un := range c.P.Units {
		if !strings.HasPrefix(un.Key, "transports.init") {
			continue
		}
		okReg := 0
		ast.Inspect(un.Body, func(n ast.Node) bool {
			kv, isKV := n.(*ast.KeyValueExpr)
			if !isKV {
				return true
			}
			k, isS := core.ConstString(un.Info(), kv.Key)
			if !isS {
				return true
			}
			if ue, isU := kv.Value.(*ast.UnaryExpr); isU {
				if cl, isC := ue.X.(*ast.CompositeLit); isC {
					if names[core.TypeName(un.Info().TypeOf(cl))] == k {
						okReg++
					}
				}
			}
			return true
		})
		c.Check(R, "transports.init/registry-keys=builder-names", un.Pos(), okReg == 3, keyf("%d registry entries whose key equals the builder's name", okReg))
	}
}

func c06OneSession(c *core.Ctx) {
	const R = "C06.5"
	c.Rule(R, "an admitted handshake creates exactly one session and announces it once: on every path of Handshake returning a non-nil transport, NewSocket, clients.Store and Emit(\"connection\", socket) execute exactly once each with the same socket; on every other path none of them")
	u := c.Fn(R, bsHandshake)
	if u == nil {
		return
	}
	g := u.Graph()
	info := u.Info()
	ns := u.CallsTo(newSocket)
	conn := filterEv(events(c, u), "emit", "server", "connection")
	var stores []*core.Call
	for _, cl := range u.Calls() {
		if cl.Name == "Store" && cl.Recv != nil && isClientsExpr(u, cl.Recv) {
			stores = append(stores, cl)
		}
	}
	if !c.Check(R, bsHandshake+"/one-NewSocket-one-Store-one-connection", u.Pos(), len(ns) == 1 && len(conn) == 1 && len(stores) == 1,
		keyf("%d NewSocket, %d Store, %d Emit(connection)", len(ns), len(stores), len(conn))) {
		return
	}
	same := tupleOrDef(u, conn[0].Arg(1), ns[0].Expr)
	noLoop := func(l core.Loc) bool {
		return !g.Reach(g.After(l), func(s core.State) bool { return s.B == l.B && s.I == l.I }, nil, nil)
	}
	c.Check(R, bsHandshake+"/connection(socket)=NewSocket()", conn[0].Pos(), same && noLoop(ns[0].Loc) && noLoop(conn[0].Loc), "the announced session is the one created, outside any loop")
	for _, r := range returnsIn(u) {
		if len(r.Stmt.Results) != 2 {
			continue
		}
		success := !core.IsNil(info, r.Stmt.Results[1])
		all := g.Dominates(ns[0].Loc, r.Loc) && g.Dominates(stores[0].Loc, r.Loc) && g.Dominates(conn[0].Loc, r.Loc)
		none := !g.CanFollow(ns[0].Loc, r.Loc) && !g.CanFollow(stores[0].Loc, r.Loc) && !g.CanFollow(conn[0].Loc, r.Loc)
		if success {
			c.Check(R, bsHandshake+"/success-return-after-all-three", r.Stmt.Pos(), all, "created, registered and announced before returning the transport")
		} else {
			c.Check(R, keyf("%s/reject-return(%s)-after-none", bsHandshake, core.ExprString(r.Stmt.Results[0])), r.Stmt.Pos(), none, "a rejecting return creates and announces nothing")
		}
	}
}

func tupleOrDef(u *core.Unit, e ast.Expr, call *ast.CallExpr) bool {
	d, ok := u.SingleDef(e)
	return ok && ast.Unparen(d) == call
}

func c06Revision(c *core.Ctx) {
	const R = "C06.6"
	c.Rule(R, "revision: Handshake computes protocol = 4 iff Query().Peek(\"EIO\") == \"4\" else 3 and passes it to NewSocket; transport.Construct selects Parserv4 under the same predicate on the same key, sets protocol = parser.Protocol() and supportsBinary = !Has(\"b64\"); onOpen arms the v3 deadline iff s.protocol == 3, else the v4 ping schedule (C07.4 arming table)")
	if hs := c.Fn(R, bsHandshake); hs != nil {
		info := hs.Info()
		g := hs.Graph()
		var pv *types.Var
		ns := hs.CallsTo(newSocket)
		if len(ns) == 1 && len(ns[0].Expr.Args) == 5 {
			pv, _ = core.ObjOf(info, ns[0].Arg(4)).(*types.Var)
		}
		ok := false
		// the value may be computed by a novel private helper (extracted from Handshake): judge the variable it returns
		if hu, hv := followNovelResult(c, hs, pv); hu != nil {
			c.Touch(hu)
			hs, pv, info, g = hu, hv, hu.Info(), hu.Graph()
		}
		if pv != nil {
			as := assignsIn(hs, func(l ast.Expr) bool { return core.ObjOf(info, l) == types.Object(pv) })
			var d3, d4 *Assign
			for i := range as {
				if v, isC := core.ConstInt(info, as[i].Rhs); isC {
					if v == 3 {
						d3 = &as[i]
					}
					if v == 4 {
						d4 = &as[i]
					}
				}
			}
			if d3 != nil && d4 != nil && len(as) == 2 {
				ok = g.Dominates(d3.Loc, d4.Loc) && g.GuardedBy(d4.Loc, eioIs4) && !g.GuardedBy(d3.Loc, eioIs4)
			}
		}
		// … or by a novel helper that returns the two constants directly: `if EIO == "4" { return 4 }; return 3`
		if !ok && pv != nil {
			as := assignsIn(hs, func(l ast.Expr) bool { return core.ObjOf(info, l) == types.Object(pv) })
			if len(as) == 1 {
				if ce, isC := ast.Unparen(as[0].Rhs).(*ast.CallExpr); isC {
					if f, _ := typeutil.Callee(info, ce).(*types.Func); f != nil && core.IsNovel(f) {
						if h := c.P.UnitOf(f); h != nil && h.Pkg == hs.Pkg {
							c.Touch(h)
							hg := h.Graph()
							n3, n4, good := 0, 0, true
							for _, r := range returnsIn(h) {
								if len(r.Stmt.Results) != 1 {
									good = false
									continue
								}
								switch v, isK := core.ConstInt(h.Info(), r.Stmt.Results[0]); {
								case isK && v == 4:
									n4++
									good = good && hg.GuardedBy(r.Loc, eioIs4)
								case isK && v == 3:
									n3++
									good = good && !hg.GuardedBy(r.Loc, eioIs4)
								default:
									good = false
								}
							}
							ok = good && n3 == 1 && n4 == 1
						}
					}
				}
			}
		}
		c.Check(R, bsHandshake+"/protocol=EIO==4?4:3→NewSocket", hs.Pos(), ok, "the session revision is 4 exactly when EIO is \"4\", and that value is given to NewSocket")
	}
	if tc := c.Fn(R, "transports.(*transport).Construct"); tc != nil {
		info := tc.Info()
		g := tc.Graph()
		v4, v3, proto, bin := false, false, false, false
		for _, a := range fieldAssigns(tc, "transport.parser") {
			_, key := tc.AsCall(a.Rhs)
			if strings.HasSuffix(key, "parser.Parserv4") {
				v4 = g.GuardedBy(a.Loc, eioIs4)
			}
			if strings.HasSuffix(key, "parser.Parserv3") {
				v3 = g.GuardedBy(a.Loc, func(x *core.Unit, br core.Branch) int { return -eioIs4(x, br) }) || !g.GuardedBy(a.Loc, eioIs4)
			}
		}
		for _, a := range fieldAssigns(tc, "transport.protocol") {
			ch := calleeChain(tc, a.Rhs)
			proto = len(ch) >= 1 && strings.HasSuffix(ch[len(ch)-1], ".Protocol") && strings.Contains(core.ExprString(a.Rhs), "parser")
		}
		for _, a := range fieldAssigns(tc, "transport.supportsBinary") {
			if ue, isU := ast.Unparen(a.Rhs).(*ast.UnaryExpr); isU && ue.Op == token.NOT {
				if ce, isC := ast.Unparen(ue.X).(*ast.CallExpr); isC && calleeNameOf(ce) == "Has" && len(ce.Args) == 1 {
					if s, _ := core.ConstString(info, ce.Args[0]); s == "b64" {
						bin = true
					}
				}
			}
		}
		c.Check(R, "transports.(*transport).Construct/parser+protocol+binary", tc.Pos(), v4 && v3 && proto && bin,
			keyf("Parserv4 iff EIO==\"4\": %v; Parserv3 otherwise: %v; protocol = parser.Protocol(): %v; supportsBinary = !Has(\"b64\"): %v", v4, v3, proto, bin))
	}
}

// eioIs4: guard establishing `<query>.Peek/Get("EIO") == "4"`.
func eioIs4(u *core.Unit, br core.Branch) int {
	cmp, ok := u.BranchCmp(br)
	if !ok || cmp.Val == nil || trimQuotes(cmp.Val.ExactString()) != "4" {
		return 0
	}
	x := cmp.X
	if d, k := u.SingleDef(x); k {
		if te, isT := d.(*core.TupleElem); isT && te.Index == 0 {
			x = te.X
		} else {
			x = d
		}
	}
	ce, isC := ast.Unparen(x).(*ast.CallExpr)
	if !isC || (calleeNameOf(ce) != "Peek" && calleeNameOf(ce) != "Get") || len(ce.Args) < 1 {
		return 0
	}
	if s, _ := core.ConstString(u.Info(), ce.Args[0]); s != "EIO" {
		return 0
	}
	switch cmp.Op {
	case token.EQL:
		return 1
	case token.NEQ:
		return -1
	}
	return 0
}

func c06OptionHandover(c *core.Ctx) {
	const R = "C06.7"
	c.Rule(R, "per-transport option hand-over in Handshake: polling gets SetMaxHttpBufferSize(Opts().MaxHttpBufferSize()) and SetHttpCompression(Opts().HttpCompression()); websocket SetPerMessageDeflate(Opts().PerMessageDeflate()); webtransport SetMaxHttpBufferSize(Opts().MaxHttpBufferSize()) — the enforced limits come from the same accessors as the advertised ones")
	u := c.Fn(R, bsHandshake)
	if u == nil {
		return
	}
	g := u.Graph()
	info := u.Info()
	nameIs := func(tr string) core.Guard {
		return func(x *core.Unit, br core.Branch) int {
			cmp, ok := x.BranchCmp(br)
			if !ok {
				return 0
			}
			l, r := cmp.X, cmp.Y
			val := ""
			if cmp.Val != nil {
				val = trimQuotes(cmp.Val.ExactString())
			}
			_ = r
			if val != tr || !isLocal(x.Info(), l, paramName(u, 0)) {
				return 0
			}
			if cmp.Op == token.EQL {
				return 1
			}
			if cmp.Op == token.NEQ {
				return -1
			}
			return 0
		}
	}
	want := []struct{ tr, setter, accessor string }{
		{"polling", "SetMaxHttpBufferSize", "MaxHttpBufferSize"},
		{"polling", "SetHttpCompression", "HttpCompression"},
		{"websocket", "SetPerMessageDeflate", "PerMessageDeflate"},
		{"webtransport", "SetMaxHttpBufferSize", "MaxHttpBufferSize"},
	}
	for _, w := range want {
		ok := false
		for _, cl := range u.Calls() {
			if cl.Name != w.setter || !g.GuardedBy(cl.Loc, nameIs(w.tr)) {
				continue
			}
			ch := calleeChain(u, cl.Arg(0))
			if len(ch) >= 1 && strings.HasSuffix(ch[len(ch)-1], "."+w.accessor) && fieldOf(info, opsBase(cl.Arg(0))) == "baseServer.opts" {
				ok = true
			}
		}
		c.Check(R, keyf("%s/%s→%s(Opts().%s())", bsHandshake, w.tr, w.setter, w.accessor), u.Pos(), ok, "the transport receives the server option")
	}
}

// opsBase: the expression on which the final accessor is called (bs.opts in bs.opts.X()).
func opsBase(e ast.Expr) ast.Expr {
	ce, ok := ast.Unparen(e).(*ast.CallExpr)
	if !ok {
		return e
	}
	se, ok := ce.Fun.(*ast.SelectorExpr)
	if !ok {
		return e
	}
	return se.X
}

// bufferImpls: pointer types implementing types.BufferInterface, taken from
// the package that declares the interface (the repository's types package
// aliases the parser's buffer types).
func bufferImpls(c *core.Ctx) []types.Type {
	var out []types.Type
	pk := c.P.Pkgs["types"]
	if pk == nil || pk.Types == nil {
		return nil
	}
	bi, _ := pk.Types.Scope().Lookup("BufferInterface").(*types.TypeName)
	if bi == nil {
		return nil
	}
	it, ok := bi.Type().Underlying().(*types.Interface)
	if !ok {
		return nil
	}
	home := pk.Types
	if nm, ok := types.Unalias(bi.Type()).(*types.Named); ok && nm.Obj().Pkg() != nil {
		home = nm.Obj().Pkg()
	}
	for _, n := range home.Scope().Names() {
		tn, ok := home.Scope().Lookup(n).(*types.TypeName)
		if !ok || tn.IsAlias() {
			continue
		}
		if _, isI := tn.Type().Underlying().(*types.Interface); isI {
			continue
		}
		pt := types.NewPointer(tn.Type())
		if types.Implements(pt, it) {
			out = append(out, pt)
		}
	}
	return out
}
