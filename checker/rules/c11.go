package rules

import (
	"go/ast"
	"go/token"
	"strings"

	"engcheck/core"
)

func init() {
	register("C11", func(c *core.Ctx, tier string) {
		pollInstalledOnlyWhileClientIsThere(c, "C11.17")
		truncatedBodyRefused(c, "C11.13")
		requestRevalidatesTransport(c, "C11.14")
		handlerReleasedUnderMutex(c, "C11.15")
		bufferedCloseRechecksWritable(c, "C11.16")
		payloadNotTruncated(c, "C11.12") // "ok" only after all packets of the payload were processed: none silently dropped by the decoder
		corsAndContextEffects(c, "C11.11")
		pollingEffects(c, "C11.10")
		constructorChain(c, "C11.9")
		c11Overlap(c)
		c11SingleWriter(c)
		lockBalance(c, "C11.3b", "types", "transports")
		c11OkAfterProcessing(c)
		answerOrPark(c, "C11.5", true)
		c11ReleaseAtClose(c, "C11.6")
		noBaseBypass(c, "C11.8")
		c09ReadersTerminate(c) // C11.7 (= C09.6): a request whose client is gone is released by the context watcher (Flush)
	})
}

// claimFailed: guard establishing that the CompareAndSwap(nil, ctx) on field failed.
func claimGuard(field string, success bool) core.Guard {
	return func(u *core.Unit, br core.Branch) int {
		if br.IsCase {
			return 0
		}
		ce, key := u.AsCall(br.Cond)
		if ce == nil || !strings.HasSuffix(key, ".CompareAndSwap") {
			return 0
		}
		se, ok := ce.Fun.(*ast.SelectorExpr)
		if !ok || fieldOf(u.Info(), se.X) != field || len(ce.Args) != 2 || !core.IsNil(u.Info(), ce.Args[0]) {
			return 0
		}
		if success {
			return 1
		}
		return -1
	}
}

func c11Overlap(c *core.Ctx) {
	const R1, R2 = "C11.1", "C11.2"
	c.Rule(R1, "overlap edges: in onPollRequest / onDataRequest the edge on which a request of that kind is already pending reports OnError(\"…overlap…\"), sets status 400, writes the response and returns, without replacing the pending request")
	c.Rule(R2, "ATOMIC(test, claim): 'at most one outstanding' under concurrent handlers — the pending-request slot (polling.req / polling.dataCtx) is claimed with CompareAndSwap(nil, ctx) whose failure edge is the overlap edge; no plain Store of a non-nil request exists (Store(nil) releases the slot)")
	for _, sp := range []struct{ fn, field string }{
		{"transports.(*polling).onPollRequest", "polling.req"},
		{"transports.(*polling).onDataRequest", "polling.dataCtx"},
	} {
		u := c.Fn(R1, sp.fn)
		if u == nil {
			continue
		}
		info := u.Info()
		g := u.Graph()
		// the claim
		var cas *core.Call
		for _, cl := range fieldCalls(u, sp.field) {
			if cl.Name == "CompareAndSwap" && core.IsNil(info, cl.Arg(0)) && isLocal(info, cl.Arg(1), paramName(u, 0)) {
				cas = cl
			}
		}
		c.Check(R2, keyf("%s/%s.CompareAndSwap(nil,ctx)", sp.fn, strings.SplitN(sp.field, ".", 2)[1]), u.Pos(), cas != nil, "the slot is tested and claimed in one atomic step")
		if cas != nil {
			// the overlap test comes first: no other answer (413, 400 invalid content …) can be given to an overlapping request
			first := true
			for _, cl := range u.Calls() {
				if (cl.Key == "types.(*HttpContext).Write" || cl.Name == "SetStatusCode" || cl.Key == "io.WriteString") && !g.Dominates(cas.Loc, cl.Loc) {
					first = false
				}
			}
			c.Check(R1, sp.fn+"/overlap-test-precedes-every-answer", cas.Pos(), first, "a second request of the same kind is always answered as an overlap (400 + transport error), whatever else is wrong with it")
		}
		failed := claimGuard(sp.field, false)
		var onErr, status, write *core.Call
		for _, cl := range u.Calls() {
			if !g.GuardedBy(cl.Loc, failed) {
				continue
			}
			switch {
			case cl.Name == "OnError":
				onErr = cl
			case cl.Name == "SetStatusCode":
				status = cl
			case cl.Key == "types.(*HttpContext).Write":
				write = cl
			}
		}
		ok := onErr != nil && status != nil && write != nil
		if ok {
			msg, _ := core.ConstString(info, onErr.Arg(0))
			v, isC := core.ConstInt(info, status.Arg(0))
			ret := false
			for _, r := range returnsIn(u) {
				if g.GuardedBy(r.Loc, failed) && g.Dominates(write.Loc, r.Loc) {
					ret = true
				}
			}
			ok = strings.Contains(msg, "overlap") && isC && v == 400 && ret && g.Dominates(status.Loc, write.Loc)
		}
		c.Check(R1, sp.fn+"/overlap→OnError,400,write,return", u.Pos(), ok, "a second overlapping request is refused and the session closed with a transport error")
	}
	// no plain non-nil Store
	n := 0
	for _, x := range c.P.Units {
		for _, field := range []string{"polling.req", "polling.dataCtx"} {
			for _, cl := range fieldCalls(x, field) {
				if cl.Name != "Store" && cl.Name != "Swap" {
					continue
				}
				n++
				// who may release: the request's own cleanup (run when its response is being written / its connection went away), and for the data slot the refusal edges of onDataRequest;
				// a release anywhere else (e.g. while the response is still being produced) re-opens the slot for an overlapping request whose context the cleanup later wipes
				releasers := map[string]bool{
					"polling.req|transports.(*polling).onPollRequest$Cleanup":     true,
					"polling.dataCtx|transports.(*polling).onDataRequest$cleanup": true,
					"polling.dataCtx|transports.(*polling).onDataRequest":         true,
				}
				c.Check(R2, keyf("%s/%s.%s(%s)", x.Key, strings.SplitN(field, ".", 2)[1], cl.Name, core.ExprString(cl.Arg(0))), cl.Pos(), core.IsNil(x.Info(), cl.Arg(0)) && cl.Name == "Store" && releasers[field+"|"+x.Key],
					"only nil (release) may be stored without the atomic claim, and only by the request's own cleanup")
			}
		}
	}
	c.Need(R2, "releases of the pending-request slots", n, 2)
}

func c11SingleWriter(c *core.Ctx) {
	const R = "C11.3"
	c.Rule(R, "single-writer response: HttpContext.Write holds c.mu, writes header and body only on the !IsDone() edge and defers Flush; Flush is a CompareAndSwap(false,true) guarding close(done); the raw http.ResponseWriter is used only by HttpContext.Write, by the two protocol upgraders (hijack) and as the non-writing argument of http.MaxBytesReader — nobody else can produce a second response")
	w := c.Fn(R, "types.(*HttpContext).Write")
	if w != nil {
		g := w.Graph()
		info := w.Info()
		notDone := boolCallGuard(false, "types.(*HttpContext).IsDone")
		n := 0
		for _, cl := range w.CallsX() { // including what a novel private helper called from Write does (judged at the helper call)
			if cl.Recv == nil || fieldOf(info, recvBase(cl.Recv)) != "HttpContext.response" {
				continue
			}
			if cl.Name != "WriteHeader" && cl.Name != "Write" {
				continue
			}
			n++
			held := g.HeldAt(cl.Loc)
			c.Check(R, keyf("types.(*HttpContext).Write/response.%s", cl.Name), cl.Pos(), held["HttpContext.mu"] && g.GuardedBy(cl.Loc, notDone), keyf("under c.mu and only when not done (held=%v)", keys(held)))
		}
		c.Need(R, "raw response writes in HttpContext.Write", n, 2)
		for _, cl := range w.CallsTo("types.(*HttpContext).IsDone") {
			held := g.HeldAt(cl.Loc)
			c.Check(R, "types.(*HttpContext).Write/IsDone-tested-under-mu", cl.Pos(), held["HttpContext.mu"], "the already-answered test and the write are one critical section: tested outside the lock, a second writer that waited for the mutex writes a second response")
		}
		fl := false
		for _, cl := range w.Calls() {
			if cl.Deferred && cl.Key == "types.(*HttpContext).Flush" && g.GuardedBy(cl.Loc, notDone) {
				fl = true
			}
		}
		c.Check(R, "types.(*HttpContext).Write/defer-Flush", w.Pos(), fl, "the context is marked done by the first successful Write")
	}
	if f := c.Fn(R, "types.(*HttpContext).Flush"); f != nil {
		g := f.Graph()
		ok := false
		for _, cl := range f.Calls() {
			if cl.Name == "close" && cl.Callee == nil {
				ok = g.GuardedBy(cl.Loc, func(x *core.Unit, br core.Branch) int {
					ce, key := x.AsCall(br.Cond)
					if ce == nil || !strings.HasSuffix(key, ".CompareAndSwap") || len(ce.Args) != 2 {
						return 0
					}
					o, ok1 := core.ConstBool(x.Info(), ce.Args[0])
					n, ok2 := core.ConstBool(x.Info(), ce.Args[1])
					if ok1 && ok2 && !o && n {
						return 1
					}
					return 0
				})
			}
		}
		c.Check(R, "types.(*HttpContext).Flush/close-once", f.Pos(), ok, "done is closed exactly once (CompareAndSwap(false,true))")
	}
	allowedField := map[string]bool{"types.(*HttpContext).Write": true, "types.(*HttpContext).Response": true, "types.NewHttpContext": true}
	for _, u := range c.P.Units {
		info := u.Info()
		ast.Inspect(u.Body, func(nd ast.Node) bool {
			if _, isLit := nd.(*ast.FuncLit); isLit {
				return false
			}
			if se, ok := nd.(*ast.SelectorExpr); ok && fieldOf(info, se) == "HttpContext.response" {
				c.Check(R, keyf("%s/uses-response-field", u.Key), se.Pos(), allowedField[u.Key] || novelCalledOnlyFrom(c, u, allowedField, 0), "the response field is private to HttpContext")
			}
			return true
		})
	}
	n := 0
	for _, cl := range callsAnywhere(c, "types.(*HttpContext).Response") {
		n++
		u := cl.U
		// which call consumes it?
		okUse := false
		what := "unknown use"
		for _, outer := range u.Calls() {
			for i, a := range outer.Expr.Args {
				if ast.Unparen(a) == ast.Expr(cl.Expr) {
					switch {
					case outer.Name == "Upgrade" && i == 0:
						okUse, what = true, "protocol upgrade (hijack)"
					case outer.Key == "net/http.MaxBytesReader" && i == 0:
						okUse, what = true, "MaxBytesReader (not a response write)"
					}
				}
			}
		}
		c.Check(R, keyf("%s/ctx.Response()", u.Key), cl.Pos(), okUse, what)
	}
	c.Need(R, "uses of ctx.Response()", n, 2)
}

func recvBase(e ast.Expr) ast.Expr {
	// c.response.Header() → c.response ; c.response → c.response
	for {
		e = ast.Unparen(e)
		if ce, ok := e.(*ast.CallExpr); ok {
			if se, ok := ce.Fun.(*ast.SelectorExpr); ok {
				e = se.X
				continue
			}
		}
		return e
	}
}

func c11OkAfterProcessing(c *core.Ctx) {
	const R = "C11.4"
	c.Rule(R, "a data request is acknowledged only after its payload was processed: in onDataRequest OnData(packet) ≺ cleanup() ≺ status 200 ≺ io.WriteString(ctx, \"ok\"), and the dispatch chain is synchronous (C02.5)")
	u := c.Fn(R, "transports.(*polling).onDataRequest")
	if u == nil {
		return
	}
	g := u.Graph()
	info := u.Info()
	var od, ok200, wr *core.Call
	var cleanups []*core.Call
	for _, cl := range u.Calls() {
		switch {
		case cl.Name == "OnData":
			od = cl
		case cl.Callee == nil && cl.Name == "cleanup":
			cleanups = append(cleanups, cl)
		case cl.Name == "SetStatusCode":
			if v, isC := core.ConstInt(info, cl.Arg(0)); isC && v == 200 {
				ok200 = cl
			}
		case cl.Key == "io.WriteString":
			if s, _ := core.ConstString(info, cl.Arg(1)); s == "ok" {
				wr = cl
			}
		}
	}
	ok := od != nil && ok200 != nil && wr != nil
	if ok {
		cl := false
		for _, x := range cleanups {
			if g.Dominates(od.Loc, x.Loc) && g.Dominates(x.Loc, wr.Loc) {
				cl = true
			}
		}
		ok = cl && g.Dominates(od.Loc, wr.Loc) && g.Dominates(ok200.Loc, wr.Loc)
	}
	c.Check(R, "transports.(*polling).onDataRequest/OnData≺cleanup≺200≺ok", u.Pos(), ok, "'ok' only after all packets of the payload were dispatched")
	c02Synchronous(c)
}

func c11ReleaseAtClose(c *core.Ctx, R string) {
	c.Rule(R, "a pending poll is released when the transport closes: polling.DoClose sends CLOSE then onClose() on the writable edge, onClose() on the discarded edge, otherwise arms SetTimeout(onClose, closeTimeout) and stores shouldClose (which clears that timer and calls onClose); polling.OnClose sends NOOP on the writable edge before the base OnClose; send appends CLOSE and runs the stored closure when shouldClose is set; DoWrite's respond clears the pending request (ctx.Cleanup()) before writing")
	dc := c.Fn(R, "transports.(*polling).DoClose")
	if dc != nil {
		g := dc.Graph()
		info := dc.Info()
		wr := writableTrue()
		disc := boolCallGuard(true, "transports.(Transport).Discarded", "transports.(*transport).Discarded")
		var sendClose, onCloseW, onCloseD, arm, store *core.Call
		for _, cl := range dc.Calls() {
			switch {
			case cl.Key == "transports.(*polling).Send" && g.GuardedBy(cl.Loc, wr):
				hasClose := false
				ast.Inspect(cl.Arg(0), func(n ast.Node) bool {
					if kv, isKV := n.(*ast.KeyValueExpr); isKV && pktConst(info, kv.Value, "close") {
						hasClose = true
					}
					return true
				})
				if hasClose {
					sendClose = cl
				}
			case cl.Callee == nil && cl.Name == "onClose" && g.GuardedBy(cl.Loc, wr):
				onCloseW = cl
			case cl.Callee == nil && cl.Name == "onClose" && g.GuardedBy(cl.Loc, disc):
				onCloseD = cl
			case cl.Key == setTimeoutKey:
				arm = cl
			case cl.Name == "Store" && cl.Recv != nil && fieldOf(info, cl.Recv) == "polling.shouldClose":
				store = cl
			}
		}
		okW := sendClose != nil && onCloseW != nil && g.Dominates(sendClose.Loc, onCloseW.Loc)
		c.Check(R, "transports.(*polling).DoClose/writable→Send(CLOSE)≺onClose", dc.Pos(), okW, "a pending poll is answered with a close packet at once")
		c.Check(R, "transports.(*polling).DoClose/discarded→onClose", dc.Pos(), onCloseD != nil, "a discarded transport closes immediately")
		okT := arm != nil && store != nil && isLocal(info, arm.Arg(0), "onClose") && fieldOf(info, arm.Arg(1)) == "polling.closeTimeout" &&
			!g.GuardedBy(arm.Loc, wr) && !g.GuardedBy(arm.Loc, disc)
		if okT {
			// the stored closure clears the timer and calls onClose
			sc := dc.Kid("shouldClose")
			okT = sc != nil
			if sc != nil {
				c.Touch(sc)
				clr, oc := false, false
				for _, cl := range sc.Calls() {
					if cl.Key == clearTOKey {
						clr = true
					}
					if cl.Callee == nil && cl.Name == "onClose" {
						oc = true
					}
				}
				okT = clr && oc
			}
		}
		c.Check(R, "transports.(*polling).DoClose/else→timer+shouldClose", dc.Pos(), okT, "otherwise the close is buffered with a bounded timeout")
		// onClose closure ends in p.OnClose()
		if oc := dc.Kid("onClose"); oc != nil {
			c.Touch(oc)
			last := false
			for _, cl := range oc.Calls() {
				if cl.Name == "OnClose" {
					last = true
				}
			}
			c.Check(R, "transports.(*polling).DoClose$onClose→OnClose", oc.Pos(), last, "every close path ends in the transport's OnClose")
		}
	}
	if ct := c.Fn(R, "transports.(*polling).Construct"); ct != nil {
		ok := false
		for _, a := range fieldAssigns(ct, "polling.closeTimeout") {
			// a positive constant duration
			if tv, has := ct.Info().Types[a.Rhs]; has && tv.Value != nil {
				if v, exact := constantInt64(tv.Value.String()); exact && v > 0 {
					ok = true
				}
			}
		}
		c.Check(R, "transports.(*polling).Construct/closeTimeout>0", ct.Pos(), ok, "the close timeout is a positive constant")
	}
	if oc := c.Fn(R, "transports.(*polling).OnClose"); oc != nil {
		g := oc.Graph()
		var noop, late, base *core.Call
		for _, cl := range oc.Calls() {
			if cl.Key == "transports.(Transport).OnClose" {
				base = cl
			}
		}
		for _, cl := range oc.Calls() {
			if cl.Key == "transports.(*polling).Send" && g.GuardedBy(cl.Loc, writableTrue()) {
				if base != nil && g.Dominates(base.Loc, cl.Loc) {
					late = cl // the re-check after the state change (fix 46aa1a3)
				} else {
					noop = cl
				}
			}
		}
		ok := noop != nil && base != nil && g.CanFollow(noop.Loc, base.Loc)
		// store-then-check on both sides: a poll that is installed between the writable test above and the state change
		// is released by a second writable test made after the transport became closed (onPollRequest does the mirror
		// test after installing itself)
		c.Check(R, "transports.(*polling).OnClose/re-check-writable-after-close", oc.Pos(), late != nil, "a poll installed while the transport was closing is released as well")
		if ok {
			for _, r := range returnsIn(oc) {
				ok = ok && g.Dominates(base.Loc, r.Loc)
			}
		}
		c.Check(R, "transports.(*polling).OnClose/NOOP-if-writable≺base.OnClose", oc.Pos(), ok, "a pending poll is released with a noop when the transport closes")
		// a discarded transport can still hold a pending poll (server close, or an upgrade completing while a GET is pending):
		// either OnClose releases it whatever the discard flag says, or DoClose reaches its discarded arm only when not writable
		discAny := func(x *core.Unit, br core.Branch) bool {
			_, key := x.AsCall(br.Cond)
			return !br.IsCase && (key == "transports.(Transport).Discarded" || key == "transports.(*transport).Discarded")
		}
		noopIgnoresDiscard := noop != nil
		if noop != nil {
			for _, f := range g.Facts() {
				if discAny(oc, f.Br) && g.EdgeDominates(f.Br.B, f.Edge, noop.Loc) {
					noopIgnoresDiscard = false
				}
			}
		}
		discardedArmNotWritable := false
		if dc != nil {
			dg := dc.Graph()
			disc := boolCallGuard(true, "transports.(Transport).Discarded", "transports.(*transport).Discarded")
			notWr := boolCallGuard(false, "transports.(Transport).Writable", "transports.(*transport).Writable")
			for _, cl := range dc.Calls() {
				if cl.Callee == nil && cl.Name == "onClose" && dg.GuardedBy(cl.Loc, disc) {
					discardedArmNotWritable = dg.GuardedBy(cl.Loc, notWr)
				}
			}
		}
		c.Check(R, "transports.(*polling)/discarded∧writable→poll-released", oc.Pos(), noopIgnoresDiscard || discardedArmNotWritable,
			keyf("OnClose's NOOP does not depend on Discarded(): %v; DoClose's discarded arm is reached only when not writable: %v", noopIgnoresDiscard, discardedArmNotWritable))
	}
	if sd := c.Fn(R, "transports.(*polling).send"); sd != nil {
		g := sd.Graph()
		info := sd.Info()
		taken := false
		set := nilGuard(true, func(x *core.Unit, e ast.Expr) bool {
			d, ok := x.SingleDef(e)
			if !ok {
				return false
			}
			ce, isC := ast.Unparen(d).(*ast.CallExpr)
			if !isC {
				return false
			}
			se, isS := ce.Fun.(*ast.SelectorExpr)
			if isS && se.Sel.Name == "Swap" && len(ce.Args) == 1 && core.IsNil(x.Info(), ce.Args[0]) && fieldOf(x.Info(), se.X) == "polling.shouldClose" {
				taken = true // Swap(nil): taking the closure is the reset (one step, so Discard cannot run it a second time — fix f776a3e)
				return true
			}
			return isS && se.Sel.Name == "Load" && fieldOf(x.Info(), se.X) == "polling.shouldClose"
		})
		app, run, reset := false, false, false
		for _, a := range assignsIn(sd, func(l ast.Expr) bool { return isLocal(info, l, paramName(sd, 0)) }) {
			if g.GuardedBy(a.Loc, set) {
				ast.Inspect(a.Rhs, func(n ast.Node) bool {
					if kv, isKV := n.(*ast.KeyValueExpr); isKV && pktConst(info, kv.Value, "close") {
						app = true
					}
					return true
				})
			}
		}
		for _, cl := range sd.Calls() {
			if cl.Callee == nil && g.GuardedBy(cl.Loc, set) {
				if _, isStar := ast.Unparen(cl.Expr.Fun).(*ast.StarExpr); isStar {
					run = true
				}
			}
			if cl.Name == "Store" && cl.Recv != nil && fieldOf(info, cl.Recv) == "polling.shouldClose" && core.IsNil(info, cl.Arg(0)) && g.GuardedBy(cl.Loc, set) {
				reset = true
			}
		}
		reset = reset || taken
		c.Check(R, "transports.(*polling).send/shouldClose→append(CLOSE),run,reset", sd.Pos(), app && run && reset, keyf("append CLOSE=%v run closure=%v reset=%v", app, run, reset))
	}
	if dw := c.Fn(R, "transports.(*polling).DoWrite"); dw != nil {
		rs := c.KidOf(R, dw, "respond")
		if rs != nil {
			g := rs.Graph()
			var cln, cp *core.Call
			for _, cl := range rs.Calls() {
				if cl.Name == "Cleanup" {
					cln = cl
				}
				if cl.Key == "io.Copy" {
					cp = cl
				}
			}
			c.Check(R, "transports.(*polling).DoWrite$respond/Cleanup≺write", rs.Pos(), cln != nil && cp != nil && g.Dominates(cln.Loc, cp.Loc), "the pending-poll slot is released before the response goes out")
		}
	}
	_ = token.NoPos
}

func constantInt64(s string) (int64, bool) {
	var v int64
	neg := false
	if s == "" {
		return 0, false
	}
	for i, ch := range s {
		if i == 0 && ch == '-' {
			neg = true
			continue
		}
		if ch < '0' || ch > '9' {
			return 0, false
		}
		v = v*10 + int64(ch-'0')
	}
	if neg {
		v = -v
	}
	return v, true
}
