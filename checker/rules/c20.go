package rules

import (
	"go/ast"
	"go/token"
	"go/types"
	"golang.org/x/tools/go/cfg"
	"golang.org/x/tools/go/types/typeutil"
	"sort"
	"strings"

	"engcheck/core"
)

func init() {
	register("C20", func(c *core.Ctx, tier string) {
		mapSentinelNotZeroSize(c, "C20.1g")
		containerEffects(c, "C20.6")
		variadicIndexSafety(c, "C20.7")
		c20LockDiscipline(c)
		c20MapDiscipline(c)
		c20AliasUnderLock(c)
		c20ReloadAgreement(c)
		c20MapRecheck(c, "C20.1f")
		lockBalance(c, "C20.1c", "types", "utils")
		c20NoSharing(c)
		c20Snapshot(c, "C20.2b")
		sliceFifoShapes(c, "C20.2c")
		sliceIterationOrder(c, "C20.2d")
		c20Bounds(c)
		c20Emitter(c)
		c20EmitterBasics(c)
		c20Ids(c, "C20.5")
		listenerIdentity(c, "C20.8")
		mapAggregatesSnapshot(c, "C20.9")
	})
}

// methodsOf lists the declared methods (units) of a named type in a package.
func methodsOf(c *core.Ctx, pkg, typ string) []*core.Unit {
	var out []*core.Unit
	for _, u := range c.P.Units {
		if u.Decl == nil || u.Decl.Recv == nil || u.Pkg != c.P.Pkgs[pkg] {
			continue
		}
		if strings.HasPrefix(u.Key, pkg+".(*"+typ+").") || strings.HasPrefix(u.Key, pkg+".("+typ+").") {
			out = append(out, u)
		}
	}
	return out
}

// fieldAccess is one use of a guarded field.
type fieldAccess struct {
	U     *core.Unit
	Sel   *ast.SelectorExpr
	Write bool
	Loc   core.Loc
}

// accessesOf lists reads and writes of struct field "Type.field" in the
// own body of u.
func accessesOf(u *core.Unit, field string) []fieldAccess {
	var out []fieldAccess
	info := u.Info()
	g := u.Graph()
	writes := map[*ast.SelectorExpr]bool{}
	markWrite := func(e ast.Expr) {
		for {
			e = ast.Unparen(e)
			switch x := e.(type) {
			case *ast.IndexExpr:
				e = x.X
				continue
			case *ast.SliceExpr:
				e = x.X
				continue
			case *ast.SelectorExpr:
				if fieldOf(info, x) == field {
					writes[x] = true
				}
			}
			return
		}
	}
	ast.Inspect(u.Body, func(n ast.Node) bool {
		switch s := n.(type) {
		case *ast.FuncLit:
			return false
		case *ast.AssignStmt:
			for _, l := range s.Lhs {
				markWrite(l)
			}
		case *ast.IncDecStmt:
			markWrite(s.X)
		case *ast.CallExpr:
			if id, ok := s.Fun.(*ast.Ident); ok && (id.Name == "delete" || id.Name == "clear") && len(s.Args) >= 1 {
				if _, isB := info.Uses[id].(*types.Builtin); isB {
					markWrite(s.Args[0])
				}
			}
		}
		return true
	})
	ast.Inspect(u.Body, func(n ast.Node) bool {
		switch s := n.(type) {
		case *ast.FuncLit:
			return false
		case *ast.SelectorExpr:
			if fieldOf(info, s) == field {
				out = append(out, fieldAccess{u, s, writes[s], g.LocOf(s)})
			}
		}
		return true
	})
	return out
}

// C20.1 — RWMutex discipline of Slice, Set, ParameterBag.
func c20LockDiscipline(c *core.Ctx) {
	const R = "C20.1"
	c.Rule(R, "every read of the guarded field of types.Slice / types.Set / utils.ParameterBag happens under RLock or Lock and every write under Lock (lock released by defer or on all exits); lock-free unexported helpers are called only with the lock held")
	type spec struct{ pkg, typ, field, lock string }
	for _, sp := range []spec{
		{"types", "Slice", "elements", "Slice.mu"},
		{"types", "Set", "cache", "Set.mu"},
		{"utils", "ParameterBag", "parameters", "ParameterBag.mu"},
	} {
		ms := methodsOf(c, sp.pkg, sp.typ)
		helpers := map[string]bool{}
		nAcc := 0
		for _, m := range ms {
			c.Touch(m)
			g := m.Graph()
			exported := ast.IsExported(m.Decl.Name.Name)
			for _, fa := range accessesOf(m, sp.typ+"."+sp.field) {
				nAcc++
				held := g.HeldAt(fa.Loc)
				w, r := held[sp.lock], held[sp.lock+"#R"]
				ok := w || (r && !fa.Write)
				if !exported && !ok {
					helpers[m.Key] = true // lock-free helper: callers are checked below
					continue
				}
				kind := "read"
				if fa.Write {
					kind = "write"
				}
				c.Check(R, keyf("%s/%s(%s)", m.Key, kind, sp.field), fa.Sel.Pos(), ok, keyf("held=%v", keys(held)))
			}
			// unlock discipline: Lock ⇒ deferred Unlock or no exit with the lock held
			if exported {
				du := g.DeferredUnlocks()
				for _, r := range returnsIn(m) {
					for k := range g.HeldAt(r.Loc) {
						if strings.HasPrefix(k, sp.lock) && !du[k] {
							c.Violate(R, keyf("%s/unlock-on-exit", m.Key), r.Stmt.Pos(), keyf("%s still held at return and no deferred unlock", k))
						}
					}
				}
			}
		}
		// callers of lock-free helpers
		for h := range helpers {
			hu := c.P.Func(h)
			needW := false
			for _, fa := range accessesOf(hu, sp.typ+"."+sp.field) {
				needW = needW || fa.Write
			}
			n := 0
			for _, cl := range callsAnywhere(c, h) {
				n++
				held := cl.U.Graph().HeldAt(cl.Loc)
				ok := held[sp.lock] || (!needW && held[sp.lock+"#R"])
				if helpers[cl.U.Key] {
					ok = true // helper calling helper: checked at the outer caller
				}
				// a deferred helper call runs at exit: the lock must be released by a defer registered earlier (LIFO ⇒ still held)
				if cl.Deferred && !ok {
					ok = false
				}
				c.Check(R, keyf("%s/calls-%s-with-lock", cl.U.Key, hu.Decl.Name.Name), cl.Pos(), ok, keyf("helper writes=%v, held=%v", needW, keys(held)))
			}
			c.Need(R, "callers of helper "+h, n, 1)
		}
		c.Need(R, "accesses of "+sp.typ+"."+sp.field, nAcc, 10)
	}
}

// C20.1b — types.Map (sync.Map port) internal invariants.
func c20MapDiscipline(c *core.Ctx) {
	const R = "C20.1b"
	c.Rule(R, "types.Map: dirty and misses are accessed only with mu held or inside *Locked helpers; read.Store only with mu held; *Locked helpers are called only under mu or from another *Locked helper")
	n := 0
	for _, m := range methodsOf(c, "types", "Map") {
		c.Touch(m)
		g := m.Graph()
		locked := strings.HasSuffix(m.Decl.Name.Name, "Locked")
		for _, f := range []string{"Map.dirty", "Map.misses"} {
			for _, fa := range accessesOf(m, f) {
				n++
				held := g.HeldAt(fa.Loc)
				c.Check(R, keyf("%s/access(%s)", m.Key, f), fa.Sel.Pos(), locked || held["Map.mu"], keyf("held=%v lockedHelper=%v", keys(held), locked))
			}
		}
		for _, cl := range m.Calls() {
			if cl.Name == "Store" && cl.Recv != nil && fieldOf(m.Info(), cl.Recv) == "Map.read" {
				n++
				held := g.HeldAt(cl.Loc)
				c.Check(R, keyf("%s/read.Store", m.Key), cl.Pos(), locked || held["Map.mu"], keyf("held=%v", keys(held)))
			}
			if cl.Callee != nil && strings.HasSuffix(cl.Name, "Locked") && c.P.UnitOf(cl.Callee) != nil {
				n++
				held := g.HeldAt(cl.Loc)
				c.Check(R, keyf("%s/calls-%s", m.Key, cl.Name), cl.Pos(), locked || held["Map.mu"], keyf("held=%v", keys(held)))
			}
		}
	}
	c.Need(R, "Map guarded accesses", n, 30)
}

func isSliceType(t types.Type) bool {
	if t == nil {
		return false
	}
	_, ok := t.Underlying().(*types.Slice)
	return ok
}

// baseIdent strips slicing and returns the identifier at the base.
func baseIdent(e ast.Expr) *ast.Ident {
	for {
		e = ast.Unparen(e)
		switch x := e.(type) {
		case *ast.SliceExpr:
			e = x.X
			continue
		case *ast.Ident:
			return x
		}
		return nil
	}
}

// C20.2 — no storage sharing with the caller.
func c20NoSharing(c *core.Ctx) {
	const R = "C20.2"
	c.Rule(R, "types.Slice never shares storage with caller slices outside NewSlice/Replace/DoWrite/DoRead: no method stores a parameter slice (or a re-slice of it) into elements, no method appends onto a parameter slice (append's first argument: the caller's spare capacity would be written and possibly retained), and no method returns elements or a sub-slice of it; Set.All/Keys and ParameterBag.All/Gets/With copy")
	exempt := map[string]bool{"NewSlice": true, "Replace": true, "DoWrite": true, "DoRead": true}
	nAppend := 0
	for _, m := range methodsOf(c, "types", "Slice") {
		name := m.Decl.Name.Name
		info := m.Info()
		if exempt[name] {
			continue
		}
		isParamSlice := func(e ast.Expr) bool {
			id := baseIdent(e)
			if id == nil {
				return false
			}
			_, isP := m.IsParam(id)
			return isP && isSliceType(info.TypeOf(id))
		}
		for _, cl := range m.Calls() {
			if cl.Name != "append" || cl.Callee != nil {
				continue
			}
			nAppend++
			ok := !isParamSlice(cl.Arg(0))
			c.Check(R, keyf("%s/append(first=%s)", m.Key, core.ExprString(cl.Arg(0))), cl.Pos(), ok,
				"append's destination must be the container's own array or a fresh one, never a caller-owned slice")
		}
		for _, a := range fieldAssigns(m, "Slice.elements") {
			if a.Rhs != nil && isParamSlice(a.Rhs) {
				c.Violate(R, keyf("%s/stores-parameter", m.Key), a.Stmt.Pos(), "a caller-owned slice is stored as the container's backing array")
			}
		}
		for _, r := range returnsIn(m) {
			for _, res := range r.Stmt.Results {
				e := ast.Unparen(res)
				for depth := 0; depth < 6; depth++ {
					if se, ok := e.(*ast.SliceExpr); ok {
						e = ast.Unparen(se.X)
						continue
					}
					// through a local: result := s.elements; return result
					if id, isId := e.(*ast.Ident); isId {
						if d, k := m.SingleDef(id); k && d != ast.Expr(id) {
							if _, isT := d.(*core.TupleElem); !isT {
								e = ast.Unparen(d)
								continue
							}
						}
					}
					break
				}
				if fieldOf(info, e) == "Slice.elements" && isSliceType(info.TypeOf(res)) {
					c.Violate(R, keyf("%s/returns-elements", m.Key), r.Stmt.Pos(), "the internal backing array is handed to the caller")
				}
			}
		}
		// handing elements to a callback is allowed only in DoRead/DoWrite (exempt)
		for _, cl := range m.Calls() {
			if cl.Callee == nil && cl.Name != "append" && cl.Name != "copy" && cl.Name != "len" && cl.Name != "make" && cl.Name != "min" && cl.Name != "max" {
				for _, a := range cl.Expr.Args {
					if fieldOf(info, a) == "Slice.elements" {
						c.Violate(R, keyf("%s/passes-elements-to-callback", m.Key), cl.Pos(), "the internal backing array is passed to caller code")
					}
				}
			}
		}
	}
	c.Need(R, "append calls in Slice methods", nAppend, 4)
	// Slice.all returns a fresh copy: make + copy
	if all := c.Fn(R, "types.(*Slice).all"); all != nil {
		mk, cp := false, false
		for _, cl := range all.Calls() {
			if cl.Name == "make" && cl.Callee == nil {
				mk = true
			}
			if cl.Name == "copy" && cl.Callee == nil && fieldOf(all.Info(), cl.Arg(1)) == "Slice.elements" {
				cp = true
			}
		}
		c.Check(R, "types.(*Slice).all/fresh-copy", all.Pos(), mk && cp, "all() = make + copy(result, elements)")
	}
	// Set and ParameterBag: never return or store the guarded field itself
	for _, sp := range []struct{ pkg, typ, field string }{{"types", "Set", "cache"}, {"utils", "ParameterBag", "parameters"}} {
		for _, m := range methodsOf(c, sp.pkg, sp.typ) {
			info := m.Info()
			for _, r := range returnsIn(m) {
				for _, res := range r.Stmt.Results {
					if fieldOf(info, res) == sp.typ+"."+sp.field {
						c.Violate(R, keyf("%s/returns-%s", m.Key, sp.field), r.Stmt.Pos(), "the guarded map is handed to the caller")
					}
				}
			}
		}
	}
	// ParameterBag: []string values crossing the boundary are copied
	for _, name := range []string{"All", "Gets", "With"} {
		m := c.Fn(R, "utils.(*ParameterBag)."+name)
		if m == nil {
			continue
		}
		info := m.Info()
		isStrSlice := func(e ast.Expr) bool {
			t := info.TypeOf(e)
			if t == nil {
				return false
			}
			s, ok := t.Underlying().(*types.Slice)
			if !ok {
				return false
			}
			b, ok := s.Elem().Underlying().(*types.Basic)
			return ok && b.Kind() == types.String
		}
		isCopy := func(e ast.Expr) bool {
			ce, ok := ast.Unparen(e).(*ast.CallExpr)
			if !ok || len(ce.Args) < 1 {
				return false
			}
			id, ok := ce.Fun.(*ast.Ident)
			if !ok || id.Name != "append" {
				return false
			}
			first := stripConv(info, ce.Args[0])
			if core.IsNil(info, first) {
				return true
			}
			if cl, ok := first.(*ast.CompositeLit); ok && len(cl.Elts) == 0 {
				return true
			}
			return false
		}
		// values flowing out: returned []string, or stored into a map index
		check := func(e ast.Expr, pos token.Pos, what string) {
			if !isStrSlice(e) {
				return
			}
			e0 := ast.Unparen(e)
			if _, isLit := e0.(*ast.CompositeLit); isLit {
				return
			}
			if ix, ok := e0.(*ast.IndexExpr); ok { // _default[0]: the caller's own value
				if id := baseIdent(ix.X); id != nil {
					if _, isP := m.IsParam(id); isP {
						return
					}
				}
			}
			c.Check(R, keyf("%s/%s", m.Key, what), pos, isCopy(e), keyf("%s must be a copy (append([]string(nil), v...)): %s", what, core.ExprString(e)))
		}
		for _, r := range returnsIn(m) {
			for _, res := range r.Stmt.Results {
				check(res, r.Stmt.Pos(), "returned-values")
			}
		}
		for _, a := range assignsIn(m, func(l ast.Expr) bool { _, ok := ast.Unparen(l).(*ast.IndexExpr); return ok }) {
			if a.Rhs != nil {
				check(a.Rhs, a.Stmt.Pos(), "stored-values")
			}
		}
	}
}

// C20.3 — indices and counts are bounded on both sides before use.
func c20Bounds(c *core.Ctx) {
	const R = "C20.3"
	c.Rule(R, "in types.Slice every index expression, slice bound and make length that depends on an integer parameter is dominated by tests (or min/max clamps) bounding the parameter below by 0 and above by len(elements) (directly or through an ordered pair such as start <= end <= len); the failing edge returns an Err… value")
	n := 0
	for _, m := range methodsOf(c, "types", "Slice") {
		info := m.Info()
		g := m.Graph()
		intParam := func(e ast.Expr) *types.Var {
			id, ok := ast.Unparen(e).(*ast.Ident)
			if !ok {
				return nil
			}
			v, isP := m.IsParam(id)
			if !isP {
				return nil
			}
			if b, ok := v.Type().Underlying().(*types.Basic); ok && b.Info()&types.IsInteger != 0 {
				return v
			}
			return nil
		}
		isLen := func(e ast.Expr) bool {
			terms, _ := linear(info, e)
			for _, t := range terms {
				te := ast.Unparen(t.E)
				// `size := len(s.elements)` names the length as long as the elements are not replaced between
				// the definition and this use
				if _, isID := te.(*ast.Ident); isID {
					if d, k := m.SingleDef(te); k {
						if dc, isC := ast.Unparen(d).(*ast.CallExpr); isC {
							stale := false
							for _, a := range fieldAssigns(m, "Slice.elements") {
								if g.CanFollow(a.Loc, g.LocOf(te)) {
									stale = true
								}
							}
							if !stale {
								te = dc
							}
						}
					}
				}
				ce, ok := te.(*ast.CallExpr)
				if ok && len(ce.Args) == 1 {
					if id, ok := ce.Fun.(*ast.Ident); ok && id.Name == "len" && fieldOf(info, ce.Args[0]) == "Slice.elements" && t.Sign > 0 {
						return true
					}
				}
			}
			return false
		}
		// clamp assignments p = min(...)/max(...) dominating loc
		clamped := func(v *types.Var, loc core.Loc) (lower, upper bool) {
			for _, a := range assignsIn(m, func(l ast.Expr) bool { return core.ObjOf(info, l) == types.Object(v) }) {
				if a.Rhs == nil || !g.Dominates(a.Loc, loc) {
					continue
				}
				var walk func(e ast.Expr)
				walk = func(e ast.Expr) {
					ce, ok := ast.Unparen(e).(*ast.CallExpr)
					if !ok {
						return
					}
					id, ok := ce.Fun.(*ast.Ident)
					if !ok {
						return
					}
					if _, isB := info.Uses[id].(*types.Builtin); !isB {
						return
					}
					for _, arg := range ce.Args {
						switch id.Name {
						case "max":
							if k, ok := core.ConstInt(info, arg); ok && k >= 0 {
								lower = true
							}
						case "min":
							if isLen(arg) {
								upper = true
							}
						}
						walk(arg)
					}
				}
				walk(a.Rhs)
			}
			return
		}
		var lowerOK, upperOK func(v *types.Var, loc core.Loc, depth int) bool
		lowerOK = func(v *types.Var, loc core.Loc, depth int) bool {
			if lo, _ := clamped(v, loc); lo {
				return true
			}
			for _, f := range g.Facts() {
				cmp, ok := m.BranchCmp(f.Br)
				if !ok || !g.EdgeDominates(f.Br.B, f.Edge, loc) {
					continue
				}
				x := intParam(cmp.X)
				if x == v {
					if K, ge, ok := cmpThreshold(cmp); ok && K >= 0 {
						// fact: (x >= K) is Val on ge-edge...
						holdsGE := (ge == 0) == f.Val
						if holdsGE {
							return true
						}
					}
					// v >= w with w lower-bounded: `v < w` false or `w > v` false
					if w := intParam(cmp.Y); w != nil && depth < 2 {
						geW := (cmp.Op == token.LSS && !f.Val) || (cmp.Op == token.GEQ && f.Val)
						if geW && lowerOK(w, loc, depth+1) {
							return true
						}
					}
				}
				if y := intParam(cmp.Y); y == v && cmp.Val == nil && depth < 2 {
					if w := intParam(cmp.X); w != nil {
						// w > v false ⇒ v >= w ; w <= v true ⇒ v >= w
						geW := (cmp.Op == token.GTR && !f.Val) || (cmp.Op == token.LEQ && f.Val)
						if geW && lowerOK(w, loc, depth+1) {
							return true
						}
					}
				}
			}
			return false
		}
		upperOK = func(v *types.Var, loc core.Loc, depth int) bool {
			if _, up := clamped(v, loc); up {
				return true
			}
			for _, f := range g.Facts() {
				cmp, ok := m.BranchCmp(f.Br)
				if !ok || cmp.Y == nil || !g.EdgeDominates(f.Br.B, f.Edge, loc) {
					continue
				}
				if intParam(cmp.X) == v {
					// v >= len / v > len false
					if isLen(cmp.Y) && ((cmp.Op == token.GEQ || cmp.Op == token.GTR) && !f.Val || (cmp.Op == token.LSS || cmp.Op == token.LEQ) && f.Val) {
						return true
					}
					// v > w false with w upper-bounded
					if w := intParam(cmp.Y); w != nil && depth < 2 {
						leW := ((cmp.Op == token.GTR || cmp.Op == token.GEQ) && !f.Val) || ((cmp.Op == token.LEQ || cmp.Op == token.LSS) && f.Val)
						if leW && upperOK(w, loc, depth+1) {
							return true
						}
					}
				}
			}
			return false
		}
		checkExpr := func(e ast.Expr, what string, needUpper bool) {
			if e == nil {
				return
			}
			terms, _ := linear(info, e)
			for _, t := range terms {
				v := intParam(t.E)
				if v == nil {
					continue
				}
				n++
				loc := g.LocOf(e)
				lo := lowerOK(v, loc, 0)
				up := !needUpper || upperOK(v, loc, 0)
				// a subtracted parameter needs the ordered-pair fact handled by its partner; only require its own bounds
				c.Check(R, keyf("%s/%s(%s)", m.Key, what, v.Name()), e.Pos(), lo && up,
					keyf("parameter %s in %s: bounded below=%v, bounded above=%v", v.Name(), core.ExprString(e), lo, up))
			}
		}
		ast.Inspect(m.Body, func(nd ast.Node) bool {
			switch x := nd.(type) {
			case *ast.FuncLit:
				return false
			case *ast.IndexExpr:
				if fieldOf(info, x.X) == "Slice.elements" {
					checkExpr(x.Index, "index", true)
				}
			case *ast.SliceExpr:
				if fieldOf(info, x.X) == "Slice.elements" {
					checkExpr(x.Low, "slice-low", true)
					checkExpr(x.High, "slice-high", true)
				}
			case *ast.CallExpr:
				if id, ok := x.Fun.(*ast.Ident); ok && id.Name == "make" && len(x.Args) >= 2 {
					if _, isB := info.Uses[id].(*types.Builtin); isB {
						// make([]T, end-start): a difference needs the ordered pair; a single parameter needs >= 0
						terms, _ := linear(info, x.Args[1])
						if len(terms) == 2 && terms[0].Sign == 1 && terms[1].Sign == -1 {
							a, b := intParam(terms[0].E), intParam(terms[1].E)
							if a != nil && b != nil {
								n++
								loc := g.LocOf(x)
								ordered := false
								for _, f := range g.Facts() {
									cmp, ok := m.BranchCmp(f.Br)
									if !ok || !g.EdgeDominates(f.Br.B, f.Edge, loc) {
										continue
									}
									if intParam(cmp.X) == b && intParam(cmp.Y) == a && ((cmp.Op == token.GTR && !f.Val) || (cmp.Op == token.LEQ && f.Val)) {
										ordered = true
									}
									if intParam(cmp.X) == a && intParam(cmp.Y) == b && ((cmp.Op == token.LSS && !f.Val) || (cmp.Op == token.GEQ && f.Val)) {
										ordered = true
									}
								}
								c.Check(R, keyf("%s/make-len(%s-%s)", m.Key, a.Name(), b.Name()), x.Pos(), ordered, keyf("%s <= %s established before make", b.Name(), a.Name()))
								return true
							}
						}
						checkExpr(x.Args[1], "make-len", false)
					}
				}
			}
			return true
		})
	}
	c.Need(R, "parameter-dependent index/slice/make sites in types.Slice", n, 8)
}

// C20.4 — emitter nil-safety and once-ness.
func c20Emitter(c *core.Ctx) {
	const R = "C20.4"
	c.Rule(R, "no nil *eventEntry can enter a listener slice (AddListener/Once build it by append of non-nil entries, or fill every element), Emit iterates a snapshot (Slice.All) and calls each entry once, oneTimeListener.execute runs the user function only inside fired.Do and removes itself, RemoveListener returns false on nil first and removes exactly one entry (deleteCount 1) at the first pointer match")
	for _, name := range []string{"AddListener", "Once"} {
		m := c.Fn(R, "types.(*emmiter)."+name)
		if m == nil {
			continue
		}
		info := m.Info()
		g := m.Graph()
		for _, cl := range m.CallsTo("types.(*emmiter).addListeners") {
			arg := cl.Arg(1)
			v, _ := core.ObjOf(info, arg).(*types.Var)
			ok := false
			detail := "unrecognised construction of the entries slice"
			if v != nil {
				defs := m.DefsOf(v)
				// first definition decides the construction
				var mk *ast.CallExpr
				allAppend := true
				for _, d := range defs {
					ce, isCall := ast.Unparen(d).(*ast.CallExpr)
					if !isCall {
						allAppend = false
						continue
					}
					id, _ := ce.Fun.(*ast.Ident)
					switch {
					case id != nil && id.Name == "make":
						mk = ce
					case id != nil && id.Name == "append":
						// appended values must be non-nil: &composite literals
						for _, a := range ce.Args[1:] {
							ue, isU := ast.Unparen(a).(*ast.UnaryExpr)
							if !isU {
								// the entry built by a novel private helper (extract-function): it contains the
								// &eventEntry{…} literal and never returns nil
								if hc, isHC := ast.Unparen(a).(*ast.CallExpr); isHC {
									if f, _ := typeutil.Callee(info, hc).(*types.Func); f != nil && c.P.IsTransparent(f) {
										if h := c.P.UnitOf(f); h != nil {
											lits, nils := 0, 0
											ast.Inspect(h.Body, func(nd ast.Node) bool {
												if lit, isL := nd.(*ast.CompositeLit); isL && core.TypeName(h.Info().TypeOf(lit)) == "eventEntry" {
													lits++
												}
												if rs, isR := nd.(*ast.ReturnStmt); isR {
													for _, r := range rs.Results {
														if core.IsNil(h.Info(), r) {
															nils++
														}
													}
												}
												return true
											})
											if lits >= 1 && nils == 0 {
												continue
											}
										}
									}
								}
								// a field that holds the freshly allocated entry: `x.entry = &eventEntry{…}; append(…, x.entry)`
								if fld := fieldOf(info, a); fld != "" {
									fresh := false
									for _, as := range fieldAssigns(m, fld) {
										if u2, ok2 := ast.Unparen(as.Rhs).(*ast.UnaryExpr); ok2 && u2.Op == token.AND {
											if _, isLit := u2.X.(*ast.CompositeLit); isLit && g.Dominates(as.Loc, g.LocOf(a)) {
												fresh = true
											}
										}
									}
									if fresh {
										continue
									}
								}
								allAppend = false
							} else if ue.Op != token.AND {
								allAppend = false
							} else if _, isLit := ue.X.(*ast.CompositeLit); !isLit {
								allAppend = false
							}
						}
					default:
						allAppend = false
					}
				}
				if mk != nil {
					zeroLen := false
					if len(mk.Args) >= 2 {
						if k, isC := core.ConstInt(info, mk.Args[1]); isC && k == 0 {
							zeroLen = true
						}
					}
					if zeroLen {
						ok = allAppend
						detail = keyf("make(len 0) + append of &eventEntry literals only: %v", allAppend)
					} else {
						// every loop iteration must store the element: the store dominates the back edge
						stores := assignsIn(m, func(l ast.Expr) bool {
							ix, isIx := ast.Unparen(l).(*ast.IndexExpr)
							return isIx && core.ObjOf(info, ix.X) == types.Object(v)
						})
						filled := len(stores) > 0
						for _, st := range stores {
							// is there a path from the loop body entry back to the loop head avoiding the store?
							for _, b := range g.Blocks {
								if b.Kind == cfgKindRangeBody {
									if g.Reach(core.State{B: b, I: 0}, func(s core.State) bool {
										return s.B.Kind == cfgKindRangeLoop && s.I == 0
									}, func(s core.State) bool { return s.B == st.Loc.B && s.I == st.Loc.I }, nil) {
										filled = false
									}
								}
							}
						}
						ok = filled
						detail = keyf("make(len n): every iteration stores its element: %v (a skipped iteration leaves a nil entry)", filled)
					}
				}
			}
			c.Check(R, keyf("%s/no-nil-entries", m.Key), cl.Pos(), ok, detail)
		}
	}
	// Emit: snapshot iteration, one call per entry
	if em := c.Fn(R, "types.(*emmiter).Emit"); em != nil {
		snap := false
		ncalls := 0
		ast.Inspect(em.Body, func(n ast.Node) bool {
			if rs, ok := n.(*ast.RangeStmt); ok {
				if _, key := em.AsCall(rs.X); key == "types.(*Slice).All" {
					snap = true
					ast.Inspect(rs.Body, func(x ast.Node) bool {
						if _, isLoop := x.(*ast.ForStmt); isLoop {
							ncalls += 10
						}
						if ce, isCall := x.(*ast.CallExpr); isCall {
							if fieldOf(em.Info(), ce.Fun) == "eventEntry.fn" {
								ncalls++
							}
						}
						return true
					})
				}
			}
			return true
		})
		c.Check(R, "types.(*emmiter).Emit/snapshot-once-each", em.Pos(), snap && ncalls == 1, keyf("ranges over Slice.All()=%v, listener calls per iteration=%d", snap, ncalls))
	}
	// each Once registration has its own guard: the sync.Once of a one-time listener is allocated inside the per-listener loop
	if on := c.Fn(R, "types.(*emmiter).Once"); on != nil {
		info := on.Info()
		var loop *ast.RangeStmt
		ast.Inspect(on.Body, func(x ast.Node) bool {
			if r, ok := x.(*ast.RangeStmt); ok && loop == nil {
				loop = r
			}
			return true
		})
		nLit, okAll := 0, true
		for _, hu := range on.WithHelpers() {
			// where the construct runs in Once: its own position, or the position of the call of the helper it moved into
			at := func(p token.Pos) token.Pos { return p }
			if hu != on {
				var site token.Pos
				for _, cl := range on.Calls() {
					if cl.Inlined == nil && cl.Callee != nil && c.P.UnitOf(cl.Callee) == hu {
						site = cl.Pos()
					}
				}
				at = func(token.Pos) token.Pos { return site }
			}
			ast.Inspect(hu.Body, func(x ast.Node) bool {
				lit, ok := x.(*ast.CompositeLit)
				if !ok || core.TypeName(info.TypeOf(lit)) != "oneTimeListener" {
					return true
				}
				nLit++
				// the guard is a value field of the per-listener object (atomic.Bool), or a pointer allocated in the loop
				fresh := true
				for _, el := range lit.Elts {
					kv, isKV := el.(*ast.KeyValueExpr)
					if !isKV {
						continue
					}
					if id, isI := kv.Key.(*ast.Ident); !isI || id.Name != "fired" {
						continue
					}
					fresh = false
					v := hu.Resolve(kv.Value)
					if ue, isU := ast.Unparen(v).(*ast.UnaryExpr); isU && ue.Op == token.AND {
						if cl, isC := ast.Unparen(ue.X).(*ast.CompositeLit); isC {
							fresh = loop != nil && loop.Body.Pos() <= at(cl.Pos()) && at(cl.Pos()) <= loop.Body.End()
						}
					}
				}
				okAll = okAll && fresh && loop != nil && loop.Body.Pos() <= at(lit.Pos()) && at(lit.Pos()) <= loop.Body.End()
				return true
			})
		}
		// the guard field itself is not a shared pointer handed in from outside the loop
		c.Check(R, "types.(*emmiter).Once/one-guard-per-listener", on.Pos(), nLit == 1 && okAll, "every listener of a Once call gets its own one-time guard, allocated in the per-listener loop (a shared guard lets only the first of them ever run)")
	}
	// oneTimeListener.execute: the single run is claimed by a won CompareAndSwap(false, true) of the listener's own
	// guard (no lock is held while the user function runs, so it may emit the same event again: fix 6cb4751), the
	// listener's OWN registration is dropped (entry identity, not the first registration of the same function), and
	// only then is the user function called — once
	if ex := c.Fn(R, "types.(*oneTimeListener).execute"); ex != nil {
		g := ex.Graph()
		won := func(u *core.Unit, br core.Branch) int {
			if br.IsCase {
				return 0
			}
			ce, key := u.AsCall(br.Cond)
			if ce == nil || !strings.HasSuffix(key, ".CompareAndSwap") || len(ce.Args) != 2 {
				return 0
			}
			se, ok := ce.Fun.(*ast.SelectorExpr)
			if !ok || fieldOf(u.Info(), se.X) != "oneTimeListener.fired" {
				return 0
			}
			o, ok1 := core.ConstBool(u.Info(), ce.Args[0])
			n, ok2 := core.ConstBool(u.Info(), ce.Args[1])
			if ok1 && ok2 && !o && n {
				return 1
			}
			return 0
		}
		fnCalls := 0
		var fnCall *core.Call
		for _, cl := range ex.Calls() {
			if fieldOf(ex.Info(), cl.Expr.Fun) == "oneTimeListener.fn" {
				fnCalls++
				fnCall = cl
			}
		}
		okClaim := fnCall != nil && fnCalls == 1 && g.GuardedBy(fnCall.Loc, won) && !g.CanFollow(fnCall.Loc, fnCall.Loc)
		removedSelf := false
		for _, cl := range ex.Calls() {
			if cl.Name != "RangeAndSplice" {
				continue
			}
			if k := closureArg(ex, cl, 0); k != nil {
				c.Touch(k)
				for _, r := range returnsIn(k) {
					if len(r.Stmt.Results) == 4 {
						if be, isB := ast.Unparen(r.Stmt.Results[0]).(*ast.BinaryExpr); isB && be.Op == token.EQL {
							if fieldOf(k.Info(), be.X) == "oneTimeListener.entry" || fieldOf(k.Info(), be.Y) == "oneTimeListener.entry" {
								cnt, isC := core.ConstInt(k.Info(), r.Stmt.Results[2])
								removedSelf = isC && cnt == 1 && fnCall != nil && g.CanFollow(cl.Loc, fnCall.Loc) && !g.CanFollow(fnCall.Loc, cl.Loc)
							}
						}
					}
				}
			}
		}
		c.Check(R, "types.(*oneTimeListener).execute/claimed-once,own-entry-removed,then-called", ex.Pos(), okClaim && removedSelf,
			keyf("user function called once on the won CompareAndSwap edge: %v; own registration removed by identity before the call: %v", okClaim, removedSelf))
	}
	// RemoveListener
	if rm := c.Fn(R, "types.(*emmiter).RemoveListener"); rm != nil {
		info := rm.Info()
		g := rm.Graph()
		pn := paramName(rm, 1)
		nilFirst := false
		calls := rm.Calls()
		for _, r := range returnsIn(rm) {
			if g.GuardedBy(r.Loc, nilGuard(false, func(u *core.Unit, x ast.Expr) bool { return isLocal(info, x, pn) })) {
				nilFirst = true
				for _, cl := range calls {
					if cl.Callee != nil && g.Dominates(cl.Loc, r.Loc) {
						nilFirst = false
					}
				}
			}
		}
		c.Check(R, "types.(*emmiter).RemoveListener/nil-first", rm.Pos(), nilFirst, "RemoveListener(nil) returns before touching the registry")
		one := false
		for _, cl := range rm.CallsTo("types.(*Slice).RangeAndSplice") {
			k := closureArg(rm, cl, 0)
			if k == nil {
				continue
			}
			for _, r := range returnsIn(k) {
				if len(r.Stmt.Results) == 4 {
					cnt, isC := core.ConstInt(k.Info(), r.Stmt.Results[2])
					idx := isLocal(k.Info(), r.Stmt.Results[1], paramName(k, 1))
					one = isC && cnt == 1 && idx && core.IsNil(k.Info(), r.Stmt.Results[3])
				}
			}
		}
		c.Check(R, "types.(*emmiter).RemoveListener/removes-one", rm.Pos(), one, "the splice callback asks for (match, i, 1, nil): exactly one registration removed at the matching index")
	}
	// consumers that dereference entries: with producers safe this is informational; if a consumer nil-checks it is also fine
}

// C04.5 / C20.5 — id helpers.
func c20Ids(c *core.Ctx, R string) {
	c.Rule(R, "base64Id.GenerateId returns base64.RawURLEncoding/URLEncoding of the whole buffer into which all 64 bits of sequenceNumber.Add(1) (an atomic counter) are stored big-endian at an offset that fits; Yeast.Yeast reads the clock, compares with prev, resets and bumps the seed as one critical section")
	if g := c.Fn(R, "utils.(*base64Id).GenerateId"); g != nil {
		info := g.Info()
		var buf *types.Var
		var bufLen int64
		for _, a := range assignsIn(g, func(l ast.Expr) bool { _, ok := l.(*ast.Ident); return ok }) {
			if ce, ok := ast.Unparen(a.Rhs).(*ast.CallExpr); ok {
				if id, ok := ce.Fun.(*ast.Ident); ok && id.Name == "make" && len(ce.Args) == 2 {
					if k, ok := core.ConstInt(info, ce.Args[1]); ok {
						buf, _ = core.ObjOf(info, a.Lhs).(*types.Var)
						bufLen = k
					}
				}
			}
		}
		putOK, encOK := false, false
		for _, cl := range g.Calls() {
			switch cl.Key {
			case "encoding/binary.(bigEndian).PutUint64", "encoding/binary.(littleEndian).PutUint64":
				if se, ok := ast.Unparen(cl.Arg(0)).(*ast.SliceExpr); ok && buf != nil && core.ObjOf(info, se.X) == types.Object(buf) && se.High == nil {
					off, _ := core.ConstInt(info, se.Low)
					// value derives from sequenceNumber.Add(…)
					fromSeq := false
					ast.Inspect(g.Deep(cl.Arg(1)), func(n ast.Node) bool { // through a local such as `seq := b.sequenceNumber.Add(1) - 1`
						if ce, ok := n.(*ast.CallExpr); ok {
							if se2, ok := ce.Fun.(*ast.SelectorExpr); ok && se2.Sel.Name == "Add" && fieldOf(info, se2.X) == "base64Id.sequenceNumber" {
								if k, ok := core.ConstInt(info, ce.Args[0]); ok && k == 1 {
									fromSeq = true
								}
							}
						}
						return true
					})
					putOK = fromSeq && off+8 <= bufLen && off >= 0
				}
			case "encoding/base64.(*Encoding).EncodeToString":
				v, _ := core.ObjOf(info, cl.Recv).(*types.Var)
				if v != nil && (v.Name() == "RawURLEncoding" || v.Name() == "URLEncoding") && buf != nil && core.ObjOf(info, cl.Arg(0)) == types.Object(buf) {
					encOK = true
				}
			}
		}
		// the counter is an atomic
		atomicSeq := false
		if st := c.P.Pkgs["utils"].Types.Scope().Lookup("base64Id"); st != nil {
			if s, ok := st.Type().Underlying().(*types.Struct); ok {
				for i := 0; i < s.NumFields(); i++ {
					if s.Field(i).Name() == "sequenceNumber" && strings.HasPrefix(s.Field(i).Type().String(), "sync/atomic.Uint64") {
						atomicSeq = true
					}
				}
			}
		}
		c.Check(R, "utils.(*base64Id).GenerateId/sequence-embedded", g.Pos(), putOK && atomicSeq, keyf("all 64 bits of the atomic sequence stored inside the %d-byte buffer: %v (atomic=%v)", bufLen, putOK, atomicSeq))
		c.Check(R, "utils.(*base64Id).GenerateId/url-safe-whole-buffer", g.Pos(), encOK, "result is base64 URL encoding of the whole buffer")
	}
	if y := c.Fn(R, "utils.(*Yeast).Yeast"); y != nil {
		info := y.Info()
		g := y.Graph()
		n := 0
		ok := true
		var lock string
		for _, cl := range y.Calls() {
			shared := cl.Recv != nil && (fieldOf(info, cl.Recv) == "Yeast.seed" || fieldOf(info, cl.Recv) == "Yeast.prev")
			clock := cl.Key == "time.Now"
			if !shared && !clock {
				continue
			}
			n++
			held := g.HeldAt(cl.Loc)
			mine := ""
			for k := range held {
				if strings.HasPrefix(k, "Yeast.") && !strings.HasSuffix(k, "#R") {
					mine = k
				}
			}
			if mine == "" || (lock != "" && lock != mine) {
				ok = false
			}
			if lock == "" {
				lock = mine
			}
		}
		c.Check(R, "utils.(*Yeast).Yeast/one-critical-section", y.Pos(), ok && n >= 4, keyf("%d accesses of clock/prev/seed, all under one mutex (%q): %v", n, lock, ok))
		c20YeastShape(c, y)
	}
}

// c20YeastShape — C20.5b: structure of the yeast id that makes two ids differ.
func c20YeastShape(c *core.Ctx, y *core.Unit) {
	const R = "C20.5b"
	c.Rule(R, "yeast ids differ because (a) the alphabet has 64 distinct one-character digits, none of them the separator '.', and Encode is positional base-len(alphabet): it adds the digit alphabet[num%length] at one end and divides by the same length while num > 0; (b) Yeast returns the bare timestamp only on the now != prev edge, after remembering it (prev.Store(now)), and otherwise timestamp + \".\" + Encode(seed.Add(1)-1) — a fresh counter value per call")
	info := y.Info()
	g := y.Graph()
	// (a) alphabet and Encode
	pk := c.P.Pkgs["utils"]
	var alpha *ast.CompositeLit
	var alphaLen int64
	for _, f := range pk.Syntax {
		ast.Inspect(f, func(n ast.Node) bool {
			vs, ok := n.(*ast.ValueSpec)
			if !ok {
				return true
			}
			for i, nm := range vs.Names {
				if nm.Name == "alphabet" && i < len(vs.Values) {
					if cl, isC := vs.Values[i].(*ast.CompositeLit); isC {
						alpha = cl
					}
				}
			}
			return true
		})
	}
	distinct := alpha != nil
	if alpha != nil {
		seen := map[string]bool{}
		for _, el := range alpha.Elts {
			v, isS := core.ConstString(pk.TypesInfo, el)
			if !isS || len(v) != 1 || v == "." || seen[v] {
				distinct = false
			}
			seen[v] = true
		}
		alphaLen = int64(len(alpha.Elts))
		if at, isArr := pk.TypesInfo.TypeOf(alpha).(*types.Array); isArr && at.Len() != alphaLen {
			distinct = false
		}
	}
	length, _ := pkgConstInt(c, "utils", "length")
	c.Check(R, "utils.alphabet/distinct-single-digits", y.Pos(), distinct && alphaLen == length && length >= 2, keyf("%d digits, all distinct, one character, none is '.', length constant = %d", alphaLen, length))
	if enc := c.Fn(R, "utils.(*Yeast).Encode"); enc != nil {
		einfo := enc.Info()
		num := paramName(enc, 0)
		var loop *ast.ForStmt
		ast.Inspect(enc.Body, func(n ast.Node) bool {
			if fs, ok := n.(*ast.ForStmt); ok && loop == nil {
				loop = fs
			}
			return true
		})
		condOK, digitOK, divOK := false, false, false
		if loop != nil && loop.Cond != nil {
			if cmp, ok := enc.BranchCmp(core.Branch{Cond: loop.Cond}); ok && isLocal(einfo, cmp.X, num) {
				if k, ge, isT := cmpThreshold(cmp); isT && k == 1 && ge == 0 {
					condOK = true
				}
			}
			isLen := func(e ast.Expr) bool {
				k, isK := core.ConstInt(einfo, e)
				return isK && k == length
			}
			for _, st := range loop.Body.List {
				as, isA := st.(*ast.AssignStmt)
				if !isA || len(as.Lhs) != 1 || len(as.Rhs) != 1 {
					continue
				}
				// encoded = alphabet[num%length] + encoded
				if be, isB := ast.Unparen(as.Rhs[0]).(*ast.BinaryExpr); isB && be.Op == token.ADD && as.Tok == token.ASSIGN && (sameObj(einfo, be.Y, as.Lhs[0]) || sameObj(einfo, be.X, as.Lhs[0])) {
					digit := be.X
					if sameObj(einfo, be.X, as.Lhs[0]) {
						digit = be.Y // appended instead of prepended: reversed digit order, equally injective
					}
					if ix, isIx := ast.Unparen(digit).(*ast.IndexExpr); isIx {
						if id, isId := ix.X.(*ast.Ident); isId && id.Name == "alphabet" {
							if m, isM := ast.Unparen(ix.Index).(*ast.BinaryExpr); isM && m.Op == token.REM && isLocal(einfo, m.X, num) && isLen(m.Y) {
								digitOK = true
							}
						}
					}
				}
				// num /= length  |  num = num / length
				if isLocal(einfo, as.Lhs[0], num) {
					if as.Tok == token.QUO_ASSIGN && isLen(as.Rhs[0]) {
						divOK = true
					}
					if be, isB := ast.Unparen(as.Rhs[0]).(*ast.BinaryExpr); isB && as.Tok == token.ASSIGN && be.Op == token.QUO && isLocal(einfo, be.X, num) && isLen(be.Y) {
						divOK = true
					}
				}
			}
		}
		c.Check(R, "utils.(*Yeast).Encode/positional-base-64", enc.Pos(), condOK && digitOK && divOK, keyf("while num > 0: %v; prepends alphabet[num%%length]: %v; num /= length: %v", condOK, digitOK, divOK))
	}
	// (b) return forms
	var nowObj ast.Expr
	for _, a := range assignsIn(y, func(l ast.Expr) bool { return isLocal(info, l, "now") }) {
		if ce, isC := ast.Unparen(a.Rhs).(*ast.CallExpr); isC && calleeNameOf(ce) == "Encode" && len(ce.Args) == 1 {
			if chain := calleeChain(y, ce.Args[0]); len(chain) >= 2 && chain[0] == "time.Now" {
				nowObj = a.Lhs
			}
		}
	}
	neq := func(x *core.Unit, br core.Branch) int {
		cmp, ok := x.BranchCmp(br)
		if !ok || nowObj == nil {
			return 0
		}
		if (sameObj(info, cmp.X, nowObj) || sameObj(info, cmp.Y, nowObj)) && !core.IsNil(info, cmp.X) && !core.IsNil(info, cmp.Y) {
			switch cmp.Op {
			case token.NEQ:
				return 1
			case token.EQL:
				return -1
			}
		}
		return 0
	}
	eq := func(x *core.Unit, br core.Branch) int { return -neq(x, br) }
	bareOK, seqOK, nb, ns := true, true, 0, 0
	var storePrev *core.Call
	for _, cl := range y.Calls() {
		if cl.Name == "Store" && cl.Recv != nil && fieldOf(info, cl.Recv) == "Yeast.prev" && nowObj != nil && sameObj(info, cl.Arg(0), nowObj) {
			storePrev = cl
		}
	}
	for _, r := range returnsIn(y) {
		if len(r.Stmt.Results) != 1 {
			continue
		}
		e := ast.Unparen(r.Stmt.Results[0])
		if nowObj != nil && sameObj(info, e, nowObj) {
			nb++
			bareOK = bareOK && g.GuardedBy(r.Loc, neq) && storePrev != nil && g.Dominates(storePrev.Loc, r.Loc)
			continue
		}
		ns++
		// now + "." + Encode(seed.Add(1) - 1)
		okForm := false
		if be, isB := e.(*ast.BinaryExpr); isB && be.Op == token.ADD {
			if in, isIn := ast.Unparen(be.X).(*ast.BinaryExpr); isIn && in.Op == token.ADD && nowObj != nil && sameObj(info, in.X, nowObj) {
				if sep, isS := core.ConstString(info, in.Y); isS && sep == "." {
					if ce, isC := ast.Unparen(be.Y).(*ast.CallExpr); isC && calleeNameOf(ce) == "Encode" && len(ce.Args) == 1 {
						fresh := false
						ast.Inspect(ce.Args[0], func(n ast.Node) bool {
							if c2, isC2 := n.(*ast.CallExpr); isC2 {
								if se, isSe := c2.Fun.(*ast.SelectorExpr); isSe && se.Sel.Name == "Add" && fieldOf(info, se.X) == "Yeast.seed" && len(c2.Args) == 1 {
									if k, isK := core.ConstInt(info, c2.Args[0]); isK && k >= 1 {
										fresh = true
									}
								}
							}
							return true
						})
						okForm = fresh
					}
				}
			}
		}
		seqOK = seqOK && okForm && !g.GuardedBy(r.Loc, neq)
		_ = eq
	}
	c.Check(R, "utils.(*Yeast).Yeast/return-forms", y.Pos(), nowObj != nil && nb == 1 && ns == 1 && bareOK && seqOK,
		keyf("bare timestamp only on now != prev after prev.Store(now): %v (%d); otherwise now + \".\" + Encode(seed.Add(k)…) with a fresh counter value: %v (%d)", bareOK, nb, seqOK, ns))
}

// c20Snapshot — C18.2b / C01.8b: the value AllAndClear hands out is a fresh copy.
func c20Snapshot(c *core.Ctx, R string) {
	c.Rule(R, "the batch taken from a buffer is a snapshot: Slice.AllAndClear returns the result of all() (make + copy) — never the live backing array, which clear() keeps (elements[:0]) and later Push calls overwrite while the batch is still in flight")
	u := c.Fn(R, "types.(*Slice).AllAndClear")
	if u == nil {
		return
	}
	ok := false
	for _, r := range returnsIn(u) {
		if len(r.Stmt.Results) == 1 {
			_, key := u.AsCall(r.Stmt.Results[0])
			ok = key == "types.(*Slice).all"
		}
	}
	c.Check(R, "types.(*Slice).AllAndClear/returns-fresh-copy", u.Pos(), ok, "the returned slice is all()'s copy")
	if all := c.Fn(R, "types.(*Slice).all"); all != nil {
		mk, cp, ret := false, false, false
		var res types.Object
		for _, a := range assignsIn(all, func(l ast.Expr) bool { _, isId := l.(*ast.Ident); return isId }) {
			if ce, isC := ast.Unparen(a.Rhs).(*ast.CallExpr); isC && calleeNameOf(ce) == "make" && len(ce.Args) >= 2 {
				if le, isL := ast.Unparen(ce.Args[1]).(*ast.CallExpr); isL && calleeNameOf(le) == "len" && fieldOf(all.Info(), le.Args[0]) == "Slice.elements" {
					mk = true
					res = core.ObjOf(all.Info(), a.Lhs)
				}
			}
		}
		for _, cl := range all.Calls() {
			if cl.Name == "copy" && cl.Callee == nil && res != nil && core.ObjOf(all.Info(), cl.Arg(0)) == res && fieldOf(all.Info(), cl.Arg(1)) == "Slice.elements" {
				cp = true
			}
		}
		for _, r := range returnsIn(all) {
			if len(r.Stmt.Results) == 1 && res != nil && core.ObjOf(all.Info(), r.Stmt.Results[0]) == res {
				ret = true
			}
		}
		c.Check(R, "types.(*Slice).all/make(len)+copy+return", all.Pos(), mk && cp && ret, "a new array of the full length, filled from elements, is returned")
	}
}

// c20AliasUnderLock — C20.1d: a local that aliases the guarded storage is used only while the lock is held.
func c20AliasUnderLock(c *core.Ctx) {
	const R = "C20.1d"
	c.Rule(R, "alias discipline: a local variable defined from the guarded field of Slice / Set / ParameterBag (the slice or map header, or a re-slice of it) aliases the protected storage; every use of such a local happens with the container's lock held (copying the header under RLock and iterating after RUnlock reads elements that concurrent in-place writers are moving)")
	n := 0
	for _, sp := range []struct{ pkg, typ, field, lock string }{
		{"types", "Slice", "elements", "Slice.mu"}, {"types", "Set", "cache", "Set.mu"}, {"utils", "ParameterBag", "parameters", "ParameterBag.mu"},
	} {
		for _, m := range methodsOf(c, sp.pkg, sp.typ) {
			if !ast.IsExported(m.Decl.Name.Name) {
				continue
			}
			info := m.Info()
			g := m.Graph()
			aliases := map[types.Object]bool{}
			for _, a := range assignsIn(m, func(l ast.Expr) bool { _, ok := l.(*ast.Ident); return ok }) {
				e := ast.Unparen(a.Rhs)
				for {
					if se, isS := e.(*ast.SliceExpr); isS {
						e = ast.Unparen(se.X)
						continue
					}
					break
				}
				if a.Rhs != nil && fieldOf(info, e) == sp.typ+"."+sp.field {
					if o := core.ObjOf(info, a.Lhs); o != nil {
						aliases[o] = true
					}
				}
			}
			if len(aliases) == 0 {
				continue
			}
			ast.Inspect(m.Body, func(nd ast.Node) bool {
				if _, isLit := nd.(*ast.FuncLit); isLit {
					return false
				}
				id, isId := nd.(*ast.Ident)
				if !isId || info.Uses[id] == nil || !aliases[info.Uses[id]] {
					return true
				}
				n++
				held := g.HeldAt(g.LocOf(id))
				ok := held[sp.lock] || held[sp.lock+"#R"]
				c.Check(R, keyf("%s/use-of-alias(%s)", m.Key, id.Name), id.Pos(), ok, keyf("held=%v", keys(held)))
				return true
			})
		}
	}
	c.Note(keyf("C20.1d: %d uses of storage aliases checked", n))
}

// c20ReloadAgreement — C20.1e: lock-free retry loops of types.Map validate a reloaded pointer exactly like the first load.
func c20ReloadAgreement(c *core.Ctx) {
	const R = "C20.1e"
	c.Rule(R, "CAS retry loops of the Map entry (sync.Map port): for every e.p.CompareAndSwap whose expected value is a local loaded from e.p, each definition of that local that can reach the CAS (the first Load and the reload after a failed CAS) is followed, on every path to the CAS, by the same set of validation tests on it — one path checking what another skips is a contradiction (the swap would succeed against a value the caller did not name); the set always excludes the expunged marker")
	n := 0
	for _, u := range c.P.Units {
		if u.Pkg != c.P.Pkgs["types"] || !strings.HasSuffix(c.P.PosStr(u.Pos()), "") {
			continue
		}
		if !strings.Contains(c.P.PosStr(u.Pos()), "types/map.go") {
			continue
		}
		info := u.Info()
		g := u.Graph()
		isLoad := func(e ast.Expr) bool {
			ce, ok := ast.Unparen(e).(*ast.CallExpr)
			if !ok {
				return false
			}
			se, ok := ce.Fun.(*ast.SelectorExpr)
			return ok && se.Sel.Name == "Load" && fieldOf(info, se.X) == "entry.p"
		}
		for _, cl := range u.Calls() {
			if cl.Name != "CompareAndSwap" || cl.Recv == nil || fieldOf(info, cl.Recv) != "entry.p" {
				continue
			}
			obj := core.ObjOf(info, cl.Arg(0))
			if _, isVar := obj.(*types.Var); !isVar || obj.Parent() == nil || obj.Pkg() == nil || obj.Parent() == obj.Pkg().Scope() {
				continue
			}
			if _, isField := ast.Unparen(cl.Arg(0)).(*ast.SelectorExpr); isField {
				continue
			}
			var defs []core.Loc
			allLoads := true
			for _, d := range u.DefsOf(obj) {
				if d == nil || !isLoad(d) {
					allLoads = false
					continue
				}
				defs = append(defs, g.LocOf(d))
			}
			if !allLoads || len(defs) == 0 {
				continue
			}
			mentions := func(e ast.Expr) bool {
				found := false
				ast.Inspect(e, func(x ast.Node) bool {
					if id, ok := x.(*ast.Ident); ok && info.Uses[id] == obj {
						found = true
					}
					return true
				})
				return found
			}
			norm := func(e ast.Expr, val bool) string {
				e = ast.Unparen(e)
				if be, ok := e.(*ast.BinaryExpr); ok && (be.Op == token.EQL || be.Op == token.NEQ) {
					a, b := core.ExprString(be.X), core.ExprString(be.Y)
					if a > b {
						a, b = b, a
					}
					if be.Op == token.NEQ {
						val = !val
					}
					return keyf("%s == %s:%v", a, b, val)
				}
				return keyf("%s:%v", core.ExprString(e), val)
			}
			var sets []string
			var reach []core.Loc
			for i, d := range defs {
				var others []core.Loc
				for j, o := range defs {
					if j != i {
						others = append(others, o)
					}
				}
				blockedOthers := func(s core.State) bool {
					for _, o := range others {
						if s.B == o.B && s.I == o.I {
							return true
						}
					}
					return false
				}
				goal := func(s core.State) bool { return s.B == cl.Loc.B && s.I == cl.Loc.I }
				if !g.Reach(g.After(d), goal, blockedOthers, nil) {
					continue
				}
				reach = append(reach, d)
				var atoms []string
				for _, f := range g.Facts() {
					if f.Br.IsCase || !mentions(f.Br.Cond) {
						continue
					}
					fb, fe := f.Br.B, f.Edge
					if !g.Reach(g.After(d), goal, blockedOthers, func(from *cfg.Block, k int) bool { return !(from == fb && k == fe) }) {
						atoms = append(atoms, norm(f.Br.Cond, f.Val))
					}
				}
				sort.Strings(atoms)
				sets = append(sets, strings.Join(atoms, " ∧ "))
			}
			if len(reach) == 0 {
				continue
			}
			n++
			c.Touch(u)
			same := true
			for _, x := range sets {
				if x != sets[0] {
					same = false
				}
			}
			excl := strings.Contains(sets[0], "expunged == ") // a deleted-and-expunged entry is never revived by a pointer CAS (trySwap may legitimately fill a nil entry)
			c.Check(R, keyf("%s/CAS(%s)-validated-alike", u.Key, core.ExprString(cl.Arg(0))), cl.Pos(), same && excl,
				keyf("%d reaching load(s); validation per load: %v", len(reach), sets))
			// the conditional operations compare the current value with the caller's `old` before every CAS
			if u.Key == "types.(*entry).tryCompareAndSwap" || u.Key == "types.(*Map).CompareAndDelete" {
				old := ""
				for i := 0; i < 4; i++ {
					if nm := paramName(u, i); nm == "old" {
						old = nm
					}
				}
				cmpOld := old != ""
				for _, x := range sets {
					if !strings.Contains(x, "any(*"+core.ExprString(cl.Arg(0))+") == any("+old+"):true") {
						cmpOld = false
					}
				}
				c.Check(R, keyf("%s/CAS(%s)-only-when-current==old", u.Key, core.ExprString(cl.Arg(0))), cl.Pos(), cmpOld, "every load that reaches the CAS is compared with the caller's old value")
			}
		}
	}
	c.Need(R, "CAS sites on a loaded entry pointer", n, 4)
}

// c20MapRecheck — C20.1f: double-checked locking of types.Map. The optimistic
// test made on the lock-free snapshot is stale once m.mu has been waited for:
// another goroutine may have promoted the dirty map meanwhile (dirty == nil,
// every key now in read.m).
func c20MapRecheck(c *core.Ctx, R string) {
	c.Rule(R, "double-checked locking of types.Map: in every method that takes m.mu after an optimistic look at the read-only snapshot, the snapshot is re-loaded under the lock (read = m.loadReadOnly()) before dirty / misses / read.Store / a *Locked helper is touched; every lookup or delete in m.dirty is made only when the key was not found in the RE-LOADED read.m; and a miss is recorded (missLocked) or the dirty map promoted only on the edge where the re-loaded snapshot is amended or the key was found in dirty — a decision taken on the stale snapshot loses entries (an un-amended snapshot means dirty is nil: promoting it publishes an empty map) or misses a key that has just been promoted")
	n := 0
	for _, m := range methodsOf(c, "types", "Map") {
		if strings.HasSuffix(m.Decl.Name.Name, "Locked") {
			continue
		}
		info := m.Info()
		g := m.Graph()
		var locks []*core.Call
		for _, cl := range m.Calls() {
			if cl.Name == "Lock" && cl.Recv != nil && fieldOf(info, cl.Recv) == "Map.mu" {
				locks = append(locks, cl)
			}
		}
		if len(locks) == 0 {
			continue
		}
		c.Touch(m)
		isReload := func(e ast.Expr) bool {
			ce, ok := ast.Unparen(e).(*ast.CallExpr)
			return ok && strings.HasSuffix(m.CalleeKey(ce), ".loadReadOnly")
		}
		var reloads []Assign
		for _, a := range assignsIn(m, func(l ast.Expr) bool { _, ok := ast.Unparen(l).(*ast.Ident); return ok }) {
			if a.Rhs != nil && isReload(a.Rhs) {
				reloads = append(reloads, a)
			}
		}
		for _, L := range locks {
			var R0 *Assign
			for i := range reloads {
				if g.Dominates(L.Loc, reloads[i].Loc) && reloads[i].Stmt.Pos() > L.Pos() {
					R0 = &reloads[i]
					break
				}
			}
			n++
			if !c.Check(R, m.Key+"/reload-under-lock", L.Pos(), R0 != nil, "read = m.loadReadOnly() is executed after m.mu.Lock()") {
				continue
			}
			after := func(l core.Loc, pos token.Pos) bool { return pos > L.Pos() && g.Dominates(L.Loc, l) }
			// the guards
			reloadedRead := func(x ast.Expr) bool { // x is the local `read` whose reaching definition is the reload
				id, ok := ast.Unparen(x).(*ast.Ident)
				if !ok {
					return false
				}
				d, ok := m.SingleDef(id)
				return ok && ast.Unparen(d) == ast.Unparen(R0.Rhs)
			}
			amended := func(u *core.Unit, br core.Branch) int {
				if br.IsCase {
					return 0
				}
				se, ok := ast.Unparen(br.Cond).(*ast.SelectorExpr)
				if !ok || se.Sel.Name != "amended" || !reloadedRead(se.X) {
					return 0
				}
				return 1
			}
			lookupIn := func(x ast.Expr, where string) bool { // x is an `ok` defined by a two-value lookup in read.m (after the reload) / m.dirty
				d, ok := m.SingleDef(x)
				if !ok {
					return false
				}
				te, ok := d.(*core.TupleElem)
				if !ok || te.Index != 1 {
					return false
				}
				ix, ok := ast.Unparen(te.X).(*ast.IndexExpr)
				if !ok {
					return false
				}
				switch where {
				case "read":
					se, ok := ast.Unparen(ix.X).(*ast.SelectorExpr)
					if !ok || se.Sel.Name != "m" || !reloadedRead(se.X) {
						return false
					}
					return true
				case "dirty":
					return fieldOf(info, ix.X) == "Map.dirty"
				}
				return false
			}
			foundIn := func(where string, want bool) core.Guard {
				return func(u *core.Unit, br core.Branch) int {
					if br.IsCase {
						return 0
					}
					if _, ok := ast.Unparen(br.Cond).(*ast.Ident); !ok || !lookupIn(br.Cond, where) {
						return 0
					}
					if want {
						return 1
					}
					return -1
				}
			}
			keyed := m.Decl.Type.Params != nil && len(m.Decl.Type.Params.List) > 0 && len(m.Decl.Type.Params.List[0].Names) > 0 && m.Decl.Type.Params.List[0].Names[0].Name == "key"
			for _, fa := range accessesOf(m, "Map.dirty") {
				if !after(fa.Loc, fa.Sel.Pos()) {
					continue
				}
				n++
				c.Check(R, keyf("%s/dirty-after-reload", m.Key), fa.Sel.Pos(), g.Dominates(R0.Loc, fa.Loc), "m.dirty is looked at only after the snapshot was re-loaded under the lock")
			}
			// keyed lookups / deletes in dirty
			ast.Inspect(m.Body, func(nd ast.Node) bool {
				switch x := nd.(type) {
				case *ast.FuncLit:
					return false
				case *ast.IndexExpr:
					if fieldOf(info, x.X) != "Map.dirty" || !keyed {
						return true
					}
					loc := g.LocOf(x)
					if !after(loc, x.Pos()) {
						return true
					}
					// a store m.dirty[key] = e is licensed by unexpunge / dirtyLocked, not by the lookup
					isStore := false
					for _, a := range assignsIn(m, func(l ast.Expr) bool { return ast.Unparen(l) == ast.Expr(x) }) {
						_ = a
						isStore = true
					}
					if isStore {
						return true
					}
					n++
					c.Check(R, keyf("%s/dirty[key]-only-when-absent-from-reloaded-read", m.Key), x.Pos(), g.GuardedBy(loc, foundIn("read", false)), "the dirty map is consulted for a key only when the re-loaded read-only map does not hold it")
				case *ast.CallExpr:
					if id, ok := x.Fun.(*ast.Ident); ok && id.Name == "delete" && len(x.Args) == 2 && fieldOf(info, x.Args[0]) == "Map.dirty" {
						loc := g.LocOf(x)
						if after(loc, x.Pos()) {
							n++
							c.Check(R, keyf("%s/delete(dirty,key)-only-when-absent-from-reloaded-read", m.Key), x.Pos(), g.GuardedBy(loc, foundIn("read", false)) && g.GuardedBy(loc, amended), "a key is deleted from dirty only when the re-loaded snapshot does not hold it and is amended")
						}
					}
				}
				return true
			})
			// misses and promotion
			for _, cl := range m.Calls() {
				if !after(cl.Loc, cl.Pos()) {
					continue
				}
				if strings.HasSuffix(cl.Key, ".missLocked") {
					n++
					ok := g.GuardedBy(cl.Loc, amended) || g.GuardedBy(cl.Loc, foundIn("dirty", true))
					c.Check(R, keyf("%s/missLocked-only-when-amended-or-found-in-dirty", m.Key), cl.Pos(), ok, "a miss may promote the dirty map: it is recorded only when the re-loaded snapshot is amended (dirty non-nil) or the key was found in dirty")
				}
			}
			for _, a := range fieldAssigns(m, "Map.dirty") {
				if a.Rhs != nil && core.IsNil(info, a.Rhs) && after(a.Loc, a.Stmt.Pos()) {
					n++
					c.Check(R, keyf("%s/promote-only-when-reloaded-amended", m.Key), a.Stmt.Pos(), g.GuardedBy(a.Loc, amended), "the dirty map is promoted (m.dirty = nil after read.Store) only when the re-loaded snapshot is still amended")
				}
			}
		}
	}
	c.Need(R, "double-checked locking obligations in types.Map", n, 25)
}

// c20EmitterBasics — C20.4b (mutation audit round 4): Clear really clears, and a
// nil listener in the argument list is skipped without dropping the ones after it.
func c20EmitterBasics(c *core.Ctx) {
	const R = "C20.4b"
	c.Rule(R, "emitter basics: Clear() clears the listener table on every path; in AddListener and Once the nil test of a listener only skips that listener — its true edge neither leaves the loop nor returns, so the listeners after a nil one are still registered")
	if u := c.Fn(R, "types.(*emmiter).Clear"); u != nil {
		g := u.Graph()
		ok := false
		for _, cl := range fieldCalls(u, "emmiter.evtListeners") {
			if cl.Name != "Clear" || cl.Deferred {
				continue
			}
			ok = true
			for _, r := range returnsIn(u) {
				ok = ok && g.Dominates(cl.Loc, r.Loc)
			}
		}
		c.Check(R, "types.(*emmiter).Clear/clears-the-table", u.Pos(), ok, "evtListeners.Clear() on every path")
	}
	for _, k := range []string{"types.(*emmiter).AddListener", "types.(*emmiter).Once"} {
		u := c.Fn(R, k)
		if u == nil {
			continue
		}
		for _, w := range u.WithHelpers() {
			ast.Inspect(w.Body, func(n ast.Node) bool {
				rs, isR := n.(*ast.RangeStmt)
				if !isR {
					return true
				}
				// the loop over the variadic listeners
				if !isLocal(w.Info(), rs.X, paramName(u, 1)) && w == u {
					return true
				}
				leaves := false
				ast.Inspect(rs.Body, func(x ast.Node) bool {
					is, isIf := x.(*ast.IfStmt)
					if !isIf {
						return true
					}
					be, isB := ast.Unparen(is.Cond).(*ast.BinaryExpr)
					if !isB || be.Op != token.EQL || !(core.IsNil(w.Info(), be.Y) || core.IsNil(w.Info(), be.X)) {
						return true
					}
					ast.Inspect(is.Body, func(y ast.Node) bool {
						switch s := y.(type) {
						case *ast.FuncLit:
							return false
						case *ast.ReturnStmt:
							leaves = true
						case *ast.BranchStmt:
							if s.Tok == token.BREAK || s.Tok == token.GOTO {
								leaves = true
							}
						}
						return true
					})
					return true
				})
				c.Check(R, k+"/nil-listener-only-skipped", rs.Pos(), !leaves, "the nil test continues with the next listener")
				return true
			})
		}
	}
}

// sliceIterationOrder — C20.2d (mutation audit round 4): in which order Range and
// RangeAndSplice visit a sequence, and when they stop.
func sliceIterationOrder(c *core.Ctx, R string) {
	c.Rule(R, "iteration order of types.Slice: Range and RangeAndSplice call f exactly once per element with (element at i, i), ascending over s.elements unless the variadic reverse flag is given and true — then descending from len-1 down to and including 0, one step at a time; the first result that says stop (false for Range, condition true for RangeAndSplice) ends the iteration (break / return) and no other does")
	for _, k := range []string{"types.(*Slice).Range", "types.(*Slice).RangeAndSplice"} {
		u := c.Fn(R, k)
		if u == nil {
			continue
		}
		info := u.Info()
		g := u.Graph()
		fn, flag := paramName(u, 0), paramName(u, 1)
		// s.elements, or a local that names it (`elements := s.elements`, taken under the lock)
		isElems := func(e ast.Expr) bool { return fieldOf(info, e) == "Slice.elements" || fieldOf(info, u.Deep(e)) == "Slice.elements" }
		rev := func(x *core.Unit, br core.Branch) int { // the atom reverse[0]
			if br.IsCase {
				return 0
			}
			if ix, isIx := ast.Unparen(br.Cond).(*ast.IndexExpr); isIx && isLocal(x.Info(), ix.X, flag) {
				if v, isK := core.ConstInt(x.Info(), ix.Index); isK && v == 0 {
					return 1
				}
			}
			return 0
		}
		type site struct {
			call *ast.CallExpr
			loop ast.Stmt
		}
		var sites []site
		var stack []ast.Node
		ast.Inspect(u.Body, func(n ast.Node) bool {
			if n == nil {
				stack = stack[:len(stack)-1]
				return true
			}
			stack = append(stack, n)
			if ce, isC := n.(*ast.CallExpr); isC && isLocal(info, ce.Fun, fn) {
				var loop ast.Stmt
				for i := len(stack) - 1; i >= 0 && loop == nil; i-- {
					switch l := stack[i].(type) {
					case *ast.ForStmt:
						loop = l
					case *ast.RangeStmt:
						loop = l
					}
				}
				sites = append(sites, site{ce, loop})
			}
			return true
		})
		asc, desc := 0, 0
		okAsc, okDesc, okStop := true, true, true
		for _, st := range sites {
			loc := g.LocOf(st.call)
			if len(st.call.Args) != 2 {
				okAsc, okDesc = false, false
				continue
			}
			// stop: the edge that says "stop" leads out of the loop, the other one goes on
			stops := func(x *core.Unit, br core.Branch) int {
				if br.IsCase {
					return 0
				}
				e := ast.Unparen(br.Cond)
				if e == ast.Expr(st.call) {
					return -1 // Range: f(...) false stops
				}
				if d, ok := x.SingleDef(e); ok {
					if te, isT := d.(*core.TupleElem); isT && te.Index == 0 && ast.Unparen(te.X) == ast.Expr(st.call) {
						return 1 // RangeAndSplice: condition true stops
					}
				}
				return 0
			}
			leaves, leavesOther := false, false
			if st.loop != nil {
				var body *ast.BlockStmt
				switch l := st.loop.(type) {
				case *ast.ForStmt:
					body = l.Body
				case *ast.RangeStmt:
					body = l.Body
				}
				var ifs []*ast.IfStmt
				var walk func(y ast.Node) bool
				walk = func(y ast.Node) bool {
					switch s := y.(type) {
					case *ast.FuncLit:
						return false
					case *ast.IfStmt:
						ifs = append(ifs, s)
						ast.Inspect(s.Body, walk)
						ifs = ifs[:len(ifs)-1]
						if s.Else != nil {
							ast.Inspect(s.Else, walk)
						}
						return false
					case *ast.ReturnStmt:
						if g.GuardedBy(g.LocOf(s), stops) {
							leaves = true
						} else {
							leavesOther = true
						}
					case *ast.BranchStmt:
						// go/cfg turns a break into an edge: judged by the test it stands under — `if !f(…) { break }`
						if s.Tok == token.BREAK {
							good := false
							if len(ifs) > 0 {
								if ue, isU := ast.Unparen(ifs[len(ifs)-1].Cond).(*ast.UnaryExpr); isU && ue.Op == token.NOT && ast.Unparen(ue.X) == ast.Expr(st.call) {
									good = true
								}
							}
							if good {
								leaves = true
							} else {
								leavesOther = true
							}
						}
					}
					return true
				}
				ast.Inspect(body, walk)
			}
			okStop = okStop && leaves && !leavesOther
			switch l := st.loop.(type) {
			case *ast.RangeStmt:
				asc++
				okAsc = okAsc && isElems(l.X) && !g.GuardedBy(loc, rev) && l.Key != nil && l.Value != nil &&
					core.ObjOf(info, st.call.Args[0]) == core.ObjOf(info, l.Value) && core.ObjOf(info, st.call.Args[1]) == core.ObjOf(info, l.Key)
			case *ast.ForStmt:
				desc++
				good := g.GuardedBy(loc, rev) && g.GuardedBy(loc, lenNonEmpty(func(x *core.Unit, e ast.Expr) bool { return isLocal(x.Info(), e, flag) }))
				var iv types.Object
				if as, isA := l.Init.(*ast.AssignStmt); isA && len(as.Lhs) == 1 && len(as.Rhs) == 1 {
					iv = core.ObjOf(info, as.Lhs[0])
					be, isB := ast.Unparen(as.Rhs[0]).(*ast.BinaryExpr)
					one, _ := core.ConstInt(info, func() ast.Expr {
						if isB {
							return be.Y
						}
						return nil
					}())
					lc, isL := func() (*ast.CallExpr, bool) {
						if !isB {
							return nil, false
						}
						ce, ok := ast.Unparen(be.X).(*ast.CallExpr)
						return ce, ok
					}()
					good = good && isB && be.Op == token.SUB && one == 1 && isL && calleeNameOf(lc) == "len" && len(lc.Args) == 1 && isElems(lc.Args[0])
				} else {
					good = false
				}
				if cmp, isCmp := u.BranchCmp(core.Branch{Cond: l.Cond}); isCmp && iv != nil && core.ObjOf(info, cmp.X) == iv {
					K, ge, okT := cmpThreshold(cmp)
					good = good && okT && K == 0 && ge == 0 // i >= 0 keeps the loop going: index 0 is visited
				} else {
					good = false
				}
				if pd, isP := l.Post.(*ast.IncDecStmt); !isP || pd.Tok != token.DEC || core.ObjOf(info, pd.X) != iv {
					good = false
				}
				// f(s.elements[i] (or a local holding it), i)
				elem := u.Deep(st.call.Args[0])
				ix, isIx := ast.Unparen(elem).(*ast.IndexExpr)
				good = good && isIx && isElems(ix.X) && core.ObjOf(info, ix.Index) == iv && core.ObjOf(info, st.call.Args[1]) == iv
				okDesc = okDesc && good
			default:
				okAsc, okDesc = false, false
			}
		}
		// one direction per call: no path runs both loops
		if len(sites) == 2 {
			a, b := g.LocOf(sites[0].call), g.LocOf(sites[1].call)
			if g.CanFollow(a, b) || g.CanFollow(b, a) {
				okAsc = false
			}
		}
		c.Check(R, k+"/ascending-unless-reverse,descending-to-0,stop-on-the-first-result-that-says-so", u.Pos(), asc == 1 && desc == 1 && okAsc && okDesc && okStop,
			keyf("ascending range over s.elements with (value, key) off the reverse edge: %v (%d); descending for from len-1 while i >= 0 by i-- with (s.elements[i], i) on the reverse edge: %v (%d); the loops are left exactly on the stop result: %v", okAsc, asc, okDesc, desc, okStop))
	}
}
