package rules

import (
	"go/ast"
	"go/token"
	"go/types"
	"strings"

	"engcheck/core"
)

// variadicIndexSafety — C09.4b: p[i] on a variadic parameter that may be empty.
func variadicIndexSafety(c *core.Ctx, R string) {
	c.Rule(R, "variadic index safety (engine, transports, types, utils): an index p[i] on a variadic parameter other than a listener's ...any (C09.4) is dominated by a test establishing len(p) > i, or by i+1 extensions `p = append(p, …)`: socket.OnClose's description[0], transport.Close's fn[0], Slice.Range's reverse[0], ParameterBag's _default[0] are called without that argument all the time")
	pkgs := map[string]bool{"engine": true, "transports": true, "types": true, "utils": true, "events": true, "webtransport": true}
	n := 0
	for _, u := range c.P.Units {
		if u.Pkg == nil || u.Pkg.Types == nil || !pkgs[u.Pkg.Types.Name()] || u.Type == nil || u.Type.Params == nil || len(u.Type.Params.List) == 0 {
			continue
		}
		last := u.Type.Params.List[len(u.Type.Params.List)-1]
		el, isV := last.Type.(*ast.Ellipsis)
		if !isV || len(last.Names) != 1 {
			continue
		}
		info := u.Info()
		if t := info.TypeOf(el.Elt); t != nil {
			if it, isI := t.Underlying().(*types.Interface); isI && it.Empty() {
				continue // listener arguments: C09.4
			}
		}
		pn := last.Names[0].Name
		g := u.Graph()
		ast.Inspect(u.Body, func(x ast.Node) bool {
			if _, isLit := x.(*ast.FuncLit); isLit {
				return false
			}
			ix, ok := x.(*ast.IndexExpr)
			if !ok || !isLocal(info, ix.X, pn) {
				return true
			}
			i, isC := core.ConstInt(info, ix.Index)
			if !isC {
				return true
			}
			n++
			loc := g.LocOf(ix)
			longEnough := func(y *core.Unit, br core.Branch) int {
				cmp, ok := y.BranchCmp(br)
				if !ok || cmp.Val == nil {
					return 0
				}
				ce, _ := ast.Unparen(cmp.X).(*ast.CallExpr)
				if ce == nil || calleeNameOf0(ce) != "len" || len(ce.Args) != 1 || !isLocal(y.Info(), ce.Args[0], pn) {
					return 0
				}
				k, _ := core.ConstInt(y.Info(), func() ast.Expr {
					if be, isB := ast.Unparen(br.Cond).(*ast.BinaryExpr); isB {
						return be.Y
					}
					return nil
				}())
				switch cmp.Op {
				case token.GTR:
					if k >= i {
						return 1
					}
				case token.GEQ:
					if k > i {
						return 1
					}
				case token.EQL:
					if k <= i && k == 0 {
						return -1 // len(p) == 0 false ⇒ len ≥ 1
					}
				case token.LEQ:
					if k >= i {
						return -1
					}
				case token.LSS:
					if k > i {
						return -1
					}
				}
				return 0
			}
			ok2 := g.GuardedBy(loc, longEnough)
			if !ok2 {
				// `len(p) > i && p[i]`: the index is the right operand of a conjunction whose left operand establishes the length
				ast.Inspect(u.Body, func(y ast.Node) bool {
					be, isB := y.(*ast.BinaryExpr)
					if !isB || (be.Op != token.LAND && be.Op != token.LOR) || !(be.Y.Pos() <= ix.Pos() && ix.End() <= be.Y.End()) {
						return true
					}
					// `A && p[i]` evaluates the index when A holds, `A || p[i]` (De Morgan: `len(p) == 0 || !p[0]`) when A does not
					for _, a := range core.SplitCond(be.X, be.Op == token.LAND) {
						p := longEnough(u, core.Branch{Cond: a.E})
						if (p > 0 && a.Val) || (p < 0 && !a.Val) {
							ok2 = true
						}
					}
					return true
				})
			}
			if !ok2 {
				ext := int64(0)
				for _, a := range assignsIn(u, func(l ast.Expr) bool { return isLocal(info, l, pn) }) {
					if ce, isCall := ast.Unparen(a.Rhs).(*ast.CallExpr); isCall && calleeNameOf0(ce) == "append" && len(ce.Args) >= 2 && isLocal(info, ce.Args[0], pn) && g.Dominates(a.Loc, loc) {
						ext += int64(len(ce.Args) - 1)
					}
				}
				ok2 = ext > i
			}
			c.Check(R, keyf("%s/%s[%d]-has-that-many-elements", u.Key, pn, i), ix.Pos(), ok2, "the variadic argument may be absent: the index needs a length test or an extending append first")
			return true
		})
	}
	c.Need(R, "constant indices on variadic parameters", n, 5)
}

// baseTransportEffects — transports/transport.go.
func baseTransportEffects(c *core.Ctx, R string) {
	c.Rule(R, "effect table of the base transport: MakeTransport starts in state \"open\"; OnPacket emits packet with its argument; OnData decodes and hands the packet to OnPacket; Close returns at once when closing / closed, otherwise marks \"closing\" and delegates to the prototype's DoClose with the caller's callback; OnClose returns when already closed, otherwise marks \"closed\" and then emits close; OnError emits error exactly when somebody listens")
	if u := c.Fn(R, "transports.MakeTransport"); u != nil {
		requireEffects(c, R, u, []effect{{name: "initial-state-open", match: func(x *core.Unit, cl *core.Call) bool {
			return mFieldCall("transport._readyState", "Store")(x, cl) && pktConst(x.Info(), cl.Arg(0), "open")
		}}})
	}
	if u := c.Fn(R, "transports.(*transport).OnPacket"); u != nil {
		requireEffects(c, R, u, []effect{{name: "Emit(packet, p)", match: func(x *core.Unit, cl *core.Call) bool {
			return mNameStr("Emit", 0, "packet")(x, cl) && isLocal(x.Info(), cl.Arg(1), paramName(u, 0))
		}}})
	}
	if u := c.Fn(R, "transports.(*transport).Close"); u != nil {
		busy := stateIs(trStateKeys, "closed", "closing")
		requireEffects(c, R, u, []effect{
			{name: "not-closing-or-closed→mark-closing", match: mNameStr("SetReadyState", 0, "closing"), on: []core.Guard{gNot(stateIs(trStateKeys, "closed")), gNot(stateIs(trStateKeys, "closing"))}},
			{name: "DoClose(callback)", match: mName("DoClose"), after: "not-closing-or-closed→mark-closing"},
		})
		_ = busy
	}
	if u := c.Fn(R, "transports.(*transport).OnClose"); u != nil {
		requireEffects(c, R, u, []effect{
			{name: "mark-closed", match: mNameStr("SetReadyState", 0, "closed")},
			{name: "Emit(close)", match: mNameStr("Emit", 0, "close"), after: "mark-closed"},
		})
	}
	if u := c.Fn(R, "transports.(*transport).OnError"); u != nil {
		heard := func(x *core.Unit, br core.Branch) int {
			cmp, ok := x.BranchCmp(br)
			if !ok || cmp.Val == nil {
				return 0
			}
			ce, key := x.AsCall(cmp.X)
			if ce == nil || !strings.HasSuffix(key, ".ListenerCount") {
				return 0
			}
			return positiveEdge(cmp)
		}
		requireEffects(c, R, u, []effect{{name: "listened→Emit(error)", match: mNameStr("Emit", 0, "error"), on: []core.Guard{heard}}})
	}
}

// containerEffects — C20.6: polarity of the container predicates the audit found unpinned.
func containerEffects(c *core.Ctx, R string) {
	c.Rule(R, "container predicate polarity: Slice.Pop / Shift read an element only on the non-empty edge; Filter keeps an element exactly when the predicate holds, RemoveAll exactly when it does not, FindIndex returns the index on the predicate's true edge; DoRead / DoWrite / Replace hand over / store the storage; AddListener and Once build an entry only for a non-nil listener (an entry with a nil function panics at Emit); ParameterBag.Get / GetFirst index the stored values only on the found ∧ non-empty edge")
	nonEmpty := func(field string) core.Guard {
		return func(x *core.Unit, br core.Branch) int {
			cmp, ok := x.BranchCmp(br)
			if !ok || cmp.Val == nil {
				return 0
			}
			ce, _ := ast.Unparen(cmp.X).(*ast.CallExpr)
			if ce == nil || calleeNameOf0(ce) != "len" || len(ce.Args) != 1 {
				return 0
			}
			if fieldOf(x.Info(), ce.Args[0]) != field && !isLocalAnyDepth(x, ce.Args[0], field) {
				return 0
			}
			return positiveEdge(cmp)
		}
	}
	for _, k := range []string{"types.(*Slice).Pop", "types.(*Slice).Shift"} {
		u := c.Fn(R, k)
		if u == nil {
			continue
		}
		g := u.Graph()
		n := 0
		ast.Inspect(u.Body, func(x ast.Node) bool {
			if ix, ok := x.(*ast.IndexExpr); ok && fieldOf(u.Info(), ix.X) == "Slice.elements" {
				n++
				c.Check(R, k+"/element-read-only-when-non-empty", ix.Pos(), g.GuardedBy(g.LocOf(ix), nonEmpty("Slice.elements")), "an empty slice reports ErrSliceEmpty instead of indexing")
			}
			return true
		})
		c.Need(R, "element reads in "+k, n, 1)
	}
	predTrue := func(param string) core.Guard {
		return func(x *core.Unit, br core.Branch) int {
			if br.IsCase {
				return 0
			}
			if ce, ok := ast.Unparen(br.Cond).(*ast.CallExpr); ok && isLocalAnyDepth(x, ce.Fun, param) {
				return 1
			}
			return 0
		}
	}
	if u := c.Fn(R, "types.(*Slice).Filter"); u != nil {
		g := u.Graph()
		ok := false
		for _, a := range assignsIn(u, func(l ast.Expr) bool { return isLocal(u.Info(), l, "filtered") }) {
			if g.GuardedBy(a.Loc, predTrue(paramName(u, 0))) {
				ok = true
			}
		}
		c.Check(R, "types.(*Slice).Filter/keeps-iff-predicate", u.Pos(), ok, "append on the predicate's true edge")
	}
	if u := c.Fn(R, "types.(*Slice).RemoveAll"); u != nil {
		g := u.Graph()
		ok := false
		for _, a := range assignsIn(u, func(l ast.Expr) bool {
			ix, isIx := ast.Unparen(l).(*ast.IndexExpr)
			return isIx && fieldOf(u.Info(), ix.X) == "Slice.elements"
		}) {
			if g.GuardedBy(a.Loc, gNot(predTrue(paramName(u, 0)))) {
				ok = true
			}
		}
		trunc := len(fieldAssigns(u, "Slice.elements")) == 1
		c.Check(R, "types.(*Slice).RemoveAll/keeps-iff-not-predicate", u.Pos(), ok && trunc, "elements are compacted on the predicate's false edge and the slice truncated to the kept count")
	}
	if u := c.Fn(R, "types.(*Slice).FindIndex"); u != nil {
		g := u.Graph()
		ok := false
		for _, r := range returnsIn(u) {
			if len(r.Stmt.Results) == 1 {
				if _, isC := core.ConstInt(u.Info(), r.Stmt.Results[0]); !isC && g.GuardedBy(r.Loc, predTrue(paramName(u, 0))) {
					ok = true
				}
			}
		}
		// the library form of the same search: return slices.IndexFunc(s.elements, condition)
		for _, r := range returnsIn(u) {
			if len(r.Stmt.Results) == 1 {
				if ce, isC := ast.Unparen(u.Deep(r.Stmt.Results[0])).(*ast.CallExpr); isC && u.CalleeKey(ce) == "slices.IndexFunc" && len(ce.Args) == 2 &&
					fieldOf(u.Info(), ce.Args[0]) == "Slice.elements" && isLocal(u.Info(), ce.Args[1], paramName(u, 0)) {
					ok = true
				}
			}
		}
		c.Check(R, "types.(*Slice).FindIndex/index-on-predicate-true", u.Pos(), ok, "the loop index is returned on the predicate's true edge")
	}
	for _, sp := range []struct{ key, what string }{{"types.(*Slice).DoWrite", "store"}, {"types.(*Slice).Replace", "store"}, {"types.(*Slice).DoRead", "call"}} {
		u := c.Fn(R, sp.key)
		if u == nil {
			continue
		}
		ok := false
		if sp.what == "store" {
			ok = len(fieldAssigns(u, "Slice.elements")) == 1
		} else {
			for _, cl := range u.Calls() {
				if cl.Callee == nil && cl.Name == paramName(u, 0) && cl.Arg(0) != nil && fieldOf(u.Info(), cl.Arg(0)) == "Slice.elements" {
					ok = true
				}
			}
		}
		c.Check(R, sp.key+"/"+sp.what+"s-the-storage", u.Pos(), ok, "the custom operation sees / replaces the slice's own storage")
	}
	for _, k := range []string{"types.(*emmiter).AddListener", "types.(*emmiter).Once"} {
		u := c.Fn(R, k)
		if u == nil {
			continue
		}
		g := u.Graph()
		info := u.Info()
		var loopVar string
		ast.Inspect(u.Body, func(x ast.Node) bool {
			if rs, ok := x.(*ast.RangeStmt); ok && loopVar == "" {
				if id, isI := rs.Value.(*ast.Ident); isI {
					loopVar = id.Name
				}
			}
			return true
		})
		n := 0
		for _, hu := range u.WithHelpers() {
			ast.Inspect(hu.Body, func(x ast.Node) bool {
				lit, ok := x.(*ast.CompositeLit)
				if !ok || core.TypeName(info.TypeOf(lit)) != "eventEntry" {
					return true
				}
				n++
				loc := g.LocOf(lit)
				if hu != u { // built by an extracted helper: the nil test is judged at the helper call
					for _, cl := range u.Calls() {
						if cl.Inlined == nil && cl.Callee != nil && c.P.UnitOf(cl.Callee) == hu {
							loc = cl.Loc
						}
					}
				}
				c.Check(R, k+"/entry-only-for-non-nil-listener", lit.Pos(), loopVar != "" && g.GuardedBy(loc, gNilLocal(loopVar, true)), "a nil listener is skipped: its entry would panic when emitted")
				return true
			})
		}
		c.Need(R, "eventEntry literals in "+k, n, 1)
	}
	for _, k := range []string{"utils.(*ParameterBag).Get", "utils.(*ParameterBag).GetFirst"} {
		u := c.Fn(R, k)
		if u == nil {
			continue
		}
		g := u.Graph()
		found := func(x *core.Unit, br core.Branch) int {
			if br.IsCase {
				return 0
			}
			d, ok := x.SingleDef(br.Cond)
			te, isT := d.(*core.TupleElem)
			if ok && isT && te.Index == 1 {
				if _, isIx := ast.Unparen(te.X).(*ast.IndexExpr); isIx {
					return 1
				}
			}
			return 0
		}
		if !localAnchors(c, R, u, "value") {
			continue
		}
		n := 0
		ast.Inspect(u.Body, func(x ast.Node) bool {
			if ix, ok := x.(*ast.IndexExpr); ok && isLocal(u.Info(), ix.X, "value") {
				n++
				loc := g.LocOf(ix)
				c.Check(R, k+"/values-indexed-only-when-found∧non-empty", ix.Pos(), g.GuardedBy(loc, found) && g.GuardedBy(loc, nonEmpty("value")), "a missing or empty parameter yields the default, never an index panic on a client-controlled query or header name")
			}
			return true
		})
		c.Need(R, "indexing of stored values in "+k, n, 1)
	}
}
