// Package rules holds one file per property; each registers its rule set.
package rules

import "engcheck/core"

// Registry maps property id to its rule set. tier is "quick" or "thorough".
var Registry = map[string]func(c *core.Ctx, tier string){}

func register(id string, f func(c *core.Ctx, tier string)) { Registry[id] = f }
