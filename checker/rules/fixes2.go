package rules

// Rules written with the defects repaired in the bug-hunting round (DESIGN
// §9.13): each states, over resolved constructs, the condition whose absence
// was the defect, so that the repaired defect is reported again if it returns
// (every one has a revert-the-fix mutant).

import (
	"go/ast"
	"go/token"
	"go/types"
	"strings"

	"engcheck/core"
)

// wsInflatedBound (C10.9 = C09.17 = C02.13) — fix 32ab2cd.
func wsInflatedBound(c *core.Ctx, R string) {
	c.Rule(R, "the websocket read limit covers what permessage-deflate inflates: websocket.message reads every data frame through readMessage (no direct ReadFrom of the frame reader), readMessage reads through io.LimitReader(message, limit+1) with the limit the connection carries (WebSocketConn.MaxPayload, written by HandleUpgrade with Opts().MaxHttpBufferSize() before the connection is handed on — the transport's own field is stored only after its constructor has started the reader), never for limit == MaxInt64, and reports ws.ErrReadLimit on the n > limit edge")
	if m := c.Fn(R, "transports.(*websocket).message"); m != nil {
		direct, bounded := 0, 0
		for _, cl := range m.Calls() {
			if cl.Name == "ReadFrom" {
				direct++
			}
			if strings.HasSuffix(cl.Key, ".readMessage") {
				bounded++
			}
		}
		c.Check(R, "transports.(*websocket).message/data-frames-read-through-readMessage", m.Pos(), direct == 0 && bounded >= 2, keyf("direct ReadFrom of the frame reader: %d; bounded reads: %d", direct, bounded))
	}
	if rm := c.Fn(R, "transports.(*websocket).readMessage"); rm != nil {
		info := rm.Info()
		g := rm.Graph()
		okLimit, fromConn, noOverflow := false, false, false
		var limObj types.Object
		for _, cl := range rm.Calls() {
			if cl.Key != "io.LimitReader" {
				continue
			}
			// second argument: <limit> + 1, limit read from the connection (WebSocketConn.MaxPayload — set before the
			// reader starts, fix 56e5880) or, as first built, from the transport's MaxHttpBufferSize()
			if be, ok := ast.Unparen(cl.Arg(1)).(*ast.BinaryExpr); ok && be.Op == token.ADD {
				if v, isC := core.ConstInt(info, be.Y); isC && v == 1 {
					src := rm.Deep(be.X)
					if fieldOf(info, src) == "WebSocketConn.MaxPayload" {
						okLimit = true
						limObj = core.ObjOf(info, be.X)
						fromConn = true
					} else if ce, key := rm.AsCall(be.X); ce != nil && strings.HasSuffix(key, ".MaxHttpBufferSize") {
						// the transport's own field is stored by the server only after the constructor has started the
						// reader goroutine: a data race, and a frame read in between is not bounded (fix 56e5880)
						limObj = core.ObjOf(info, be.X)
					}
					// limit+1 must not overflow: the bounded read is off the edge limit == MaxInt64 (fix ae38d27)
					noOverflow = g.GuardedBy(cl.Loc, func(x *core.Unit, br core.Branch) int {
						cmp, isCmp := x.BranchCmp(br)
						if !isCmp || core.ObjOf(x.Info(), cmp.X) != limObj || limObj == nil {
							return 0
						}
						if !strings.HasSuffix(selPath(cmp.Y), "MaxInt64") && !(cmp.Val != nil && cmp.Val.ExactString() == "9223372036854775807") {
							return 0
						}
						switch cmp.Op {
						case token.EQL:
							return -1
						case token.NEQ:
							return 1
						}
						return 0
					})
				}
			}
		}
		okErr := false
		for _, r := range returnsIn(rm) {
			if len(r.Stmt.Results) == 1 && strings.HasSuffix(selPath(r.Stmt.Results[0]), "ErrReadLimit") {
				okErr = g.GuardedBy(r.Loc, func(x *core.Unit, br core.Branch) int {
					be, ok := ast.Unparen(br.Cond).(*ast.BinaryExpr)
					if br.IsCase || !ok {
						return 0
					}
					lhs, rhs, pol := ltNorm(be) // limit < n
					if pol == 0 || limObj == nil || core.ObjOf(x.Info(), lhs) != limObj {
						return 0
					}
					_ = rhs
					return pol
				})
			}
		}
		c.Check(R, "transports.(*websocket).readMessage/LimitReader(limit+1)∧ErrReadLimit-on-overflow", rm.Pos(), okLimit && okErr, keyf("reads through io.LimitReader(message, limit+1) with the configured limit: %v; ws.ErrReadLimit on the n > limit edge: %v", okLimit, okErr))
		c.Check(R, "transports.(*websocket).readMessage/limit+1-cannot-overflow", rm.Pos(), noOverflow, "the bounded read is not taken for limit == math.MaxInt64 (limit+1 would be negative and every message read as empty)")
		if fromConn {
			wsLimitOnConn(c, R)
			return
		}
	}
	n := 0
	for _, key := range []string{bsHandshake, "engine.(*server).onWebSocket"} {
		u := c.Fn(R, key)
		if u == nil {
			continue
		}
		ok := false
		for _, cl := range u.Calls() {
			if cl.Name != "SetMaxHttpBufferSize" || cl.Arg(0) == nil {
				continue
			}
			if _, k := u.AsCall(cl.Arg(0)); !strings.HasSuffix(k, ".MaxHttpBufferSize") {
				continue
			}
			if key == bsHandshake {
				// on the websocket arm
				if u.Graph().GuardedBy(cl.Loc, func(x *core.Unit, br core.Branch) int {
					cmp, isCmp := x.BranchCmp(br)
					if !isCmp {
						return 0
					}
					if strings.HasSuffix(selPath(cmp.X), "WEBSOCKET") || (cmp.Y != nil && strings.HasSuffix(selPath(cmp.Y), "WEBSOCKET")) || (cmp.Val != nil && trimQuotes(cmp.Val.ExactString()) == "websocket") {
						if cmp.Op == token.EQL {
							return 1
						}
						if cmp.Op == token.NEQ {
							return -1
						}
					}
					return 0
				}) {
					ok = true
				}
			} else if mu := u.CallsTo("engine.(Socket).MaybeUpgrade", "engine.(*socket).MaybeUpgrade"); len(mu) > 0 && u.Graph().Dominates(cl.Loc, mu[len(mu)-1].Loc) {
				ok = true
			}
		}
		n++
		c.Check(R, key+"/websocket-transport-gets-MaxHttpBufferSize", u.Pos(), ok, "the websocket transport is told the limit it has to enforce on inflated messages")
	}
	c.Need(R, "websocket transport construction sites", n, 2)
}

// checkUnderFlushMu (C08.10 = C01.21) — fix fb6b29e.
func checkUnderFlushMu(c *core.Ctx, R string) {
	c.Rule(R, "one sender per pending poll: every Send on the session's current transport made by engine/socket.go (flush, and MaybeUpgrade's noop check) is made with flushMu held, together with the Writable() test that licenses it — two senders that both pass the test answer one poll twice, and the second write error closes the session")
	n := 0
	for _, u := range c.P.Units {
		if u.Pkg != c.P.Pkgs["engine"] {
			continue
		}
		g := u.Graph()
		for _, cl := range u.Calls() {
			if cl.Key != "transports.(Transport).Send" || cl.Inlined != nil {
				continue
			}
			// on s.Transport()
			se, ok := cl.Expr.Fun.(*ast.SelectorExpr)
			if !ok {
				continue
			}
			if ce, isC := ast.Unparen(se.X).(*ast.CallExpr); !isC || u.CalleeKey(ce) != "engine.(*socket).Transport" {
				continue
			}
			n++
			held := g.HeldAt(cl.Loc)["socket.flushMu"]
			// the writable test that dominates it is evaluated under the lock as well
			testHeld := false
			for _, f := range g.Facts() {
				if writableTrue()(u, f.Br) != 0 && g.EdgeDominates(f.Br.B, f.Edge, cl.Loc) {
					if l := g.LocOf(f.Br.Cond); l.Valid() && g.HeldAt(l)["socket.flushMu"] {
						testHeld = true
					}
				}
			}
			c.Check(R, keyf("%s/Transport().Send-under-flushMu", u.Key), cl.Pos(), held && testHeld, keyf("flushMu held at the Send: %v; at the writable test: %v", held, testHeld))
		}
	}
	c.Need(R, "Send sites on the current transport in package engine", n, 2)
}

// truncatedBodyRefused (C11.13 = C02.14) — fix 1fda519.
func truncatedBodyRefused(c *core.Ctx, R string) {
	c.Rule(R, "a data request whose body could not be read completely is not a payload: in onDataRequest no OnData (and no 'ok') is reachable from the edge on which the body read returned an error; that edge releases the slot, reports a transport error and answers")
	u := c.Fn(R, polOnData)
	if u == nil {
		return
	}
	g := u.Graph()
	var onData *core.Call
	for _, cl := range u.Calls() {
		if cl.Name == "OnData" {
			onData = cl
		}
	}
	n := 0
	for _, f := range g.Facts() {
		if f.Br.IsCase {
			continue
		}
		cmp, ok := u.BranchCmp(f.Br)
		if !ok || cmp.Y == nil || !core.IsNil(u.Info(), cmp.Y) || !anyErr(u, cmp.X) {
			continue
		}
		d, k := u.SingleDef(cmp.X)
		te, isT := d.(*core.TupleElem)
		if !k || !isT {
			continue
		}
		if rc, isC := ast.Unparen(te.X).(*ast.CallExpr); !isC || calleeNameOf(rc) != "ReadFrom" {
			continue
		}
		failing := (cmp.Op == token.NEQ) == f.Val
		if !failing {
			continue
		}
		n++
		reach := onData != nil && g.Reach(core.State{B: f.Br.B.Succs[f.Edge], I: 0}, func(s core.State) bool { return s.B == onData.Loc.B && s.I == onData.Loc.I }, nil, nil)
		c.Check(R, polOnData+"/read-error-edge-never-reaches-OnData", f.Br.Cond.Pos(), onData != nil && !reach, "a truncated body is not dispatched")
	}
	c.Need(R, "tests of the body read error in onDataRequest", n, 1)
}

// abortedPostNotAnError (C03.18 = C12.11) — fix dba1c10.
func abortedPostNotAnError(c *core.Ctx, R string) {
	c.Rule(R, "the data request's close listener reports 'closed prematurely' only while the transport is open: a POST aborted by DoClose (application Close during the request) is not an error of the peer and must not replace the close reason")
	u := c.Fn(R, polOnData)
	if u == nil {
		return
	}
	k := c.KidOf(R, u, "onClose")
	if k == nil {
		return
	}
	g := k.Graph()
	n := 0
	for _, cl := range k.Calls() {
		if cl.Name != "OnError" {
			continue
		}
		n++
		c.Check(R, polOnData+"$onClose/OnError-only-while-open", cl.Pos(), g.GuardedBy(cl.Loc, gCallStrEq(".ReadyState", "open")), "licensed by ReadyState() == \"open\"")
	}
	c.Need(R, "error reports of the data request's close listener", n, 1)
}

// skipEOFRefined (C15.7b) — fix 0888524.
func skipEOFRefined(c *core.Ctx, R string) {
	c.Rule(R, "a stream that ends inside a frame is an unexpected end on every path: the error of the io.CopyN that skips the unread rest of a frame is returned by advanceFrame only after io.EOF was replaced by errUnexpectedEOF")
	u := c.Fn(R, wtAdvance)
	if u == nil {
		return
	}
	info := u.Info()
	g := u.Graph()
	n := 0
	for _, cl := range u.Calls() {
		if cl.Key != "io.CopyN" {
			continue
		}
		n++
		// the error variable of this call
		var errObj types.Object
		ast.Inspect(u.Body, func(x ast.Node) bool {
			if as, ok := x.(*ast.AssignStmt); ok && len(as.Rhs) == 1 && ast.Unparen(as.Rhs[0]) == ast.Expr(cl.Expr) && len(as.Lhs) == 2 {
				errObj = core.ObjOf(info, as.Lhs[1])
			}
			return true
		})
		refined := false
		for _, a := range assignsIn(u, func(l ast.Expr) bool { return errObj != nil && core.ObjOf(info, l) == errObj }) {
			if a.Rhs != nil && isPkgVar(info, a.Rhs, "errUnexpectedEOF") {
				refined = g.GuardedBy(a.Loc, func(x *core.Unit, br core.Branch) int {
					be, ok := ast.Unparen(br.Cond).(*ast.BinaryExpr)
					if br.IsCase || !ok || be.Op != token.EQL {
						return 0
					}
					if core.ObjOf(x.Info(), be.X) == errObj && strings.HasSuffix(selPath(be.Y), "io.EOF") {
						return 1
					}
					return 0
				})
			}
		}
		c.Check(R, wtAdvance+"/skip-error: io.EOF→errUnexpectedEOF", cl.Pos(), errObj != nil && refined, "the stream ended inside the frame that was being skipped")
	}
	c.Need(R, "skip of an unread frame rest in advanceFrame", n, 1)
}

// mapSentinelNotZeroSize (C20.1g = C04.9) — fix 45f641f.
func mapSentinelNotZeroSize(c *core.Ctx, R string) {
	c.Rule(R, "the Map entry's expunged sentinel is distinguishable from every stored value: it is not new(TValue) — for a zero-size TValue every allocation has one address, so every stored pointer would equal the sentinel and every entry read as deleted")
	u := c.Fn(R, "types.newEntry")
	if u == nil {
		return
	}
	info := u.Info()
	n, bad := 0, 0
	ast.Inspect(u.Body, func(x ast.Node) bool {
		kv, ok := x.(*ast.KeyValueExpr)
		if !ok {
			return true
		}
		if id, isI := kv.Key.(*ast.Ident); !isI || id.Name != "expunged" {
			return true
		}
		n++
		if ce, isC := ast.Unparen(u.Resolve(kv.Value)).(*ast.CallExpr); isC {
			if id, isI := ce.Fun.(*ast.Ident); isI && id.Name == "new" && len(ce.Args) == 1 {
				if _, isTP := info.TypeOf(ce.Args[0]).(*types.TypeParam); isTP {
					bad++
				}
			}
		}
		return true
	})
	c.Check(R, "types.newEntry/expunged-sentinel-has-its-own-address", u.Pos(), n == 1 && bad == 0, keyf("%d sentinel initialiser(s), %d of them new(TValue)", n, bad))
}

// packetAndCallbackPaired (C18.10) — fix 7ac5715.
func packetAndCallbackPaired(c *core.Ctx, R string) {
	c.Rule(R, "a packet and its send callback are queued, and taken by flush, as one step: in sendPacket writeBuffer.Push and packetsFn.Push lie in one critical section of bufMu (no unlock between them), and in flush writeBuffer.AllAndClear and packetsFn.AllAndClear do — otherwise a flush between the two pushes puts the callback into the batch before its packet's, and it runs before that packet's flush event")
	for _, sp := range []struct {
		key  string
		name string
	}{{sockSendPkt, "Push"}, {sockFlush, "AllAndClear"}} {
		u := c.Fn(R, sp.key)
		if u == nil {
			continue
		}
		info := u.Info()
		g := u.Graph()
		var a, b *core.Call
		for _, cl := range u.Calls() {
			if cl.Name != sp.name || cl.Recv == nil {
				continue
			}
			switch fieldOf(info, cl.Recv) {
			case "socket.writeBuffer":
				a = cl
			case "socket.packetsFn":
				b = cl
			}
		}
		ok := a != nil && b != nil && g.HeldAt(a.Loc)["socket.bufMu"] && g.HeldAt(b.Loc)["socket.bufMu"]
		if ok {
			// no release of bufMu on a path from the first to the second
			for _, cl := range u.Calls() {
				if cl.Name == "Unlock" && cl.Recv != nil && core.LockKey(info, cl.Recv) == "socket.bufMu" && g.CanFollow(a.Loc, cl.Loc) && g.CanFollow(cl.Loc, b.Loc) {
					ok = false
				}
			}
		}
		c.Check(R, sp.key+"/"+sp.name+"(writeBuffer)+"+sp.name+"(packetsFn)-in-one-bufMu-section", u.Pos(), ok, "the pair is handled atomically")
	}
}

// requestRevalidatesTransport (C05.14 = C09.18 = C11.14) — fix 3864419.
func requestRevalidatesTransport(c *core.Ctx, R string) {
	c.Rule(R, "a plain request for an existing session is handed to socket.Transport().OnRequest only on the edge where that transport's Name() equals the request's transport parameter (the session may have switched transport since Verify compared them — the new transport's OnRequest never answers); the other edge is a refused request")
	n := 0
	for _, u := range c.P.Units {
		if !strings.HasPrefix(u.Key, "engine.(*server).HandleRequest") {
			continue
		}
		g := u.Graph()
		for _, cl := range u.Calls() {
			if cl.Name != "OnRequest" {
				continue
			}
			n++
			same := g.GuardedBy(cl.Loc, func(x *core.Unit, br core.Branch) int {
				cmp, ok := x.BranchCmp(br)
				if !ok || cmp.Y == nil {
					return 0
				}
				_, k1 := x.AsCall(cmp.X)
				ce2, k2 := x.AsCall(cmp.Y)
				if ce2 == nil {
					return 0
				}
				nameSide := strings.HasSuffix(k1, ".Name") && strings.HasSuffix(k2, ".Peek")
				if !nameSide {
					ce1, _ := x.AsCall(cmp.X)
					nameSide = ce1 != nil && strings.HasSuffix(k2, ".Name") && strings.HasSuffix(k1, ".Peek")
				}
				if !nameSide {
					return 0
				}
				switch cmp.Op {
				case token.EQL:
					return 1
				case token.NEQ:
					return -1
				}
				return 0
			})
			c.Check(R, u.Key+"/OnRequest-only-on-the-requested-transport", cl.Pos(), same, "the transport is compared again at the hand-off")
		}
	}
	c.Need(R, "OnRequest hand-offs in HandleRequest", n, 1)
}

// jsonpNoBinary (C16.6b = C01.22) — fix 660910c.
func jsonpNoBinary(c *core.Ctx, R string) {
	c.Rule(R, "a JSONP response is a script: jsonp.Construct clears supportsBinary (SetSupportsBinary(false)) after the polling constructor, so revision-3 payloads are base64 text instead of bytes pushed through a JSON string")
	u := c.Fn(R, "transports.(*jsonp).Construct")
	if u == nil {
		return
	}
	g := u.Graph()
	var base, clr *core.Call
	for _, cl := range u.Calls() {
		if cl.Name == "Construct" {
			base = cl
		}
		if cl.Name == "SetSupportsBinary" {
			if v, ok := core.ConstBool(u.Info(), cl.Arg(0)); ok && !v {
				clr = cl
			}
		}
	}
	ok := base != nil && clr != nil && g.Dominates(base.Loc, clr.Loc)
	if ok {
		for _, r := range returnsIn(u) {
			ok = ok && g.Dominates(clr.Loc, r.Loc)
		}
	}
	c.Check(R, "transports.(*jsonp).Construct/SetSupportsBinary(false)-after-base-Construct", u.Pos(), ok, "no binary payload format on a script transport")
}

// wsLimitOnConn: the inflate bound travels with the connection (fix 56e5880):
// WebSocketConn.MaxPayload is written only by HandleUpgrade's callback, with
// Opts().MaxHttpBufferSize(), ahead of onWebSocket — i.e. before any transport
// (whose constructor starts the reader goroutine) exists.
func wsLimitOnConn(c *core.Ctx, R string) {
	n := 0
	writes := fieldAssignsAnywhere(c, "WebSocketConn.MaxPayload")
	for _, u := range c.P.Units {
		for _, a := range fieldInits(u, "WebSocketConn.MaxPayload") {
			writes = append(writes, UnitAssign{u, a})
		}
	}
	for _, ua := range writes {
		n++
		u := ua.U
		c.Touch(u)
		inUpgrade := strings.HasPrefix(u.Root().Key, "engine.(*server).HandleUpgrade")
		_, key := u.AsCall(ua.Rhs)
		fromOpt := strings.HasSuffix(key, ".MaxHttpBufferSize")
		before := false
		for _, cl := range u.Calls() {
			// (a keyed literal among the call's own arguments is evaluated before the call)
			if strings.HasSuffix(cl.Key, ".onWebSocket") && (u.Graph().Dominates(ua.Loc, cl.Loc) ||
				(ua.Rhs != nil && cl.Expr.Lparen < ua.Rhs.Pos() && ua.Rhs.End() <= cl.Expr.Rparen)) {
				before = true
			}
		}
		c.Check(R, keyf("%s/WebSocketConn.MaxPayload=Opts().MaxHttpBufferSize()≺onWebSocket", u.Key), ua.Stmt.Pos(), inUpgrade && fromOpt && before,
			keyf("written by HandleUpgrade: %v; from the server option: %v; before the connection is handed on: %v", inUpgrade, fromOpt, before))
	}
	c.Need(R, "writes of WebSocketConn.MaxPayload", n, 1)
}
