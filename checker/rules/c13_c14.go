package rules

import (
	"strings"
	"go/ast"
	"go/token"
	"go/types"

	"engcheck/core"
)

const (
	wtFlush  = "webtransport.(*messageWriter).flushFrame"
	wtWrite  = "webtransport.(*Conn).write"
	wtRead   = "webtransport.(*Conn).read"
	wtSetRem = "webtransport.(*Conn).setReadRemaining"
)

func init() {
	register("C13", func(c *core.Ctx, tier string) {
		lockBalance(c, "C13.12", "webtransport") // writeErrMu / PreparedMessage.mu: balanced on every path of the write side
		connWriteEffects(c, "C13.9")
		errPolarity(c, "C13.8", "webtransport")
		c13NoPartialFrames(c)
		c13WholePayload(c)
		c13CopyLoops(c)
		c13KindBit(c)
		wtPeekValidity(c, "C13.3b")
		headerBytesComplete(c, "C13.3c") // the header is decoded from n complete bytes however the stream is fragmented
		c14LengthForms(c)                // C13.4 = C14.1-3
		c13BufferOwnership(c)
		c13Prepared(c)
		c13CloseFlushes(c, "C13.6c")
		c13TransportUse(c)
		wtCandidateRevision(c, "C13.10")
		c01Kind(c, "C13.11") // the kind of every pre-encoded frame of a batch is decided per packet
	})
	register("C14", func(c *core.Ctx, tier string) {
		c14LengthForms(c)
		c14DecoderNoExtraRejection(c)
		wtPeekValidity(c, "C14.2c")
		headerBytesComplete(c, "C14.2d")
		c13NoPartialFrames(c) // C14.4: one frame per message
		c13WholePayload(c)
		c14WriteOnlyTwoBuffers(c)
		wtCandidateRevision(c, "C14.5")
		c13Prepared(c) // C14.6: the prepared path is one frame per message too
		c01Kind(c, "C14.7")
		c13KindBit(c)
	})
}

// C13.1 — no call of flushFrame may pass final=false.
func c13NoPartialFrames(c *core.Ctx) {
	const R = "C13.1"
	c.Rule(R, "every call site of (*messageWriter).flushFrame passes the constant final=true: the reader turns each frame into one message, so a non-final frame splits the message (and the continuation type 0 is encoded as the binary bit)")
	n := 0
	for _, cl := range callsAnywhere(c, wtFlush) {
		n++
		c.Touch(cl.U)
		c.Sites++
		v, isConst := core.ConstBool(cl.U.Info(), cl.Arg(0))
		key := keyf("%s/flushFrame(final=%s)", cl.U.Key, core.ExprString(cl.Arg(0)))
		switch {
		case !isConst:
			c.Violate(R, key, cl.Pos(), "final argument is not the constant true: a partial frame may be emitted")
		case !v:
			c.Violate(R, key, cl.Pos(), "flushFrame(false, …) emits a frame that is not the whole message; the peer reads it as a complete message and the rest as a second (binary) message")
		default:
			c.Check(R, key, cl.Pos(), true, "final=true")
		}
	}
	c.Need(R, "call sites of flushFrame", n, 2)
}

// C13.2 — the single frame carries the whole payload.
func c13WholePayload(c *core.Ctx) {
	const R = "C13.2"
	c.Rule(R, "in flushFrame the frame length is pos - maxFrameHeaderSize + len(extra) and the bytes handed to Conn.write are writeBuf[framePos:pos] followed by extra; WriteMessage's fast path passes the remaining suffix data[n:] after n := copy(writeBuf[pos:], data), pos += n")
	u := c.Fn(R, wtFlush)
	if u == nil {
		return
	}
	info := u.Info()
	// length definition
	var lengthDef ast.Expr
	for _, a := range assignsIn(u, func(l ast.Expr) bool { return isLocal(info, l, "length") }) {
		lengthDef = a.Rhs
	}
	extra := paramName(u, 1)
	if lengthDef == nil {
		c.Undecided(R, wtFlush+"/length", "unrecognised shape: no local `length` definition")
	} else {
		terms, k := linear(info, lengthDef)
		hdr, _ := pkgConstInt(c, "webtransport", "maxFrameHeaderSize")
		okPos, okLen := false, false
		for _, t := range terms {
			if t.Sign == 1 && fieldOf(info, t.E) == "messageWriter.pos" {
				okPos = true
			}
			if t.Sign == 1 {
				if ce, ok := ast.Unparen(t.E).(*ast.CallExpr); ok && len(ce.Args) == 1 {
					if id, ok := ce.Fun.(*ast.Ident); ok && id.Name == "len" && isLocal(info, ce.Args[0], extra) {
						okLen = true
					}
				}
			}
		}
		c.Check(R, wtFlush+"/length", lengthDef.Pos(), okPos && okLen && len(terms) == 2 && k == -hdr,
			keyf("length = %s (terms=%d, const=%d, header=%d)", core.ExprString(lengthDef), len(terms), k, hdr))
	}
	ws := u.CallsTo(wtWrite)
	if c.Need(R, "Conn.write call in flushFrame", len(ws), 1) {
		w := ws[0]
		ok := false
		detail := "unexpected buffer arguments"
		if se, isSlice := ast.Unparen(w.Arg(2)).(*ast.SliceExpr); isSlice && w.Arg(3) != nil {
			ok = fieldOf(info, se.X) == "Conn.writeBuf" && se.Low != nil && isLocal(info, se.Low, "framePos") &&
				se.High != nil && fieldOf(info, se.High) == "messageWriter.pos" && isLocal(info, w.Arg(3), extra)
			detail = keyf("write(buf0=%s, buf1=%s)", core.ExprString(w.Arg(2)), core.ExprString(w.Arg(3)))
		}
		c.Check(R, wtFlush+"/write(buf0,buf1)", w.Pos(), ok && len(ws) == 1, detail)
	}
	// WriteMessage fast path
	wm := c.Fn(R, "webtransport.(*Conn).WriteMessage")
	if wm == nil {
		return
	}
	winfo := wm.Info()
	dataName := paramName(wm, 1)
	for _, cl := range wm.CallsTo(wtFlush) {
		ok := isLocal(winfo, cl.Arg(1), dataName)
		// the only reassignment of data must be data = data[n:] with n := copy(writeBuf[mw.pos:], data)
		var sufOK, posOK bool
		reassigns := assignsIn(wm, func(l ast.Expr) bool { return isLocal(winfo, l, dataName) })
		for _, a := range reassigns {
			se, isSlice := ast.Unparen(a.Rhs).(*ast.SliceExpr)
			if !isSlice || !isLocal(winfo, se.X, dataName) || se.High != nil || se.Low == nil {
				continue
			}
			nDef := wm.Resolve(se.Low)
			if ce, isCall := ast.Unparen(nDef).(*ast.CallExpr); isCall {
				if id, isId := ce.Fun.(*ast.Ident); isId && id.Name == "copy" && len(ce.Args) == 2 && isLocal(winfo, ce.Args[1], dataName) {
					if dst, isSl := ast.Unparen(ce.Args[0]).(*ast.SliceExpr); isSl && fieldOf(winfo, dst.X) == "Conn.writeBuf" && dst.Low != nil && fieldOf(winfo, dst.Low) == "messageWriter.pos" {
						sufOK = wm.Graph().Dominates(a.Loc, cl.Loc)
					}
				}
			}
			// mw.pos += n
			for _, pa := range fieldAssigns(wm, "messageWriter.pos") {
				if pa.Tok == token.ADD_ASSIGN && pa.Rhs != nil && sameObj(winfo, pa.Rhs, se.Low) && wm.Graph().Dominates(pa.Loc, cl.Loc) {
					posOK = true
				}
			}
		}
		c.Check(R, "webtransport.(*Conn).WriteMessage/fast-path-suffix", cl.Pos(), ok && sufOK && posOK && len(reassigns) == 1,
			keyf("extra=%s suffix-after-copy=%v pos+=n=%v reassignments=%d", core.ExprString(cl.Arg(1)), sufOK, posOK, len(reassigns)))
	}
}

func paramName(u *core.Unit, i int) string {
	n := 0
	if u.Type == nil || u.Type.Params == nil {
		return ""
	}
	for _, f := range u.Type.Params.List {
		for _, nm := range f.Names {
			if n == i {
				return core.CanonIdent(u.Info(), nm)
			}
			n++
		}
	}
	return ""
}

func pkgConstInt(c *core.Ctx, pkg, name string) (int64, bool) {
	pk := c.P.Pkgs[pkg]
	if pk == nil {
		return 0, false
	}
	return lookupConstInt(pk.Types.Scope().Lookup(name))
}

// C13.3 — kind bit: writer and reader are mutual inverses on {Text, Binary}.
func c13KindBit(c *core.Ctx) {
	const R = "C13.3"
	c.Rule(R, "writer header bit b0 = (byte(type)-k)<<s and reader type = ((p[0]&m)>>s)+k with the same k and s, m == 1<<s == 0x80, TextMessage == k, BinaryMessage == k+1; beginMessage rejects every other type via isData before storing frameType")
	u := c.Fn(R, wtFlush)
	adv := c.Fn(R, "webtransport.(*Conn).advanceFrame")
	if u == nil || adv == nil {
		return
	}
	info := u.Info()
	text, _ := pkgConstInt(c, "webtransport", "TextMessage")
	bin, _ := pkgConstInt(c, "webtransport", "BinaryMessage")
	// writer
	var wk, ws int64 = -1, -1
	var wpos token.Pos
	for _, a := range assignsIn(u, func(l ast.Expr) bool { return isLocal(info, l, "b0") }) {
		if be, ok := ast.Unparen(a.Rhs).(*ast.BinaryExpr); ok && be.Op == token.SHL {
			if s, ok := core.ConstInt(info, be.Y); ok {
				if sub, ok := ast.Unparen(be.X).(*ast.BinaryExpr); ok && sub.Op == token.SUB {
					if k, ok := core.ConstInt(info, sub.Y); ok && fieldOf(info, stripConv(info, sub.X)) == "messageWriter.frameType" && (convTarget(info, sub.X) == "uint8" || convTarget(info, sub.X) == "byte") {
						wk, ws, wpos = k, s, a.Rhs.Pos()
					}
				}
			}
		}
	}
	// reader
	ainfo := adv.Info()
	var rk, rs, rm int64 = -1, -1, -1
	var rpos token.Pos
	for _, a := range assignsIn(adv, func(l ast.Expr) bool { return isLocal(ainfo, l, "frameType") }) {
		if add, ok := ast.Unparen(a.Rhs).(*ast.BinaryExpr); ok && add.Op == token.ADD {
			if k, ok := core.ConstInt(ainfo, add.Y); ok {
				if shr, ok := ast.Unparen(add.X).(*ast.BinaryExpr); ok && shr.Op == token.SHR {
					if s, ok := core.ConstInt(ainfo, shr.Y); ok {
						if and, ok := stripConv(ainfo, shr.X).(*ast.BinaryExpr); ok && and.Op == token.AND {
							if m, ok := core.ConstInt(ainfo, and.Y); ok {
								if ix, ok := ast.Unparen(and.X).(*ast.IndexExpr); ok {
									if i0, ok := core.ConstInt(ainfo, ix.Index); ok && i0 == 0 {
										rk, rs, rm, rpos = k, s, m, a.Rhs.Pos()
										// the byte inspected is the frame's first header byte: p is, on every path, the result of the c.read(1) that opens the frame
										hdr := false
										if d, ok := adv.SingleDef(ix.X); ok {
											if te, ok := d.(*core.TupleElem); ok && te.Index == 0 {
												if ce, ok := ast.Unparen(te.X).(*ast.CallExpr); ok && adv.CalleeKey(ce) == wtRead && len(ce.Args) == 1 {
													if n, ok := core.ConstInt(ainfo, ce.Args[0]); ok && n == 1 {
														hdr = true
													}
												}
											}
										}
										c.Check(R, "webtransport.(*Conn).advanceFrame/kind-from-header-byte", a.Rhs.Pos(), hdr, "the kind is taken from byte 0 of the c.read(1) result (the header byte), not from a later read (an extended-length byte)")
									}
								}
							}
						}
					}
				}
			}
		}
	}
	if wk < 0 {
		c.Undecided(R, wtFlush+"/b0", "unrecognised shape of the writer's kind-bit expression")
	}
	if rk < 0 {
		c.Undecided(R, "webtransport.(*Conn).advanceFrame/frameType", "unrecognised shape of the reader's kind expression")
	}
	if wk >= 0 && rk >= 0 {
		ok := wk == rk && ws == rs && ws == 7 && rm == 1<<uint(rs) && text == wk && bin == wk+1
		c.Check(R, "webtransport/kind-bit(writer↔reader)", wpos, ok,
			keyf("writer (type-%d)<<%d; reader ((b&%#x)>>%d)+%d; TextMessage=%d BinaryMessage=%d", wk, ws, rm, rs, rk, text, bin))
		_ = rpos
	}
	// beginMessage: isData guard precedes the store of frameType
	bm := c.Fn(R, "webtransport.(*Conn).beginMessage")
	if bm != nil {
		g := bm.Graph()
		guard := boolCallGuard(true, "webtransport.isData")
		n := 0
		for _, a := range fieldAssigns(bm, "messageWriter.frameType") {
			n++
			c.Check(R, "webtransport.(*Conn).beginMessage/isData-guards-frameType", a.Stmt.Pos(), g.GuardedBy(a.Loc, guard),
				"mw.frameType is stored only on the isData(messageType) edge")
		}
		c.Need(R, "store of mw.frameType in beginMessage", n, 1)
	}
	// isData accepts exactly Text and Binary
	id := c.Fn(R, "webtransport.isData")
	if id != nil {
		vals := map[int64]bool{}
		ast.Inspect(id.Body, func(n ast.Node) bool {
			if be, ok := n.(*ast.BinaryExpr); ok && be.Op == token.EQL {
				if v, ok := core.ConstInt(id.Info(), be.Y); ok {
					vals[v] = true
				}
			}
			return true
		})
		c.Check(R, "webtransport.isData/accepts{Text,Binary}", id.Pos(), len(vals) == 2 && vals[text] && vals[bin], keyf("accepted constants: %v", vals))
	}
}

// C14.1-3 — the three length forms of encoder and decoder.
func c14LengthForms(c *core.Ctx) {
	const RE, RD, RA = "C14.1", "C14.2", "C14.3"
	c.Rule(RE, "encoder form table in flushFrame: length>=65536 → marker 127 + PutUint64(big-endian) at framePos+1, framePos=0; 126<=length<65536 → marker 126 + PutUint16, framePos=6; else marker byte(length), framePos=8; framePos+headerLen == maxFrameHeaderSize on every arm")
	c.Rule(RD, "decoder form table in advanceFrame: read(1); length = b&0x7f; 126 → read(2)+BigEndian.Uint16; 127 → read(8)+BigEndian.Uint64; exactly these reads and nothing else before the payload")
	c.Rule(RA, "markers, widths and byte order of encoder and decoder coincide with the Engine.IO WebTransport framing table")
	u := c.Fn(RE, wtFlush)
	if u == nil {
		return
	}
	info := u.Info()
	g := u.Graph()
	hdr, _ := pkgConstInt(c, "webtransport", "maxFrameHeaderSize")

	// thresholds on `length`
	type thr struct {
		K  int64
		br core.Branch
		ge int
	}
	var thrs []thr
	for _, br := range g.Branches() {
		cmp, ok := u.BranchCmp(br)
		if !ok || !isLocal(info, cmp.X, "length") {
			continue
		}
		if K, ge, ok := cmpThreshold(cmp); ok {
			thrs = append(thrs, thr{K, br, ge})
		}
	}
	var t64k, t126 *thr
	for i := range thrs {
		switch thrs[i].K {
		case 65536:
			t64k = &thrs[i]
		case 126:
			t126 = &thrs[i]
		}
	}
	var ks []int64
	for _, t := range thrs {
		ks = append(ks, t.K)
	}
	c.Check(RE, wtFlush+"/thresholds", u.Pos(), t64k != nil && t126 != nil && len(thrs) == 2,
		keyf("length thresholds found (normalised to length>=K): %v, expected [65536 126]", ks))
	if t64k == nil || t126 == nil {
		return
	}
	armOf := func(l core.Loc) string {
		ge64 := g.EdgeDominates(t64k.br.B, t64k.ge, l)
		lt64 := g.EdgeDominates(t64k.br.B, 1-t64k.ge, l)
		ge126 := g.EdgeDominates(t126.br.B, t126.ge, l)
		lt126 := g.EdgeDominates(t126.br.B, 1-t126.ge, l)
		// 126 < 65536, so "below 126" implies "below 65536" and ">= 65536" implies ">= 126":
		// the outer arms need only their own threshold, whatever the order of the tests
		switch {
		case ge64:
			return "64bit"
		case lt126:
			return "7bit"
		case lt64 && ge126:
			return "16bit"
		}
		return ""
	}
	// framePos constant at a location
	fpAssigns := assignsIn(u, func(l ast.Expr) bool { return isLocal(info, l, "framePos") })
	framePosAt := func(l core.Loc) (int64, bool) {
		var v int64
		for _, a := range fpAssigns {
			if !(g.Dominates(a.Loc, l)) {
				if g.CanFollow(a.Loc, l) {
					return 0, false // conditional update reaching l
				}
				continue
			}
			k, ok := int64(0), false
			if a.Rhs != nil {
				k, ok = core.ConstInt(info, a.Rhs)
			}
			switch {
			case a.Tok == token.DEFINE || a.Tok == token.ASSIGN:
				if !ok {
					return 0, false
				}
				v = k
			case a.Tok == token.ADD_ASSIGN && ok:
				v += k
			default:
				return 0, false
			}
		}
		return v, true
	}
	want := map[string]struct {
		marker  int64
		fp      int64
		hlen    int64
		put     string
		convert string
	}{
		"64bit": {127, 0, 9, "encoding/binary.(bigEndian).PutUint64", "uint64"},
		"16bit": {126, 6, 3, "encoding/binary.(bigEndian).PutUint16", "uint16"},
		"7bit":  {0, 8, 1, "", ""},
	}
	seen := map[string]bool{}
	for _, a := range assignsIn(u, func(l ast.Expr) bool {
		ix, ok := ast.Unparen(l).(*ast.IndexExpr)
		return ok && fieldOf(info, ix.X) == "Conn.writeBuf"
	}) {
		arm := armOf(a.Loc)
		key := keyf("%s/arm[%s]", wtFlush, arm)
		if arm == "" {
			c.Violate(RE, wtFlush+"/header-byte-outside-arms", a.Stmt.Pos(), "a header byte is written outside the three length arms")
			continue
		}
		seen[arm] = true
		w := want[arm]
		ix := ast.Unparen(a.Lhs).(*ast.IndexExpr)
		fp, fpOK := framePosAt(a.Loc)
		k, rest := orChain(info, a.Rhs)
		hasB0, hasLen := false, false
		for _, r := range rest {
			if isLocal(info, r, "b0") {
				hasB0 = true
			}
			if isLocal(info, stripConv(info, r), "length") {
				hasLen = true
			}
		}
		ok := isLocal(info, ix.Index, "framePos") && fpOK && fp == w.fp && fp+w.hlen == hdr && k == w.marker && hasB0
		if arm == "7bit" {
			ok = ok && hasLen
		} else {
			ok = ok && !hasLen
		}
		c.Check(RE, key+"/marker", a.Stmt.Pos(), ok,
			keyf("marker const=%d (want %d) framePos=%d (want %d, valid=%v) header=%d+%d (want %d) kindbit=%v length-in-byte=%v", k, w.marker, fp, w.fp, fpOK, fp, w.hlen, hdr, hasB0, hasLen))
	}
	for _, arm := range []string{"64bit", "16bit", "7bit"} {
		c.Exists(RE, keyf("%s/arm[%s]/present", wtFlush, arm), u.Pos(), seen[arm], "header byte store found on this arm")
	}
	// length stores
	nput := 0
	for _, cl := range u.Calls() {
		if cl.Callee == nil || cl.Callee.Pkg() == nil || cl.Callee.Pkg().Path() != "encoding/binary" {
			continue
		}
		nput++
		arm := armOf(cl.Loc)
		w, known := want[arm]
		ok := known && w.put == cl.Key
		fp, fpOK := framePosAt(cl.Loc)
		// destination writeBuf[framePos+1:]
		dstOK := false
		if se, isSl := ast.Unparen(cl.Arg(0)).(*ast.SliceExpr); isSl && fieldOf(info, se.X) == "Conn.writeBuf" && se.Low != nil && se.High == nil {
			terms, k := linear(info, se.Low)
			dstOK = len(terms) == 1 && isLocal(info, terms[0].E, "framePos") && k == 1
		}
		valOK := cl.Arg(1) != nil && convTarget(info, cl.Arg(1)) == w.convert && isLocal(info, stripConv(info, cl.Arg(1)), "length")
		c.Check(RE, keyf("%s/arm[%s]/length-store", wtFlush, arm), cl.Pos(), ok && dstOK && valOK && fpOK && fp == w.fp,
			keyf("%s dst=%s val=%s framePos=%d", cl.Key, core.ExprString(cl.Arg(0)), core.ExprString(cl.Arg(1)), fp))
	}
	c.Check(RE, wtFlush+"/length-stores", u.Pos(), nput == 2, keyf("%d encoding/binary stores (want 2: PutUint64, PutUint16)", nput))

	// ---- decoder ----
	adv := c.Fn(RD, "webtransport.(*Conn).advanceFrame")
	if adv == nil {
		return
	}
	ai := adv.Info()
	ag := adv.Graph()
	reads := adv.CallsTo(wtRead)
	var sizes []int64
	for _, r := range reads {
		n, _ := core.ConstInt(ai, r.Arg(0))
		sizes = append(sizes, n)
	}
	c.Check(RD, "webtransport.(*Conn).advanceFrame/reads", adv.Pos(), len(sizes) == 3 && sizes[0] == 1 && sizes[1] == 2 && sizes[2] == 8,
		keyf("header reads: %v (want [1 2 8])", sizes))
	// switch arms on readRemaining
	var b126, b127 *core.Branch
	brs := ag.Branches()
	for i := range brs {
		cmp, ok := adv.BranchCmp(brs[i])
		if !ok || cmp.Op != token.EQL || fieldOf(ai, cmp.X) != "Conn.readRemaining" || cmp.Val == nil {
			continue
		}
		switch cmp.Val.String() {
		case "126":
			b126 = &brs[i]
		case "127":
			b127 = &brs[i]
		}
	}
	c.Check(RD, "webtransport.(*Conn).advanceFrame/markers", adv.Pos(), b126 != nil && b127 != nil, "extended-length markers 126 and 127 are dispatched on readRemaining")
	if len(reads) == 3 && b126 != nil && b127 != nil {
		c.Check(RD, "webtransport.(*Conn).advanceFrame/read(2)@126", reads[1].Pos(), ag.EdgeDominates(b126.B, 0, reads[1].Loc), "read(2) only on the 126 arm")
		c.Check(RD, "webtransport.(*Conn).advanceFrame/read(8)@127", reads[2].Pos(), ag.EdgeDominates(b127.B, 0, reads[2].Loc), "read(8) only on the 127 arm")
	}
	// setReadRemaining arguments
	sets := adv.CallsTo(wtSetRem)
	gotMask, got16, got64 := false, false, false
	for _, s := range sets {
		arg := stripConv(ai, s.Arg(0))
		if and, ok := arg.(*ast.BinaryExpr); ok && and.Op == token.AND {
			if m, ok := core.ConstInt(ai, and.Y); ok && m == 0x7f {
				gotMask = true
			}
			continue
		}
		if ce, ok := arg.(*ast.CallExpr); ok {
			switch adv.CalleeKey(ce) {
			case "encoding/binary.(bigEndian).Uint16":
				got16 = b126 != nil && ag.EdgeDominates(b126.B, 0, s.Loc)
			case "encoding/binary.(bigEndian).Uint64":
				got64 = b127 != nil && ag.EdgeDominates(b127.B, 0, s.Loc)
			}
		}
	}
	// exclusive dispatch: both marker tests look at the 7-bit field of the first byte — once an extended length
	// has been stored (setReadRemaining on an arm) no marker test may be evaluated again
	exclusive := b126 != nil && b127 != nil
	if exclusive {
		for _, s := range sets {
			for _, mb := range []*core.Branch{b126, b127} {
				cond := core.Loc{B: mb.B, I: len(mb.B.Nodes) - 1}
				onArm := ag.EdgeDominates(b126.B, 0, s.Loc) || ag.EdgeDominates(b127.B, 0, s.Loc)
				if onArm && ag.CanFollow(s.Loc, cond) {
					exclusive = false
				}
			}
		}
	}
	c.Check(RD, "webtransport.(*Conn).advanceFrame/exclusive-marker-dispatch", adv.Pos(), exclusive, "no marker test (126 / 127) is re-evaluated after an extended length has been stored: a 16-bit length of 127 must not be read as the 64-bit marker")
	c.Check(RD, "webtransport.(*Conn).advanceFrame/length-decoding", adv.Pos(), gotMask && got16 && got64 && len(sets) == 3,
		keyf("7-bit mask 0x7f=%v, BigEndian.Uint16@126=%v, BigEndian.Uint64@127=%v, setReadRemaining calls=%d", gotMask, got16, got64, len(sets)))
	c.Check(RA, "webtransport/encoder↔decoder-forms", u.Pos(), seen["64bit"] && seen["16bit"] && seen["7bit"] && gotMask && got16 && got64,
		"encoder arms {127+u64 BE, 126+u16 BE, 7-bit} and decoder arms agree with the protocol table")
}

// C14.2b — the decoder has no rejection other than error propagation and the limit.
func c14DecoderNoExtraRejection(c *core.Ctx) {
	const R = "C14.2b"
	c.Rule(R, "every `return noFrame, …` in advanceFrame is an error propagation (dominated by err != nil of a read/skip/setReadRemaining/close call) or one of the two read-limit rejections; so non-minimal length forms and zero-length frames are accepted")
	adv := c.Fn(R, "webtransport.(*Conn).advanceFrame")
	if adv == nil {
		return
	}
	ai := adv.Info()
	g := adv.Graph()
	noFrame, _ := pkgConstInt(c, "webtransport", "noFrame")
	errG := errNonNil(anyErr)
	limitG := func(u *core.Unit, br core.Branch) int {
		cmp, ok := u.BranchCmp(br)
		if !ok {
			return 0
		}
		if fieldOf(ai, cmp.X) == "Conn.readLength" && (cmp.Op == token.LSS || cmp.Op == token.GTR) {
			return 1
		}
		return 0
	}
	n := 0
	for _, r := range returnsIn(adv) {
		if len(r.Stmt.Results) != 2 {
			continue
		}
		v, ok := core.ConstInt(ai, r.Stmt.Results[0])
		if !ok || v != noFrame {
			continue
		}
		n++
		isErr := g.GuardedBy(r.Loc, errG)
		isLimit := g.GuardedBy(r.Loc, limitG)
		c.Check(R, keyf("webtransport.(*Conn).advanceFrame/return-noFrame#%d", n), r.Stmt.Pos(), isErr || isLimit,
			keyf("error-propagation=%v read-limit=%v", isErr, isLimit))
	}
	c.Need(R, "noFrame returns in advanceFrame", n, 5)
}

// C14.4b — Conn.write puts exactly buf0 then buf1 on the stream under the write mutex.
func c14WriteOnlyTwoBuffers(c *core.Ctx) {
	const R = "C14.4"
	c.Rule(R, "Conn.write sends buf0 alone (len(buf1)==0) or writeBufs(buf0, buf1) in that order, and nothing else, while holding the write-mutex token")
	u := c.Fn(R, wtWrite)
	if u == nil {
		return
	}
	info := u.Info()
	b0, b1 := paramName(u, 2), paramName(u, 3)
	nStream := 0
	ok := true
	for _, cl := range u.Calls() {
		switch {
		case cl.Name == "Write" && fieldOf(info, cl.Recv) == "Conn.stream":
			nStream++
			ok = ok && isLocal(info, cl.Arg(0), b0)
		case cl.Key == "webtransport.(*Conn).writeBufs":
			nStream++
			ok = ok && len(cl.Expr.Args) == 2 && isLocal(info, cl.Arg(0), b0) && isLocal(info, cl.Arg(1), b1)
		}
	}
	c.Check(R, wtWrite+"/stream-writes", u.Pos(), ok && nStream == 2, keyf("%d stream writes, arguments in order (buf0, buf1)=%v", nStream, ok))
	// mutex token taken first: first statement receives from c.mu
	first := false
	if len(u.Body.List) > 0 {
		if es, isE := u.Body.List[0].(*ast.ExprStmt); isE {
			if ue, isU := es.X.(*ast.UnaryExpr); isU && ue.Op == token.ARROW && fieldOf(info, ue.X) == "Conn.mu" {
				first = true
			}
		}
	}
	c.Check(R, wtWrite+"/mutex-token", u.Pos(), first, "the write-mutex token is received from c.mu before any stream write")
}

// C13.5 — buffer ownership and header room.
func c13BufferOwnership(c *core.Ctx) {
	const R = "C13.5"
	c.Rule(R, "header room exists for every configuration: beginMessage sets pos = maxFrameHeaderSize and (re)acquires writeBuf when nil; NewConn defaults non-positive sizes and adds maxFrameHeaderSize before allocating; endMessage releases the buffer only when a pool is configured")
	hdr, _ := pkgConstInt(c, "webtransport", "maxFrameHeaderSize")
	bm := c.Fn(R, "webtransport.(*Conn).beginMessage")
	if bm != nil {
		info := bm.Info()
		n := 0
		for _, a := range fieldAssigns(bm, "messageWriter.pos") {
			n++
			v, ok := core.ConstInt(info, a.Rhs)
			c.Check(R, "webtransport.(*Conn).beginMessage/pos=header", a.Stmt.Pos(), ok && v == hdr && a.Tok == token.ASSIGN, keyf("pos = %d (header %d)", v, hdr))
		}
		c.Need(R, "mw.pos store in beginMessage", n, 1)
		g := bm.Graph()
		nilG := nilGuard(false, func(u *core.Unit, x ast.Expr) bool { return fieldOf(u.Info(), x) == "Conn.writeBuf" })
		as := fieldAssigns(bm, "Conn.writeBuf")
		okAll := len(as) >= 1
		for _, a := range as {
			okAll = okAll && g.GuardedBy(a.Loc, nilG)
		}
		// every return nil (success) is reached with writeBuf non-nil: after the nil-guarded block both arms assign
		c.Check(R, "webtransport.(*Conn).beginMessage/reacquire-writeBuf", bm.Pos(), okAll && len(as) == 2,
			keyf("%d stores to c.writeBuf, all under `c.writeBuf == nil`", len(as)))
	}
	nc := c.Fn(R, "webtransport.NewConn")
	if nc != nil {
		info := nc.Info()
		g := nc.Graph()
		pn := paramName(nc, 4) // writeBufferSize
		as := assignsIn(nc, func(l ast.Expr) bool { return isLocal(info, l, pn) })
		var addHdr, deflt *Assign
		for i := range as {
			a := &as[i]
			if a.Tok == token.ADD_ASSIGN {
				if v, ok := core.ConstInt(info, a.Rhs); ok && v == hdr {
					addHdr = a
				}
			}
			if a.Tok == token.ASSIGN {
				if v, ok := core.ConstInt(info, a.Rhs); ok && v > 0 {
					deflt = a
				}
			}
		}
		ok := addHdr != nil && deflt != nil && g.CanFollow(deflt.Loc, addHdr.Loc)
		if ok {
			// default is under size <= 0
			ok = g.GuardedBy(deflt.Loc, func(u *core.Unit, br core.Branch) int {
				cmp, k := u.BranchCmp(br)
				if k && isLocal(info, cmp.X, pn) && cmp.Val != nil && (cmp.Op == token.LEQ || cmp.Op == token.LSS) {
					return 1
				}
				return 0
			})
		}
		// uses of the size after the addition
		usesOK := addHdr != nil
		nUses := 0
		if addHdr != nil {
			for _, cl := range nc.Calls() {
				if cl.Name == "make" && len(cl.Expr.Args) >= 2 && isLocal(info, cl.Arg(1), pn) {
					nUses++
					usesOK = usesOK && g.Dominates(addHdr.Loc, cl.Loc)
				}
			}
			ast.Inspect(nc.Body, func(n ast.Node) bool {
				if kv, isKV := n.(*ast.KeyValueExpr); isKV {
					if id, isID := kv.Key.(*ast.Ident); isID && id.Name == "writeBufSize" {
						nUses++
						usesOK = usesOK && isLocal(info, kv.Value, pn) && g.Dominates(addHdr.Loc, g.LocOf(kv))
					}
				}
				return true
			})
		}
		c.Check(R, "webtransport.NewConn/size+=header", nc.Pos(), ok && usesOK && nUses >= 2,
			keyf("default-on-nonpositive and += maxFrameHeaderSize precede %d uses (make, writeBufSize)", nUses))
	}
	em := c.Fn(R, "webtransport.(*messageWriter).endMessage")
	if em != nil {
		g := em.Graph()
		// PAIR(pool.Put, writeBuf = nil): a buffer handed back to the pool is no longer the connection's
		for _, cl := range em.Calls() {
			if cl.Name != "Put" || cl.Recv == nil || fieldOf(em.Info(), cl.Recv) != "Conn.writePool" {
				continue
			}
			dropped := false
			for _, a := range fieldAssigns(em, "Conn.writeBuf") {
				if core.IsNil(em.Info(), a.Rhs) && g.Dominates(cl.Loc, a.Loc) {
					dropped = true
					for _, r := range returnsIn(em) {
						if g.Dominates(cl.Loc, r.Loc) && !g.Dominates(a.Loc, r.Loc) {
							dropped = false
						}
					}
				}
			}
			c.Check(R, "webtransport.(*messageWriter).endMessage/Put⇒writeBuf=nil", cl.Pos(), dropped, "after returning the buffer to the pool the connection forgets it (otherwise two connections write into one buffer)")
		}
		poolG := nilGuard(true, func(u *core.Unit, x ast.Expr) bool { return fieldOf(u.Info(), x) == "Conn.writePool" })
		for _, a := range fieldAssigns(em, "Conn.writeBuf") {
			c.Check(R, "webtransport.(*messageWriter).endMessage/release-only-with-pool", a.Stmt.Pos(), g.GuardedBy(a.Loc, poolG),
				"c.writeBuf is dropped only when a pool will hand it back")
		}
	}
}

// C13.6 — prepared messages go through the single-frame fast path.
func c13Prepared(c *core.Ctx) {
	const R = "C13.6"
	c.Rule(R, "PreparedMessage.frame builds the cached bytes with Conn.WriteMessage inside sync.Once on a connection whose buffer has header room; NewPreparedMessage re-points data at its own copy; WritePreparedMessage writes exactly the cached frame")
	fr := c.Fn(R, "webtransport.(*PreparedMessage).frame")
	if fr != nil {
		n := 0
		for _, x := range fr.AllUnits() {
			for _, cl := range x.CallsTo("webtransport.(*Conn).WriteMessage") {
				n++
				// inside a closure passed to once.Do
				inOnce := false
				if x.Owner() != nil {
					for _, d := range x.Owner().CallsTo("sync.(*Once).Do") {
						if closureArg(x.Owner(), d, 0) == x {
							inOnce = true
						}
					}
				}
				okArgs := fieldOf(x.Info(), cl.Arg(0)) == "PreparedMessage.messageType" && fieldOf(x.Info(), cl.Arg(1)) == "PreparedMessage.data"
				c.Check(R, "webtransport.(*PreparedMessage).frame/WriteMessage-in-Once", cl.Pos(), inOnce && okArgs,
					keyf("inside once.Do=%v, arguments (pm.messageType, pm.data)=%v", inOnce, okArgs))
			}
		}
		c.Need(R, "WriteMessage call in PreparedMessage.frame", n, 1)
		// WriteMessage emits ONE frame only on its isServer fast path; the scratch connection the frame is built on
		// takes that flag from the key (NewPreparedMessage asks for isServer: true, WritePreparedMessage for the
		// connection's own flag) — left at its zero value every prepared payload above the write buffer is split
		fromKey := false
		for _, x := range fr.AllUnits() {
			ast.Inspect(x.Body, func(nd ast.Node) bool {
				lit, isL := nd.(*ast.CompositeLit)
				if !isL || core.TypeName(x.Info().TypeOf(lit)) != "Conn" {
					return true
				}
				for _, el := range lit.Elts {
					kv, isKV := el.(*ast.KeyValueExpr)
					if !isKV {
						continue
					}
					if id, isI := kv.Key.(*ast.Ident); isI && id.Name == "isServer" {
						if v, isC := core.ConstBool(x.Info(), kv.Value); (isC && v) || strings.HasSuffix(selPath(kv.Value), ".isServer") {
							fromKey = true
						}
					}
				}
				return true
			})
		}
		c.Check(R, "webtransport.(*PreparedMessage).frame/scratch-Conn.isServer-from-key", fr.Pos(), fromKey, "the connection the cached frame is written on has the server flag of the key (single-frame path of WriteMessage)")
		// what was written is what is cached and returned (mutation audit round 4): frame.data = the scratch connection's
		// buffer, after WriteMessage, inside the Once; the frame the Once belongs to exists on the cache-miss edge
		recorded := false
		for _, x := range fr.AllUnits() {
			wm := x.CallsTo("webtransport.(*Conn).WriteMessage")
			for _, a := range fieldAssigns(x, "preparedFrame.data") {
				ce, isC := ast.Unparen(a.Rhs).(*ast.CallExpr)
				if !isC || calleeNameOf(ce) != "Bytes" || len(wm) != 1 || !x.Graph().Dominates(wm[0].Loc, a.Loc) {
					continue
				}
				if se, isS := ce.Fun.(*ast.SelectorExpr); isS && fieldOf(x.Info(), se.X) == "prepareConn.buf" {
					recorded = true
				}
			}
		}
		c.Check(R, "webtransport.(*PreparedMessage).frame/cached-bytes=the-scratch-connection's-buffer-after-WriteMessage", fr.Pos(), recorded, "frame.data = nc.buf.Bytes() follows the WriteMessage on the scratch connection")
		g := fr.Graph()
		missing := func(x *core.Unit, br core.Branch) int {
			// the ok of `frame, ok := pm.frames[key]`
			e, sign := ast.Unparen(br.Cond), 1
			if br.IsCase {
				return 0
			}
			d, k := x.SingleDef(e)
			te, isT := d.(*core.TupleElem)
			if !k || !isT || te.Index != 1 {
				return 0
			}
			if ix, isIx := ast.Unparen(te.X).(*ast.IndexExpr); isIx && fieldOf(x.Info(), ix.X) == "PreparedMessage.frames" {
				return -sign // "missing" holds on the false edge of ok
			}
			return 0
		}
		alloc := false
		for _, a := range assignsIn(fr, func(l ast.Expr) bool { return isLocal(fr.Info(), l, "frame") }) {
			if ue, isU := ast.Unparen(a.Rhs).(*ast.UnaryExpr); isU && ue.Op == token.AND && g.GuardedBy(a.Loc, missing) {
				alloc = true
			}
		}
		c.Check(R, "webtransport.(*PreparedMessage).frame/frame-allocated-on-the-cache-miss-edge", fr.Pos(), alloc, "frame = &preparedFrame{} exactly where the map had none: on the other edge the Once is reached through a nil frame")
		retOK := false
		for _, r := range returnsIn(fr) {
			if len(r.Stmt.Results) == 3 && fieldOf(fr.Info(), r.Stmt.Results[0]) == "PreparedMessage.messageType" && fieldOf(fr.Info(), r.Stmt.Results[1]) == "preparedFrame.data" {
				retOK = true
			} else {
				retOK = false
				break
			}
		}
		c.Check(R, "webtransport.(*PreparedMessage).frame/returns(messageType,frame.data,err)", fr.Pos(), retOK, "the cached bytes and the message's own type are what the caller writes")
	}
	wp := c.Fn(R, "webtransport.(*Conn).WritePreparedMessage")
	if wp != nil {
		ws := wp.CallsTo(wtWrite)
		ok := len(ws) == 1
		if ok {
			def, key := wp.AsCall(ws[0].Arg(2))
			_ = def
			ok = key == "webtransport.(*PreparedMessage).frame" && core.IsNil(wp.Info(), ws[0].Arg(3))
		}
		c.Check(R, "webtransport.(*Conn).WritePreparedMessage/write(frameData,nil)", wp.Pos(), ok, "the cached frame bytes are written as buf0 with no second buffer")
	}
	np := c.Fn(R, "webtransport.NewPreparedMessage")
	if np != nil {
		as := fieldAssigns(np, "PreparedMessage.data")
		ok := false
		for _, a := range as {
			if se, isSl := ast.Unparen(a.Rhs).(*ast.SliceExpr); isSl {
				_, key := np.AsCall(se.X)
				ok = key == "webtransport.(*PreparedMessage).frame"
			}
		}
		c.Check(R, "webtransport.NewPreparedMessage/own-copy", np.Pos(), ok, "pm.data is re-pointed at a sub-slice of the prepared frame")
		// the tail of the eager frame is the payload copy only if that frame is ONE frame: only the isServer fast path of WriteMessage guarantees it
		okKey := false
		for _, cl := range np.CallsTo("webtransport.(*PreparedMessage).frame") {
			if lit, isL := ast.Unparen(cl.Arg(0)).(*ast.CompositeLit); isL {
				for _, el := range lit.Elts {
					if kv, isKV := el.(*ast.KeyValueExpr); isKV {
						if id, isI := kv.Key.(*ast.Ident); isI && id.Name == "isServer" {
							if v, isC := core.ConstBool(np.Info(), kv.Value); isC && v {
								okKey = true
							}
						}
					}
				}
			}
		}
		c.Check(R, "webtransport.NewPreparedMessage/eager-frame-is-the-server-frame", np.Pos(), okKey, "the frame whose tail becomes pm.data is built with prepareKey{isServer: true} — the single-frame path; a multi-frame rendering would leave interior frame headers inside pm.data (corrupted payload for every later rendering)")
	}
}

// C13.6c — closing a streaming writer always emits the final frame.
func c13CloseFlushes(c *core.Ctx, R string) {
	c.Rule(R, "messageWriter.Close emits the final frame whatever has been buffered: every return other than the sticky-error edge (w.err != nil) is the result of flushFrame(true, nil) — also when nothing was written (a zero-length message is one empty frame, not nothing: skipping it makes the peer read fewer messages than were written)")
	u := c.Fn(R, "webtransport.(*messageWriter).Close")
	if u == nil {
		return
	}
	g := u.Graph()
	info := u.Info()
	errEdge := nilGuard(true, func(x *core.Unit, e ast.Expr) bool { return fieldOf(x.Info(), e) == "messageWriter.err" })
	n := 0
	for _, r := range returnsIn(u) {
		if g.GuardedBy(r.Loc, errEdge) {
			continue
		}
		n++
		ok := false
		if len(r.Stmt.Results) == 1 {
			if ce, key := u.AsCall(r.Stmt.Results[0]); ce != nil && key == wtFlush && len(ce.Args) == 2 {
				if v, isC := core.ConstBool(info, ce.Args[0]); isC && v && core.IsNil(info, ce.Args[1]) {
					ok = true
				}
			}
		}
		c.Check(R, "webtransport.(*messageWriter).Close/returns-flushFrame(true,nil)", r.Stmt.Pos(), ok, "the final frame is flushed on this exit")
	}
	c.Need(R, "non-error exits of messageWriter.Close", n, 1)
}

// C13.7 — the transport obtains one writer per packet and closes it on all paths, under w.mu.
func c13TransportUse(c *core.Ctx) {
	const R = "C13.7"
	c.Rule(R, "transports.(*webTransport).write obtains one NextWriter per packet and a deferred closure closes it on every path; every call of write is under webTransport.mu")
	wr := c.Fn(R, "transports.(*webTransport).write")
	if wr == nil {
		return
	}
	nw := wr.CallsTo("webtransport.(*Conn).NextWriter")
	c.Check(R, "transports.(*webTransport).write/NextWriter", wr.Pos(), len(nw) == 1, keyf("%d NextWriter calls", len(nw)))
	closed := false
	g := wr.Graph()
	for _, k := range wr.Kids {
		for _, cl := range k.Calls() {
			if cl.Name == "Close" && cl.Recv != nil && isLocal(k.Info(), cl.Recv, "write") {
				// k must be the function of a defer statement that follows the NextWriter error return
				for _, d := range wr.Calls() {
					if d.Deferred && wr.Prog.LitUnit(litOf(d.Expr.Fun)) == k && len(nw) == 1 && g.Dominates(nw[0].Loc, d.Loc) {
						closed = true
						// every return after the defer is covered; returns before it happen only on NextWriter error
						for _, r := range returnsIn(wr) {
							if !g.Dominates(d.Loc, r.Loc) && !g.GuardedBy(r.Loc, errNonNil(anyErr)) {
								closed = false
							}
						}
					}
				}
			}
		}
	}
	c.Check(R, "transports.(*webTransport).write/deferred-Close", wr.Pos(), closed, "the writer is closed by a deferred closure registered right after it was obtained")
	for _, cl := range callsAnywhere(c, "transports.(*webTransport).write") {
		held := cl.U.Graph().HeldAt(cl.Loc)
		c.Check(R, keyf("%s/write-under-mu", cl.U.Key), cl.Pos(), held["webTransport.mu"], keyf("held=%v", keys(held)))
	}
}

func litOf(e ast.Expr) *ast.FuncLit {
	fl, _ := ast.Unparen(e).(*ast.FuncLit)
	return fl
}

func keys(m map[string]bool) []string {
	var out []string
	for k := range m {
		out = append(out, k)
	}
	sortStrings(out)
	return out
}

// C13.2b — the buffered write paths copy every input byte exactly once, in order.
func c13CopyLoops(c *core.Ctx) {
	const R = "C13.2b"
	c.Rule(R, "streaming copy loops (sibling agreement Write ∥ WriteString): the loop runs while len(p) > 0; each round takes n from ncopy(len(p)), copies p[:n] to writeBuf[pos:], then advances pos += n and p = p[n:] (copy first), and the function reports the original length; ncopy never returns more than its argument or than the room left; ReadFrom reads into writeBuf[pos:] and advances pos by the count read")
	for _, key := range []string{"webtransport.(*messageWriter).Write", "webtransport.(*messageWriter).WriteString"} {
		u := c.Fn(R, key)
		if u == nil {
			continue
		}
		info := u.Info()
		g := u.Graph()
		p := paramName(u, 0)
		var loop *ast.ForStmt
		ast.Inspect(u.Body, func(n ast.Node) bool {
			if fs, ok := n.(*ast.ForStmt); ok && loop == nil {
				loop = fs
			}
			return true
		})
		if loop == nil || loop.Cond == nil {
			c.Undecided(R, key+"/copy-loop", "unrecognised shape: no conditional for loop")
			continue
		}
		condOK := false
		if cmp, ok := u.BranchCmp(core.Branch{Cond: loop.Cond}); ok {
			if edge, isLen := lenPositive(cmp); isLen && edge == 0 {
				if ce, isC := ast.Unparen(cmp.X).(*ast.CallExpr); isC && len(ce.Args) == 1 && isLocal(info, ce.Args[0], p) {
					condOK = true
				}
			}
		}
		var nObj ast.Expr
		var ncopyLoc, copyLoc, posLoc, advLoc core.Loc
		ncopyOK, copyOK, posOK, advOK := false, false, false, false
		for _, cl := range u.CallsTo("webtransport.(*messageWriter).ncopy") {
			if ce, isC := ast.Unparen(cl.Arg(0)).(*ast.CallExpr); isC && len(ce.Args) == 1 && isLocal(info, ce.Args[0], p) {
				if id, isId := ce.Fun.(*ast.Ident); isId && id.Name == "len" {
					ncopyOK = true
					ncopyLoc = cl.Loc
				}
			}
		}
		// n is the first result of ncopy, used by pos += n
		for _, pa := range fieldAssigns(u, "messageWriter.pos") {
			if pa.Tok == token.ADD_ASSIGN && pa.Rhs != nil {
				if te, isT := u.Resolve(pa.Rhs).(*core.TupleElem); isT && te.Index == 0 {
					if _, k := u.AsCall(te.X); k == "webtransport.(*messageWriter).ncopy" {
						posOK = true
						posLoc = pa.Loc
						nObj = pa.Rhs
					}
				}
			}
		}
		ast.Inspect(loop.Body, func(n ast.Node) bool {
			ce, isC := n.(*ast.CallExpr)
			if !isC || nObj == nil {
				return true
			}
			if id, isId := ce.Fun.(*ast.Ident); isId && id.Name == "copy" && len(ce.Args) == 2 {
				dst, isD := ast.Unparen(ce.Args[0]).(*ast.SliceExpr)
				if !isD || fieldOf(info, dst.X) != "Conn.writeBuf" || dst.Low == nil || dst.High != nil || fieldOf(info, dst.Low) != "messageWriter.pos" {
					return true
				}
				// source: p[:n], or p itself (copy clamps to the room, which is what n is)
				src := ast.Unparen(ce.Args[1])
				if se, isS := src.(*ast.SliceExpr); isS {
					if isLocal(info, se.X, p) && se.Low == nil && se.High != nil && sameObj(info, se.High, nObj) {
						copyOK = true
					}
				} else if isLocal(info, src, p) {
					copyOK = true
				}
				if copyOK {
					copyLoc = g.LocOf(ce)
				}
			}
			return true
		})
		if nObj != nil {
			for _, a := range assignsIn(u, func(l ast.Expr) bool { return isLocal(info, l, p) }) {
				if se, isS := ast.Unparen(a.Rhs).(*ast.SliceExpr); isS && isLocal(info, se.X, p) && se.High == nil && se.Low != nil && sameObj(info, se.Low, nObj) {
					advOK = true
					advLoc = a.Loc
				} else {
					advOK = false
					break
				}
			}
		}
		order := ncopyOK && copyOK && posOK && advOK && g.Dominates(ncopyLoc, copyLoc) && g.Dominates(copyLoc, posLoc) && g.Dominates(copyLoc, advLoc)
		// the reported count is the original length
		retOK := false
		for _, r := range returnsIn(u) {
			if len(r.Stmt.Results) == 2 && core.IsNil(info, r.Stmt.Results[1]) && copyOK && g.CanFollow(copyLoc, r.Loc) {
				d := u.Resolve(r.Stmt.Results[0])
				if ce, isC := ast.Unparen(d).(*ast.CallExpr); isC && len(ce.Args) == 1 && isLocal(info, ce.Args[0], p) {
					if id, isId := ce.Fun.(*ast.Ident); isId && id.Name == "len" {
						// defined before the loop consumed p
						retOK = !advOK || !g.CanFollow(advLoc, g.LocOf(d))
					}
				}
			}
		}
		c.Check(R, key+"/copy-loop", loop.Pos(), condOK && order && retOK,
			keyf("while len(%s)>0: %v; n:=ncopy(len(%s)): %v; copy(writeBuf[pos:], %s[:n]): %v; pos+=n: %v; %s=%s[n:]: %v; copy first: %v; returns original length: %v", p, condOK, p, ncopyOK, p, copyOK, posOK, p, p, advOK, order, retOK))
	}
	// ncopy: n = len(writeBuf) - pos, clamped to max, never more
	if u := c.Fn(R, "webtransport.(*messageWriter).ncopy"); u != nil {
		info := u.Info()
		g := u.Graph()
		max := paramName(u, 0)
		roomOK, clampOK := true, false
		nDefs := assignsIn(u, func(l ast.Expr) bool { return isLocal(info, l, "n") })
		for _, a := range nDefs {
			if isLocal(info, a.Rhs, max) {
				// n = max must be on the n > max edge
				clampOK = g.GuardedBy(a.Loc, func(x *core.Unit, br core.Branch) int {
					cmp, ok := x.BranchCmp(br)
					if !ok {
						return 0
					}
					if isLocal(info, cmp.X, "n") && isLocal(info, cmp.Y, max) && (cmp.Op == token.GTR || cmp.Op == token.GEQ) {
						return 1
					}
					return 0
				})
				continue
			}
			terms, k := linear(info, a.Rhs)
			ok := len(terms) == 2 && k == 0
			for _, t := range terms {
				switch {
				case t.Sign == 1:
					ce, isC := ast.Unparen(t.E).(*ast.CallExpr)
					ok = ok && isC && len(ce.Args) == 1 && fieldOf(info, ce.Args[0]) == "Conn.writeBuf"
				case t.Sign == -1:
					ok = ok && fieldOf(info, t.E) == "messageWriter.pos"
				}
			}
			roomOK = roomOK && ok
		}
		retN := false
		for _, r := range returnsIn(u) {
			if len(r.Stmt.Results) == 2 && core.IsNil(info, r.Stmt.Results[1]) {
				retN = isLocal(info, r.Stmt.Results[0], "n")
				if ce, isC := ast.Unparen(r.Stmt.Results[0]).(*ast.CallExpr); isC && len(ce.Args) == 2 {
					if id, isId := ce.Fun.(*ast.Ident); isId && id.Name == "min" && info.Uses[id] == types.Universe.Lookup("min") {
						a, b := ce.Args[0], ce.Args[1]
						if (isLocal(info, a, "n") && isLocal(info, b, max)) || (isLocal(info, b, "n") && isLocal(info, a, max)) {
							retN, clampOK = true, true
						}
					}
				}
			}
		}
		c.Check(R, "webtransport.(*messageWriter).ncopy/room-clamped", u.Pos(), len(nDefs) >= 2 && roomOK && clampOK && retN,
			keyf("n = len(writeBuf) - pos at every definition: %v; n = max only on the n > max edge: %v; returns n: %v", roomOK, clampOK, retN))
	}
	// ReadFrom: r.Read(writeBuf[pos:]) then pos += n
	if u := c.Fn(R, "webtransport.(*messageWriter).ReadFrom"); u != nil {
		info := u.Info()
		g := u.Graph()
		ok := false
		for _, cl := range u.Calls() {
			if cl.Name != "Read" || len(cl.Expr.Args) != 1 {
				continue
			}
			dst, isD := ast.Unparen(cl.Arg(0)).(*ast.SliceExpr)
			if !isD || fieldOf(info, dst.X) != "Conn.writeBuf" || dst.Low == nil || dst.High != nil || fieldOf(info, dst.Low) != "messageWriter.pos" {
				continue
			}
			for _, pa := range fieldAssigns(u, "messageWriter.pos") {
				if pa.Tok == token.ADD_ASSIGN && pa.Rhs != nil && g.Dominates(cl.Loc, pa.Loc) {
					if te, isT := u.Resolve(pa.Rhs).(*core.TupleElem); isT && te.Index == 0 && ast.Unparen(te.X) == ast.Node(cl.Expr) {
						// counted on every path, also when the read returns data together with an error (io.EOF)
						paLoc, clLoc := pa.Loc, cl.Loc
						skip := g.Reach(g.After(clLoc), func(s core.State) bool { return core.IsExitState(s) || (s.B == clLoc.B && s.I == clLoc.I) },
							func(s core.State) bool { return s.B == paLoc.B && s.I == paLoc.I }, nil)
						ok = !skip
					}
				}
			}
		}
		c.Check(R, "webtransport.(*messageWriter).ReadFrom/read-into-room", u.Pos(), ok, "n, err = r.Read(writeBuf[pos:]); pos += n on every path (bytes returned together with io.EOF count)")
	}
}
