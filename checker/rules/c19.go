package rules

import (
	"go/ast"
	"go/token"
	"go/types"
	"strings"

	"engcheck/core"
)

const (
	setTimeoutKey  = "utils.SetTimeout"
	setIntervalKey = "utils.SetInterval"
	clearTOKey     = "utils.ClearTimeout"
	clearIVKey     = "utils.ClearInterval"
	timerStopKey   = "utils.(*Timer).Stop"
)

func init() {
	register("C19", func(c *core.Ctx, tier string) {
		c19Protocol(c)
		c19Cancelled(c, "C19.5")
		upgradeAttemptConcludedOnce(c, "C19.6")
		c19RefreshOnlyLive(c, "C19.7")
		c19AtomicDeadlineReplace(c, "C19.8")
		c19LoopStop(c)
		c19Pairing(c)
		c19WhoClears(c)
		c19HolderWrites(c, "C19.3c")
		c19RuntimeTimerOps(c)
		timerNilSafe(c, "C19.4")
	})
}

// selectArms describes the select statement of a timer goroutine body.
type selectArm struct {
	Clause *ast.CommClause
	Chan   string // "C" (timer channel), "stop" (stopCh), "other"
}

func timerSelect(u *core.Unit) (sel *ast.SelectStmt, arms []selectArm, inLoop bool) {
	info := u.Info()
	var loops []ast.Node
	ast.Inspect(u.Body, func(n ast.Node) bool {
		switch x := n.(type) {
		case *ast.FuncLit:
			return false
		case *ast.ForStmt, *ast.RangeStmt:
			loops = append(loops, x)
		case *ast.SelectStmt:
			if sel == nil {
				sel = x
			}
		}
		return true
	})
	if sel == nil {
		return
	}
	for _, l := range loops {
		if l.Pos() <= sel.Pos() && sel.End() <= l.End() {
			inLoop = true
		}
	}
	for _, cc := range sel.Body.List {
		cl := cc.(*ast.CommClause)
		a := selectArm{Clause: cl, Chan: "other"}
		var recv ast.Expr
		switch s := cl.Comm.(type) {
		case *ast.ExprStmt:
			if ue, ok := ast.Unparen(s.X).(*ast.UnaryExpr); ok && ue.Op == token.ARROW {
				recv = ue.X
			}
		case *ast.AssignStmt:
			if len(s.Rhs) == 1 {
				if ue, ok := ast.Unparen(s.Rhs[0]).(*ast.UnaryExpr); ok && ue.Op == token.ARROW {
					recv = ue.X
				}
			}
		}
		if recv != nil {
			if fieldOf(info, recv) == "Timer.stopCh" {
				a.Chan = "stop"
			} else if se, ok := ast.Unparen(recv).(*ast.SelectorExpr); ok && se.Sel.Name == "C" && fieldOf(info, se.X) == "Timer.timer" {
				a.Chan = "C"
			}
		}
		arms = append(arms, a)
	}
	return
}

// callsOfParam counts calls of the function parameter named pn inside node n
// (plain, go, in nested literals too).
func callsOfParam(u *core.Unit, n ast.Node, pn string) (plain, gos int) {
	info := u.Info()
	ast.Inspect(n, func(x ast.Node) bool {
		switch s := x.(type) {
		case *ast.GoStmt:
			if isLocal(info, s.Call.Fun, pn) {
				gos++
				return false
			}
		case *ast.CallExpr:
			if isLocal(info, s.Fun, pn) {
				plain++
			}
		}
		return true
	})
	return
}

func c19Protocol(c *core.Ctx) {
	const R = "C19.1"
	c.Rule(R, "timer protocol table (utils/timer.go): SetTimeout's goroutine calls fn exactly once on the <-timer.C arm and never on the <-stopCh arm, no loop; SetInterval's goroutine re-arms (timer.Reset(sleep)) before `go fn()` on the tick arm and returns on the stop arm; Stop signals on the timer.Stop()==true edge; Refresh restarts the goroutine exactly on the timer.Stop()==false edge and resets the timer on every path; ClearTimeout/ClearInterval nil-guard and delegate to Stop")
	for _, ctor := range []string{setTimeoutKey, setIntervalKey} {
		u := c.Fn(R, ctor)
		if u == nil {
			continue
		}
		body := c.KidOf(R, u, "fn")
		if body == nil {
			continue
		}
		fnParam := paramName(u, 0)
		sel, arms, inLoop := timerSelect(body)
		if sel == nil {
			c.Violate(R, ctor+"$fn/select", body.Pos(), "timer goroutine has no select on timer.C / stopCh")
			continue
		}
		var cArm, sArm *selectArm
		for i := range arms {
			switch arms[i].Chan {
			case "C":
				cArm = &arms[i]
			case "stop":
				sArm = &arms[i]
			}
		}
		c.Check(R, ctor+"$fn/select-arms", sel.Pos(), cArm != nil && sArm != nil && len(arms) == 2, keyf("%d arms; tick arm=%v stop arm=%v", len(arms), cArm != nil, sArm != nil))
		// a waiter always waits: the goroutine that Refresh (re)starts must reach the select on every path — an early exit
		// (a "someone else is already waiting" test) leaves a re-armed runtime timer with nobody listening: the callback is
		// lost and a later Stop blocks forever on stopCh
		early := 0
		for _, r := range returnsIn(body) {
			if r.Stmt.Pos() < sel.Pos() {
				early++
			}
		}
		c.Check(R, ctor+"$fn/waiter-always-reaches-select", sel.Pos(), early == 0, keyf("%d return(s) ahead of the select of the timer goroutine", early))
		if cArm == nil || sArm == nil {
			continue
		}
		p, g := callsOfParam(body, cArm.Clause, fnParam)
		sp, sg := callsOfParam(body, sArm.Clause, fnParam)
		c.Check(R, ctor+"$fn/stop-arm-silent", sArm.Clause.Pos(), sp+sg == 0 && armEndsGoroutine(body, sel, *sArm, inLoop), "the stop arm returns without calling the callback")
		if ctor == setTimeoutKey {
			c.Check(R, ctor+"$fn/fires-once", cArm.Clause.Pos(), p+g == 1 && !inLoop, keyf("callback invocations on the tick arm=%d, select in a loop=%v", p+g, inLoop))
		} else {
			// re-arm before go fn()
			rearm := false
			var resetPos, goPos token.Pos
			ast.Inspect(cArm.Clause, func(x ast.Node) bool {
				switch s := x.(type) {
				case *ast.CallExpr:
					if se, ok := s.Fun.(*ast.SelectorExpr); ok && se.Sel.Name == "Reset" && fieldOf(body.Info(), se.X) == "Timer.timer" && len(s.Args) == 1 && fieldOf(body.Info(), s.Args[0]) == "Timer.sleep" {
						resetPos = s.Pos()
					}
				case *ast.GoStmt:
					if isLocal(body.Info(), s.Call.Fun, fnParam) {
						goPos = s.Pos()
					}
				}
				return true
			})
			rearm = resetPos.IsValid() && goPos.IsValid() && resetPos < goPos
			c.Check(R, ctor+"$fn/rearm-then-run", cArm.Clause.Pos(), rearm && inLoop && p+g == 1, keyf("Reset(sleep) before go fn(): %v; loops: %v; callback starts per tick: %d", rearm, inLoop, p+g))
		}
		// the constructor starts exactly one goroutine running timer.fn
		started := 0
		for _, cl := range u.Calls() {
			if cl.Go && fieldOf(u.Info(), cl.Expr.Fun) == "Timer.fn" {
				started++
			}
		}
		c.Check(R, ctor+"/starts-goroutine-once", u.Pos(), started == 1, keyf("%d `go timer.fn()`", started))
	}
	// Stop polarity
	if st := c.Fn(R, timerStopKey); st != nil {
		g := st.Graph()
		info := st.Info()
		stopTrue := func(u *core.Unit, br core.Branch) int {
			ce, ok := ast.Unparen(u.Deep(br.Cond)).(*ast.CallExpr) // `pending := t.timer.Stop(); if pending` is the same test
			if !ok {
				return 0
			}
			if se, ok := ce.Fun.(*ast.SelectorExpr); ok && se.Sel.Name == "Stop" && fieldOf(u.Info(), se.X) == "Timer.timer" {
				return 1
			}
			return 0
		}
		n := 0
		ast.Inspect(st.Body, func(x ast.Node) bool {
			var loc core.Loc
			var pos token.Pos
			switch s := x.(type) {
			case *ast.SendStmt:
				if fieldOf(info, s.Chan) == "Timer.stopCh" {
					loc, pos = g.LocOf(s), s.Pos()
				}
			case *ast.CallExpr:
				if id, ok := s.Fun.(*ast.Ident); ok && id.Name == "close" && len(s.Args) == 1 && fieldOf(info, s.Args[0]) == "Timer.stopCh" {
					loc, pos = g.LocOf(s), s.Pos()
				}
			}
			if loc.Valid() {
				// the signal must be delivered: a send inside a select with a default arm can be dropped, which leaves the
				// waiting goroutine parked forever on a stopped timer
				droppable := false
				ast.Inspect(st.Body, func(y ast.Node) bool {
					sel, isSel := y.(*ast.SelectStmt)
					if !isSel || !(sel.Pos() <= pos && pos <= sel.End()) {
						return true
					}
					for _, cc := range sel.Body.List {
						if cc.(*ast.CommClause).Comm == nil {
							droppable = true
						}
					}
					return true
				})
				c.Check(R, timerStopKey+"/signal-is-blocking", pos, !droppable, "the stop signal is a blocking send or a close, never a select with default (a dropped signal leaks the timer goroutine)")
				n++
				// signalling on the Stop()==false edge would block forever (nobody is receiving) or double-signal
				wrong := g.GuardedBy(loc, func(u *core.Unit, br core.Branch) int { return -stopTrue(u, br) })
				c.Check(R, timerStopKey+"/signal-polarity", pos, !wrong, "the stop signal is not sent on the timer.Stop()==false edge")
			}
			return true
		})
		c.Need(R, "stop signal in Timer.Stop", n, 1)
	}
	// the stop channel is reused by Refresh (the re-spawned waiter selects on the same channel): closing it anywhere but in
	// the unreachable-object cleanup makes every later waiter return at once, so a refreshed timer never fires again
	remade := false
	if rf := c.P.Func("utils.(*Timer).Refresh"); rf != nil {
		remade = len(fieldAssigns(rf, "Timer.stopCh")) > 0
	}
	for _, u := range c.P.Units {
		if u.Pkg != c.P.Pkgs["utils"] {
			continue
		}
		uinfo := u.Info()
		ast.Inspect(u.Body, func(x ast.Node) bool {
			if fl, isLit := x.(*ast.FuncLit); isLit && fl.Body != u.Body {
				return false
			}
			ce, isC := x.(*ast.CallExpr)
			if !isC {
				return true
			}
			if id, ok := ce.Fun.(*ast.Ident); ok && id.Name == "close" && len(ce.Args) == 1 && fieldOf(uinfo, ce.Args[0]) == "Timer.stopCh" {
				okSite := strings.HasPrefix(u.Key, "utils.(*Timer).Unref") || remade
				c.Check(R, keyf("%s/close(stopCh)", u.Key), ce.Pos(), okSite, "Timer.stopCh is closed only by the unreachable-object cleanup (Refresh re-uses the channel for the next waiter)")
			}
			return true
		})
	}
	// Refresh polarity
	if rf := c.Fn(R, "utils.(*Timer).Refresh"); rf != nil {
		g := rf.Graph()
		info := rf.Info()
		stopFalse := func(u *core.Unit, br core.Branch) int {
			ce, ok := ast.Unparen(u.Deep(br.Cond)).(*ast.CallExpr) // also through a local that received the result
			if !ok {
				return 0
			}
			if se, ok := ce.Fun.(*ast.SelectorExpr); ok && se.Sel.Name == "Stop" && fieldOf(u.Info(), se.X) == "Timer.timer" {
				return -1
			}
			return 0
		}
		restarts, resets := 0, 0
		okRestart, okReset := true, false
		notCancelled := timerCancelledIs(false)
		// the facts that may license an action of Refresh: the fired test and "not cancelled" (fix 738a64c)
		onlyLicensed := func(loc core.Loc, alsoFired bool) bool {
			for _, f := range g.Facts() {
				if !g.EdgeDominates(f.Br.B, f.Edge, loc) {
					continue
				}
				if notCancelled(rf, f.Br) != 0 || (alsoFired && stopFalse(rf, f.Br) != 0) {
					continue
				}
				return false
			}
			return true
		}
		for _, cl := range rf.Calls() {
			if cl.Go && fieldOf(info, cl.Expr.Fun) == "Timer.fn" {
				restarts++
				okRestart = okRestart && g.GuardedBy(cl.Loc, stopFalse)
				// exactly on that edge: no further condition (a fired timer whose callback is still running, or any
				// other state, must not suppress the new waiter — the re-armed runtime timer would tick with nobody
				// listening and a later Stop would block on the signal); a cancelled timer is the one exception:
				// it is not refreshed at all
				okRestart = okRestart && onlyLicensed(cl.Loc, true)
			}
			if cl.Name == "Reset" && cl.Recv != nil && fieldOf(info, cl.Recv) == "Timer.timer" && fieldOf(info, cl.Arg(0)) == "Timer.sleep" {
				resets++
				// on every path of a timer that was not cancelled: the only returns the Reset does not cover are on
				// the cancelled edge, and nothing but "not cancelled" licenses it
				okReset = onlyLicensed(cl.Loc, false)
				for _, r := range returnsIn(rf) {
					if !g.Dominates(cl.Loc, r.Loc) && !g.GuardedBy(r.Loc, timerCancelledIs(true)) {
						okReset = false
					}
				}
			}
		}
		c.Check(R, "utils.(*Timer).Refresh/restart-on-fired", rf.Pos(), restarts == 1 && okRestart, keyf("%d goroutine restart(s), exactly on the timer.Stop()==false edge of a timer that is not cancelled: %v", restarts, okRestart))
		c.Check(R, "utils.(*Timer).Refresh/reset-always", rf.Pos(), resets == 1 && okReset, keyf("%d timer.Reset(sleep), on every path of a timer that is not cancelled: %v", resets, okReset))
	}
	// ClearTimeout / ClearInterval
	if ct := c.Fn(R, clearTOKey); ct != nil {
		g := ct.Graph()
		pn := paramName(ct, 0)
		ok := false
		for _, cl := range ct.CallsTo(timerStopKey) {
			ok = g.GuardedBy(cl.Loc, nilGuard(true, func(u *core.Unit, x ast.Expr) bool { return isLocal(u.Info(), x, pn) }))
		}
		c.Check(R, clearTOKey+"/nil-guard→Stop", ct.Pos(), ok, "ClearTimeout(nil) is a no-op; otherwise Stop")
	}
	if ci := c.Fn(R, clearIVKey); ci != nil {
		ok := len(ci.CallsTo(clearTOKey, timerStopKey)) >= 1
		c.Check(R, clearIVKey+"/delegates", ci.Pos(), ok, "ClearInterval delegates to ClearTimeout/Stop")
	}
}

func endsWithReturn(body []ast.Stmt) bool {
	if len(body) == 0 {
		return false
	}
	_, ok := body[len(body)-1].(*ast.ReturnStmt)
	return ok
}

// armEndsGoroutine: the select arm ends the goroutine — with an explicit
// return, or because the select is the last statement of the function body and
// not inside a loop (falling out of it ends the function the same way).
func armEndsGoroutine(u *core.Unit, sel *ast.SelectStmt, arm selectArm, inLoop bool) bool {
	if endsWithReturn(arm.Clause.Body) {
		return true
	}
	if inLoop || sel == nil {
		return false
	}
	for _, st := range arm.Clause.Body {
		switch st.(type) {
		case *ast.BranchStmt, *ast.GoStmt:
			return false
		}
	}
	body := u.Body
	return body != nil && len(body.List) > 0 && body.List[len(body.List)-1] == ast.Stmt(sel)
}

// C19.2 — a looping timer goroutine needs an unconditional stop signal.
func c19LoopStop(c *core.Ctx) {
	const R = "C19.2"
	c.Rule(R, "every timer goroutine has a stop arm that returns; and if a constructor's goroutine loops through its select, Timer.Stop must perform its stop action on every path — not only when timer.Stop() reports a pending timer — otherwise a Stop landing between a tick and the re-arm signals nothing and the loop re-arms forever")
	st := c.Fn(R, timerStopKey)
	if st == nil {
		return
	}
	g := st.Graph()
	info := st.Info()
	// is the stop action conditional?
	conditional := true
	ast.Inspect(st.Body, func(x ast.Node) bool {
		var loc core.Loc
		switch s := x.(type) {
		case *ast.SendStmt:
			if fieldOf(info, s.Chan) == "Timer.stopCh" {
				loc = g.LocOf(s)
			}
		case *ast.CallExpr:
			if id, ok := s.Fun.(*ast.Ident); ok && id.Name == "close" && len(s.Args) == 1 && fieldOf(info, s.Args[0]) == "Timer.stopCh" {
				loc = g.LocOf(s)
			}
		}
		if loc.Valid() {
			uncond := true
			for _, r := range returnsIn(st) {
				if !g.Dominates(loc, r.Loc) {
					uncond = false
				}
			}
			if uncond {
				conditional = false
			}
		}
		return true
	})
	for _, ctor := range []string{setTimeoutKey, setIntervalKey} {
		u := c.Fn(R, ctor)
		if u == nil {
			continue
		}
		body := c.KidOf(R, u, "fn")
		if body == nil {
			continue
		}
		sel, arms, inLoop := timerSelect(body)
		hasExit := false
		for _, a := range arms {
			if a.Chan == "stop" && armEndsGoroutine(body, sel, a, inLoop) {
				hasExit = true
			}
		}
		c.Check(R, ctor+"$fn/exit-edge", body.Pos(), hasExit, "the goroutine has an exit edge from its wait point")
		if inLoop {
			// either the signal is unconditional, or Stop leaves a record on every path that the loop consults before it
			// re-arms (the cancelled flag, fix 738a64c; its discipline is rule C19.5)
			flag := false
			for _, a := range fieldAssigns(st, "Timer.cancelled") {
				every := true
				for _, r := range returnsIn(st) {
					every = every && (g.Dominates(a.Loc, r.Loc) || g.GuardedBy(r.Loc, timerCancelledIs(true)))
				}
				flag = flag || every
			}
			consulted := false
			for _, cl := range body.Calls() {
				if cl.Name == "Reset" && cl.Recv != nil && fieldOf(body.Info(), cl.Recv) == "Timer.timer" {
					consulted = body.Graph().GuardedBy(cl.Loc, timerCancelledIs(false))
				}
			}
			c.Check(R, keyf("utils.(*Timer).Stop/conditional-signal×%s$fn(loop)", ctor), st.Pos(), !conditional || (flag && consulted),
				"Timer.Stop signals only when timer.Stop() reports a pending timer, but this goroutine loops: unless Stop records the cancellation on every path and the loop consults the record before re-arming, a Stop between tick and re-arm is lost and the interval keeps ticking")
		}
	}
}

// timerHolderName: the holder of an expression like X.Load() / X where X is
// an atomic.Pointer[utils.Timer] field or local.
func timerHolder(info *types.Info, e ast.Expr) string {
	e = ast.Unparen(e)
	if ce, ok := e.(*ast.CallExpr); ok {
		if se, ok := ce.Fun.(*ast.SelectorExpr); ok && (se.Sel.Name == "Load" || se.Sel.Name == "Store" || se.Sel.Name == "Swap") {
			e = se.X
		}
	}
	if f := fieldOf(info, e); f != "" {
		return f
	}
	if id, ok := ast.Unparen(e).(*ast.Ident); ok {
		return id.Name
	}
	return ""
}

// C19.3 — every created timer is cancelled by its owner's teardown and a
// holder is overwritten only after clearing the previous timer.
func c19Pairing(c *core.Ctx) {
	const R = "C19.3"
	c.Rule(R, "PAIR(timer creation, cancellation): every SetTimeout/SetInterval result in /repo is stored in a holder that the owner's teardown clears (ping timers ↔ socket.OnClose; upgrade timers ↔ MaybeUpgrade.cleanup; polling close timer ↔ shouldClose; WebTransport accept timer ↔ ClearTimeout in the same function); a holder is overwritten only after Clear*(holder.Load()), or is written once")
	teardown := map[string][]string{ // holder -> units that must clear it
		"socket.pingIntervalTimer": {"engine.(*socket).OnClose"},
		"socket.pingTimeoutTimer":  {"engine.(*socket).OnClose"},
		"upgradeTimeoutTimer":      {"engine.(*socket).MaybeUpgrade$cleanup"},
		"checkIntervalTimer":       {"engine.(*socket).MaybeUpgrade$cleanup"},
	}
	clearedIn := func(holder string, unitKey string) bool {
		u := c.P.Func(unitKey)
		if u == nil {
			return false
		}
		for _, cl := range u.CallsTo(clearTOKey, clearIVKey) {
			if timerHolder(u.Info(), cl.Arg(0)) == holder {
				return true
			}
		}
		return false
	}
	n := 0
	for _, cl := range callsAnywhere(c, setTimeoutKey, setIntervalKey) {
		u := cl.U
		if u.Key == "utils.SetTimeOut" { // deprecated alias returning the timer to its caller
			continue
		}
		n++
		c.Touch(u)
		info := u.Info()
		g := u.Graph()
		// where does the result go?
		holder := ""
		var store *core.Call
		for _, sc := range u.Calls() {
			if (sc.Name != "Store" && sc.Name != "Swap") || len(sc.Expr.Args) != 1 {
				continue
			}
			arg := ast.Unparen(sc.Expr.Args[0])
			if d, ok := u.SingleDef(arg); ok && d != nil { // `t := SetTimeout(…); holder.Store(t)`
				arg = ast.Unparen(d)
			}
			if arg == ast.Expr(cl.Expr) {
				holder = timerHolder(info, sc.Recv)
				store = sc
			}
		}
		key := keyf("%s/%s→%s", u.Key, cl.Name, holder)
		if store != nil {
			tds, known := teardown[holder]
			ok := known
			for _, td := range tds {
				ok = ok && clearedIn(holder, td)
			}
			c.Check(R, key+"/cleared-on-teardown", cl.Pos(), ok, keyf("holder %s must be cleared in %v", holder, tds))
			// overwrite discipline
			prevCleared := false
			for _, cc := range u.CallsTo(clearTOKey, clearIVKey) {
				if timerHolder(info, cc.Arg(0)) == holder && g.Dominates(cc.Loc, store.Loc) {
					prevCleared = true
				}
				// ClearTimeout(holder.Swap(new)): what the swap replaced is what is cancelled
				if store.Name == "Swap" && ast.Unparen(cc.Arg(0)) == ast.Expr(store.Expr) {
					prevCleared = true
				}
			}
			once := false
			if !prevCleared {
				// written once: the storing function has a single caller chain from a once-only site
				switch u.Key {
				case "engine.(*socket).schedulePing":
					callers := callsAnywhere(c, "engine.(*socket).schedulePing")
					once = len(callers) == 1 && callerKey(c, callers[0]) == "engine.(*socket).onOpen"
				case "engine.(*socket).MaybeUpgrade":
					// a local holder of one MaybeUpgrade invocation, stored at top level (not in a closure/loop)
					once = true
					for _, b := range g.Blocks {
						if b == store.Loc.B && (b.Kind == cfgKindRangeBody) {
							once = false
						}
					}
				}
			}
			c.Check(R, key+"/overwrite-after-clear", store.Pos(), prevCleared || once, keyf("previous timer cleared before Store: %v; holder written once: %v", prevCleared, once))
			continue
		}
		// assigned to a local: a Clear of that local must exist in the same root function
		var local *types.Var
		for _, a := range assignsIn(u, func(l ast.Expr) bool { _, ok := l.(*ast.Ident); return ok }) {
			if a.Rhs != nil && ast.Unparen(a.Rhs) == cl.Expr {
				local, _ = core.ObjOf(info, a.Lhs).(*types.Var)
			}
		}
		ok := false
		if local != nil {
			for _, x := range u.Root().AllUnits() {
				for _, cc := range x.CallsTo(clearTOKey, clearIVKey, timerStopKey) {
					arg := cc.Arg(0)
					if cc.Key == timerStopKey {
						arg = cc.Recv
					}
					if arg != nil && core.ObjOf(x.Info(), arg) == types.Object(local) {
						ok = true
					}
				}
			}
		}
		name := "?"
		if local != nil {
			name = local.Name()
		}
		c.Check(R, keyf("%s/%s→local %s/cancelled", u.Key, cl.Name, name), cl.Pos(), ok, "a timer kept in a local is cancelled somewhere in the same function (or its closures)")
	}
	c.Need(R, "timer creation sites", n, 6)
}

// timerNilSafe — C07.4 / C09.3a / C19.4: no dereferencing Timer method on a
// possibly-nil holder load, and the direction test uses the same quantity
// that armed the timers.
func timerNilSafe(c *core.Ctx, R string) {
	c.Rule(R, "no Timer method that dereferences its receiver (Refresh, Stop, Unref) is invoked on holder.Load() unless a non-nil test of that very value dominates it (a test of s.protocol is no licence: the holders are stored after the session became open to packets); ClearTimeout/ClearInterval are nil-safe")
	armed := map[string]string{} // holder -> "3" or "4": revision under which onOpen arms it
	if oo := c.Fn(R, "engine.(*socket).onOpen"); oo != nil {
		g := oo.Graph()
		is3 := func(want bool) core.Guard {
			return func(u *core.Unit, br core.Branch) int {
				cmp, ok := u.BranchCmp(br)
				if !ok || fieldOf(u.Info(), cmp.X) != "socket.protocol" || cmp.Val == nil || cmp.Val.String() != "3" {
					return 0
				}
				p := 0
				switch cmp.Op {
				case token.EQL:
					p = 1
				case token.NEQ:
					p = -1
				}
				if !want {
					p = -p
				}
				return p
			}
		}
		for _, cl := range oo.CallsTo("engine.(*socket).resetPingTimeout") {
			if g.GuardedBy(cl.Loc, is3(true)) {
				armed["socket.pingTimeoutTimer"] = "3"
			}
		}
		for _, cl := range oo.CallsTo("engine.(*socket).schedulePing") {
			if g.GuardedBy(cl.Loc, is3(false)) {
				armed["socket.pingIntervalTimer"] = "4"
			}
		}
		c.Check(R, "engine.(*socket).onOpen/arming-table", oo.Pos(), armed["socket.pingTimeoutTimer"] == "3" && armed["socket.pingIntervalTimer"] == "4",
			keyf("onOpen arms %v keyed on s.protocol", armed))
	}
	// the discriminator is fixed for the session's life: a site licensed by `s.protocol == k` is safe only if the
	// value tested there is the one onOpen saw — the field is written by the constructor and by nothing else
	// (re-deriving it from the current transport lets an upgrade request with another EIO flip it)
	nw := 0
	for _, ua := range fieldAssignsAnywhere(c, "socket.protocol") {
		nw++
		c.Check(R, keyf("%s/writes(socket.protocol)", ua.U.Key), ua.Stmt.Pos(), ua.U.Key == "engine.(*socket).Construct", "the revision that keys the heartbeat timers is assigned only by the constructor")
	}
	c.Need(R, "assignments of socket.protocol", nw, 1)
	n := 0
	for _, u := range c.P.Units {
		info := u.Info()
		for _, cl := range u.Calls() {
			if cl.Callee == nil || cl.Recv == nil {
				continue
			}
			switch cl.Key {
			case "utils.(*Timer).Refresh", "utils.(*Timer).Stop", "utils.(*Timer).Unref":
			default:
				continue
			}
			// the receiver is a holder load, directly or through a local (`if t := h.Load(); t != nil { t.Refresh() }`)
			ld, ok := ast.Unparen(u.Resolve(cl.Recv)).(*ast.CallExpr)
			if !ok {
				continue
			}
			se, ok := ld.Fun.(*ast.SelectorExpr)
			if !ok || se.Sel.Name != "Load" {
				continue
			}
			holder := timerHolder(info, ld)
			n++
			c.Touch(u)
			g := u.Graph()
			// the only licence is a non-nil test of that very value. A test of the session's revision does NOT license
			// the call: onOpen stores the timers only after the state became "open", and the transport's reader has been
			// running since its constructor — a heartbeat packet sent right after the 101 response finds the holder nil
			recv := ast.Unparen(cl.Recv)
			nonNil := nilGuard(true, func(x *core.Unit, e ast.Expr) bool {
				e = ast.Unparen(e)
				if id, isId := recv.(*ast.Ident); isId {
					return sameObj(x.Info(), e, id)
				}
				if ce, isC := e.(*ast.CallExpr); isC {
					if s2, isS := ce.Fun.(*ast.SelectorExpr); isS && s2.Sel.Name == "Load" && timerHolder(x.Info(), ce) == holder {
						return true
					}
				}
				return false
			})
			licensed := g.GuardedBy(cl.Loc, nonNil)
			c.Check(R, keyf("%s/%s.Load().%s", u.Key, holder, cl.Name), cl.Pos(), licensed,
				keyf("a dereferencing Timer method on a holder load must be dominated by a non-nil test of that value: %v (onOpen arms revision-%s timers after the session is already open to packets)", licensed, armed[holder]))
		}
	}
	c.Need(R, "Timer method calls on holder loads", n, 1)
}

// c19WhoClears — C19.3b: a timer is cancelled only by the sites that own its life cycle.
func c19WhoClears(c *core.Ctx) {
	const R = "C19.3b"
	c.Rule(R, "WHO(cancel): each timer holder is cancelled only at the sites of its life-cycle table — pingIntervalTimer: OnClose; pingTimeoutTimer: OnClose, resetPingTimeout (before re-arming), onPacket's PONG branch (not clearTransport: C07.6); upgradeTimeoutTimer: MaybeUpgrade.cleanup; checkIntervalTimer: cleanup and the probe branch before re-arming; a cancellation elsewhere silently stops heartbeats or noop releases")
	table := map[string]map[string]bool{
		"socket.pingIntervalTimer": {sockOnClose: true},
		"socket.pingTimeoutTimer":  {sockOnClose: true, "engine.(*socket).resetPingTimeout": true, sockOnPacket: true}, // not clearTransport: the deadline survives an upgrade (C07.6)
		"upgradeTimeoutTimer":      {sockUpgrade + "$cleanup": true},
		"checkIntervalTimer":       {sockUpgrade + "$cleanup": true, sockUpgrade + "$onPacket": true},
	}
	n := 0
	for _, u := range c.P.Units {
		if u.Pkg != c.P.Pkgs["engine"] {
			continue
		}
		for _, cl := range u.CallsTo(clearTOKey, clearIVKey, timerStopKey) {
			arg := cl.Arg(0)
			if cl.Key == timerStopKey {
				arg = cl.Recv
			}
			if arg == nil {
				continue
			}
			h := timerHolder(u.Info(), arg)
			if _, direct := table[h]; !direct {
				h = timerHolder(u.Info(), u.Deep(arg)) // `t := holder.Load(); …; t.Stop()`
			}
			allowed, known := table[h]
			if !known {
				continue
			}
			n++
			c.Touch(u)
			c.Check(R, keyf("%s/cancels(%s)", u.Key, h), cl.Pos(), allowed[u.Key], "cancellation site is in the holder's life-cycle table")
		}
	}
	c.Need(R, "timer cancellation sites in engine", n, 7)
}

// c19RuntimeTimerOps — C19.1b: who may operate the runtime timer.
func c19RuntimeTimerOps(c *core.Ctx) {
	const R = "C19.1b"
	c.Rule(R, "WHO(runtime timer ops): timer.Stop() is called only by Timer.Stop, Timer.Refresh and the Unref cleanup; timer.Reset only by Timer.Refresh and the interval goroutine's tick arm; the waiting goroutines themselves never stop the shared runtime timer (a deferred Stop in a worker cancels the re-arm done by a concurrent Refresh)")
	allowedStop := map[string]bool{"utils.(*Timer).Stop": true, "utils.(*Timer).Refresh": true}
	allowedReset := map[string]bool{"utils.(*Timer).Refresh": true, "utils.SetInterval$fn": true}
	n := 0
	for _, u := range c.P.Units {
		if u.Pkg != c.P.Pkgs["utils"] {
			continue
		}
		for _, cl := range u.Calls() {
			if cl.Recv == nil || fieldOf(u.Info(), cl.Recv) != "Timer.timer" {
				continue
			}
			switch cl.Name {
			case "Stop":
				n++
				ok := allowedStop[u.Key] || strings.HasPrefix(u.Key, "utils.(*Timer).Unref")
				c.Check(R, keyf("%s/timer.Stop()", u.Key), cl.Pos(), ok, "only the cancel/refresh API stops the runtime timer")
			case "Reset":
				n++
				c.Check(R, keyf("%s/timer.Reset()", u.Key), cl.Pos(), allowedReset[u.Key], "only Refresh and the interval tick re-arm the runtime timer")
			}
		}
	}
	c.Need(R, "runtime timer Stop/Reset sites", n, 4)
}

// c19HolderWrites — C19.3c = C07.8: since the uses of the heartbeat holders
// are nil-tested (fix 81db1f3) a holder reset to nil no longer crashes — it
// silently turns the next Refresh into a no-op, i.e. the deadline or the next
// ping is lost. The holders are therefore written only with a fresh timer.
func c19HolderWrites(c *core.Ctx, R string) {
	c.Rule(R, "WHO(write a heartbeat timer holder): socket.pingIntervalTimer / socket.pingTimeoutTimer are written only by Store(SetTimeout(…)) or Swap(SetTimeout(…)) — no Store(nil), Swap(nil) or CompareAndSwap anywhere: the uses are nil-tested, so an emptied holder silently drops the next Refresh (the v3 deadline after an upgrade, the next v4 ping)")
	n := 0
	for _, u := range c.P.Units {
		if u.Pkg != c.P.Pkgs["engine"] {
			continue
		}
		for _, h := range []string{"socket.pingIntervalTimer", "socket.pingTimeoutTimer"} {
			for _, cl := range fieldCalls(u, h) {
				switch cl.Name {
				case "Load":
					continue
				case "Store", "Swap":
					// Swap(fresh timer) is the atomic form of "replace and cancel what was there" (fix d9973f6)
					n++
					c.Touch(u)
					ok := false
					if a := cl.Arg(0); a != nil {
						a = u.Deep(a)
						if ce, isCall := ast.Unparen(a).(*ast.CallExpr); isCall {
							if k := u.CalleeKey(ce); k == setTimeoutKey || k == setIntervalKey {
								ok = true
							}
						}
					}
					c.Check(R, keyf("%s/%s.%s(fresh timer)", u.Key, h, cl.Name), cl.Pos(), ok, "the holder receives a timer that was just created")
				default:
					n++
					c.Touch(u)
					c.Check(R, keyf("%s/%s.%s", u.Key, h, cl.Name), cl.Pos(), false, "the holder is only loaded or given a fresh timer; "+cl.Name+" can empty it")
				}
			}
		}
	}
	c.Need(R, "writes of the heartbeat timer holders", n, 2)
}

// timerCancelledIs: guard "Timer.cancelled == want", the flag read directly or
// through a local that received it.
func timerCancelledIs(want bool) core.Guard {
	return func(u *core.Unit, br core.Branch) int {
		if br.IsCase {
			return 0
		}
		if fieldOf(u.Info(), u.Deep(br.Cond)) != "Timer.cancelled" {
			return 0
		}
		if want {
			return 1
		}
		return -1
	}
}

// c19Cancelled — C19.5 (fix 738a64c): a cancellation is recorded where the
// timer goroutine will find it. timer.Stop() reporting false means the tick was
// already taken; without a record the callback of a cancelled timeout still
// starts, a Refresh revives a cancelled timer, and an interval stopped between
// its tick and its re-arm ticks forever (the former finding C19.2).
func c19Cancelled(c *core.Ctx, R string) {
	c.Rule(R, "cancellation protocol of utils.Timer: (a) Timer.cancelled is written only by Stop, to true, on every path, with Timer.mu held and in the same critical section as the runtime timer.Stop(); (b) every read of the flag is under Timer.mu; (c) on the tick arm of SetTimeout's goroutine the callback starts only on the not-cancelled edge and with the mutex released (Stop / Refresh from inside or beside the callback take it); (d) on the tick arm of SetInterval's goroutine the re-arm (under the mutex) and `go fn()` are on the not-cancelled edge and the cancelled edge returns; (e) Refresh holds the mutex at its fired test, its restart and its Reset")
	const muName = "Timer.mu"
	writes, reads := 0, 0
	for _, u := range c.P.Units {
		if u.Pkg != c.P.Pkgs["utils"] {
			continue
		}
		g := u.Graph()
		info := u.Info()
		for _, a := range fieldAssigns(u, "Timer.cancelled") {
			writes++
			c.Touch(u)
			isTrue := false
			if id, ok := ast.Unparen(a.Rhs).(*ast.Ident); ok && id.Name == "true" {
				isTrue = true
			}
			every := true
			for _, r := range returnsIn(u) {
				// a return ahead of the write is the idempotent exit: the flag is already set (fix 312fac8)
				every = every && (g.Dominates(a.Loc, r.Loc) || g.GuardedBy(r.Loc, timerCancelledIs(true)))
			}
			// the runtime timer is stopped in the same critical section
			same := false
			for _, cl := range u.Calls() {
				if cl.Name == "Stop" && cl.Recv != nil && fieldOf(info, cl.Recv) == "Timer.timer" && g.HeldAt(cl.Loc)[muName] && g.Dominates(a.Loc, cl.Loc) {
					same = true
				}
			}
			ok := u.Key == timerStopKey && isTrue && every && g.HeldAt(a.Loc)[muName] && same
			c.Check(R, keyf("%s/cancelled=true", u.Key), a.Stmt.Pos(), ok, keyf("written by Stop: %v; to true: %v; on every path: %v; under Timer.mu: %v; runtime timer stopped in the same section: %v", u.Key == timerStopKey, isTrue, every, g.HeldAt(a.Loc)[muName], same))
		}
		ast.Inspect(u.Body, func(n ast.Node) bool {
			if fl, isLit := n.(*ast.FuncLit); isLit && fl.Body != u.Body {
				return false
			}
			if as, isAs := n.(*ast.AssignStmt); isAs {
				for _, l := range as.Lhs {
					if fieldOf(info, l) == "Timer.cancelled" {
						return false // a write (counted above), not a read
					}
				}
			}
			se, isSel := n.(*ast.SelectorExpr)
			if !isSel || fieldOf(info, se) != "Timer.cancelled" {
				return true
			}
			reads++
			c.Touch(u)
			c.Check(R, keyf("%s/read(cancelled)#%d", u.Key, reads), se.Pos(), g.HeldAt(g.LocOf(se))[muName], "the flag is read with Timer.mu held")
			return true
		})
	}
	if st := c.Fn(R, timerStopKey); st != nil {
		g := st.Graph()
		n, first := 0, true
		ast.Inspect(st.Body, func(x ast.Node) bool {
			if ss, ok := x.(*ast.SendStmt); ok && fieldOf(st.Info(), ss.Chan) == "Timer.stopCh" {
				n++
				first = first && g.GuardedBy(g.LocOf(ss), timerCancelledIs(false))
			}
			return true
		})
		c.Check(R, timerStopKey+"/signal-only-by-the-first-Stop", st.Pos(), n >= 1 && first, "a Stop that finds the timer already cancelled returns: the runtime can report 'stopped' to two callers while a tick is being sent, and only one goroutine is there to take the signal (fix 312fac8)")
	}
	c.Need(R, "writes of Timer.cancelled", writes, 1)
	c.Need(R, "reads of Timer.cancelled", reads, 3)
	notCancelled := timerCancelledIs(false)
	for _, ctor := range []string{setTimeoutKey, setIntervalKey} {
		u := c.Fn(R, ctor)
		if u == nil {
			continue
		}
		body := c.KidOf(R, u, "fn")
		if body == nil {
			continue
		}
		g := body.Graph()
		fnParam := paramName(u, 0)
		_, arms, _ := timerSelect(body)
		for _, a := range arms {
			if a.Chan != "C" {
				continue
			}
			starts, guarded, released := 0, true, true
			ast.Inspect(a.Clause, func(x ast.Node) bool {
				ce, isC := x.(*ast.CallExpr)
				if isC && isLocal(body.Info(), ce.Fun, fnParam) {
					starts++
					guarded = guarded && g.GuardedBy(g.LocOf(ce), notCancelled)
					inline := true
					for _, cl := range body.Calls() {
						if cl.Expr == ce && cl.Go {
							inline = false
						}
					}
					if inline && g.HeldAt(g.LocOf(ce))[muName] {
						released = false
					}
				}
				return true
			})
			c.Check(R, ctor+"$fn/callback-only-when-not-cancelled", a.Clause.Pos(), starts == 1 && guarded, keyf("%d callback start(s) on the tick arm, each on the not-cancelled edge: %v", starts, guarded))
			c.Check(R, ctor+"$fn/callback-runs-with-Timer.mu-released", a.Clause.Pos(), released, "a callback that runs on the timer goroutine runs without the timer's mutex: Stop and Refresh take it, and the library's own callbacks cancel their timer (the ping-timeout callback → OnClose → ClearTimeout of that very timer): with the mutex held the cancel never returns")
			if ctor == setIntervalKey {
				okRearm := false
				for _, cl := range body.Calls() {
					if cl.Name == "Reset" && cl.Recv != nil && fieldOf(body.Info(), cl.Recv) == "Timer.timer" {
						okRearm = g.GuardedBy(cl.Loc, notCancelled) && g.HeldAt(cl.Loc)[muName]
					}
				}
				// the cancelled edge leaves the loop
				leaves := false
				for _, r := range returnsIn(body) {
					if g.GuardedBy(r.Loc, timerCancelledIs(true)) {
						leaves = true
					}
				}
				c.Check(R, ctor+"$fn/rearm-only-when-not-cancelled", a.Clause.Pos(), okRearm && leaves, keyf("Reset on the not-cancelled edge with Timer.mu held: %v; the cancelled edge returns: %v", okRearm, leaves))
			}
		}
	}
	if rf := c.Fn(R, "utils.(*Timer).Refresh"); rf != nil {
		g := rf.Graph()
		ok, n, revived := true, 0, false
		for _, cl := range rf.Calls() {
			isTimerOp := (cl.Name == "Stop" || cl.Name == "Reset") && cl.Recv != nil && fieldOf(rf.Info(), cl.Recv) == "Timer.timer"
			isRestart := cl.Go && fieldOf(rf.Info(), cl.Expr.Fun) == "Timer.fn"
			if isTimerOp || isRestart {
				n++
				ok = ok && g.HeldAt(cl.Loc)[muName]
				if isRestart || cl.Name == "Reset" {
					revived = revived || !g.GuardedBy(cl.Loc, notCancelled)
				}
			}
		}
		c.Check(R, "utils.(*Timer).Refresh/under-Timer.mu", rf.Pos(), ok && n >= 3, keyf("%d timer operations, all with Timer.mu held: %v", n, ok))
		c.Check(R, "utils.(*Timer).Refresh/cancelled-stays-cancelled", rf.Pos(), !revived, "the restart of the waiter and the Reset are on the not-cancelled edge: refreshing a cancelled timer does nothing")
	}
}

// c19RefreshOnlyLive — C19.7 = C07.12 (fix 2916323): a cancelled timer stays
// cancelled (C19.5), so Refresh is meaningful only on a holder that nothing
// cancels before its owner's teardown.
func c19RefreshOnlyLive(c *core.Ctx, R string) {
	c.Rule(R, "Refresh is applied only to a timer that cannot have been cancelled: for every holder.Load().Refresh() in package engine, every cancellation of that holder (ClearTimeout / ClearInterval / Stop) lies in the owner's teardown socket.OnClose — pingTimeoutTimer is also cancelled by the PONG branch, so its deadline is re-created (resetPingTimeout), never refreshed")
	cancels := map[string][]string{}
	for _, u := range c.P.Units {
		if u.Pkg != c.P.Pkgs["engine"] {
			continue
		}
		for _, cl := range u.CallsTo(clearTOKey, clearIVKey, timerStopKey) {
			arg := cl.Arg(0)
			if cl.Key == timerStopKey {
				arg = cl.Recv
			}
			if arg == nil {
				continue
			}
			if h := timerHolder(u.Info(), arg); h != "" {
				cancels[h] = append(cancels[h], u.Root().Key)
			}
		}
	}
	n := 0
	for _, u := range c.P.Units {
		if u.Pkg != c.P.Pkgs["engine"] {
			continue
		}
		for _, cl := range u.CallsTo("utils.(*Timer).Refresh") {
			h := timerHolder(u.Info(), u.Resolve(cl.Recv))
			n++
			c.Touch(u)
			bad := []string{}
			for _, where := range cancels[h] {
				if where != sockOnClose {
					bad = append(bad, where)
				}
			}
			c.Check(R, keyf("%s/Refresh(%s)-never-cancelled-before-teardown", u.Key, h), cl.Pos(), h != "" && len(bad) == 0, keyf("cancelled outside the teardown by %v", bad))
		}
	}
	c.Need(R, "Refresh calls in package engine", n, 1)
}

// c19AtomicDeadlineReplace — C19.8 = C07.13 (fix d9973f6): resetPingTimeout is
// called from several goroutines (onOpen, the ping callback, the revision-3
// PING branch on the reader goroutine); "cancel the old timer, store the new
// one" must be one atomic replace, or two callers both cancel the same old
// timer and one of the two new ones stays armed and unreferenced.
func c19AtomicDeadlineReplace(c *core.Ctx, R string) {
	c.Rule(R, "the ping deadline is replaced atomically: resetPingTimeout writes socket.pingTimeoutTimer with Swap(SetTimeout(…)) and cancels exactly what the swap returned — a Load / ClearTimeout / Store sequence is check-then-act between its concurrent callers and leaves an armed timer nobody can cancel (a pinging session closed with 'ping timeout')")
	u := c.Fn(R, "engine.(*socket).resetPingTimeout")
	if u == nil {
		return
	}
	var swap *core.Call
	stores := 0
	for _, cl := range fieldCalls(u, "socket.pingTimeoutTimer") {
		switch cl.Name {
		case "Swap":
			swap = cl
		case "Store", "CompareAndSwap":
			stores++
		}
	}
	cancelled := false
	if swap != nil {
		for _, cc := range u.CallsTo(clearTOKey, clearIVKey) {
			if ast.Unparen(cc.Arg(0)) == ast.Expr(swap.Expr) {
				cancelled = true
			} else if d, ok := u.SingleDef(cc.Arg(0)); ok && d != nil && ast.Unparen(d) == ast.Expr(swap.Expr) {
				cancelled = true
			}
		}
	}
	c.Check(R, "engine.(*socket).resetPingTimeout/Swap(new)+cancel(replaced)", u.Pos(), swap != nil && stores == 0 && cancelled, keyf("holder written by one Swap: %v; other writes: %d; the replaced timer is the one cancelled: %v", swap != nil, stores, cancelled))
}
