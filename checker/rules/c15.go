package rules

import (
	"go/ast"
	"go/constant"
	"go/token"
	"go/types"

	"engcheck/core"
)

const (
	wtAdvance    = "webtransport.(*Conn).advanceFrame"
	wtNextReader = "webtransport.(*Conn).NextReader"
	wtMRRead     = "webtransport.(*messageReader).Read"
)

func init() {
	register("C15", func(c *core.Ctx, tier string) {
		limitFailureReported(c, "C15.13")
		skipEOFRefined(c, "C15.7b")
		eofWithCompleteFrame(c, "C15.7c")
		connReadEffects(c, "C15.10")
		connWriteEffects(c, "C15.11")
		errPolarity(c, "C15.9", "webtransport")
		lockBalance(c, "C15.12", "webtransport") // an unlock of a mutex that is not held is a fatal runtime error, a leaked one hangs every later write
		c15Panics(c)
		c15IndexSafety(c)
		wtPeekValidity(c, "C15.2b")
		c15NegativeLengths(c)
		c14LengthForms(c) // C15.3b: the 64-bit length reaches setReadRemaining verbatim (int64 of BigEndian.Uint64), so 2^63.. lengths are seen as negative and refused
		wtClampAndSkip(c, "C15.4")
		wtReadLimit(c, "C15.5")
		c15Sticky(c)
		c15MidFrameEOF(c)
		c15Stale(c)
		c15NoDeclaredSizeAllocation(c)
		c15ConsumedAccounting(c, "C15.4b")
	})
}

// panicCalls lists builtin panic calls of a unit's own body.
func panicCalls(u *core.Unit) []*core.Call {
	var out []*core.Call
	for _, cl := range u.Calls() {
		if cl.Name != "panic" || cl.Callee != nil {
			continue
		}
		if id, ok := ast.Unparen(cl.Expr.Fun).(*ast.Ident); ok {
			if _, isB := u.Info().Uses[id].(*types.Builtin); isB {
				out = append(out, cl)
			}
		}
	}
	return out
}

func c15Panics(c *core.Ctx) {
	const R = "C15.1"
	c.Rule(R, "functions reachable (static call graph, interface calls by CHA over repository types) from NextReader, ReadMessage and messageReader.Read contain exactly one panic: the documented repeated-read guard, dominated by readErrCount >= 1000")
	var roots []*core.Unit
	for _, k := range []string{wtNextReader, "webtransport.(*Conn).ReadMessage", wtMRRead} {
		if u := c.Fn(R, k); u != nil {
			roots = append(roots, u)
		}
	}
	if len(roots) != 3 {
		return
	}
	reach := c.P.CG().Reach(roots...)
	n := 0
	for u := range reach {
		c.Touch(u)
	}
	var us []*core.Unit
	for u := range reach {
		us = append(us, u)
	}
	sortUnits(us)
	for _, u := range us {
		for _, pc := range panicCalls(u) {
			n++
			msg, _ := core.ConstString(u.Info(), pc.Arg(0))
			if u.Key == wtNextReader {
				g := u.Graph()
				ok := g.GuardedBy(pc.Loc, func(u *core.Unit, br core.Branch) int {
					cmp, k := u.BranchCmp(br)
					if !k || fieldOf(u.Info(), cmp.X) != "Conn.readErrCount" {
						return 0
					}
					if K, ge, k2 := cmpThreshold(cmp); k2 && K >= 1000 {
						if ge == 0 {
							return 1
						}
						return -1
					}
					return 0
				})
				c.Check(R, wtNextReader+"/panic(repeated-read)", pc.Pos(), ok, keyf("panic(%q) guarded by readErrCount >= 1000: %v", msg, ok))
				continue
			}
			c.Violate(R, keyf("%s/panic(%q)", u.Key, msg), pc.Pos(),
				keyf("panic reachable from the read API: %v", c.P.CG().PathTo(u, roots...)))
		}
	}
	c.Check(R, "webtransport/read-path-panics", roots[0].Pos(), n >= 1, keyf("%d panic site(s) in %d reachable functions", n, len(reach)))
}

func sortUnits(us []*core.Unit) {
	for i := 1; i < len(us); i++ {
		for j := i; j > 0 && us[j].Key < us[j-1].Key; j-- {
			us[j], us[j-1] = us[j-1], us[j]
		}
	}
}

// tupleOf: e is a local whose single definition is result #idx of call.
func tupleOf(u *core.Unit, e ast.Expr, call *ast.CallExpr, idx int) bool {
	d, ok := u.SingleDef(e)
	if !ok {
		return false
	}
	te, isT := d.(*core.TupleElem)
	return isT && te.Index == idx && ast.Unparen(te.X) == call
}

func c15IndexSafety(c *core.Ctx) { headerBytesComplete(c, "C15.2") }

// headerBytesComplete (C15.2 = C13.3c = C14.2d = C02.8e): the header bytes a
// frame is decoded from are all there — read(n) hands out exactly n bytes or an
// error (bufio Peek(n); a short Read leaves stale bytes in the length field).
func headerBytesComplete(c *core.Ctx, R string) {
	c.Rule(R, "every index / BigEndian.Uint16 / Uint64 on the slice returned by c.read(n) is dominated by that call's err == nil edge and needs at most n bytes; c.read returns Peek(n)'s slice and maps io.EOF to errUnexpectedEOF")
	adv := c.Fn(R, wtAdvance)
	if adv == nil {
		return
	}
	info := adv.Info()
	g := adv.Graph()
	reads := adv.CallsTo(wtRead)
	uses := 0
	for _, rd := range reads {
		n, _ := core.ConstInt(info, rd.Arg(0))
		errOK := func(u *core.Unit, x ast.Expr) bool { return tupleOf(u, x, rd.Expr, 1) }
		guard := nilGuard(false, errOK) // err == nil established
		check := func(pos token.Pos, loc core.Loc, need int64, what string) {
			uses++
			ok := g.GuardedBy(loc, guard) && need <= n
			c.Check(R, keyf("%s/read(%d)/%s", wtAdvance, n, what), pos, ok, keyf("needs %d of %d bytes; dominated by err==nil: %v", need, n, g.GuardedBy(loc, guard)))
		}
		ast.Inspect(adv.Body, func(nd ast.Node) bool {
			switch x := nd.(type) {
			case *ast.IndexExpr:
				if tupleOf(adv, x.X, rd.Expr, 0) {
					i, _ := core.ConstInt(info, x.Index)
					check(x.Pos(), g.LocOf(x), i+1, keyf("p[%d]#%d", i, uses))
				}
			case *ast.CallExpr:
				key := adv.CalleeKey(x)
				w := int64(0)
				switch key {
				case "encoding/binary.(bigEndian).Uint16":
					w = 2
				case "encoding/binary.(bigEndian).Uint32":
					w = 4
				case "encoding/binary.(bigEndian).Uint64":
					w = 8
				}
				if w > 0 && len(x.Args) == 1 && tupleOf(adv, x.Args[0], rd.Expr, 0) {
					check(x.Pos(), g.LocOf(x), w, keyf("Uint%d(p)", w*8))
				}
			}
			return true
		})
	}
	c.Need(R, "uses of header bytes in advanceFrame", uses, 4)
	rd := c.Fn(R, wtRead)
	if rd != nil {
		ri := rd.Info()
		peek := false
		for _, cl := range rd.Calls() {
			if cl.Key == "bufio.(*Reader).Peek" && isLocal(ri, cl.Arg(0), paramName(rd, 0)) {
				peek = true
			}
		}
		eofMap := false
		rg := rd.Graph()
		for _, a := range assignsIn(rd, func(l ast.Expr) bool { return anyErr(rd, l) }) {
			if a.Rhs != nil && isPkgVar(ri, a.Rhs, "errUnexpectedEOF") {
				eofMap = rg.GuardedBy(a.Loc, eqIOEOF(true))
			}
		}
		c.Check(R, wtRead+"/Peek(n)+EOF→unexpected", rd.Pos(), peek && eofMap, keyf("Peek(n)=%v, io.EOF mapped to errUnexpectedEOF=%v", peek, eofMap))
	}
}

func isPkgVar(info *types.Info, e ast.Expr, name string) bool {
	v, ok := core.ObjOf(info, e).(*types.Var)
	return ok && v.Name() == name && v.Parent() == v.Pkg().Scope()
}

// eqIOEOF: guard establishing `<error expr> == io.EOF`.
func eqIOEOF(want bool) core.Guard {
	return func(u *core.Unit, br core.Branch) int {
		cmp, ok := u.BranchCmp(br)
		if !ok || cmp.Y == nil {
			return 0
		}
		isEOF := func(e ast.Expr) bool {
			v, ok := core.ObjOf(u.Info(), e).(*types.Var)
			return ok && v.Name() == "EOF" && v.Pkg() != nil && v.Pkg().Path() == "io"
		}
		if !isEOF(cmp.Y) && !isEOF(cmp.X) {
			return 0
		}
		switch cmp.Op {
		case token.EQL:
			if want {
				return 1
			}
			return -1
		case token.NEQ:
			if want {
				return -1
			}
			return 1
		}
		return 0
	}
}

func c15NegativeLengths(c *core.Ctx) {
	const R = "C15.3"
	c.Rule(R, "readRemaining is written only by setReadRemaining, which returns ErrReadLimit on n < 0 before the store; every caller tests the returned error and returns on failure (a 2^63+ length cannot wrap)")
	for _, ua := range fieldAssignsAnywhere(c, "Conn.readRemaining") {
		c.Check(R, keyf("%s/writes-readRemaining", ua.U.Key), ua.Stmt.Pos(), ua.U.Key == wtSetRem, "only setReadRemaining may store readRemaining")
	}
	sr := c.Fn(R, wtSetRem)
	if sr != nil {
		g := sr.Graph()
		pn := paramName(sr, 0)
		nonNeg := func(u *core.Unit, br core.Branch) int {
			cmp, ok := u.BranchCmp(br)
			if !ok || !isLocal(u.Info(), cmp.X, pn) {
				return 0
			}
			if K, ge, ok := cmpThreshold(cmp); ok && K == 0 {
				if ge == 0 {
					return 1
				}
				return -1
			}
			return 0
		}
		as := fieldAssigns(sr, "Conn.readRemaining")
		for _, a := range as {
			c.Check(R, wtSetRem+"/store-after-negative-test", a.Stmt.Pos(), g.GuardedBy(a.Loc, nonNeg) && isLocal(sr.Info(), a.Rhs, pn), "store happens only on the n >= 0 edge")
		}
		c.Need(R, "store of readRemaining", len(as), 1)
		// the negative edge returns ErrReadLimit
		okRet := false
		for _, r := range returnsIn(sr) {
			if len(r.Stmt.Results) == 1 && isPkgVar(sr.Info(), r.Stmt.Results[0], "ErrReadLimit") {
				okRet = !g.GuardedBy(r.Loc, nonNeg)
			}
		}
		c.Check(R, wtSetRem+"/negative→ErrReadLimit", sr.Pos(), okRet, "the n < 0 edge returns ErrReadLimit")
	}
	n := 0
	for _, cl := range callsAnywhere(c, wtSetRem) {
		n++
		u := cl.U
		g := u.Graph()
		// result must feed an err != nil test whose true edge dominates a return
		errIs := func(x *core.Unit, e ast.Expr) bool {
			d, ok := x.SingleDef(e)
			return ok && ast.Unparen(d) == cl.Expr
		}
		propagated := false
		for _, r := range returnsIn(u) {
			if g.GuardedBy(r.Loc, nilGuard(true, errIs)) {
				propagated = true
			}
		}
		c.Check(R, keyf("%s/setReadRemaining#%d-error-propagated", u.Key, n), cl.Pos(), propagated, "the error of setReadRemaining is tested and returned")
	}
	c.Need(R, "call sites of setReadRemaining", n, 4)
}

// wtClampAndSkip — C10.5 / C15.4.
func wtClampAndSkip(c *core.Ctx, R string) {
	c.Rule(R, "messageReader.Read truncates b to readRemaining before br.Read (never returns bytes of the next frame) and reads only while readRemaining > 0; advanceFrame discards exactly readRemaining leftover bytes (io.CopyN(io.Discard, br, readRemaining)) before parsing the next header")
	rd := c.Fn(R, wtMRRead)
	if rd != nil {
		info := rd.Info()
		g := rd.Graph()
		bn := paramName(rd, 0)
		var brRead *core.Call
		nBr := 0
		for _, cl := range rd.Calls() {
			if cl.Recv != nil && fieldOf(info, cl.Recv) == "Conn.br" {
				nBr++
				if cl.Name == "Read" {
					brRead = cl
				}
			}
		}
		if c.Check(R, wtMRRead+"/single-br.Read", rd.Pos(), brRead != nil && nBr == 1, keyf("%d uses of c.br", nBr)) {
			// clamp
			clampOK := false
			for _, a := range assignsIn(rd, func(l ast.Expr) bool { return isLocal(info, l, bn) }) {
				se, ok := ast.Unparen(a.Rhs).(*ast.SliceExpr)
				if !ok || !isLocal(info, se.X, bn) || se.Low != nil || se.High == nil || fieldOf(info, stripConv(info, se.High)) != "Conn.readRemaining" {
					continue
				}
				// guarded by len(b) > readRemaining, and the deciding branch dominates br.Read
				for _, f := range g.Facts() {
					cmp, ok := rd.BranchCmp(f.Br)
					if !ok || cmp.Y == nil {
						continue
					}
					lenB := func(e ast.Expr) bool {
						ce, ok := stripConv(info, e).(*ast.CallExpr)
						if !ok || len(ce.Args) != 1 {
							return false
						}
						id, ok := ce.Fun.(*ast.Ident)
						return ok && id.Name == "len" && isLocal(info, ce.Args[0], bn)
					}
					isRem := func(e ast.Expr) bool { return fieldOf(info, stripConv(info, e)) == "Conn.readRemaining" }
					gt := (lenB(cmp.X) && isRem(cmp.Y) && cmp.Op == token.GTR) || (isRem(cmp.X) && lenB(cmp.Y) && cmp.Op == token.LSS)
					if gt && f.Val && g.EdgeDominates(f.Br.B, f.Edge, a.Loc) {
						last := core.Loc{B: f.Br.B, I: len(f.Br.B.Nodes) - 1, P: f.Br.Cond.Pos()}
						if g.Dominates(last, brRead.Loc) && g.CanFollow(a.Loc, brRead.Loc) {
							clampOK = true
						}
					}
				}
			}
			c.Check(R, wtMRRead+"/clamp-before-br.Read", brRead.Pos(), clampOK && isLocal(info, brRead.Arg(0), bn), "b = b[:readRemaining] under len(b) > readRemaining, decided before br.Read(b)")
			pos := func(u *core.Unit, br core.Branch) int {
				cmp, ok := u.BranchCmp(br)
				if !ok || fieldOf(u.Info(), cmp.X) != "Conn.readRemaining" {
					return 0
				}
				if K, ge, ok := cmpThreshold(cmp); ok && K == 1 {
					if ge == 0 {
						return 1
					}
					return -1
				}
				return 0
			}
			c.Check(R, wtMRRead+"/read-only-while-remaining", brRead.Pos(), g.GuardedBy(brRead.Loc, pos), "br.Read runs only on the readRemaining > 0 edge")
		}
	}
	adv := c.Fn(R, wtAdvance)
	if adv != nil {
		info := adv.Info()
		g := adv.Graph()
		reads := adv.CallsTo(wtRead)
		var copyN *core.Call
		for _, cl := range adv.CallsTo("io.CopyN") {
			if fieldOf(info, cl.Arg(1)) == "Conn.br" && fieldOf(info, cl.Arg(2)) == "Conn.readRemaining" {
				if v, ok := core.ObjOf(info, cl.Arg(0)).(*types.Var); ok && v.Name() == "Discard" {
					copyN = cl
				}
			}
		}
		ok := copyN != nil && len(reads) > 0
		if ok {
			// forbidding the `readRemaining <= 0` edge, every path to read(1) passes CopyN
			var posBr *core.Fact
			for _, f := range g.Facts() {
				cmp, k := adv.BranchCmp(f.Br)
				if k && fieldOf(info, cmp.X) == "Conn.readRemaining" {
					if K, ge, k2 := cmpThreshold(cmp); k2 && K == 1 && f.Edge == ge && f.Val {
						ff := f
						posBr = &ff
					}
				}
			}
			ok = posBr != nil
			if ok {
				first := reads[0].Loc
				ok = !g.Reach(g.Entry(), func(s core.State) bool { return s.B == first.B && s.I == first.I },
					func(s core.State) bool { return s.B == copyN.Loc.B && s.I == copyN.Loc.I },
					func(from *cfgBlock, k int) bool { return !(from == posBr.Br.B && k == 1-posBr.Edge) })
			}
		}
		c.Check(R, wtAdvance+"/skip-leftover", adv.Pos(), ok, "leftover bytes of the previous frame are discarded (CopyN(Discard, br, readRemaining)) on every path with readRemaining > 0 before the next header is read")
	}
}

// wtReadLimit — C10.4 / C15.5.
func wtReadLimit(c *core.Ctx, R string) {
	c.Rule(R, "in advanceFrame every return of a data frame with nil error passes through readLength += readRemaining, the overflow test readLength < 0 (→ ErrReadLimit) and readLimit > 0 && readLength > readLimit (→ CloseWithError + ErrReadLimit); NextReader resets readLength per message; readLength has no other writer")
	adv := c.Fn(R, wtAdvance)
	if adv == nil {
		return
	}
	info := adv.Info()
	g := adv.Graph()
	noFrame, _ := pkgConstInt(c, "webtransport", "noFrame")
	var acc *Assign
	for _, a := range fieldAssigns(adv, "Conn.readLength") {
		if a.Tok == token.ADD_ASSIGN && fieldOf(info, a.Rhs) == "Conn.readRemaining" {
			aa := a
			acc = &aa
		}
	}
	c.Exists(R, wtAdvance+"/readLength+=readRemaining", adv.Pos(), acc != nil, "message size accumulation present")
	overflowPass := func(u *core.Unit, br core.Branch) int { // establishes !(readLength < 0)
		cmp, ok := u.BranchCmp(br)
		if !ok || fieldOf(u.Info(), cmp.X) != "Conn.readLength" {
			return 0
		}
		if K, ge, ok := cmpThreshold(cmp); ok && K == 0 {
			if ge == 0 {
				return 1
			}
			return -1
		}
		return 0
	}
	// the limit test: a branch whose condition contains readLength > readLimit; its pass edge is the false edge
	var limitBr *core.Branch
	brs := g.Branches()
	for i := range brs {
		found := false
		ast.Inspect(brs[i].Cond, func(n ast.Node) bool {
			if be, ok := n.(*ast.BinaryExpr); ok {
				if (be.Op == token.GTR && fieldOf(info, be.X) == "Conn.readLength" && fieldOf(info, be.Y) == "Conn.readLimit") ||
					(be.Op == token.LSS && fieldOf(info, be.Y) == "Conn.readLength" && fieldOf(info, be.X) == "Conn.readLimit") {
					found = true
				}
			}
			return true
		})
		if found {
			limitBr = &brs[i]
		}
	}
	c.Exists(R, wtAdvance+"/limit-test", adv.Pos(), limitBr != nil, "readLength > readLimit test present")
	// the limit condition must be exactly `readLimit > 0 && readLength > readLimit` (or stronger: without the enable clause)
	if limitBr != nil {
		okShape := true
		var atoms []ast.Expr
		var collect func(e ast.Expr)
		collect = func(e ast.Expr) {
			e = ast.Unparen(e)
			if be, ok := e.(*ast.BinaryExpr); ok && be.Op == token.LAND {
				collect(be.X)
				collect(be.Y)
				return
			}
			atoms = append(atoms, e)
		}
		collect(limitBr.Cond)
		for _, a := range atoms {
			be, ok := a.(*ast.BinaryExpr)
			if !ok {
				okShape = false
				continue
			}
			isLimitPos := be.Op == token.GTR && fieldOf(info, be.X) == "Conn.readLimit" && isZero(info, be.Y)
			isOver := (be.Op == token.GTR && fieldOf(info, be.X) == "Conn.readLength" && fieldOf(info, be.Y) == "Conn.readLimit")
			if !isLimitPos && !isOver {
				okShape = false
			}
		}
		c.Check(R, wtAdvance+"/limit-condition", limitBr.Cond.Pos(), okShape && len(atoms) <= 2,
			keyf("limit condition %q has only the enable clause (readLimit > 0) and the comparison", core.ExprString(limitBr.Cond)))
		// true edge: CloseWithError then return ErrReadLimit
		closeOK, retOK := false, false
		for _, cl := range adv.Calls() {
			if cl.Name == "CloseWithError" && g.EdgeDominates(limitBr.B, 0, cl.Loc) {
				closeOK = true
			}
		}
		for _, r := range returnsIn(adv) {
			if len(r.Stmt.Results) == 2 && isPkgVar(info, r.Stmt.Results[1], "ErrReadLimit") && g.EdgeDominates(limitBr.B, 0, r.Loc) {
				retOK = true
			}
		}
		c.Check(R, wtAdvance+"/limit-edge", limitBr.Cond.Pos(), closeOK && retOK, keyf("over-limit edge closes the session (%v) and returns ErrReadLimit (%v)", closeOK, retOK))
	}
	// data-type test: the edge on which frameType differs from the data type with value v
	notType := func(v int64) core.Guard {
		return func(u *core.Unit, br core.Branch) int {
			cmp, ok := u.BranchCmp(br)
			if !ok || !isLocal(u.Info(), cmp.X, "frameType") || cmp.Val == nil {
				return 0
			}
			if k, exact := constant.Int64Val(constant.ToInt(cmp.Val)); !exact || k != v {
				return 0
			}
			switch cmp.Op {
			case token.EQL:
				return -1 // false edge: frameType differs from that data type
			case token.NEQ:
				return 1 // `frameType != TextMessage && frameType != BinaryMessage { return … }`
			}
			return 0
		}
	}
	textV, _ := pkgConstInt(c, "webtransport", "TextMessage")
	binV, _ := pkgConstInt(c, "webtransport", "BinaryMessage")
	n := 0
	for _, r := range returnsIn(adv) {
		if len(r.Stmt.Results) != 2 || !core.IsNil(info, r.Stmt.Results[1]) {
			continue
		}
		if v, ok := core.ConstInt(info, r.Stmt.Results[0]); ok && v == noFrame {
			continue
		}
		n++
		viaChecks := acc != nil && limitBr != nil && g.Dominates(acc.Loc, r.Loc) && g.GuardedBy(r.Loc, overflowPass) && g.EdgeDominates(limitBr.B, 1, r.Loc)
		viaNonData := g.GuardedBy(r.Loc, notType(textV)) && g.GuardedBy(r.Loc, notType(binV)) // neither data type: both excluded, not just one
		c.Check(R, keyf("%s/success-return#%d", wtAdvance, n), r.Stmt.Pos(), viaChecks || viaNonData,
			keyf("through accumulation+overflow+limit pass edges=%v; non-data edge (infeasible: type ∈ {1,2})=%v", viaChecks, viaNonData))
	}
	c.Need(R, "success returns in advanceFrame", n, 1)
	// writers of readLength / readLimit
	for _, ua := range fieldAssignsAnywhere(c, "Conn.readLength") {
		ok := ua.U.Key == wtAdvance || ua.U.Key == wtNextReader
		c.Check(R, keyf("%s/writes-readLength", ua.U.Key), ua.Stmt.Pos(), ok, "readLength is written only by advanceFrame (+=) and NextReader (reset)")
	}
	nr := c.Fn(R, wtNextReader)
	if nr != nil {
		ng := nr.Graph()
		reset := false
		advCalls := nr.CallsTo(wtAdvance)
		for _, a := range fieldAssigns(nr, "Conn.readLength") {
			if isZero(nr.Info(), a.Rhs) && a.Tok == token.ASSIGN && len(advCalls) > 0 && ng.Dominates(a.Loc, advCalls[0].Loc) {
				reset = true
			}
		}
		c.Check(R, wtNextReader+"/reset-readLength", nr.Pos(), reset, "readLength = 0 dominates the advanceFrame loop")
	}
	for _, ua := range fieldAssignsAnywhere(c, "Conn.readLimit") {
		c.Check(R, keyf("%s/writes-readLimit", ua.U.Key), ua.Stmt.Pos(), ua.U.Key == "webtransport.(*Conn).SetReadLimit", "readLimit is written only by SetReadLimit")
	}
}

func isZero(info *types.Info, e ast.Expr) bool {
	v, ok := core.ConstInt(info, e)
	return ok && v == 0
}

func c15Sticky(c *core.Ctx) {
	const R = "C15.6"
	c.Rule(R, "readErr is monotone: written only in NextReader and messageReader.Read; each write is inside the `readErr == nil` loop (first failure) or refines io.EOF to errUnexpectedEOF on a `readErr == io.EOF` edge; NextReader's error exit returns c.readErr")
	nilErr := nilGuard(false, func(u *core.Unit, x ast.Expr) bool { return fieldOf(u.Info(), x) == "Conn.readErr" })
	n := 0
	for _, ua := range fieldAssignsAnywhere(c, "Conn.readErr") {
		n++
		u := ua.U
		if u.Key != wtNextReader && u.Key != wtMRRead {
			c.Violate(R, keyf("%s/writes-readErr", u.Key), ua.Stmt.Pos(), "readErr written outside NextReader / messageReader.Read")
			continue
		}
		g := u.Graph()
		first := g.GuardedBy(ua.Loc, nilErr)
		refine := ua.Rhs != nil && isPkgVar(u.Info(), ua.Rhs, "errUnexpectedEOF") && g.GuardedBy(ua.Loc, func(x *core.Unit, br core.Branch) int {
			cmp, ok := x.BranchCmp(br)
			if !ok || fieldOf(x.Info(), cmp.X) != "Conn.readErr" {
				return 0
			}
			return eqIOEOF(true)(x, br)
		})
		c.Check(R, keyf("%s/readErr-store#%d", u.Key, n), ua.Stmt.Pos(), first || refine, keyf("first-failure (readErr == nil edge)=%v, EOF-refinement=%v", first, refine))
	}
	c.Need(R, "stores of readErr", n, 2)
	nr := c.Fn(R, wtNextReader)
	if nr != nil {
		g := nr.Graph()
		info := nr.Info()
		for _, cl := range nr.CallsTo(wtAdvance) {
			c.Check(R, wtNextReader+"/advance-only-while-no-error", cl.Pos(), g.GuardedBy(cl.Loc, nilErr), "advanceFrame is called only on the readErr == nil edge")
		}
		// returns: success returns nil error; the fall-through return yields c.readErr
		okExit := false
		for _, r := range returnsIn(nr) {
			if len(r.Stmt.Results) == 3 && fieldOf(info, r.Stmt.Results[2]) == "Conn.readErr" {
				okExit = true
			}
		}
		c.Check(R, wtNextReader+"/error-exit-returns-readErr", nr.Pos(), okExit, "the error exit returns the sticky c.readErr")
	}
	rd := c.Fn(R, wtMRRead)
	if rd != nil {
		g := rd.Graph()
		for _, cl := range rd.Calls() {
			if cl.Name == "Read" && cl.Recv != nil && fieldOf(rd.Info(), cl.Recv) == "Conn.br" {
				c.Check(R, wtMRRead+"/read-only-while-no-error", cl.Pos(), g.GuardedBy(cl.Loc, nilErr), "br.Read is called only on the readErr == nil edge")
			}
		}
	}
}

func c15MidFrameEOF(c *core.Ctx) {
	const R = "C15.7"
	c.Rule(R, "a stream that ends inside a frame is an unexpected EOF: in messageReader.Read, readErr = errUnexpectedEOF on `readRemaining > 0 && readErr == io.EOF`, and the post-loop branch maps io.EOF to errUnexpectedEOF while the reader is current")
	rd := c.Fn(R, wtMRRead)
	if rd == nil {
		return
	}
	info := rd.Info()
	g := rd.Graph()
	remPos := func(u *core.Unit, br core.Branch) int {
		cmp, ok := u.BranchCmp(br)
		if !ok || fieldOf(u.Info(), cmp.X) != "Conn.readRemaining" {
			return 0
		}
		if K, ge, ok := cmpThreshold(cmp); ok && K == 1 {
			if ge == 0 {
				return 1
			}
			return -1
		}
		return 0
	}
	inFrame := false
	for _, a := range fieldAssigns(rd, "Conn.readErr") {
		if a.Rhs != nil && isPkgVar(info, a.Rhs, "errUnexpectedEOF") && g.GuardedBy(a.Loc, remPos) && g.GuardedBy(a.Loc, eqIOEOF(true)) {
			// the deciding (innermost) condition is exactly `readRemaining > 0 && readErr == io.EOF`, evaluated after the
			// remaining count was updated: an extra conjunct (e.g. n == 0) lets a frame that ends together with its last
			// bytes pass as complete
			inner := innermostFact(g, a.Loc)
			exact := false
			if inner != nil {
				nRem, nEOF, nOther := 0, 0, 0
				for _, f := range g.Facts() {
					if f.Br.B != inner.Br.B || f.Edge != inner.Edge {
						continue
					}
					switch {
					case remPos(rd, f.Br) != 0:
						nRem++
					case eqIOEOF(true)(rd, f.Br) != 0:
						nEOF++
					default:
						nOther++
					}
				}
				exact = nRem == 1 && nEOF == 1 && nOther == 0
				// and the remaining count it tests is the updated one: setReadRemaining precedes the test
				for _, sc := range rd.CallsTo(wtSetRem) {
					cond := core.Loc{B: inner.Br.B, I: len(inner.Br.B.Nodes) - 1}
					if !g.Dominates(sc.Loc, cond) {
						exact = false
					}
				}
			}
			inFrame = exact
		}
	}
	c.Check(R, wtMRRead+"/EOF-inside-frame", rd.Pos(), inFrame, "readErr = errUnexpectedEOF on readRemaining > 0 && readErr == io.EOF")
	post := false
	for _, a := range assignsIn(rd, func(l ast.Expr) bool { return isLocal(info, l, "err") }) {
		if a.Rhs != nil && isPkgVar(info, a.Rhs, "errUnexpectedEOF") && g.GuardedBy(a.Loc, eqIOEOF(true)) {
			post = true
		}
	}
	c.Check(R, wtMRRead+"/EOF-after-loop", rd.Pos(), post, "the post-loop error is refined from io.EOF to errUnexpectedEOF")
}

func c15Stale(c *core.Ctx) {
	const R = "C15.8"
	c.Rule(R, "a stale messageReader is inert: messageReader.Read touches the connection only on the `c.messageReader == r` edge, the other edge returns 0, io.EOF")
	rd := c.Fn(R, wtMRRead)
	if rd == nil {
		return
	}
	g := rd.Graph()
	cur := func(u *core.Unit, br core.Branch) int {
		cmp, ok := u.BranchCmp(br)
		if !ok || cmp.Y == nil || fieldOf(u.Info(), cmp.X) != "Conn.messageReader" {
			return 0
		}
		if _, isP := u.IsParam(cmp.Y); !isP {
			return 0
		}
		switch cmp.Op {
		case token.EQL:
			return 1
		case token.NEQ:
			return -1
		}
		return 0
	}
	n := 0
	for _, cl := range rd.Calls() {
		if cl.Recv != nil && fieldOf(rd.Info(), cl.Recv) == "Conn.br" {
			n++
			c.Check(R, wtMRRead+"/current-reader-only", cl.Pos(), g.GuardedBy(cl.Loc, cur), "br is used only when this reader is the connection's current reader")
		}
	}
	c.Need(R, "uses of c.br in messageReader.Read", n, 1)
	// the guard compares object identity, so it only works when every message gets its own reader object
	const R2 = "C15.8b"
	c.Rule(R2, "one reader object per message: every store to Conn.messageReader in package webtransport is nil or a fresh &messageReader{…} literal, and in NextReader such a fresh allocation is executed on every path to the return that hands a reader out (a reader object reused for the next message makes the stale-reader test `c.messageReader != r` true for the old handle too: reading the old handle consumes the new message's payload)")
	nStores := 0
	for _, ua := range fieldAssignsAnywhere(c, "Conn.messageReader") {
		nStores++
		fresh := false
		if ua.Rhs != nil {
			if core.IsNil(ua.U.Info(), ua.Rhs) {
				fresh = true
			} else if ue, ok := ast.Unparen(ua.U.Deep(ua.Rhs)).(*ast.UnaryExpr); ok && ue.Op == token.AND { // also through `mr := &messageReader{c}`
				_, fresh = ast.Unparen(ue.X).(*ast.CompositeLit)
			}
		}
		c.Check(R2, keyf("%s/messageReader=nil|fresh", ua.U.Key), ua.Stmt.Pos(), fresh, "the current-reader slot only ever receives nil or a newly allocated reader")
	}
	c.Need(R2, "stores to Conn.messageReader", nStores, 2)
	nr := c.Fn(R2, wtNextReader)
	if nr != nil {
		ng := nr.Graph()
		var allocs []core.Loc
		for _, a := range fieldAssigns(nr, "Conn.messageReader") {
			if a.Rhs != nil && !core.IsNil(nr.Info(), a.Rhs) {
				allocs = append(allocs, a.Loc)
			}
		}
		handed := 0
		for _, r := range returnsIn(nr) {
			if len(r.Stmt.Results) == 3 && !core.IsNil(nr.Info(), r.Stmt.Results[1]) {
				handed++
				c.Check(R2, wtNextReader+"/fresh-reader-on-every-path-to-return", r.Stmt.Pos(), len(allocs) > 0 && ng.DominatesAny(allocs, r.Loc), "the reader handed out was allocated for this message")
			}
		}
		c.Need(R2, "returns of NextReader that hand a reader out", handed, 1)
	}
}

// wtPeekValidity — C15.2b / C13.3b / C14.2c / C02.9: the slice returned by
// c.read(n) is a bufio Peek window, valid only until the next read on the
// connection's buffer; every use of it must precede any later buffer read.
func wtPeekValidity(c *core.Ctx, R string) {
	c.Rule(R, "peek-window validity (typestate): the header bytes returned by c.read(n) alias bufio's internal buffer and are invalidated by the next read/discard on it; no use of such a slice (index, BigEndian.UintNN) may be reachable after a later c.read / io.CopyN(…, br, …) / br method call — a stale window yields the wrong kind bit or length when the stream is fragmented inside a frame header")
	adv := c.Fn(R, wtAdvance)
	if adv == nil {
		return
	}
	info := adv.Info()
	g := adv.Graph()
	reads := adv.CallsTo(wtRead)
	var advancing []*core.Call
	for _, cl := range adv.Calls() {
		if cl.Key == wtRead {
			advancing = append(advancing, cl)
			continue
		}
		if cl.Recv != nil && fieldOf(info, cl.Recv) == "Conn.br" {
			advancing = append(advancing, cl)
			continue
		}
		for _, a := range cl.Expr.Args {
			if fieldOf(info, a) == "Conn.br" {
				advancing = append(advancing, cl)
			}
		}
	}
	n := 0
	for _, rd := range reads {
		sz, _ := core.ConstInt(info, rd.Arg(0))
		ast.Inspect(adv.Body, func(nd ast.Node) bool {
			var use ast.Expr
			switch x := nd.(type) {
			case *ast.IndexExpr:
				if tupleOf(adv, x.X, rd.Expr, 0) {
					use = x
				}
			case *ast.CallExpr:
				if len(x.Args) == 1 && tupleOf(adv, x.Args[0], rd.Expr, 0) {
					use = x
				}
			}
			if use == nil {
				return true
			}
			n++
			loc := g.LocOf(use)
			stale := ""
			for _, x := range advancing {
				if x == rd {
					continue
				}
				if g.CanFollow(rd.Loc, x.Loc) && g.CanFollow(x.Loc, loc) {
					stale = keyf("%s at %s", x.Name, c.P.PosStr(x.Pos()))
				}
			}
			c.Check(R, keyf("%s/read(%d)-window-use#%d", wtAdvance, sz, n), use.Pos(), stale == "", keyf("no later buffer read can precede this use (%s)", stale))
			return true
		})
	}
	c.Need(R, "uses of peeked header bytes", n, 4)
}

// c15NoDeclaredSizeAllocation — C15.1b: the peer declares a frame length of up
// to 2^63-1; nothing may be allocated from that declaration.
func c15NoDeclaredSizeAllocation(c *core.Ctx) {
	const R = "C15.1b"
	c.Rule(R, "no allocation sized by a declared length: in package webtransport no make(…) has a length or capacity that mentions Conn.readRemaining / Conn.readLength (directly or through a local defined from them) — makeslice panics ('len out of range') for the lengths a 64-bit header can declare, before a single payload byte was supplied; messages are accumulated by io.ReadAll / ReadFrom, whose growth follows the bytes actually received")
	n := 0
	for _, u := range c.P.Units {
		if u.Pkg == nil || u.Pkg.Types == nil || u.Pkg.Types.Name() != "webtransport" {
			continue
		}
		info := u.Info()
		for _, cl := range u.Calls() {
			if cl.Callee != nil || cl.Name != "make" {
				continue
			}
			if id, ok := ast.Unparen(cl.Expr.Fun).(*ast.Ident); !ok || info.Uses[id] == nil {
				continue
			} else if _, isB := info.Uses[id].(*types.Builtin); !isB {
				continue
			}
			n++
			bad := ""
			for _, a := range cl.Expr.Args[1:] {
				var visit func(e ast.Expr, depth int)
				visit = func(e ast.Expr, depth int) {
					ast.Inspect(e, func(x ast.Node) bool {
						switch s := x.(type) {
						case *ast.SelectorExpr:
							if f := fieldOf(info, s); f == "Conn.readRemaining" || f == "Conn.readLength" {
								bad = f
							}
						case *ast.Ident:
							if depth < 4 {
								if v, ok := info.Uses[s].(*types.Var); ok && !v.IsField() {
									if d, ok := u.SingleDef(s); ok && d != ast.Expr(s) {
										if _, isT := d.(*core.TupleElem); !isT {
											if _, isR := d.(*core.RangeElem); !isR {
												if _, isZ := d.(*core.ZeroValue); !isZ {
													if _, isA := d.(*core.AddrTaken); !isA {
														visit(d, depth+1)
													}
												}
											}
										}
									}
								}
							}
						}
						return true
					})
				}
				visit(a, 0)
			}
			c.Check(R, keyf("%s/make(%s)", u.Key, core.ExprString(cl.Expr.Args[len(cl.Expr.Args)-1])), cl.Pos(), bad == "", keyf("allocation size depends on %s, a length the peer merely declared", bad))
		}
	}
	c.Need(R, "make sites in package webtransport", n, 4)
}

// c15ConsumedAccounting — C15.4b / C13.4b / C02.8e: the remaining-bytes counter
// of the current frame follows the bytes actually read.
func c15ConsumedAccounting(c *core.Ctx, R string) {
	c.Rule(R, "consumed-bytes accounting: in messageReader.Read the value handed to setReadRemaining is readRemaining minus int64(n) where n is the count returned by c.br.Read(b) — not the size of the (clamped) destination buffer: a short read (payload split across stream reads, or the stream ending inside the frame) would otherwise be booked as a complete read, the frame reported complete and its undelivered bytes parsed as the next frame header")
	rd := c.Fn(R, wtMRRead)
	if rd == nil {
		return
	}
	info := rd.Info()
	fromRead := func(e ast.Expr) bool {
		e = stripConv(info, e)
		d, ok := rd.SingleDef(e)
		if !ok {
			return false
		}
		te, ok := d.(*core.TupleElem)
		if !ok || te.Index != 0 {
			return false
		}
		ce, ok := ast.Unparen(te.X).(*ast.CallExpr)
		if !ok {
			return false
		}
		se, ok := ce.Fun.(*ast.SelectorExpr)
		return ok && se.Sel.Name == "Read" && fieldOf(info, se.X) == "Conn.br"
	}
	n := 0
	ast.Inspect(rd.Body, func(x ast.Node) bool {
		switch s := x.(type) {
		case *ast.FuncLit:
			return false
		case *ast.AssignStmt:
			if s.Tok == token.SUB_ASSIGN && len(s.Rhs) == 1 {
				n++
				c.Check(R, wtMRRead+"/subtracts-bytes-read", s.Pos(), fromRead(s.Rhs[0]), keyf("the counter is decreased by %s", core.ExprString(s.Rhs[0])))
			}
		case *ast.BinaryExpr:
			if s.Op == token.SUB {
				if t := info.TypeOf(s); t != nil && t.String() == "int64" {
					n++
					c.Check(R, wtMRRead+"/subtracts-bytes-read", s.Pos(), fromRead(s.Y), keyf("the counter is decreased by %s", core.ExprString(s.Y)))
				}
			}
		}
		return true
	})
	c.Need(R, "subtractions in messageReader.Read", n, 1)
}
