package rules

// Rules whose violation on the current tree is a genuine defect that was
// recorded rather than repaired (second bug-hunting round, DESIGN §9.14):
// each has a witness against the real code in known-findings.json and prints
// KNOWN-FINDING for exactly the listed construct; anything else is a violation.

import (
	"go/ast"
	"go/types"
	"strings"

	"engcheck/core"
)

// closeSerialisedWithFlush (C12.15 = C18.12).
// flush takes the buffer, runs the flush listeners, hands the batch to the
// transport and emits drain, all under flushMu. A graceful Close decides
// between "wait for drain" and "close now" by looking at the buffer: unless
// that decision is made with flushMu held it can land inside a flush.
func closeSerialisedWithFlush(c *core.Ctx, R string) {
	c.Rule(R, "a graceful Close is one step with respect to flush: in socket.Close the writeBuffer.Len() test and the registration of the drain listener execute with flushMu held (flush empties the buffer before it hands the batch over and emits drain: a Close that looks at the buffer in between sees it empty and closes the transport under the batch, or registers its listener after the only drain)")
	u := c.Fn(R, sockClose)
	if u == nil {
		return
	}
	g := u.Graph()
	n := 0
	for _, cl := range fieldCalls(u, "socket.writeBuffer") {
		if cl.Name != "Len" {
			continue
		}
		n++
		c.Check(R, sockClose+"/buffer-test-under-flushMu", cl.Pos(), g.HeldAt(cl.Loc)["socket.flushMu"], "the buffer is examined while no flush can be between taking it and handing it over")
	}
	for _, e := range filterEv(events(c, u), "once", "", "drain") {
		n++
		c.Check(R, sockClose+"/drain-listener-registered-under-flushMu", e.Pos(), g.HeldAt(e.Loc)["socket.flushMu"], "the listener is in place before the flush that empties the buffer emits drain")
	}
	c.Need(R, "buffer test and drain registration in socket.Close", n, 2)
}

// announcedBeforeDispatch (C06.12 = C02.17).
func announcedBeforeDispatch(c *core.Ctx, R string) {
	c.Rule(R, "the application is handed a session before that session dispatches packets: between NewSocket (which wires the transport — whose reader goroutine is already running — to socket.onPacket and sends the open packet) and Emit(\"connection\") in Handshake, either the transport's reader is started only after the event (Start, C08.6), or the open packet is withheld (the transport is made not writable before NewSocket and writable again after the event), or onPacket waits for the announcement; otherwise a client that answers the open packet at once has its first message dispatched to no listener")
	u := c.Fn(R, "engine.(*baseServer).Handshake")
	if u == nil {
		return
	}
	g := u.Graph()
	var ns, conn *core.Call
	for _, cl := range u.Calls() {
		if cl.Name == "NewSocket" {
			ns = cl
		}
	}
	for _, e := range filterEv(events(c, u), "emit", "", "connection") {
		conn = e.Call
	}
	if ns == nil || conn == nil {
		c.Check(R, "engine.(*baseServer).Handshake/NewSocket,Emit(connection)", u.Pos(), false, "anchor calls not found")
		return
	}
	withheld := false
	for _, off := range u.Calls() {
		if !mNameBool("SetWritable", 0, false)(u, off) || !g.Dominates(off.Loc, ns.Loc) {
			continue
		}
		for _, on := range u.Calls() {
			if mNameBool("SetWritable", 0, true)(u, on) && g.CanFollow(conn.Loc, on.Loc) {
				withheld = true
			}
		}
	}
	gated := false
	if op := c.P.Func(sockOnPacket); op != nil {
		// a receive from a channel field of the socket ahead of the first emit
		ast.Inspect(op.Body, func(n ast.Node) bool {
			if ue, ok := n.(*ast.UnaryExpr); ok && ue.Op.String() == "<-" {
				if strings.HasPrefix(fieldOf(op.Info(), ue.X), "socket.") {
					gated = true
				}
			}
			return true
		})
	}
	started := readerStartsAfterConnection(c)
	c.Check(R, "engine.(*baseServer).Handshake/session-dispatches-before-connection-event", ns.Pos(), g.Dominates(conn.Loc, ns.Loc) || withheld || gated || started,
		keyf("open packet withheld until after the event: %v; onPacket waits for the announcement: %v; the transport's reader is started after the event: %v", withheld, gated, started))
	readerStartedByConsumer(c, R)
}

// upgradeResponseHeaders (C17.12).
func upgradeResponseHeaders(c *core.Ctx, R string) {
	c.Rule(R, "every HTTP response of a session passes through the headers events: the 101 response that HandleUpgrade writes (the handshake response of a session that starts on websocket, and the response that opens an upgrade candidate) is preceded by Emit(\"headers\") — and, for a request without sid, Emit(\"initial_headers\") and the session cookie — on the headers it sends; the only emitter today is polling.headers")
	n := 0
	for _, u := range c.P.Units {
		if !strings.HasPrefix(u.Key, "engine.(*server).HandleUpgrade") {
			continue
		}
		g := u.Graph()
		for _, cl := range u.Calls() {
			if cl.Name != "Upgrade" || cl.Callee == nil || cl.Callee.Pkg() == nil || !strings.HasSuffix(cl.Callee.Pkg().Path(), "gorilla/websocket") {
				continue
			}
			n++
			ok := false
			for _, e := range filterEv(events(c, u), "emit", "", "headers") {
				if g.Dominates(e.Loc, cl.Loc) {
					ok = true
				}
			}
			c.Check(R, "engine.(*server).HandleUpgrade/headers-events≺101-response", cl.Pos(), ok, "the upgrade response is written without the headers / initial_headers events and without the session cookie")
		}
	}
	c.Need(R, "websocket Upgrade calls in HandleUpgrade", n, 1)
}

// deliveryOrderedWithClose (C03.23 = C02.18).
func deliveryOrderedWithClose(c *core.Ctx, R string) {
	c.Rule(R, "silence after close under every interleaving: the state test that licenses the session's delivery events (onPacket: packet / heartbeat / data / message; flush: flush / drain) and the emits it licenses share a mutex with OnClose's transition and close event — a plain test-then-emit lets a close event complete between the test and the emit")
	oc := c.Fn(R, sockOnClose)
	if oc == nil {
		return
	}
	closeLocks := map[string]bool{}
	for _, cl := range oc.Calls() {
		if cl.Name == "Swap" && cl.Recv != nil && fieldOf(oc.Info(), cl.Recv) == "socket.readyState" {
			for k, v := range oc.Graph().HeldAt(cl.Loc) {
				if v {
					closeLocks[k] = true
				}
			}
		}
	}
	for _, key := range []string{sockOnPacket, sockFlush} {
		u := c.Fn(R, key)
		if u == nil {
			continue
		}
		g := u.Graph()
		shared := true
		n := 0
		for _, e := range events(c, u) {
			if e.Kind != "emit" || e.Class != "session" {
				continue
			}
			n++
			common := false
			for k, v := range g.HeldAt(e.Loc) {
				if v && closeLocks[k] {
					common = true
				}
			}
			shared = shared && common
		}
		c.Check(R, key+"/state-test-and-emits-ordered-with-OnClose", u.Pos(), n > 0 && shared, keyf("%d session emits; each under a mutex that OnClose holds at its transition: %v", n, shared))
	}
}

// v3BinaryPayloadCodec (C02.19 = C09.21 = C10.10 = C07.11, C16.10 = C01.24).
// The dependency is inspected on every run, as in C02.12: the finding is about
// this repository handing client-controlled (resp. application) data to a
// codec that is defective in the pinned version.
func v3BinaryPayloadCodec(c *core.Ctx, R string, inbound bool) {
	if inbound {
		c.Rule(R, "revision-3 payloads from the client are not decoded by a codec that misframes them: while the pinned parser's decodePayloadAsBinary (the dependency, inspected on every run) reads the text of a string packet rune by rune with a look-ahead (ReadRune) and loops on the declared length without testing for the end of the input, polling.decodePayload does not hand a revision-3 payload to Parser.DecodePayload")
	} else {
		c.Rule(R, "revision-3 binary payloads are not encoded by a codec that corrupts them: while the pinned parser's encodeOneBinaryPacket (the dependency, inspected on every run) passes a string packet through its utf8 encoder after the length was computed on the encoded form, polling.send does not hand a revision-3 batch with binary support to Parser.EncodePayload")
	}
	pk := c.P.Dep("github.com/zishang520/engine.io-go-parser/parser")
	if pk == nil {
		c.Undecided(R, "engine.io-go-parser/parser", "the parser package is not among the loaded dependencies")
		return
	}
	fname, marker := "decodePayloadAsBinary", "ReadRune"
	if !inbound {
		fname, marker = "encodeOneBinaryPacket", "NewUtf8Encoder"
	}
	defective := false
	found := false
	for _, f := range pk.Syntax {
		for _, d := range f.Decls {
			fd, ok := d.(*ast.FuncDecl)
			if !ok || fd.Body == nil || fd.Name.Name != fname {
				continue
			}
			found = true
			ast.Inspect(fd.Body, func(n ast.Node) bool {
				if ce, ok := n.(*ast.CallExpr); ok {
					if se, ok := ce.Fun.(*ast.SelectorExpr); ok && strings.EqualFold(se.Sel.Name, marker) {
						defective = true
					}
					if id, ok := ce.Fun.(*ast.Ident); ok && strings.EqualFold(id.Name, marker) {
						defective = true
					}
				}
				return true
			})
		}
	}
	c.Check(R, "dependency/parserv3."+fname+"-inspected", 0, found, keyf("function found: %v; defective construct (%s) present: %v", found, marker, defective))
	is3 := func(u *core.Unit, br core.Branch) int {
		cmp, ok := u.BranchCmp(br)
		if !ok || cmp.Val == nil {
			return 0
		}
		if _, key := u.AsCall(cmp.X); !strings.HasSuffix(key, ".Protocol") {
			return 0
		}
		v := cmp.Val.ExactString()
		switch {
		case (v == "3" && cmp.Op.String() == "==") || (v == "4" && cmp.Op.String() == "!="):
			return 1
		case (v == "3" && cmp.Op.String() == "!=") || (v == "4" && cmp.Op.String() == "=="):
			return -1
		}
		return 0
	}
	unit, call := "transports.(*polling).decodePayload", "DecodePayload"
	if !inbound {
		unit, call = "transports.(*polling).send", "EncodePayload"
	}
	u := c.Fn(R, unit)
	if u == nil {
		return
	}
	g := u.Graph()
	n := 0
	for _, cl := range u.Calls() {
		if cl.Name != call || cl.Callee == nil || cl.Callee.Pkg() == nil || !strings.HasSuffix(cl.Callee.Pkg().Path(), "engine.io-go-parser/parser") {
			continue
		}
		if !g.GuardedBy(cl.Loc, is3) {
			continue
		}
		n++
		c.Check(R, keyf("%s/revision-3-payload→parser.%s", unit, call), cl.Pos(), !defective, "the revision-3 payload goes through the dependency's codec")
	}
	if defective {
		c.Need(R, "revision-3 "+call+" call in "+unit, n, 1)
	}
	var _ types.Object
}

// listenerIdentity (C20.8).
func listenerIdentity(c *core.Ctx, R string) {
	c.Rule(R, "removing a listener removes a registration of that function: the emitter identifies a registration by something that distinguishes two function values — reflect.Value.Pointer() of a func is its code pointer, shared by all closures of one literal and all method values of one method, so RemoveListener(C) can remove A's registration")
	n := 0
	for _, key := range []string{"types.(*emmiter).AddListener", "types.(*emmiter).Once", "types.(*emmiter).RemoveListener"} {
		u := c.P.Func(key)
		if u == nil {
			continue
		}
		for _, cl := range u.Calls() {
			if cl.Name != "Pointer" || cl.Callee == nil || cl.Callee.Pkg() == nil || cl.Callee.Pkg().Path() != "reflect" {
				continue
			}
			n++
			c.Touch(u)
			c.Check(R, key+"/listener-identified-by-code-pointer", cl.Pos(), false, "reflect.ValueOf(listener).Pointer() does not identify a function value")
		}
	}
	if n == 0 {
		c.Check(R, "types.(*emmiter)/listener-identity", 0, true, "no registration is identified by a code pointer")
	}
}

// mapAggregatesSnapshot (C20.9).
func mapAggregatesSnapshot(c *core.Ctx, R string) {
	c.Rule(R, "Map.Len / Keys / Values are linearizable: they are not computed by the non-snapshot Range (which visits each entry at a different moment: with one writer doing Store(k+1); Delete(k) the map always holds one or two keys, yet a concurrent Len() returns 0)")
	for _, name := range []string{"Len", "Keys", "Values"} {
		key := "types.(*Map).Map." + name
		u := c.P.Func("types.(*Map)." + name)
		if u == nil {
			for _, cand := range c.P.Units {
				if strings.HasPrefix(cand.Key, "types.(*Map") && strings.HasSuffix(cand.Key, ")."+name) {
					u = cand
				}
			}
		}
		if u == nil {
			continue
		}
		key = u.Key
		viaRange := false
		for _, cl := range u.Calls() {
			if cl.Name == "Range" {
				viaRange = true
			}
		}
		c.Touch(u)
		c.Check(R, key+"/computed-by-non-snapshot-Range", u.Pos(), !viaRange, "the aggregate is assembled from entries read at different moments")
	}
}
