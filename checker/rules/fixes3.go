package rules

// Rules written with the defects repaired in the second bug-hunting round
// (DESIGN §9.14). As in fixes2.go each states, over resolved constructs, the
// condition whose absence was the defect; every one has a revert-the-fix mutant.

import (
	"go/ast"
	"go/token"
	"go/types"
	"strings"

	"engcheck/core"
)

const httpCtxMu = "HttpContext.mu"

// handlerReleasedUnderMutex (C09.19 = C11.15) — fix c244e9c.
// Flush closes the channel HandleRequest waits on; once the handler returns
// net/http recycles the response writer. HttpContext.Write uses that writer
// with HttpContext.mu held, so whoever releases the handler must hold it too.
func handlerReleasedUnderMutex(c *core.Ctx, R string) {
	c.Rule(R, "the handler is released only with the response mutex held: every call of HttpContext.Flush in /repo (the watcher's request-context arm, Write's deferred call) executes with HttpContext.mu held — Write uses the http.ResponseWriter under that mutex, and net/http recycles the writer as soon as the released handler returns (a send goroutine writing at that moment crashes the process)")
	n := 0
	for _, u := range c.P.Units {
		for _, cl := range u.CallsTo("types.(*HttpContext).Flush") {
			n++
			c.Touch(u)
			held := u.Graph().HeldAt(cl.Loc)[httpCtxMu]
			c.Check(R, keyf("%s/Flush-under-%s", u.Key, httpCtxMu), cl.Pos(), held, "HttpContext.mu is held where the handler is released")
		}
	}
	c.Need(R, "calls of HttpContext.Flush", n, 2)
}

// headerValuesComplete (C17.10 = C09.20) — fix dcda16a.
func headerValuesComplete(c *core.Ctx, R string) {
	c.Rule(R, "HttpContext.Write hands every value of every response header field to the writer: the values of `range ResponseHeaders.All()` are used whole (assigned, appended or ranged over), never indexed — v[0] dropped every further Set-Cookie / Vary line and panicked, on a goroutine nobody recovers, for a field without values")
	u := c.Fn(R, "types.(*HttpContext).Write")
	if u == nil {
		return
	}
	info := u.Info()
	n := 0
	var bodies []ast.Node
	for _, x := range u.WithHelpers() { // the copy loop may have been extracted into a private helper called by Write
		bodies = append(bodies, x.Body)
	}
	for _, body := range bodies {
		ast.Inspect(body, func(x ast.Node) bool {
			rs, ok := x.(*ast.RangeStmt)
			if !ok {
				return true
			}
			ce, isC := ast.Unparen(rs.X).(*ast.CallExpr)
			if !isC || calleeNameOf(ce) != "All" {
				return true
			}
			se, _ := ce.Fun.(*ast.SelectorExpr)
			if se == nil || fieldOf(info, se.X) != "HttpContext.ResponseHeaders" {
				return true
			}
			n++
			val, _ := rs.Value.(*ast.Ident)
			if val == nil || val.Name == "_" {
				c.Check(R, "types.(*HttpContext).Write/all-values-of-a-field", rs.Pos(), false, "the values of the field are not used at all")
				return true
			}
			vobj := info.Defs[val]
			indexed, whole := 0, 0
			var parents []ast.Node
			ast.Inspect(rs.Body, func(y ast.Node) bool {
				if y == nil {
					parents = parents[:len(parents)-1]
					return true
				}
				if id, isID := y.(*ast.Ident); isID && info.Uses[id] == vobj && len(parents) > 0 {
					switch p := parents[len(parents)-1].(type) {
					case *ast.IndexExpr:
						if p.X == ast.Expr(id) {
							indexed++
						}
					case *ast.SliceExpr:
						if p.X == ast.Expr(id) {
							indexed++
						}
					default:
						whole++
					}
				}
				parents = append(parents, y)
				return true
			})
			c.Check(R, "types.(*HttpContext).Write/all-values-of-a-field", rs.Pos(), indexed == 0 && whole >= 1, keyf("uses of the value list as a whole: %d; indexed or sliced: %d", whole, indexed))
			return true
		})
	}
	// the other form: the fields are walked in key order and each value list is taken out of the All() map
	// (`all := ResponseHeaders.All(); … v := all[k]`)
	isAllMap := func(x *core.Unit, e ast.Expr) bool {
		d, ok := x.SingleDef(e)
		if !ok {
			return false
		}
		ce, isC := ast.Unparen(d).(*ast.CallExpr)
		if !isC || calleeNameOf(ce) != "All" {
			return false
		}
		se, _ := ce.Fun.(*ast.SelectorExpr)
		return se != nil && fieldOf(x.Info(), se.X) == "HttpContext.ResponseHeaders"
	}
	for _, x := range u.WithHelpers() {
		xi := x.Info()
		vals := map[types.Object]bool{}
		ast.Inspect(x.Body, func(nd ast.Node) bool {
			as, isA := nd.(*ast.AssignStmt)
			if !isA || len(as.Rhs) != 1 {
				return true
			}
			if ix, isIx := ast.Unparen(as.Rhs[0]).(*ast.IndexExpr); isIx && isAllMap(x, ix.X) {
				if id, isID := as.Lhs[0].(*ast.Ident); isID && id.Name != "_" {
					if o := xi.Defs[id]; o != nil {
						vals[o] = true
					} else if o := xi.Uses[id]; o != nil {
						vals[o] = true
					}
				}
			}
			return true
		})
		for vobj := range vals {
			n++
			indexed, whole := 0, 0
			var parents []ast.Node
			ast.Inspect(x.Body, func(y ast.Node) bool {
				if y == nil {
					parents = parents[:len(parents)-1]
					return true
				}
				if id, isID := y.(*ast.Ident); isID && xi.Uses[id] == vobj && len(parents) > 0 {
					switch p := parents[len(parents)-1].(type) {
					case *ast.IndexExpr:
						if p.X == ast.Expr(id) {
							indexed++
						}
					case *ast.SliceExpr:
						if p.X == ast.Expr(id) {
							indexed++
						}
					default:
						whole++
					}
				}
				parents = append(parents, y)
				return true
			})
			c.Check(R, "types.(*HttpContext).Write/all-values-of-a-field", x.Pos(), indexed == 0 && whole >= 1, keyf("uses of the value list as a whole: %d; indexed or sliced: %d", whole, indexed))
		}
	}
	c.Need(R, "value lists of ResponseHeaders.All() in HttpContext.Write", n, 1)
}

// headerNamesFoldedInOrder (C17.14) — the follow-up of 961bd1b in HttpContext.Write.
func headerNamesFoldedInOrder(c *core.Ctx, R string) {
	c.Rule(R, "HttpContext.Write folds the scheduled field names to their canonical form in a fixed order and lets two spellings of one field join: no assignment into the response's header map happens inside a `range` over a map (map order decided which of `set-cookie` / `Set-Cookie` survived — the session cookie was lost at random), the keys are sorted, and where a canonical name was already written the values are appended")
	u := c.Fn(R, "types.(*HttpContext).Write")
	if u == nil {
		return
	}
	sorted, joined, inMapRange := false, false, false
	for _, x := range u.WithHelpers() {
		xi := x.Info()
		for _, cl := range x.Calls() {
			if cl.Key == "sort.Strings" || cl.Key == "slices.Sort" {
				sorted = true
			}
		}
		isHeaderMap := func(e ast.Expr) bool {
			t := xi.TypeOf(e)
			return t != nil && strings.HasSuffix(t.String(), "net/http.Header")
		}
		var ranges []*ast.RangeStmt
		var walk func(nd ast.Node) bool
		walk = func(nd ast.Node) bool {
			switch st := nd.(type) {
			case *ast.RangeStmt:
				ranges = append(ranges, st)
				ast.Inspect(st.Body, walk)
				ranges = ranges[:len(ranges)-1]
				return false
			case *ast.AssignStmt:
				for i, l := range st.Lhs {
					ix, isIx := ast.Unparen(l).(*ast.IndexExpr)
					if !isIx || !isHeaderMap(ix.X) {
						continue
					}
					for _, r := range ranges {
						if t := xi.TypeOf(r.X); t != nil {
							if _, isMap := t.Underlying().(*types.Map); isMap {
								inMapRange = true
							}
						}
					}
					if i < len(st.Rhs) {
						if ce, isC := ast.Unparen(st.Rhs[i]).(*ast.CallExpr); isC && calleeNameOf0(ce) == "append" && len(ce.Args) >= 2 {
							if ax, isAx := ast.Unparen(ce.Args[0]).(*ast.IndexExpr); isAx && isHeaderMap(ax.X) {
								joined = true
							}
						}
					}
				}
			}
			return true
		}
		ast.Inspect(x.Body, walk)
	}
	c.Check(R, "types.(*HttpContext).Write/names-folded-in-fixed-order,spellings-join", u.Pos(), sorted && joined && !inMapRange,
		keyf("keys sorted: %v; a second spelling appends to the first: %v; header map assigned inside a range over a map: %v", sorted, joined, inMapRange))
}

// varyAllLines (C17.11) — fix ee3c41e.
func varyAllLines(c *core.Ctx, R string) {
	c.Rule(R, "CORS merges into every Vary field line that is already set: applyHeaders reads the existing value with Gets(\"Vary\") (all lines); a last-value accessor (Peek / Get / GetFirst) followed by Set drops the other lines")
	u := c.Fn(R, "types.(*cors).applyHeaders")
	if u == nil {
		return
	}
	all, last := 0, 0
	for _, cl := range u.Calls() {
		if cl.Arg(0) == nil {
			continue
		}
		if s, ok := core.ConstString(u.Info(), cl.Arg(0)); !ok || s != "Vary" {
			continue
		}
		switch cl.Name {
		case "Gets":
			all++
		case "Peek", "Get", "GetFirst":
			last++
			c.Check(R, keyf("types.(*cors).applyHeaders/%s(Vary)", cl.Name), cl.Pos(), false, "only the last Vary line is read")
		}
	}
	c.Check(R, "types.(*cors).applyHeaders/Gets(Vary)", u.Pos(), all >= 1 && last == 0, keyf("reads of all lines: %d; of the last line only: %d", all, last))
}

// wtCandidateRevision (C14.5 = C01.23 = C02.15 = C06.11) — fix aa663d0.
func wtCandidateRevision(c *core.Ctx, R string) {
	c.Rule(R, "WebTransport speaks revision 4 only and its URL carries no query: in OnWebTransportSession every CreateTransport / Handshake is dominated by Query().Set(\"EIO\", \"4\") — the upgrade branch used to build the candidate with the revision-3 parser (binary packets got an extra type byte out, lost their first byte in)")
	u := c.Fn(R, "engine.(*server).OnWebTransportSession")
	if u == nil {
		return
	}
	g := u.Graph()
	var sets []core.Loc
	for _, cl := range u.Calls() {
		if cl.Name != "Set" || len(cl.Expr.Args) != 2 {
			continue
		}
		k, ok1 := core.ConstString(u.Info(), cl.Arg(0))
		v, ok2 := core.ConstString(u.Info(), cl.Arg(1))
		if ok1 && ok2 && k == "EIO" && v == "4" {
			sets = append(sets, cl.Loc)
		}
	}
	n := 0
	for _, cl := range u.Calls() {
		if cl.Name != "CreateTransport" && cl.Name != "Handshake" {
			continue
		}
		n++
		ok := false
		for _, s := range sets {
			if g.Dominates(s, cl.Loc) {
				ok = true
			}
		}
		c.Check(R, keyf("engine.(*server).OnWebTransportSession/EIO=4≺%s#%d", cl.Name, n), cl.Pos(), ok, "the transport is constructed for revision 4")
	}
	c.Need(R, "transport constructions in OnWebTransportSession", n, 2)
}

// eofWithCompleteFrame (C15.7c) — fix 11aa8ff.
func eofWithCompleteFrame(c *core.Ctx, R string) {
	c.Rule(R, "a stream may deliver its end together with the last bytes of a frame (n > 0, io.EOF): in messageReader.Read that error is dropped when the read completed the frame (n == readRemaining) before it is recorded in readErr — otherwise a complete message is reported as truncated and later calls report a different error")
	u := c.Fn(R, "webtransport.(*messageReader).Read")
	if u == nil {
		return
	}
	info := u.Info()
	g := u.Graph()
	// the (n, err) of c.br.Read
	var nObj, errObj types.Object
	for _, cl := range u.Calls() {
		if cl.Name == "Read" && cl.Recv != nil && fieldOf(info, cl.Recv) == "Conn.br" {
			ast.Inspect(u.Body, func(x ast.Node) bool {
				if as, ok := x.(*ast.AssignStmt); ok && len(as.Rhs) == 1 && ast.Unparen(as.Rhs[0]) == ast.Expr(cl.Expr) && len(as.Lhs) == 2 {
					nObj, errObj = core.ObjOf(info, as.Lhs[0]), core.ObjOf(info, as.Lhs[1])
				}
				return true
			})
		}
	}
	if nObj == nil || errObj == nil {
		c.Check(R, "webtransport.(*messageReader).Read/br.Read-results", u.Pos(), false, "the (n, err) of c.br.Read could not be identified")
		return
	}
	mentions := func(e ast.Expr, obj types.Object) bool {
		hit := false
		ast.Inspect(e, func(x ast.Node) bool {
			if id, ok := x.(*ast.Ident); ok && info.Uses[id] == obj {
				hit = true
			}
			return true
		})
		return hit
	}
	isEOF := func(x *core.Unit, br core.Branch) int {
		be, ok := ast.Unparen(br.Cond).(*ast.BinaryExpr)
		if br.IsCase || !ok || be.Op != token.EQL {
			return 0
		}
		if core.ObjOf(x.Info(), be.X) == errObj && strings.HasSuffix(selPath(be.Y), "io.EOF") {
			return 1
		}
		return 0
	}
	complete := func(x *core.Unit, br core.Branch) int {
		be, ok := ast.Unparen(br.Cond).(*ast.BinaryExpr)
		if br.IsCase || !ok || be.Op != token.EQL {
			return 0
		}
		l, r := be.X, be.Y
		if fieldOf(x.Info(), r) != "Conn.readRemaining" {
			l, r = r, l
		}
		if fieldOf(x.Info(), r) == "Conn.readRemaining" && mentions(l, nObj) {
			return 1
		}
		return 0
	}
	var stores []Assign
	for _, a := range fieldAssigns(u, "Conn.readErr") {
		if a.Rhs != nil && mentions(a.Rhs, errObj) {
			stores = append(stores, a)
		}
	}
	dropped := false
	for _, a := range assignsIn(u, func(l ast.Expr) bool { return core.ObjOf(info, l) == errObj }) {
		if a.Rhs == nil || !core.IsNil(info, a.Rhs) {
			continue
		}
		if g.GuardedBy(a.Loc, isEOF) && g.GuardedBy(a.Loc, complete) {
			for _, s := range stores {
				if g.CanFollow(a.Loc, s.Loc) {
					dropped = true
				}
			}
		}
	}
	c.Check(R, "webtransport.(*messageReader).Read/EOF-with-the-last-bytes-of-a-frame-is-not-an-error", u.Pos(), len(stores) >= 1 && dropped, keyf("stores of the read error: %d; err = nil on the edge err == io.EOF ∧ n == readRemaining ahead of them: %v", len(stores), dropped))
}

// bufferedCloseRechecksWritable (C11.16 = C12.12 = C03.19) — fix a14a18c.
func bufferedCloseRechecksWritable(c *core.Ctx, R string) {
	c.Rule(R, "store-then-check on both sides of an orderly polling close: DoClose, after shouldClose.Store(…) on its not-writable edge, tests Writable() again and sends a NOOP on the true edge — onPollRequest sets writable and then loads shouldClose, so a poll installed between DoClose's first test and its store has seen no pending close and nothing else would answer it before the close timeout (30 s)")
	u := c.Fn(R, polDoClose)
	if u == nil {
		return
	}
	g := u.Graph()
	var store *core.Call
	for _, cl := range fieldCalls(u, "polling.shouldClose") {
		if cl.Name == "Store" && cl.Arg(0) != nil && !core.IsNil(u.Info(), cl.Arg(0)) {
			store = cl
		}
	}
	if store == nil {
		c.Check(R, polDoClose+"/shouldClose.Store", u.Pos(), false, "the buffered close is not recorded")
		return
	}
	ok := false
	for _, cl := range u.Calls() {
		if !mSendsPacket("noop")(u, cl) {
			continue
		}
		if g.Dominates(store.Loc, cl.Loc) && g.GuardedBy(cl.Loc, gAfter(writableTrue(), store.Pos())) {
			ok = true
		}
	}
	c.Check(R, polDoClose+"/re-check-writable-after-shouldClose.Store", store.Pos(), ok, "Send(NOOP) on the true edge of a Writable() test that follows the store")
	// the same handshake with Discard (fix 30b6b67): Discard sets the flag and then takes the pending close; DoClose stores
	// the pending close and then re-tests the flag — whichever comes second completes it
	discardedAfter := gAfter(boolCallGuard(true, "transports.(Transport).Discarded", "transports.(*transport).Discarded"), store.Pos())
	okD := false
	for _, cl := range u.Calls() {
		if _, isStar := ast.Unparen(cl.Expr.Fun).(*ast.StarExpr); cl.Callee == nil && isStar && g.Dominates(store.Loc, cl.Loc) && g.GuardedBy(cl.Loc, discardedAfter) {
			okD = true
		}
	}
	c.Check(R, polDoClose+"/re-check-discarded-after-shouldClose.Store", store.Pos(), okD, "the buffered close is run on the true edge of a Discarded() test that follows the store")
}

// closedByPacketListener (C03.20 = C02.16 = C07.10) — fix 80da6c5.
func closedByPacketListener(c *core.Ctx, R string) {
	c.Rule(R, "the packet event is an application callback that may close the session: in socket.onPacket every later effect (heartbeat handling, data / message delivery, parse-error close) is dominated by a test of the ready state that comes after Emit(\"packet\") and admits \"open\" only")
	u := c.Fn(R, sockOnPacket)
	if u == nil {
		return
	}
	g := u.Graph()
	var pkt *Ev
	for _, e := range filterEv(events(c, u), "emit", "", "packet") {
		pkt = e
	}
	if pkt == nil {
		c.Check(R, sockOnPacket+"/emit(packet)", u.Pos(), false, "the packet event is gone")
		return
	}
	after := gAfter(stateIs(sockStateKeys, "open"), pkt.Pos())
	n := 0
	for _, e := range events(c, u) {
		if e.Kind != "emit" || e == pkt || !g.CanFollow(pkt.Loc, e.Loc) {
			continue
		}
		n++
		c.Check(R, keyf("%s/emit(%s)-after-a-state-test-that-follows-emit(packet)", sockOnPacket, e.Event), e.Pos(), g.GuardedBy(e.Loc, after), "a packet listener that closed the session ends the dispatch")
	}
	for _, cl := range u.Calls() {
		if cl.Key != sockSendPkt && cl.Key != sockOnClose && cl.Key != "engine.(*socket).onError" {
			continue
		}
		if !g.CanFollow(pkt.Loc, cl.Loc) {
			continue
		}
		n++
		c.Check(R, keyf("%s/%s-after-a-state-test-that-follows-emit(packet)", sockOnPacket, cl.Name), cl.Pos(), g.GuardedBy(cl.Loc, after), "a packet listener that closed the session ends the dispatch")
	}
	// and the data event is an application callback too: the message event needs a state test of its own (fix 88d2995)
	var dataEv, msgEv *Ev
	for _, e := range events(c, u) {
		if e.Kind == "emit" && e.Event == "data" {
			dataEv = e
		}
		if e.Kind == "emit" && e.Event == "message" {
			msgEv = e
		}
	}
	if dataEv != nil && msgEv != nil {
		c.Check(R, sockOnPacket+"/emit(message)-after-a-state-test-that-follows-emit(data)", msgEv.Pos(), g.GuardedBy(msgEv.Loc, gAfter(stateIs(sockStateKeys, "open"), dataEv.Pos())), "a data listener that closed the session ends the dispatch")
	}
	c.Need(R, "effects of onPacket after the packet event", n, 5)
}

// initialPacketBuffered (C06.3b) — fix a567c3e.
func initialPacketBuffered(c *core.Ctx, R string) {
	c.Rule(R, "a configured initial packet reaches every session: baseServer.Construct replaces an initial packet that is not a types.BufferInterface (a plain reader can be read once) by a buffer holding its content — text for *strings.Reader, bytes otherwise, as the packet encoder classifies readers — which onOpen clones per session (C06.3)")
	u := c.Fn(R, "engine.(*baseServer).Construct")
	if u == nil {
		return
	}
	info := u.Info()
	g := u.Graph()
	notBuffer := func(x *core.Unit, br core.Branch) int {
		// the ok of `_, ok := ip.(types.BufferInterface)`, possibly negated
		e, sign := ast.Unparen(br.Cond), -1 // "not a buffer" is established on the false edge of ok
		for {
			ue, isNot := e.(*ast.UnaryExpr)
			if !isNot || ue.Op != token.NOT {
				break
			}
			e, sign = ast.Unparen(ue.X), -sign
		}
		if br.IsCase {
			return 0
		}
		d, k := x.SingleDef(e)
		te, isT := d.(*core.TupleElem)
		if !k || !isT || te.Index != 1 {
			return 0
		}
		ta, isA := ast.Unparen(te.X).(*ast.TypeAssertExpr)
		if !isA || ta.Type == nil || core.TypeName(x.Info().TypeOf(ta.Type)) != "BufferInterface" {
			return 0
		}
		return sign
	}
	ok := false
	for _, cl := range u.Calls() {
		if cl.Name != "SetInitialPacket" {
			continue
		}
		// the argument is a buffer read from the configured reader
		fromReader := false
		if v, _ := core.ObjOf(info, cl.Arg(0)).(*types.Var); v != nil {
			for _, d := range u.DefsOf(v) {
				if te, isT := d.(*core.TupleElem); isT {
					if ce, isC := ast.Unparen(te.X).(*ast.CallExpr); isC {
						k := u.CalleeKey(ce)
						if strings.HasSuffix(k, "NewStringBufferReader") || strings.HasSuffix(k, "NewBytesBufferReader") {
							fromReader = true
						}
					}
				}
			}
		}
		if fromReader && g.GuardedBy(cl.Loc, notBuffer) {
			ok = true
			// exactly there: nothing but "configured" and "not a buffer" decides the conversion — any further
			// condition (an exempted reader type) leaves a reader that only the first session can read
			also := ""
			for _, f := range g.Facts() {
				if !g.EdgeDominates(f.Br.B, f.Edge, cl.Loc) || notBuffer(u, f.Br) != 0 {
					continue
				}
				if cmp, isCmp := u.BranchCmp(f.Br); isCmp && cmp.Y != nil && core.IsNil(info, cmp.Y) {
					if d, k := u.SingleDef(cmp.X); k {
						if ce, isC := ast.Unparen(exprOf(d)).(*ast.CallExpr); isC && calleeNameOf(ce) == "InitialPacket" {
							continue
						}
					}
				}
				also = core.ExprString(f.Br.Cond)
			}
			// text stays text: the string reader is read into a string buffer, everything else into a byte buffer, and
			// one of the two has been assigned on every path to the store
			if v, _ := core.ObjOf(info, cl.Arg(0)).(*types.Var); v != nil {
				isText := func(x *core.Unit, br core.Branch) int {
					if br.IsCase {
						return 0
					}
					d, k := x.SingleDef(br.Cond)
					te, isT := d.(*core.TupleElem)
					if !k || !isT || te.Index != 1 {
						return 0
					}
					if ta, isA := ast.Unparen(te.X).(*ast.TypeAssertExpr); isA && ta.Type != nil && strings.HasSuffix(types.ExprString(ta.Type), "strings.Reader") {
						return 1
					}
					return 0
				}
				var locs []core.Loc
				kinds := true
				for _, a := range assignsIn(u, func(l ast.Expr) bool { return core.ObjOf(info, l) == types.Object(v) }) {
					as, isAs := a.Stmt.(*ast.AssignStmt)
					if !isAs || len(as.Rhs) != 1 {
						kinds = false
						continue
					}
					ce, isC := ast.Unparen(as.Rhs[0]).(*ast.CallExpr)
					if !isC {
						kinds = false
						continue
					}
					switch k := u.CalleeKey(ce); {
					case strings.HasSuffix(k, "NewStringBufferReader"):
						kinds = kinds && g.GuardedBy(a.Loc, isText)
					case strings.HasSuffix(k, "NewBytesBufferReader"):
						kinds = kinds && g.GuardedBy(a.Loc, gNot(isText))
					default:
						kinds = false
					}
					locs = append(locs, a.Loc)
				}
				c.Check(R, "engine.(*baseServer).Construct/text-reader→string-buffer,other→byte-buffer", cl.Pos(), kinds && len(locs) >= 2 && g.DominatesAny(locs, cl.Loc),
					keyf("%d assignment(s) of the buffer, each kind on its edge of the *strings.Reader test: %v; one of them on every path to the store: %v", len(locs), kinds, g.DominatesAny(locs, cl.Loc)))
			}
			configured := nilGuard(true, func(x *core.Unit, e ast.Expr) bool {
				d, k := x.SingleDef(e)
				if !k {
					return false
				}
				ce, isC := ast.Unparen(exprOf(d)).(*ast.CallExpr)
				return isC && calleeNameOf(ce) == "InitialPacket"
			})
			if !g.GuardedBy(cl.Loc, configured) {
				also = "the configured value being nil"
			}
			c.Check(R, "engine.(*baseServer).Construct/every-plain-reader-is-converted", cl.Pos(), also == "", keyf("the conversion also depends on: %s", also))
		}
	}
	// the caller's options get the buffer too: their reader has been consumed, and another server may be built from them (fix bfb1293)
	back := false
	for _, cl := range u.Calls() {
		if cl.Name == "SetInitialPacket" && cl.Recv != nil && fieldOf(info, cl.Recv) == "" && g.GuardedBy(cl.Loc, notBuffer) {
			if _, isID := ast.Unparen(cl.Recv).(*ast.Ident); isID {
				back = true
			}
		}
	}
	c.Check(R, "engine.(*baseServer).Construct/buffer-stored-on-the-caller's-options-too", u.Pos(), back, "the options value the reader came from holds its content afterwards")
	c.Check(R, "engine.(*baseServer).Construct/plain-reader→buffer", u.Pos(), ok, "SetInitialPacket(buffer read from the reader) on the edge where the configured value is not a types.BufferInterface")
}

// upgradeAttemptConcludedOnce (C08.12 = C19.6 = C03.22 = C12.13) — fixes dbd3d2b, 22efbbe, 55be51f.
func upgradeAttemptConcludedOnce(c *core.Ctx, R string) {
	c.Rule(R, "an upgrade attempt ends once: MaybeUpgrade's exit paths (upgrade packet, unexpected packet, error / close of the candidate or the session, timeout) run on different goroutines; conclude() = {lock; finished ⇒ false; finished = true; true} and every one of them proceeds only on its true edge; the probe branch arms the noop interval and records the probe with the same mutex held and only while not finished; the switch needs a recorded probe; after setTransport a closed session tears the new transport down before anything is announced; a session already closed when the attempt's close listener is registered ends the attempt at once; the discarding Close publishes 'closing' before it closes the (possibly already replaced) transport")
	mu := c.Fn(R, sockUpgrade)
	if mu == nil {
		return
	}
	// conclude
	if k := c.KidOf(R, mu, "conclude"); k != nil {
		c.Touch(k)
		g := k.Graph()
		finishedIs := func(want bool) core.Guard {
			return func(x *core.Unit, br core.Branch) int {
				if !br.IsCase && isLocalAnyDepth(x, br.Cond, "finished") {
					if want {
						return 1
					}
					return -1
				}
				return 0
			}
		}
		okSet, okRet := false, true
		for _, a := range assignsIn(k, func(l ast.Expr) bool { return isLocalAnyDepth(k, l, "finished") }) {
			if id, isID := ast.Unparen(a.Rhs).(*ast.Ident); isID && id.Name == "true" && g.HeldAt(a.Loc)["mu"] && g.GuardedBy(a.Loc, finishedIs(false)) {
				okSet = true
			}
		}
		for _, r := range returnsIn(k) {
			if len(r.Stmt.Results) != 1 {
				okRet = false
				continue
			}
			v, isC := core.ConstBool(k.Info(), r.Stmt.Results[0])
			okRet = okRet && isC && ((v && g.GuardedBy(r.Loc, finishedIs(false))) || (!v && g.GuardedBy(r.Loc, finishedIs(true))))
		}
		c.Check(R, sockUpgrade+"$conclude/test-and-set-under-mu", k.Pos(), okSet && okRet, keyf("finished = true with the mutex held on the not-finished edge: %v; returns true exactly there: %v", okSet, okRet))
	}
	won := concludeWon(true)
	// terminating paths
	type site struct {
		key  string
		unit *core.Unit
	}
	var sites []site
	if k := mu.Kid("onError"); k != nil {
		sites = append(sites, site{"onError", k})
	}
	for _, cl := range mu.CallsTo(setTimeoutKey) {
		if k := closureArg(mu, cl, 0); k != nil {
			sites = append(sites, site{"upgrade-timeout", k})
		}
	}
	op := mu.Kid("onPacket")
	if op != nil {
		sites = append(sites, site{"onPacket", op})
	}
	n := 0
	for _, st := range sites {
		c.Touch(st.unit)
		g := st.unit.Graph()
		for _, cl := range st.unit.Calls() {
			isCleanup := cl.Callee == nil && cl.Name == "cleanup"
			isSwitch := cl.Key == sockSetTr
			if !isCleanup && !isSwitch {
				continue
			}
			n++
			c.Check(R, keyf("%s$%s/%s-only-after-a-won-conclude", sockUpgrade, st.key, cl.Name), cl.Pos(), g.GuardedBy(cl.Loc, won), "this exit path runs only when it is the one that concludes the attempt")
		}
	}
	c.Need(R, "cleanup / setTransport sites of an upgrade attempt", n, 5)
	if op != nil {
		g := op.Graph()
		info := op.Info()
		notFinished := func(x *core.Unit, br core.Branch) int {
			if !br.IsCase && isLocalAnyDepth(x, br.Cond, "finished") {
				return -1
			}
			return 0
		}
		probedIs := func(x *core.Unit, br core.Branch) int {
			if !br.IsCase && isLocalAnyDepth(x, br.Cond, "probed") {
				return 1
			}
			return 0
		}
		armed := false
		for _, cl := range op.CallsTo(setIntervalKey) {
			armed = g.HeldAt(cl.Loc)["mu"] && g.GuardedBy(cl.Loc, notFinished)
		}
		c.Check(R, sockUpgrade+"$onPacket/noop-interval-armed-under-mu-while-not-finished", op.Pos(), armed, "nothing is armed for an attempt that is over (its cleanup has run or is about to)")
		recorded := false
		for _, a := range assignsIn(op, func(l ast.Expr) bool { return isLocalAnyDepth(op, l, "probed") }) {
			if id, isID := ast.Unparen(a.Rhs).(*ast.Ident); isID && id.Name == "true" {
				recorded = g.HeldAt(a.Loc)["mu"] && g.GuardedBy(a.Loc, notFinished)
			} else {
				recorded = false
			}
		}
		needsProbe := false
		for _, cl := range op.CallsTo(sockSetTr) {
			needsProbe = g.GuardedBy(cl.Loc, probedIs)
		}
		c.Check(R, sockUpgrade+"$onPacket/switch-needs-an-answered-probe", op.Pos(), recorded && needsProbe, keyf("probe recorded in the probe branch: %v; setTransport on the probed edge: %v", recorded, needsProbe))
		// closed re-check after the switch
		var set, upg *core.Call
		for _, cl := range op.CallsTo(sockSetTr) {
			set = cl
		}
		for _, e := range filterEv(events(c, op), "emit", "", "upgrade") {
			upg = e.Call
		}
		recheck := false
		if set != nil && upg != nil {
			after := gAfter(stateExcludes(sockStateKeys, "socket.readyState", "closed"), set.Pos())
			recheck = g.GuardedBy(upg.Loc, after)
			torn := false
			for _, cl := range op.CallsTo(sockClearTr) {
				if g.Dominates(set.Loc, cl.Loc) && g.GuardedBy(cl.Loc, gAfter(stateIs(sockStateKeys, "closed"), set.Pos())) {
					torn = true
				}
			}
			recheck = recheck && torn
		}
		c.Check(R, sockUpgrade+"$onPacket/closed-session-re-checked-after-setTransport", op.Pos(), recheck, "Emit(upgrade) only if the session is not closed after the new transport was installed; otherwise clearTransport tears it down")
		_ = info
	}
	// store-then-check against a session that closed before the attempt was listening (fix 28675f8): the server looked
	// the session up some statements earlier, and a close in between reaches no listener of this attempt
	{
		g := mu.Graph()
		var reg *core.Call
		for _, cl := range mu.Calls() {
			if ev, isC := core.ConstString(mu.Info(), cl.Arg(0)); (cl.Name == "Once" || cl.Name == "On") && isC && ev == "close" && emitterClass(cl.RecvTypeName()) == "session" {
				reg = cl
			}
		}
		ended := false
		if reg != nil {
			closedAfter := gAfter(stateIs(sockStateKeys, "closed"), reg.Pos())
			for _, cl := range mu.Calls() {
				if cl.Callee == nil && (cl.Name == "onError" || cl.Name == "onClose") && g.Dominates(reg.Loc, cl.Loc) && g.GuardedBy(cl.Loc, closedAfter) {
					ended = true
				}
			}
		}
		c.Check(R, sockUpgrade+"/closed-session-re-checked-after-the-close-listener", mu.Pos(), reg != nil && ended, "once the attempt listens for the session's close, a session that is already closed ends it (onError / onClose on the closed edge of a state test that follows the registration) — otherwise the candidate of a closed session answers the probe and the closed session emits 'upgrading'")
	}
	if cu := c.Fn(R, sockClose); cu != nil {
		g := cu.Graph()
		ok := false
		for _, cl := range cu.Calls() {
			if cl.Name != "CompareAndSwap" || cl.Recv == nil || fieldOf(cu.Info(), cl.Recv) != "socket.readyState" || !paramGuard(cu, cl.Loc, 0) {
				continue
			}
			for _, ct := range cu.Calls() {
				if strings.HasSuffix(ct.Key, ".closeTransport") && paramGuard(cu, ct.Loc, 0) && g.Dominates(cl.Loc, ct.Loc) {
					ok = true
				}
			}
		}
		c.Check(R, sockClose+"/discard: closing-published≺closeTransport", cu.Pos(), ok, "a transport switch under way sees 'closing' and closes the new transport with the close callback")
	}
}

// discardCompletesBufferedClose (C12.14 = C04.10) — fix f776a3e.
func discardCompletesBufferedClose(c *core.Ctx, R string) {
	c.Rule(R, "a discarded polling transport completes an orderly close that is waiting for the next poll: polling.Discard calls the base Discard and runs the closure it takes with shouldClose.Swap(nil) (send takes it the same way, so it runs once) — transport.Close returns at once for a transport that is already closing, so nothing else would end the session before the close timeout")
	u := c.Fn(R, "transports.(*polling).Discard")
	if u == nil {
		return
	}
	g := u.Graph()
	base, run := false, false
	taken := nilGuard(true, func(x *core.Unit, e ast.Expr) bool {
		d, ok := x.SingleDef(e)
		if !ok {
			return false
		}
		ce, isC := ast.Unparen(d).(*ast.CallExpr)
		if !isC {
			return false
		}
		se, isS := ce.Fun.(*ast.SelectorExpr)
		return isS && se.Sel.Name == "Swap" && len(ce.Args) == 1 && core.IsNil(x.Info(), ce.Args[0]) && fieldOf(x.Info(), se.X) == "polling.shouldClose"
	})
	for _, cl := range u.Calls() {
		if cl.Name == "Discard" && cl.Recv != nil && fieldOf(u.Info(), cl.Recv) == "polling.Transport" {
			base = true
		}
		if cl.Callee == nil && g.GuardedBy(cl.Loc, taken) {
			if _, isStar := ast.Unparen(cl.Expr.Fun).(*ast.StarExpr); isStar {
				run = true
			}
		}
	}
	// exactly: the Swap on every path, and nothing but its result decides whether the closure runs (a TryLock, a state
	// test … would again leave a pending close to the 30 s timer)
	every := false
	for _, cl := range fieldCalls(u, "polling.shouldClose") {
		if cl.Name != "Swap" {
			continue
		}
		every = true
		for _, r := range returnsIn(u) {
			every = every && g.Dominates(cl.Loc, r.Loc)
		}
		for _, f := range g.Facts() {
			if g.EdgeDominates(f.Br.B, f.Edge, cl.Loc) {
				every = false
			}
		}
	}
	only := true
	for _, cl := range u.Calls() {
		if _, isStar := ast.Unparen(cl.Expr.Fun).(*ast.StarExpr); cl.Callee != nil || !isStar {
			continue
		}
		for _, f := range g.Facts() {
			if g.EdgeDominates(f.Br.B, f.Edge, cl.Loc) && taken(u, f.Br) == 0 {
				only = false
			}
		}
	}
	run = run && every && only
	c.Check(R, "transports.(*polling).Discard/base-Discard+run(shouldClose.Swap(nil))", u.Pos(), base && run, keyf("base Discard called: %v; pending close closure taken with Swap(nil) and run: %v", base, run))
}

// exprOf: a reaching definition as an expression (nil when it is a tuple element or a parameter).
func exprOf(d any) ast.Expr {
	e, _ := d.(ast.Expr)
	return e
}

// readerStartedByConsumer (C08.6 = C06.12 = C02.17) — the transports that read
// their connection on a goroutine of their own start it in Start(), and the engine
// calls Start only once the consumer's listeners are attached.
func readerStartedByConsumer(c *core.Ctx, R string) {
	c.Rule(R, "listener-before-reader (typestate): the reader goroutine of a websocket / webtransport transport (`go w.message()`) is started only inside a sync.Once of its Start method — never by Construct; the registered builders return transports that wait for Start (NewDeferred…), the self-starting NewWebSocket / NewWebTransport are for code outside the engine; Start is called (a) by baseServer.Handshake, deferred or after Emit(\"connection\"), on the path to its successful return, and (b) by socket.MaybeUpgrade after the attempt's listeners (packet, close and error of the candidate, close of the session) are registered, on the edge where the session is not closed — a frame read earlier is emitted to no listener and lost (first message of a session that starts on websocket; the probe of an upgrade)")
	// (1) who starts a reader: the function a Start method hands to its sync.Once (a literal, or a method value)
	onceBodies := map[*core.Unit]bool{}
	for _, k := range []string{"transports.(*websocket).Start", "transports.(*webTransport).Start"} {
		st := c.Fn(R, k)
		if st == nil {
			continue
		}
		for _, dc := range st.Calls() {
			if dc.Name != "Do" || dc.Recv == nil || core.TypeName(st.Info().TypeOf(dc.Recv)) != "Once" || dc.Inlined != nil {
				continue
			}
			if k := closureArg(st, dc, 0); k != nil {
				onceBodies[k] = true
			} else if se, isS := ast.Unparen(dc.Arg(0)).(*ast.SelectorExpr); isS {
				if f, _ := st.Info().Uses[se.Sel].(*types.Func); f != nil {
					if h := c.P.UnitOf(f); h != nil {
						onceBodies[h] = true
					}
				}
			}
		}
	}
	n := 0
	for _, u := range c.P.Units {
		for _, cl := range u.Calls() {
			if !cl.Go || !strings.HasSuffix(cl.Key, ").message") || cl.Inlined != nil {
				continue
			}
			n++
			c.Touch(u)
			c.Check(R, keyf("%s/go-message-only-in-Start-once", u.Root().Key), cl.Pos(), onceBodies[u], "the reader is started by the function its transport's Start hands to a sync.Once (a constructor that starts the reader does so before any consumer can listen)")
		}
	}
	c.Need(R, "reader goroutine starts (go message())", n, 2)
	// (2) who calls Start: the engine at its two hand-over points, and the constructors that keep reading at once
	// (NewWebSocket / NewWebTransport, for code that builds a transport itself) — which the registered builders,
	// i.e. the engine's own transports, must not use
	n = 0
	var inHs, inUp []*core.Call
	for _, u := range c.P.Units {
		for _, cl := range u.Calls() {
			if cl.Name != "Start" || cl.Callee == nil || cl.Inlined != nil || !strings.HasPrefix(cl.Key, "transports.") {
				continue
			}
			n++
			c.Touch(u)
			switch callerKey(c, cl) {
			case "engine.(*baseServer).Handshake":
				inHs = append(inHs, cl)
			case sockUpgrade:
				inUp = append(inUp, cl)
			case "transports.NewWebSocket", "transports.NewWebTransport":
			default:
				c.Check(R, keyf("%s/Start-caller", callerKey(c, cl)), cl.Pos(), false, "a transport is started by Handshake, by MaybeUpgrade, or by the constructors that read at once")
			}
		}
	}
	c.Need(R, "calls of a transport's Start", n, 2)
	for _, k := range []string{"transports.(*WebSocketBuilder).New", "transports.(*WebTransportBuilder).New"} {
		if u := c.Fn(R, k); u != nil {
			eager, deferred := 0, 0
			for _, w := range u.WithHelpers() {
				for _, cl := range w.Calls() {
					switch cl.Key {
					case "transports.NewWebSocket", "transports.NewWebTransport":
						eager++
					case "transports.NewDeferredWebSocket", "transports.NewDeferredWebTransport":
						deferred++
					}
					if cl.Name == "Start" && strings.HasPrefix(cl.Key, "transports.") {
						eager++
					}
				}
			}
			c.Check(R, k+"/builds-a-transport-that-waits-for-Start", u.Pos(), eager == 0 && deferred == 1, keyf("constructors that read at once: %d; deferred ones: %d", eager, deferred))
		}
	}
	for _, u := range c.P.Units {
		if u.Pkg != c.P.Pkgs["engine"] {
			continue
		}
		for _, cl := range u.CallsTo("transports.NewWebSocket", "transports.NewWebTransport") {
			c.Check(R, keyf("%s/engine-builds-no-self-starting-transport", u.Root().Key), cl.Pos(), false, "the engine's transports come from the registered builders")
		}
	}
	// (3) Handshake
	if u := c.Fn(R, "engine.(*baseServer).Handshake"); u != nil {
		g := u.Graph()
		var conn *core.Call
		for _, e := range filterEv(events(c, u), "emit", "", "connection") {
			conn = e.Call
		}
		after, every := false, false
		for _, st := range inHs {
			// a deferred start runs when Handshake returns (or a listener panics), i.e. after the event
			if conn != nil && (g.Dominates(conn.Loc, st.Loc) || st.Deferred) {
				after = true
			}
			// the successful return hands a transport back
			for _, r := range returnsIn(u) {
				if len(r.Stmt.Results) == 2 && !core.IsNil(u.Info(), r.Stmt.Results[1]) {
					every = g.Dominates(st.Loc, r.Loc)
				}
			}
		}
		c.Check(R, "engine.(*baseServer).Handshake/Start-after-Emit(connection)", u.Pos(), after && every, keyf("after the connection event: %v; on every path to the successful return: %v", after, every))
	}
	// (4) MaybeUpgrade
	if u := c.Fn(R, sockUpgrade); u != nil {
		g := u.Graph()
		var regs []*Ev
		for _, e := range events(c, u) {
			if (e.Kind == "on" || e.Kind == "once") && (e.Event == "packet" || e.Event == "close" || e.Event == "error") {
				regs = append(regs, e)
			}
		}
		ok := len(inUp) == 1 && len(regs) >= 4
		if ok {
			st := inUp[0]
			for _, e := range regs {
				ok = ok && g.Dominates(e.Loc, st.Loc)
			}
			ok = ok && g.GuardedBy(st.Loc, stateExcludes(sockStateKeys, "socket.readyState", "closed"))
			// nothing between the registrations and the end of the function avoids it, except the closed edge
			for _, r := range returnsIn(u) {
				if g.Dominates(regs[len(regs)-1].Loc, r.Loc) && !g.Dominates(st.Loc, r.Loc) && !g.GuardedBy(r.Loc, stateIs(sockStateKeys, "closed")) {
					ok = false
				}
			}
		}
		c.Check(R, sockUpgrade+"/Start-after-the-attempt's-listeners", u.Pos(), ok, keyf("%d Start call(s), %d listener registrations ahead of it, on the not-closed edge, not avoided by an early return", len(inUp), len(regs)))
	}
}

// readerStartsAfterConnection: the pure form of (1)–(3) above, for C06.12's disjunction.
func readerStartsAfterConnection(c *core.Ctx) bool {
	for _, k := range []string{"transports.(*websocket).Construct", "transports.(*webTransport).Construct"} {
		if u := c.P.Func(k); u != nil {
			for _, w := range u.WithHelpers() {
				for _, a := range w.AllUnits() {
					for _, cl := range a.Calls() {
						if cl.Go && strings.HasSuffix(cl.Key, ").message") {
							return false
						}
					}
				}
			}
		}
	}
	u := c.P.Func("engine.(*baseServer).Handshake")
	if u == nil {
		return false
	}
	g := u.Graph()
	var conn *core.Call
	for _, e := range filterEv(events(c, u), "emit", "", "connection") {
		conn = e.Call
	}
	for _, cl := range u.Calls() {
		if cl.Name == "Start" && strings.HasPrefix(cl.Key, "transports.") && conn != nil && (g.Dominates(conn.Loc, cl.Loc) || cl.Deferred) {
			return true
		}
	}
	return false
}

// pollInstalledOnlyWhileClientIsThere (C11.17 = C01.25 = C09.22) — fix 452cd66.
func pollInstalledOnlyWhileClientIsThere(c *core.Ctx, R string) {
	c.Rule(R, "a poll is installed only while its client is there (store-then-check): in onPollRequest, after the close listener is registered on the request context, the context's Err() is tested; on the cancelled edge the listener's work is done (onClose: not writable, transport error) and the function returns before SetWritable(true) / Emit(ready) — the context emits close once, and a listener registered after that would never run: the dead poll would be the session's pending poll (the next poll refused as an overlap, or the next batch written into a dead response and reported as sent)")
	u := c.Fn(R, polOnPoll)
	if u == nil {
		return
	}
	g := u.Graph()
	var reg *core.Call
	for _, e := range events(c, u) {
		if (e.Kind == "once" || e.Kind == "on") && e.Event == "close" && e.Class == "httpctx" {
			reg = e.Call
		}
	}
	gone := func(x *core.Unit, br core.Branch) int { // ctx.Context().Err() != nil
		cmp, ok := x.BranchCmp(br)
		if !ok || cmp.Y == nil || !core.IsNil(x.Info(), cmp.Y) {
			return 0
		}
		ce, _ := x.AsCall(cmp.X)
		if ce == nil || calleeNameOf(ce) != "Err" {
			return 0
		}
		switch cmp.Op {
		case token.NEQ:
			return 1
		case token.EQL:
			return -1
		}
		return 0
	}
	ok := reg != nil
	if ok {
		after := gAfter(gone, reg.Pos())
		handled, returned := false, false
		for _, cl := range u.Calls() {
			if cl.Callee == nil && cl.Name == "onClose" && g.GuardedBy(cl.Loc, after) {
				handled = true
			}
		}
		for _, r := range returnsIn(u) {
			if g.GuardedBy(r.Loc, after) {
				returned = true
			}
		}
		live := true
		for _, cl := range u.Calls() {
			if mNameBool("SetWritable", 0, true)(u, cl) && !g.GuardedBy(cl.Loc, gAfter(gNot(gone), reg.Pos())) {
				live = false
			}
		}
		ok = handled && returned && live
	}
	c.Check(R, polOnPoll+"/request-context-re-checked-after-the-close-listener", u.Pos(), ok, "Once(close) ≺ Err() test; cancelled edge → onClose() and return; SetWritable(true) only on the live edge")
}

// limitFailureReported (C15.13 = C10.11) — fix 474b14a: three ways the reader
// reported an over-limit or failed stream wrongly.
func limitFailureReported(c *core.Ctx, R string) {
	c.Rule(R, "a limit violation is reported as such and closes the session, and a failure is not forgotten: in advanceFrame (a) the error edge of setReadRemaining for the 64-bit length (a length with the top bit set) calls CloseWithError(CloseMessageTooBig) before it returns, (b) on the over-limit edge the result of CloseWithError decides nothing — the return there is ErrReadLimit on every path; (c) in messageReader.Read the stale-reader return hands back the connection's sticky error when it has one other than io.EOF, and io.EOF only otherwise")
	if u := c.Fn(R, wtAdvance); u != nil {
		g := u.Graph()
		info := u.Info()
		// (a)
		okA := false
		// the call that can be handed a negative length: the one fed from the 64-bit form, or — when the forms share
		// one call — that call
		var cands []*core.Call
		for _, cl := range u.Calls() {
			if cl.Name == "setReadRemaining" {
				if ce, isC := ast.Unparen(cl.Arg(0)).(*ast.CallExpr); isC && strings.Contains(core.ExprString(ce), "Uint64") {
					cands = append(cands, cl)
				}
			}
		}
		if len(cands) == 0 {
			for _, cl := range u.Calls() {
				if cl.Name == "setReadRemaining" {
					cands = append(cands, cl)
				}
			}
		}
		for _, cl := range cands {
			failed := func(x *core.Unit, br core.Branch) int {
				cmp, ok := x.BranchCmp(br)
				if !ok || cmp.Y == nil || !core.IsNil(x.Info(), cmp.Y) {
					return 0
				}
				if d, k := x.SingleDef(cmp.X); !k || ast.Unparen(d) != ast.Expr(cl.Expr) {
					return 0
				}
				switch cmp.Op {
				case token.NEQ:
					return 1
				case token.EQL:
					return -1
				}
				return 0
			}
			var closes []core.Loc
			for _, cc := range u.Calls() {
				if cc.Name == "CloseWithError" && g.GuardedBy(cc.Loc, failed) && strings.HasSuffix(selPath(cc.Arg(0)), "CloseMessageTooBig") {
					closes = append(closes, cc.Loc)
				}
			}
			okA = len(closes) > 0
			for _, r := range returnsIn(u) {
				if g.GuardedBy(r.Loc, failed) && !g.DominatesAny(closes, r.Loc) {
					okA = false
				}
			}
		}
		c.Check(R, wtAdvance+"/top-bit-length→CloseWithError(CloseMessageTooBig)≺return", u.Pos(), okA, "the 64-bit length that setReadRemaining refuses closes the session like any other over-limit length")
		// (b)
		okB := true
		nB := 0
		for _, cc := range u.Calls() {
			if cc.Name != "CloseWithError" || !strings.HasSuffix(selPath(cc.Arg(0)), "CloseMessageTooBig") {
				continue
			}
			nB++
			// no branch tests its result
			for _, f := range g.Facts() {
				cmp, ok := u.BranchCmp(f.Br)
				if !ok {
					continue
				}
				if d, k := u.SingleDef(cmp.X); k && ast.Unparen(d) == ast.Expr(cc.Expr) {
					okB = false
				}
			}
			// what follows it returns the limit error (or the error that led here)
			for _, r := range returnsIn(u) {
				if g.Dominates(cc.Loc, r.Loc) && len(r.Stmt.Results) == 2 {
					if !isPkgVar(info, r.Stmt.Results[1], "ErrReadLimit") && !anyErr(u, r.Stmt.Results[1]) {
						okB = false
					}
					if core.IsNil(info, r.Stmt.Results[1]) {
						okB = false
					}
				}
			}
		}
		c.Check(R, wtAdvance+"/close-result-decides-nothing", u.Pos(), okB && nB >= 2, keyf("%d CloseWithError(CloseMessageTooBig) site(s); no branch on their result, a non-nil error returned after each: %v", nB, okB))
	}
	if u := c.Fn(R, wtMRRead); u != nil {
		g := u.Graph()
		info := u.Info()
		stale := func(x *core.Unit, br core.Branch) int { // c.messageReader != r
			cmp, ok := x.BranchCmp(br)
			if !ok || fieldOf(x.Info(), cmp.X) != "Conn.messageReader" || cmp.Y == nil {
				return 0
			}
			switch cmp.Op {
			case token.NEQ:
				return 1
			case token.EQL:
				return -1
			}
			return 0
		}
		failed := func(x *core.Unit, br core.Branch) int { // c.readErr != nil
			cmp, ok := x.BranchCmp(br)
			if !ok || fieldOf(x.Info(), cmp.X) != "Conn.readErr" || cmp.Y == nil || !core.IsNil(x.Info(), cmp.Y) {
				return 0
			}
			switch cmp.Op {
			case token.NEQ:
				return 1
			case token.EQL:
				return -1
			}
			return 0
		}
		sticky, eof := false, true
		for _, r := range returnsIn(u) {
			if !g.GuardedBy(r.Loc, stale) || len(r.Stmt.Results) != 2 {
				continue
			}
			if fieldOf(info, r.Stmt.Results[1]) == "Conn.readErr" && g.GuardedBy(r.Loc, failed) {
				sticky = true
			}
			if strings.HasSuffix(selPath(r.Stmt.Results[1]), "io.EOF") && g.GuardedBy(r.Loc, failed) {
				eof = false // a clean end reported although the connection has failed
			}
		}
		c.Check(R, wtMRRead+"/stale-reader-reports-the-sticky-failure", u.Pos(), sticky && eof, keyf("returns c.readErr on the failed edge: %v; io.EOF only off it: %v", sticky, eof))
		// … but only a reader whose message was cut short: one that has delivered its message completely keeps its
		// clean end (review of 474b14a) — the sticky return is also on the not-done edge of the reader's own flag
		notDone := func(x *core.Unit, br core.Branch) int {
			if br.IsCase {
				return 0
			}
			if fieldOf(x.Info(), br.Cond) == "messageReader.done" {
				return -1
			}
			return 0
		}
		okDone := false
		for _, r := range returnsIn(u) {
			if len(r.Stmt.Results) == 2 && fieldOf(info, r.Stmt.Results[1]) == "Conn.readErr" && g.GuardedBy(r.Loc, stale) {
				okDone = g.GuardedBy(r.Loc, notDone)
			}
		}
		sets := 0
		for _, a := range fieldAssigns(u, "messageReader.done") {
			if v, isK := core.ConstBool(info, a.Rhs); isK && v {
				sets++
			}
		}
		c.Check(R, wtMRRead+"/completed-reader-keeps-its-clean-end", u.Pos(), okDone && sets >= 1, keyf("sticky failure only for a reader that is not done: %v; done recorded where the message ends: %d site(s)", okDone, sets))
	}
}
