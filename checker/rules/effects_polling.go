package rules

import (
	"go/ast"
	"go/types"

	"engcheck/core"
)

const (
	polOnRequest  = "transports.(*polling).OnRequest"
	polOnPoll     = "transports.(*polling).onPollRequest"
	polOnData     = "transports.(*polling).onDataRequest"
	polWrite      = "transports.(*polling).write"
	polDoWrite    = "transports.(*polling).DoWrite"
	polDoClose    = "transports.(*polling).DoClose"
	polSendWorker = "transports.(*polling).send"
)

// pollingEffects — effect tables of transports/polling.go (C11.10, shared into
// C01 / C09 / C12 / C16 under their own rule ids).
func pollingEffects(c *core.Ctx, R string) {
	c.Rule(R, "effect table of the polling transport: OnRequest dispatches GET → onPollRequest, POST → onDataRequest, anything else → 500 + write; onPollRequest (claim won): close listener {SetWritable(false), OnError(poll connection closed prematurely)} registered with ctx.Once, ctx.Cleanup = {RemoveListener(close, listener), req.Store(nil)}, SetWritable(true) ≺ Emit(ready), and Send(NOOP) iff still writable ∧ a close is buffered; onDataRequest: binary ∧ revision 4 ⇒ {dataCtx.Store(nil), OnError(invalid content), 400, write, return}, close listener {cleanup, OnError(data request connection closed prematurely)} registered with ctx.Once, cleanup = {RemoveListener, dataCtx.Store(nil)}, each 413 edge = cleanup ≺ 413 ≺ write, buffer kind by isBinary, body.Close, OnData ≺ cleanup ≺ 200 'ok'; write: no pending poll ⇒ OnError(polling write error) and return, DoWrite's callback: err ⇒ OnError else Emit(drain); DoWrite: respond = {ctx.Cleanup, defer callback(nil), 200, io.Copy}, the three pass-through edges and the compressed path each respond once, a compress error ⇒ {ctx.Cleanup, defer callback(err), 500, write}; DoClose aborts an unfinished data request with 429 exactly when dataCtx != nil ∧ ¬IsDone, and runs the caller's callback iff non-nil before OnClose")
	// ---- OnRequest ----
	if u := c.Fn(R, polOnRequest); u != nil {
		isGet := gCallStrEq(".Method", "GET")
		isPost := gCallStrEq(".Method", "POST")
		requireEffects(c, R, u, []effect{
			{name: "GET→onPollRequest", match: mKey(polOnPoll), on: []core.Guard{isGet}},
			{name: "POST→onDataRequest", match: mKey(polOnData), on: []core.Guard{isPost, gNot(isGet)}},
			{name: "other→500", match: mNameInt("SetStatusCode", 0, 500), on: []core.Guard{gNot(isGet), gNot(isPost)}},
			{name: "other→write", match: mKey("types.(*HttpContext).Write"), on: []core.Guard{gNot(isGet), gNot(isPost)}, after: "other→500"},
		})
	}
	// ---- onPollRequest ----
	if u := c.Fn(R, polOnPoll); u != nil && localAnchors(c, R, u, "onClose") {
		won := claimGuard("polling.req", true)
		requireEffects(c, R, u, []effect{
			{name: "Once(close,onClose)", match: mListener("Once", "close", "onClose"), on: []core.Guard{won}},
			{name: "SetWritable(true)", match: mNameBool("SetWritable", 0, true), on: []core.Guard{won}},
			{name: "Emit(ready)", match: mNameStr("Emit", 0, "ready"), on: []core.Guard{won}, after: "SetWritable(true)"},
			{name: "buffered-close→Send(NOOP)", match: mSendsPacket("noop"), on: []core.Guard{won, writableTrue(), gNilFieldLoad("polling.shouldClose", true)}, after: "Emit(ready)"},
			// a poll installed while the transport was closing: nothing else will answer it (fix 46aa1a3)
			{name: "closed-meanwhile→Send(NOOP)", match: mSendsPacket("noop"), on: []core.Guard{won, writableTrue(), gCallStrEq(".ReadyState", "closed")}, after: "Emit(ready)"},
		})
		if k := c.KidOf(R, u, "onClose"); k != nil {
			requireEffects(c, R, k, []effect{
				{name: "SetWritable(false)", match: mNameBool("SetWritable", 0, false)},
				{name: "OnError(poll connection closed prematurely)", match: mNameStrHas("OnError", 0, "closed prematurely")},
			})
		}
		if k := c.KidOf(R, u, "Cleanup"); k != nil {
			requireEffects(c, R, k, []effect{
				{name: "RemoveListener(close,onClose)", match: mListener("RemoveListener", "close", "onClose")},
				{name: "req.Store(nil)", match: mFieldStoreNil("polling.req")},
			})
			// the closure is installed as the request's Cleanup
			installed := false
			for _, a := range assignsIn(u, func(l ast.Expr) bool { return fieldOf(u.Info(), l) == "HttpContext.Cleanup" }) {
				if fl, ok := ast.Unparen(a.Rhs).(*ast.FuncLit); ok && u.Prog.LitUnit(fl) == k && u.Graph().GuardedBy(a.Loc, won) {
					installed = true
				}
			}
			c.Check(R, polOnPoll+"/ctx.Cleanup=closure", k.Pos(), installed, "the release closure is stored in the request's Cleanup on the claim-won edge")
		}
	}
	// ---- onDataRequest ----
	if u := c.Fn(R, polOnData); u != nil && localAnchors(c, R, u, "onClose", "cleanup", "isBinary", "body") {
		won := claimGuard("polling.dataCtx", true)
		bin := gBoolLocal("isBinary")
		v4 := gCallIntEq(".Protocol", 4)
		requireEffects(c, R, u, []effect{
			{name: "binary∧v4→dataCtx.Store(nil)", match: mFieldStoreNil("polling.dataCtx"), on: []core.Guard{won, bin, v4}},
			{name: "binary∧v4→OnError(invalid content)", match: mNameStr("OnError", 0, "invalid content"), on: []core.Guard{won, bin, v4}},
			{name: "binary∧v4→400", match: mNameInt("SetStatusCode", 0, 400), on: []core.Guard{won, bin, v4}},
			{name: "binary∧v4→write", match: mKey("types.(*HttpContext).Write"), on: []core.Guard{won, bin, v4}, after: "binary∧v4→400"},
			{name: "Once(close,onClose)", match: mListener("Once", "close", "onClose"), on: []core.Guard{won}},
			{name: "binary→BytesBuffer", match: mName("NewBytesBuffer"), on: []core.Guard{won, bin}},
			{name: "text→StringBuffer", match: mName("NewStringBuffer"), on: []core.Guard{won, gNot(bin)}},
			{name: "body.Close()", match: func(x *core.Unit, cl *core.Call) bool {
				return cl.Name == "Close" && cl.Recv != nil && isLocalAnyDepth(x, cl.Recv, "body")
			}, on: []core.Guard{won, gNilLocal("body", true)}},
			{name: "OnData(packet)", match: mName("OnData"), on: []core.Guard{won}},
			{name: "cleanup-after-OnData", match: mLocalCall("cleanup"), on: []core.Guard{won}, after: "OnData(packet)"},
			{name: "200", match: mNameInt("SetStatusCode", 0, 200), on: []core.Guard{won}, after: "cleanup-after-OnData"},
		})
		// the isBinary definition
		okDef := false
		for _, a := range assignsIn(u, func(l ast.Expr) bool { return isLocal(u.Info(), l, "isBinary") }) {
			if be, ok := ast.Unparen(a.Rhs).(*ast.BinaryExpr); ok && be.Op.String() == "==" {
				s, isC := core.ConstString(u.Info(), be.Y)
				ce, key := u.AsCall(be.X)
				hdr, _ := core.ConstString(u.Info(), func() ast.Expr {
					if ce != nil && len(ce.Args) == 1 {
						return ce.Args[0]
					}
					return nil
				}())
				okDef = isC && s == "application/octet-stream" && hasSuffixAny(key, ".Peek") && hdr == "Content-Type"
			}
		}
		c.Check(R, polOnData+"/isBinary=Content-Type==octet-stream", u.Pos(), okDef, "the body kind is decided by the Content-Type header being exactly application/octet-stream")
		// every 413 answer is preceded by cleanup()
		g := u.Graph()
		n413 := 0
		for _, cl := range u.Calls() {
			if !mNameInt("SetStatusCode", 0, 413)(u, cl) {
				continue
			}
			n413++
			pre := false
			for _, k := range u.Calls() {
				if mLocalCall("cleanup")(u, k) && g.Dominates(k.Loc, cl.Loc) {
					pre = true
				}
			}
			c.Check(R, polOnData+"/413-after-cleanup", cl.Pos(), pre, "the slot is released (cleanup) before an oversized request is refused")
		}
		c.Need(R, "413 answers in onDataRequest", n413, 2)
		// one response each: every exit of an admitted data request has set a status and written (mutation audit round 4:
		// the 400 of a truncated body could be deleted, leaving net/http's implicit 200)
		var sets, writes []core.Loc
		for _, cl := range u.Calls() {
			if cl.Name == "SetStatusCode" && !cl.Deferred {
				sets = append(sets, cl.Loc)
			}
			if (cl.Key == "types.(*HttpContext).Write" || cl.Key == "io.WriteString" || cl.Key == "io.Copy") && !cl.Deferred {
				writes = append(writes, cl.Loc)
			}
		}
		nExit := 0
		for _, r := range returnsIn(u) {
			if !g.GuardedBy(r.Loc, won) {
				continue // the refused overlap is answered by its own table
			}
			nExit++
			c.Check(R, keyf("%s/exit#%d-has-set-a-status-and-written", polOnData, nExit), r.Stmt.Pos(), g.DominatesAny(sets, r.Loc) && g.DominatesAny(writes, r.Loc),
				keyf("a SetStatusCode on every path to this return: %v; a Write: %v", g.DominatesAny(sets, r.Loc), g.DominatesAny(writes, r.Loc)))
		}
		c.Need(R, "exits of an admitted data request", nExit, 3)
		// the claim is released before an error is reported: OnError closes the session, the session closes the transport,
		// and DoClose answers a data request that is still claimed with 429 — the documented 400 would be refused (s239)
		nErr := 0
		for _, cl := range u.Calls() {
			if cl.Name != "OnError" || !g.GuardedBy(cl.Loc, won) {
				continue // the refused overlap reports while the first request still holds the claim: that one is aborted by design
			}
			nErr++
			released := false
			for _, k := range u.Calls() {
				if (mLocalCall("cleanup")(u, k) || mFieldStoreNil("polling.dataCtx")(u, k)) && g.Dominates(k.Loc, cl.Loc) {
					released = true
				}
			}
			c.Check(R, keyf("%s/OnError#%d-after-the-claim-is-released", polOnData, nErr), cl.Pos(), released, "cleanup() (or dataCtx.Store(nil)) on every path to this OnError")
		}
		c.Need(R, "error reports in onDataRequest", nErr, 2)
		if k := c.KidOf(R, u, "onClose"); k != nil {
			requireEffects(c, R, k, []effect{
				{name: "cleanup()", match: mLocalCall("cleanup")},
				{name: "OnError(data request connection closed prematurely)", match: mNameStrHas("OnError", 0, "closed prematurely")},
			})
		}
		if k := c.KidOf(R, u, "cleanup"); k != nil {
			requireEffects(c, R, k, []effect{
				{name: "RemoveListener(close,onClose)", match: mListener("RemoveListener", "close", "onClose")},
				{name: "dataCtx.Store(nil)", match: mFieldStoreNil("polling.dataCtx")},
			})
		}
	}
	// ---- write ----
	if u := c.Fn(R, polWrite); u != nil && localAnchors(c, R, u, "ctx") {
		none := gNilLocal("ctx", false)
		requireEffects(c, R, u, []effect{
			{name: "no-pending-poll→OnError(polling write error)", match: mNameStr("OnError", 0, "polling write error"), on: []core.Guard{none}},
			{name: "pending→DoWrite", match: mName("DoWrite"), off: []core.Guard{none}},
		})
		g := u.Graph()
		ret := false
		for _, r := range returnsIn(u) {
			if g.GuardedBy(r.Loc, none) {
				ret = true
			}
		}
		c.Check(R, polWrite+"/no-pending-poll→return", u.Pos(), ret, "nothing is written when no poll is pending")
		for _, cl := range u.CallsTo(".DoWrite") {
			if k := closureArg(u, cl, 3); k != nil {
				c.Touch(k)
				requireEffects(c, R, k, []effect{
					{name: "err→OnError(polling write error, err)", match: mNameStr("OnError", 0, "polling write error"), on: []core.Guard{gErrNonNil()}},
					{name: "ok→Emit(drain)", match: mNameStr("Emit", 0, "drain"), off: []core.Guard{gErrNonNil()}},
				})
			} else {
				c.Violate(R, polWrite+"/DoWrite-callback", cl.Pos(), "completion callback not found")
			}
		}
	}
	// ---- DoWrite ----
	if u := c.Fn(R, polDoWrite); u != nil && localAnchors(c, R, u, "respond", "callback") {
		if k := c.KidOf(R, u, "respond"); k != nil {
			found := requireEffects(c, R, k, []effect{
				{name: "ctx.Cleanup()", match: mName("Cleanup")},
				{name: "defer callback(nil)", match: func(x *core.Unit, cl *core.Call) bool {
					return cl.Deferred && cl.Callee == nil && cl.Name == "callback" && cl.Arg(0) != nil && core.IsNil(x.Info(), cl.Arg(0))
				}},
				{name: "200", match: mNameInt("SetStatusCode", 0, 200)},
				{name: "io.Copy(ctx,data)", match: mKey("io.Copy"), after: "200"},
			})
			_ = found
		}
		// each exit of DoWrite answers exactly once: respond(...) or the 500 path
		g := u.Graph()
		var answers []core.Loc
		for _, cl := range u.Calls() {
			if mLocalCall("respond")(u, cl) || mNameInt("SetStatusCode", 0, 500)(u, cl) {
				answers = append(answers, cl.Loc)
			}
		}
		nRet := 0
		for _, r := range returnsIn(u) {
			nRet++
			c.Check(R, polDoWrite+"/every-exit-answers", r.Stmt.Pos(), len(answers) > 0 && g.DominatesAny(answers, r.Loc), "a poll handed to DoWrite is always answered (respond or the 500 path) before returning")
		}
		c.Need(R, "exits of DoWrite", nRet, 4)
		compressFailed := nilGuard(true, func(x *core.Unit, e ast.Expr) bool {
			d, ok := x.SingleDef(e)
			if !ok {
				return false
			}
			te, isT := d.(*core.TupleElem)
			if !isT || te.Index != 1 {
				return false
			}
			ce, isC := ast.Unparen(te.X).(*ast.CallExpr)
			return isC && hasSuffixAny(x.CalleeKey(ce), ".compress")
		})
		requireEffects(c, R, u, []effect{
			{name: "compress-error→ctx.Cleanup()", match: mName("Cleanup"), on: []core.Guard{compressFailed}},
			{name: "compress-error→defer callback(err)", match: func(x *core.Unit, cl *core.Call) bool {
				return cl.Deferred && cl.Callee == nil && cl.Name == "callback" && cl.Arg(0) != nil && anyErr(x, cl.Arg(0))
			}, on: []core.Guard{compressFailed}},
			{name: "compress-error→500", match: mNameInt("SetStatusCode", 0, 500), on: []core.Guard{compressFailed}},
			{name: "compress-error→write", match: mKey("types.(*HttpContext).Write"), on: []core.Guard{compressFailed}, after: "compress-error→500"},
			{name: "compressed→respond(buf)", match: mLocalCall("respond"), off: []core.Guard{compressFailed}, after: ""},
		})
	}
	// ---- send: the encoder failed (a packet's reader returned an error) — fix f9015f7 ----
	if u := c.Fn(R, polSendWorker); u != nil {
		encodeFailed := nilGuard(true, func(x *core.Unit, e ast.Expr) bool {
			v, _ := core.ObjOf(x.Info(), e).(*types.Var)
			if v == nil {
				return false
			}
			for _, d := range x.DefsOf(v) {
				te, isT := d.(*core.TupleElem)
				if !isT || te.Index != 1 {
					continue
				}
				if ce, isC := ast.Unparen(te.X).(*ast.CallExpr); isC && hasSuffixAny(x.CalleeKey(ce), ".EncodePayload") {
					return true
				}
			}
			return false
		})
		requireEffects(c, R, u, []effect{
			{name: "encode-error→500", match: mNameInt("SetStatusCode", 0, 500), on: []core.Guard{encodeFailed}},
			{name: "encode-error→write", match: mKey("types.(*HttpContext).Write"), on: []core.Guard{encodeFailed}, after: "encode-error→500"},
			{name: "encode-error→OnError", match: mName("OnError"), on: []core.Guard{encodeFailed}},
			{name: "encoded→write", match: mKey("transports.(*polling).write"), off: []core.Guard{encodeFailed}},
		})
	}
	// ---- DoClose: the 429 abort of an unfinished data request ----
	if u := c.Fn(R, polDoClose); u != nil && localAnchors(c, R, u, "dataCtx", "onClose", "fn") {
		pending := gNilLocal("dataCtx", true)
		notDone := boolCallGuard(false, "types.(*HttpContext).IsDone")
		requireEffects(c, R, u, []effect{
			{name: "unfinished-data-request→429", match: mNameInt("SetStatusCode", 0, 429), on: []core.Guard{pending, notDone}},
			{name: "unfinished-data-request→write", match: mKey("types.(*HttpContext).Write"), on: []core.Guard{pending, notDone}, after: "unfinished-data-request→429"},
		})
		if k := c.KidOf(R, u, "onClose"); k != nil {
			f := requireEffects(c, R, k, []effect{
				{name: "fn()-iff-non-nil", match: mLocalCall("fn"), on: []core.Guard{gNilLocal("fn", true)}},
				{name: "OnClose()", match: mName("OnClose"), off: []core.Guard{gNilLocal("fn", true), gNilLocal("fn", false)}},
			})
			if f["fn()-iff-non-nil"] != nil && f["OnClose()"] != nil {
				c.Check(R, k.Key+"/callback-before-OnClose", f["OnClose()"].Pos(), !k.Graph().CanFollow(f["OnClose()"].Loc, f["fn()-iff-non-nil"].Loc), "the caller's callback (→ 'forced close') runs before the transport is declared closed")
			}
		}
	}
}
