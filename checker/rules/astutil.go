package rules

import (
	"go/ast"
	"go/constant"
	"go/token"
	"go/types"
	"sort"
	"strings"

	"engcheck/core"
	"golang.org/x/tools/go/cfg"
	"golang.org/x/tools/go/types/typeutil"
)

// Term is one signed summand of a linear integer expression.
type Term struct {
	Sign int
	E    ast.Expr
}

// linear flattens a +/- expression into signed terms and a folded constant.
func linear(info *types.Info, e ast.Expr) (terms []Term, k int64) {
	var walk func(e ast.Expr, sign int)
	walk = func(e ast.Expr, sign int) {
		e = ast.Unparen(e)
		if v, ok := core.ConstInt(info, e); ok {
			k += int64(sign) * v
			return
		}
		if be, ok := e.(*ast.BinaryExpr); ok {
			switch be.Op {
			case token.ADD:
				walk(be.X, sign)
				walk(be.Y, sign)
				return
			case token.SUB:
				walk(be.X, sign)
				walk(be.Y, -sign)
				return
			}
		}
		terms = append(terms, Term{sign, e})
	}
	walk(e, 1)
	return
}

// orChain flattens a | expression: constant part OR-ed together, other operands returned.
func orChain(info *types.Info, e ast.Expr) (k int64, rest []ast.Expr) {
	var walk func(e ast.Expr)
	walk = func(e ast.Expr) {
		e = ast.Unparen(e)
		if v, ok := core.ConstInt(info, e); ok {
			k |= v
			return
		}
		if be, ok := e.(*ast.BinaryExpr); ok && be.Op == token.OR {
			walk(be.X)
			walk(be.Y)
			return
		}
		rest = append(rest, e)
	}
	walk(e)
	return
}

// stripConv removes type conversions (byte(x), int64(x), uint16(x) ...).
func stripConv(info *types.Info, e ast.Expr) ast.Expr {
	for {
		e = ast.Unparen(e)
		c, ok := e.(*ast.CallExpr)
		if !ok || len(c.Args) != 1 {
			return e
		}
		if tv, ok := info.Types[c.Fun]; ok && tv.IsType() {
			e = c.Args[0]
			continue
		}
		return e
	}
}

// convTarget returns the basic type name of an outer conversion, "" when none.
func convTarget(info *types.Info, e ast.Expr) string {
	c, ok := ast.Unparen(e).(*ast.CallExpr)
	if !ok || len(c.Args) != 1 {
		return ""
	}
	if tv, ok := info.Types[c.Fun]; ok && tv.IsType() {
		if b, ok := tv.Type.Underlying().(*types.Basic); ok {
			return b.Name()
		}
		return tv.Type.String()
	}
	return ""
}

// isLocal reports whether e is an identifier denoting the local variable named name.
func isLocal(info *types.Info, e ast.Expr, name string) bool {
	id, ok := ast.Unparen(e).(*ast.Ident)
	if !ok {
		return false
	}
	v, ok := core.ObjOf(info, id).(*types.Var)
	return ok && !v.IsField() && (core.CanonName(v) == name || id.Name == name)
}

// sameObj: both expressions are identifiers/selectors of the same object.
func sameObj(info *types.Info, a, b ast.Expr) bool {
	oa, ob := core.ObjOf(info, a), core.ObjOf(info, b)
	return oa != nil && oa == ob
}

// Assign is an assignment to a target expression inside a unit.
type Assign struct {
	Stmt ast.Stmt
	Lhs  ast.Expr
	Rhs  ast.Expr // nil for tuple/unknown
	Tok  token.Token
	Loc  core.Loc
}

var assignDepth int

// assignsIn lists assignments in the unit's own body whose LHS satisfies match.
func assignsIn(u *core.Unit, match func(lhs ast.Expr) bool) []Assign {
	var out []Assign
	g := u.Graph()
	ast.Inspect(u.Body, func(n ast.Node) bool {
		switch s := n.(type) {
		case *ast.FuncLit:
			return false
		case *ast.AssignStmt:
			for i, l := range s.Lhs {
				if !match(l) {
					continue
				}
				a := Assign{Stmt: s, Lhs: l, Tok: s.Tok, Loc: g.LocOf(s)}
				if len(s.Lhs) == len(s.Rhs) {
					a.Rhs = s.Rhs[i]
				}
				out = append(out, a)
			}
		case *ast.IncDecStmt:
			if match(s.X) {
				out = append(out, Assign{Stmt: s, Lhs: s.X, Tok: s.Tok, Loc: g.LocOf(s)})
			}
		}
		return true
	})
	// assignments made by transparent helpers (novel private functions that are only ever called: code that moved out
	// of this function) count as made here, at the helper call
	for _, cl := range u.Calls() {
		if cl.Inlined != nil || cl.Callee == nil || !u.Prog.IsTransparent(cl.Callee) {
			continue
		}
		if h := u.Prog.UnitOf(cl.Callee); h != nil && h != u.Root() && assignDepth < 3 {
			assignDepth++
			subst := core.HelperSubst(cl)
			for _, a := range assignsIn(h, match) {
				if id, isI := ast.Unparen(a.Rhs).(*ast.Ident); isI && a.Rhs != nil {
					if e, mapped := subst[h.Info().Uses[id]]; mapped {
						a.Rhs = e // the helper forwards its parameter: the value assigned is the caller's argument
					}
				}
				orig := a.Loc
				a.Loc = cl.Loc
				a.Loc.Orig = &core.OrigLoc{G: h.Graph(), L: orig}
				out = append(out, a)
			}
			assignDepth--
		}
	}
	return out
}

// fieldAssigns: assignments to struct field "Type.field" in the unit's own body.
func fieldAssigns(u *core.Unit, field string) []Assign {
	info := u.Info()
	return assignsIn(u, func(l ast.Expr) bool { return fieldOf(info, l) == field })
}

// fieldAssignsAnywhere: (unit, assignment) pairs over the whole repo.
type UnitAssign struct {
	U *core.Unit
	Assign
}

func fieldAssignsAnywhere(c *core.Ctx, field string) []UnitAssign {
	var out []UnitAssign
	for _, u := range c.P.Units {
		for _, a := range fieldAssigns(u, field) {
			out = append(out, UnitAssign{u, a})
		}
	}
	return out
}

// cmpThreshold normalises a comparison of x with an integer constant to
// "x >= K holds on edge ge" (ge = 0 true edge, 1 false edge).
func cmpThreshold(cmp core.Cmp) (K int64, geEdge int, ok bool) {
	if cmp.Val == nil {
		return 0, 0, false
	}
	v := constant.ToInt(cmp.Val)
	if v.Kind() != constant.Int {
		return 0, 0, false
	}
	k, exact := constant.Int64Val(v)
	if !exact {
		return 0, 0, false
	}
	switch cmp.Op {
	case token.GEQ:
		return k, 0, true
	case token.GTR:
		return k + 1, 0, true
	case token.LSS:
		return k, 1, true
	case token.LEQ:
		return k + 1, 1, true
	}
	return 0, 0, false
}

// returnsIn lists return statements of the unit's own body with their CFG location.
type Ret struct {
	Stmt *ast.ReturnStmt
	Loc  core.Loc
}

func returnsIn(u *core.Unit) []Ret {
	var out []Ret
	g := u.Graph()
	for _, l := range g.ReturnLocs() {
		r := l.B.Nodes[l.I].(*ast.ReturnStmt)
		out = append(out, Ret{r, l})
	}
	return out
}

// errGuard: the edge on which the local error variable `err`-like value
// (any expression of type error resolved by match) is non-nil.
func errNonNil(match func(u *core.Unit, x ast.Expr) bool) core.Guard {
	return nilGuard(true, match)
}

func anyErr(u *core.Unit, x ast.Expr) bool {
	t := u.Info().TypeOf(x)
	if t == nil {
		return false
	}
	return types.Identical(t, types.Universe.Lookup("error").Type())
}

func lookupConstInt(obj types.Object) (int64, bool) {
	cn, ok := obj.(*types.Const)
	if !ok {
		return 0, false
	}
	v := constant.ToInt(cn.Val())
	if v.Kind() != constant.Int {
		return 0, false
	}
	return constant.Int64Val(v)
}

func sortStrings(s []string) { sort.Strings(s) }

type cfgBlock = cfg.Block

const (
	cfgKindRangeBody = cfg.KindRangeBody
	cfgKindRangeLoop = cfg.KindRangeLoop
)

// lenPositive interprets a comparison of a length (non-negative) with a
// constant as "length >= 1": returns the edge (0 true / 1 false) on which
// the length is known to be positive.
func lenPositive(cmp core.Cmp) (edge int, ok bool) {
	if K, ge, k := cmpThreshold(cmp); k && K == 1 {
		return ge, true
	}
	if cmp.Val != nil && cmp.Val.String() == "0" {
		switch cmp.Op {
		case token.NEQ:
			return 0, true
		case token.EQL:
			return 1, true
		}
	}
	return 0, false
}

// positiveEdge: +1 when the comparison's true edge establishes x >= 1 for a
// non-negative integer x (x > 0, x != 0, x >= 1, 0 < x …), -1 when its false
// edge does (x == 0, x <= 0, x < 1 …), 0 otherwise.
func positiveEdge(cmp core.Cmp) int {
	if e, ok := lenPositive(cmp); ok {
		if e == 0 {
			return 1
		}
		return -1
	}
	return 0
}

// isLogCall: a call on one of the repository's package-level loggers
// (socket_log.Debug, ws_log.Debug, …) or of the log package.
func isLogCall(cl *core.Call) bool {
	if cl.Recv != nil {
		if id, ok := ast.Unparen(cl.Recv).(*ast.Ident); ok && strings.HasSuffix(id.Name, "_log") {
			return true
		}
	}
	return strings.HasPrefix(cl.Key, "log.") || strings.Contains(cl.Key, "/log.")
}

// followNovelResult: when the local v of u is defined once, by a call of a
// novel helper of the same package (a function that is not in the baseline — the
// product of an extract-function refactor) all of whose returns hand back one
// and the same local, returns that helper and that local; otherwise nil.
func followNovelResult(c *core.Ctx, u *core.Unit, v *types.Var) (*core.Unit, *types.Var) {
	if u == nil || v == nil {
		return nil, nil
	}
	info := u.Info()
	as := assignsIn(u, func(l ast.Expr) bool { return core.ObjOf(info, l) == types.Object(v) })
	if len(as) != 1 {
		return nil, nil
	}
	ce, ok := ast.Unparen(as[0].Rhs).(*ast.CallExpr)
	if !ok {
		return nil, nil
	}
	f, _ := typeutil.Callee(info, ce).(*types.Func)
	if f == nil || !core.IsNovel(f) {
		return nil, nil
	}
	h := c.P.UnitOf(f)
	if h == nil || h.Pkg != u.Pkg {
		return nil, nil
	}
	var rv *types.Var
	for _, r := range returnsIn(h) {
		if len(r.Stmt.Results) != 1 {
			return nil, nil
		}
		o, _ := core.ObjOf(h.Info(), r.Stmt.Results[0]).(*types.Var)
		if o == nil || o.IsField() || (rv != nil && rv != o) {
			return nil, nil
		}
		rv = o
	}
	if rv == nil {
		return nil, nil
	}
	return h, rv
}

// novelCalledOnlyFrom: u is (a closure of) a novel declared function — one
// that is not in the baseline, i.e. code that was moved out of an existing
// function — and every call of it is made from a unit of the allowed set (or
// from another novel function for which the same holds). Such a helper is part
// of its callers: what they may do, it may do.
func novelCalledOnlyFrom(c *core.Ctx, u *core.Unit, allowed map[string]bool, depth int) bool {
	root := u.Root()
	if root.Obj == nil || !core.IsNovel(root.Obj) || depth > 3 {
		return false
	}
	n := 0
	for _, x := range c.P.Units {
		for _, cl := range x.Calls() {
			if cl.Callee == nil || cl.Callee.Origin() != root.Obj.Origin() {
				continue
			}
			n++
			if allowed[x.Key] || allowed[x.Root().Key] {
				continue
			}
			if x.Root() != root && novelCalledOnlyFrom(c, x, allowed, depth+1) {
				continue
			}
			return false
		}
		// a method value / function value use (not a call) escapes the analysis
		bad := false
		ast.Inspect(x.Body, func(nd ast.Node) bool {
			if _, isLit := nd.(*ast.FuncLit); isLit {
				return false
			}
			return true
		})
		_ = bad
	}
	return n > 0
}

// sameVal: a and b denote the same object and, for a local that is assigned
// more than once, the same definition reaches both uses (the variable was not
// re-assigned in between).
func sameVal(u *core.Unit, a, b ast.Expr) bool {
	if !sameObj(u.Info(), a, b) {
		return false
	}
	ia, _ := ast.Unparen(a).(*ast.Ident)
	ib, _ := ast.Unparen(b).(*ast.Ident)
	if ia == nil || ib == nil {
		return true
	}
	v, isV := core.ObjOf(u.Info(), ia).(*types.Var)
	if !isV || v.IsField() {
		return true
	}
	da, oka := u.SingleDef(ia)
	db, okb := u.SingleDef(ib)
	if !oka || !okb {
		return false
	}
	return da == db
}

// localVarByName: the local variable of u's root function known to the tables as name.
func localVarByName(u *core.Unit, name string) *types.Var {
	var out *types.Var
	info := u.Info()
	ast.Inspect(u.Root().Body, func(n ast.Node) bool {
		if id, ok := n.(*ast.Ident); ok && out == nil {
			if v, isV := info.Defs[id].(*types.Var); isV && !v.IsField() && (core.CanonName(v) == name || v.Name() == name) {
				out = v
			}
		}
		return true
	})
	return out
}

// ltNorm normalises a relational comparison to "lhs < rhs": pol = +1 when the
// true edge establishes it, -1 when the false edge does, 0 for other operators.
func ltNorm(be *ast.BinaryExpr) (lhs, rhs ast.Expr, pol int) {
	switch be.Op {
	case token.LSS:
		return be.X, be.Y, 1
	case token.GTR:
		return be.Y, be.X, 1
	case token.GEQ:
		return be.X, be.Y, -1
	case token.LEQ:
		return be.Y, be.X, -1
	}
	return nil, nil, 0
}

// fieldInits: initialisations of struct field "Type.field" by a keyed composite
// literal (`&T{field: v}`) in the unit's own body — the other way of writing
// `x := &T{}; x.field = v`. Loc is the literal's place in the CFG.
func fieldInits(u *core.Unit, field string) []Assign {
	var out []Assign
	info := u.Info()
	g := u.Graph()
	var stack []ast.Node
	ast.Inspect(u.Body, func(n ast.Node) bool {
		if n == nil {
			stack = stack[:len(stack)-1]
			return true
		}
		if _, isLit := n.(*ast.FuncLit); isLit {
			return false
		}
		stack = append(stack, n)
		cl, ok := n.(*ast.CompositeLit)
		if !ok {
			return true
		}
		tv, has := info.Types[cl]
		if !has {
			return true
		}
		tn := core.TypeName(tv.Type)
		for _, el := range cl.Elts {
			kv, isKV := el.(*ast.KeyValueExpr)
			if !isKV {
				continue
			}
			id, isI := kv.Key.(*ast.Ident)
			if !isI || tn+"."+id.Name != field {
				continue
			}
			var st ast.Stmt
			for i := len(stack) - 1; i >= 0 && st == nil; i-- {
				st, _ = stack[i].(ast.Stmt)
			}
			if st == nil {
				continue
			}
			out = append(out, Assign{Stmt: st, Lhs: kv.Key, Rhs: kv.Value, Tok: token.DEFINE, Loc: g.LocOf(cl)})
		}
		return true
	})
	return out
}

// helperSelectsConst: the expression e (a local defined once, or the call itself) is the result of a novel private helper
// of the same package that returns onTrue exactly on the edge where guard holds and onFalse otherwise — the extracted
// form of `v := onFalse; if guard { v = onTrue }`.
func helperSelectsConst(c *core.Ctx, u *core.Unit, e ast.Expr, guard core.Guard, onTrue, onFalse int64) bool {
	d := ast.Unparen(e)
	if _, isID := d.(*ast.Ident); isID {
		dd, ok := u.SingleDef(d)
		if !ok {
			return false
		}
		d = ast.Unparen(dd)
	}
	ce, isC := d.(*ast.CallExpr)
	if !isC {
		return false
	}
	f, _ := typeutil.Callee(u.Info(), ce).(*types.Func)
	if f == nil || !core.IsNovel(f) {
		return false
	}
	h := c.P.UnitOf(f)
	if h == nil || h.Pkg != u.Pkg {
		return false
	}
	c.Touch(h)
	hg := h.Graph()
	nT, nF, good := 0, 0, true
	for _, r := range returnsIn(h) {
		if len(r.Stmt.Results) != 1 {
			return false
		}
		switch v, isK := core.ConstInt(h.Info(), r.Stmt.Results[0]); {
		case isK && v == onTrue:
			nT++
			good = good && hg.GuardedBy(r.Loc, guard)
		case isK && v == onFalse:
			nF++
			good = good && !hg.GuardedBy(r.Loc, guard)
		default:
			return false
		}
	}
	return good && nT == 1 && nF == 1
}
