package rules

import (
	"go/ast"
	"go/constant"
	"go/token"
	"go/types"
	"strings"

	"engcheck/core"
)

func init() {
	register("C02", func(c *core.Ctx, tier string) {
		truncatedBodyRefused(c, "C02.14")
		wtCandidateRevision(c, "C02.15")
		closedByPacketListener(c, "C02.16")
		announcedBeforeDispatch(c, "C02.17")
		jsonpSelection(c, "C02.21")
		deliveryOrderedWithClose(c, "C02.18")
		v3BinaryPayloadCodec(c, "C02.19", true)
		baseTransportEffects(c, "C02.11")
		frameTransportEffects(c, "C02.10")
		c02OpenGuard(c)
		c02MessageBranch(c)
		c02CloseStopsPayload(c)
		c02OneFrameOnePacket(c)
		c02Synchronous(c)
		c02CandidateIsolation(c)
		c08SwitchOnlyOnUpgrade(c)          // C02.5b = C08.2: a candidate becomes the current transport (whose packets are delivered) only upon its UPGRADE packet
		c03ConstructionWiring(c, "C02.6b") // the transport's packet event reaches onPacket
		c02Jsonp(c)
		codecCallTable(c, "C02.4c")
		c02DeliveryUnconditional(c)
		payloadNotTruncated(c, "C02.12")
		c10BoundedBody(c, "C02.9")                                                     // the whole body below the limit reaches OnData: the read limit is MaxHttpBufferSize() itself, not a smaller or unrelated quantity
		c03AdmittedStates(c, "C02.1b", map[string]bool{"onPacket/emit(packet)": true}) // delivered whenever (and only when) open
		// WebTransport frames: the kind and the bytes of an inbound message come from the framing layer
		c13KindBit(c)               // C02.8a = C13.3: kind bit read as written
		wtPeekValidity(c, "C02.8b") // header bytes used while still valid
		headerBytesComplete(c, "C02.8e")
		wtReadLimit(c, "C02.8c")    // per-message (not per-connection) size accounting: later messages are not refused
		wtClampAndSkip(c, "C02.8d") // a message never contains bytes of the next frame
	})
}

// pktTypeIs: guard establishing `<packet>.Type == typ` for the packet
// expression accepted by isPkt.
func pktTypeIs(typ string, isPkt func(u *core.Unit, e ast.Expr) bool) core.Guard {
	return func(u *core.Unit, br core.Branch) int {
		cmp, ok := u.BranchCmp(br)
		if !ok || cmp.Val == nil || cmp.Val.Kind() != constant.String || constant.StringVal(cmp.Val) != typ {
			return 0
		}
		se, isS := ast.Unparen(cmp.X).(*ast.SelectorExpr)
		if !isS || fieldOf(u.Info(), se) != "Packet.Type" || !isPkt(u, se.X) {
			return 0
		}
		switch cmp.Op {
		case token.EQL:
			return 1
		case token.NEQ:
			return -1
		}
		return 0
	}
}

func paramPkt(i int) func(u *core.Unit, e ast.Expr) bool {
	return func(u *core.Unit, e ast.Expr) bool { return isLocal(u.Info(), e, paramName(u, i)) }
}

func openOnly() core.Guard {
	return stateIs(sockStateKeys, "open")
}

func c02OpenGuard(c *core.Ctx) {
	const R = "C02.1"
	c.Rule(R, "in (*socket).onPacket every Emit of packet, heartbeat, data and message is dominated by ReadyState() == \"open\"; message/data are emitted on a session only by onPacket")
	u := c.Fn(R, sockOnPacket)
	if u == nil {
		return
	}
	g := u.Graph()
	n := 0
	for _, e := range filterEv(events(c, u), "emit", "session", "") {
		switch e.Event {
		case "packet", "heartbeat", "data", "message":
			n++
			c.Check(R, keyf("%s/emit(%s)#%d-only-when-open", sockOnPacket, e.Event, n), e.Pos(), g.GuardedBy(e.Loc, openOnly()), "delivery happens only while the session is open")
		}
	}
	c.Need(R, "delivery emits in onPacket", n, 5)
	for _, x := range c.P.Units {
		for _, e := range filterEv(events(c, x), "emit", "session", "") {
			if e.Event == "message" || e.Event == "data" {
				c.Check(R, keyf("%s/emit(%s)@session", x.Key, e.Event), e.Pos(), x.Key == sockOnPacket, "only onPacket delivers messages")
			}
		}
	}
}

func c02MessageBranch(c *core.Ctx) {
	const R = "C02.2"
	c.Rule(R, "the MESSAGE branch of onPacket emits exactly one data and then one message event, both carrying the Data of the packet under dispatch, outside any loop; no other branch emits them")
	u := c.Fn(R, sockOnPacket)
	if u == nil {
		return
	}
	g := u.Graph()
	info := u.Info()
	isMsg := pktTypeIs("message", paramPkt(0))
	var data, msg []*Ev
	for _, e := range filterEv(events(c, u), "emit", "session", "") {
		if e.Event == "data" {
			data = append(data, e)
		}
		if e.Event == "message" {
			msg = append(msg, e)
		}
	}
	ok := len(data) == 1 && len(msg) == 1
	if ok {
		payload := func(e *Ev) bool {
			se, isS := ast.Unparen(e.Arg(1)).(*ast.SelectorExpr)
			return isS && fieldOf(info, se) == "Packet.Data" && isLocal(info, se.X, paramName(u, 0)) && len(e.Expr.Args) == 2
		}
		inLoop := func(e *Ev) bool {
			return g.Reach(g.After(e.Loc), func(s core.State) bool { return s.B == e.Loc.B && s.I == e.Loc.I }, nil, nil)
		}
		ok = g.GuardedBy(data[0].Loc, isMsg) && g.GuardedBy(msg[0].Loc, isMsg) && payload(data[0]) && payload(msg[0]) &&
			g.Dominates(data[0].Loc, msg[0].Loc) && !inLoop(data[0]) && !inLoop(msg[0])
	}
	c.Check(R, sockOnPacket+"/MESSAGE→data≺message(packet.Data)", u.Pos(), ok, keyf("%d data / %d message emit sites; on the MESSAGE edge, once each, payload = packet.Data", len(data), len(msg)))
}

func c02CloseStopsPayload(c *core.Ctx) {
	const R = "C02.3"
	c.Rule(R, "polling.OnData ranges over the decoded payload; on the CLOSE edge it leaves the loop without any further OnPacket; on the other edge it hands exactly the loop variable to OnPacket once per iteration")
	u := c.Fn(R, "transports.(*polling).OnData")
	if u == nil {
		return
	}
	info := u.Info()
	g := u.Graph()
	var loop *ast.RangeStmt
	ast.Inspect(u.Body, func(n ast.Node) bool {
		if rs, ok := n.(*ast.RangeStmt); ok && loop == nil {
			if d, k := u.SingleDef(rs.X); k {
				if te, isT := d.(*core.TupleElem); isT && te.Index == 0 {
					if ce, isC := ast.Unparen(te.X).(*ast.CallExpr); isC && hasSuffixAny(u.CalleeKey(ce), ".DecodePayload", ".decodePayload") {
						loop = rs
					}
				}
			}
		}
		return true
	})
	if !c.Exists(R, "transports.(*polling).OnData/range-over-DecodePayload", u.Pos(), loop != nil, "loop over the decoded packets") {
		return
	}
	val, _ := loop.Value.(*ast.Ident)
	isLoopVar := func(x *core.Unit, e ast.Expr) bool { return val != nil && isLocal(x.Info(), e, val.Name) }
	var onPkts, afterLoop []*core.Call
	for _, cl := range u.Calls() {
		if cl.Name != "OnPacket" {
			continue
		}
		if loop.Body.Pos() <= cl.Pos() && cl.Expr.End() <= loop.Body.End() {
			onPkts = append(onPkts, cl)
		} else {
			afterLoop = append(afterLoop, cl)
		}
	}
	okOne := len(onPkts) == 1 && val != nil && isLocal(info, onPkts[0].Arg(0), val.Name)
	c.Check(R, "transports.(*polling).OnData/OnPacket(loop-var)-once", u.Pos(), okOne, keyf("%d OnPacket call(s) in the loop, argument is the range value", len(onPkts)))
	// a payload that could not be decoded to its end: the packets ahead of the malformed one were dispatched by the loop;
	// the decoder's error is then reported as one ERROR packet (→ close with 'parse error'), never dropped (fix 78c21b4)
	decodeFailed := nilGuard(true, func(x *core.Unit, e ast.Expr) bool {
		d, k := x.SingleDef(e)
		te, isT := d.(*core.TupleElem)
		if !k || !isT || te.Index != 1 {
			return false
		}
		ce, isC := ast.Unparen(te.X).(*ast.CallExpr)
		return isC && hasSuffixAny(x.CalleeKey(ce), ".DecodePayload", ".decodePayload")
	})
	okErr := len(afterLoop) == 1
	for _, cl := range afterLoop {
		isErrPkt := false
		ast.Inspect(cl.Arg(0), func(n ast.Node) bool {
			if kv, isKV := n.(*ast.KeyValueExpr); isKV && pktConst(info, kv.Value, "error") {
				isErrPkt = true
			}
			return true
		})
		okErr = okErr && isErrPkt && g.GuardedBy(cl.Loc, decodeFailed) && cl.Pos() > loop.End()
	}
	c.Check(R, "transports.(*polling).OnData/decode-error→ERROR-packet", u.Pos(), okErr, keyf("%d OnPacket call(s) after the loop; an ERROR packet on the err != nil edge of the payload decoder", len(afterLoop)))
	if !okOne {
		return
	}
	// CLOSE edge cannot reach OnPacket
	closeG := pktTypeIs("close", isLoopVar)
	found := false
	for _, f := range g.Facts() {
		p := closeG(u, f.Br)
		if p == 0 {
			continue
		}
		if (p > 0) != f.Val {
			continue
		}
		found = true
		start := core.State{B: f.Br.B.Succs[f.Edge], I: 0}
		reaches := g.Reach(start, func(s core.State) bool { return s.B == onPkts[0].Loc.B && s.I == onPkts[0].Loc.I }, nil, nil)
		c.Check(R, "transports.(*polling).OnData/CLOSE-edge-stops", f.Br.Cond.Pos(), !reaches, "no OnPacket is reachable after a close packet of the same payload")
	}
	c.Exists(R, "transports.(*polling).OnData/CLOSE-test", u.Pos(), found, "the loop tests for a close packet")
	// OnPacket is not reachable from itself except through the loop head (no inner loop, once per iteration): covered by okOne
}

func c02OneFrameOnePacket(c *core.Ctx) {
	const R = "C02.4"
	c.Rule(R, "one frame = one packet: websocket/webTransport onMessage call the base transport.OnData, which decodes once (DecodePacket, not DecodePayload) and hands the decoded value to OnPacket once; in both reader loops each message type is read into the matching buffer kind (Binary→BytesBuffer, Text→StringBuffer) and reaches onMessage only on the read-success edge")
	for _, key := range []string{"transports.(*websocket).onMessage", "transports.(*webTransport).onMessage"} {
		u := c.Fn(R, key)
		if u == nil {
			continue
		}
		ok := false
		var calls []*core.Call
		for _, cl := range u.Calls() {
			if cl.Name == "OnData" || cl.Name == "OnPacket" {
				calls = append(calls, cl)
			}
		}
		if len(calls) == 1 && calls[0].Key == "transports.(Transport).OnData" {
			f := fieldOf(u.Info(), calls[0].Recv)
			ok = (f == "websocket.Transport" || f == "webTransport.Transport") && isLocal(u.Info(), calls[0].Arg(0), paramName(u, 0))
		}
		c.Check(R, key+"/base-OnData(frame)", u.Pos(), ok, "the frame is decoded as a single packet by the base transport")
	}
	if od := c.Fn(R, "transports.(*transport).OnData"); od != nil {
		var dec, onp []*core.Call
		for _, cl := range od.Calls() {
			if hasSuffixAny(cl.Key, ".DecodePacket", ".DecodePayload") {
				dec = append(dec, cl)
			}
			if cl.Name == "OnPacket" {
				onp = append(onp, cl)
			}
		}
		ok := len(dec) == 1 && hasSuffixAny(dec[0].Key, ".DecodePacket") && len(onp) == 1 && tupleOf(od, onp[0].Arg(0), dec[0].Expr, 0) &&
			isLocal(od.Info(), dec[0].Arg(0), paramName(od, 0))
		c.Check(R, "transports.(*transport).OnData/DecodePacket→OnPacket", od.Pos(), ok, "exactly one DecodePacket of the input and one OnPacket of its result")
	}
	for _, key := range []string{"transports.(*websocket).message", "transports.(*webTransport).message"} {
		u := c.Fn(R, key)
		if u == nil {
			continue
		}
		g := u.Graph()
		n := 0
		for _, cl := range u.Calls() {
			if cl.Name != "onMessage" {
				continue
			}
			n++
			// the buffer handed over
			d, _ := u.SingleDef(cl.Arg(0))
			ce, _ := ast.Unparen(d).(*ast.CallExpr)
			ctor := ""
			if ce != nil {
				ctor = u.CalleeKey(ce)
			}
			// message-type case that dominates
			wantKind := ""
			for _, f := range g.Facts() {
				if !g.EdgeDominates(f.Br.B, f.Edge, cl.Loc) {
					continue
				}
				if v, ok := eqIntOnEdge(u, f); ok && isFrameType(u, f.Br) {
					switch v {
					case 1:
						wantKind = "types.NewStringBuffer"
					case 2:
						wantKind = "types.NewBytesBuffer"
					}
				}
			}
			// read-success edge: the ReadFrom error is nil
			var readErr core.Guard = func(x *core.Unit, br core.Branch) int {
				cmp, ok := x.BranchCmp(br)
				if !ok || cmp.Y == nil || !core.IsNil(x.Info(), cmp.Y) {
					return 0
				}
				dd, k := x.SingleDef(cmp.X)
				if !k {
					return 0
				}
				// `err := w.readMessage(read, message)` — the bounded read of fix 32ab2cd returns the error alone
				if rc, isC := ast.Unparen(dd).(*ast.CallExpr); isC && strings.HasSuffix(x.CalleeKey(rc), ".readMessage") {
					switch cmp.Op {
					case token.EQL:
						return 1
					case token.NEQ:
						return -1
					}
				}
				te, isT := dd.(*core.TupleElem)
				if !isT || te.Index != 1 {
					return 0
				}
				if rc, isC := ast.Unparen(te.X).(*ast.CallExpr); isC && calleeNameOf(rc) == "ReadFrom" {
					switch cmp.Op {
					case token.EQL:
						return 1
					case token.NEQ:
						return -1
					}
				}
				return 0
			}
			okRead := g.GuardedBy(cl.Loc, readErr)
			c.Check(R, keyf("%s/onMessage#%d", key, n), cl.Pos(), ctor != "" && ctor == wantKind && okRead,
				keyf("buffer constructor %s, frame type expects %s, on read-success edge=%v", ctor, wantKind, okRead))
		}
		c.Need(R, "onMessage calls in "+key, n, 2)
	}
}

func calleeNameOf(c *ast.CallExpr) string {
	f := ast.Unparen(c.Fun)
	switch x := f.(type) {
	case *ast.IndexExpr:
		f = x.X
	case *ast.IndexListExpr:
		f = x.X
	}
	if se, ok := f.(*ast.SelectorExpr); ok {
		return se.Sel.Name
	}
	if id, ok := f.(*ast.Ident); ok {
		return id.Name
	}
	return ""
}

func hasGo(u *core.Unit) (bool, token.Pos) {
	found := false
	var pos token.Pos
	ast.Inspect(u.Body, func(n ast.Node) bool {
		if _, isLit := n.(*ast.FuncLit); isLit {
			return false
		}
		if gs, ok := n.(*ast.GoStmt); ok {
			found, pos = true, gs.Pos()
		}
		return true
	})
	return found, pos
}

func c02Synchronous(c *core.Ctx) {
	const R = "C02.5"
	c.Rule(R, "dispatch is synchronous and ordered: no go statement in the chain reader/handler → OnData → OnPacket → Emit(\"packet\") → session packet listener → onPacket → Emit (order of delivery = order in the payload)")
	for _, key := range []string{
		"transports.(*transport).OnData", "transports.(*transport).OnPacket", "transports.(*polling).OnData", "transports.(*jsonp).OnData",
		sockOnPacket, sockSetTr + "$onPacket", "transports.(*websocket).onMessage", "transports.(*webTransport).onMessage", "types.(*emmiter).Emit",
	} {
		u := c.Fn(R, key)
		if u == nil {
			continue
		}
		has, pos := hasGo(u)
		if !has {
			pos = u.Pos()
		}
		c.Check(R, key+"/no-goroutine", pos, !has, "packets are dispatched on the caller's goroutine")
	}
}

func c02CandidateIsolation(c *core.Ctx) {
	const R = "C02.6"
	c.Rule(R, "packets arriving on a candidate transport never reach application delivery: no closure of MaybeUpgrade calls socket.onPacket or emits message|data|packet on the session; socket.onPacket is called only by the listener that setTransport attaches")
	mu := c.Fn(R, sockUpgrade)
	if mu != nil {
		bad := 0
		for _, x := range mu.AllUnits() {
			c.Touch(x)
			for _, cl := range x.CallsTo(sockOnPacket) {
				bad++
				c.Violate(R, x.Key+"/calls-onPacket", cl.Pos(), "candidate packets are dispatched to the application")
			}
			for _, e := range filterEv(events(c, x), "emit", "session", "") {
				if e.Event == "message" || e.Event == "data" || e.Event == "packet" {
					bad++
					c.Violate(R, keyf("%s/emit(%s)", x.Key, e.Event), e.Pos(), "candidate packets are delivered as session events")
				}
			}
		}
		c.Check(R, sockUpgrade+"/candidate-isolated", mu.Pos(), bad == 0, keyf("%d closures inspected", len(mu.AllUnits())))
	}
	n := 0
	for _, cl := range callsAnywhere(c, sockOnPacket) {
		n++
		c.Check(R, keyf("%s/calls-onPacket", cl.U.Key), cl.Pos(), cl.U.Key == sockSetTr+"$onPacket", "onPacket callers ⊆ {setTransport$onPacket}")
	}
	c.Need(R, "callers of socket.onPacket", n, 1)
	// the packet listener is attached with On("packet") in setTransport to the closure calling onPacket
	if st := c.Fn(R, sockSetTr); st != nil {
		ok := false
		for _, e := range filterEv(events(c, st), "on", "transport", "packet") {
			if k := closureArg(st, e.Call, 1); k != nil && len(k.CallsTo(sockOnPacket)) == 1 {
				ok = true
			}
		}
		c.Check(R, sockSetTr+"/On(packet)→onPacket", st.Pos(), ok, "the session's packet listener is wired in setTransport")
	}
}

func c02Jsonp(c *core.Ctx) {
	const R = "C02.7"
	c.Rule(R, "jsonp.OnData hands Polling.OnData exactly one buffer derived from the d form field (data.Get(\"d\")) on the parse-success edge and reports OnError on the parse-failure edge")
	u := c.Fn(R, "transports.(*jsonp).OnData")
	if u == nil {
		return
	}
	g := u.Graph()
	info := u.Info()
	var od, oe []*core.Call
	for _, cl := range u.Calls() {
		if cl.Name == "OnData" {
			od = append(od, cl)
		}
		if cl.Name == "OnError" {
			oe = append(oe, cl)
		}
	}
	var pq *core.Call
	for _, cl := range u.CallsTo("net/url.ParseQuery") {
		pq = cl
	}
	ok := len(od) == 1 && len(oe) == 1 && pq != nil
	if ok {
		errOf := func(x *core.Unit, e ast.Expr) bool { return tupleOf(x, e, pq.Expr, 1) }
		ok = g.GuardedBy(od[0].Loc, nilGuard(false, errOf)) && g.GuardedBy(oe[0].Loc, nilGuard(true, errOf))
		// the argument derives from Get("d")
		fromD := false
		var walk func(e ast.Expr, depth int)
		walk = func(e ast.Expr, depth int) {
			if depth > 6 || e == nil {
				return
			}
			ast.Inspect(e, func(n ast.Node) bool {
				switch x := n.(type) {
				case *ast.FuncLit:
					return false
				case *ast.CallExpr:
					if calleeNameOf(x) == "Get" && len(x.Args) == 1 {
						if s, isS := core.ConstString(info, x.Args[0]); isS && s == "d" {
							fromD = true
						}
					}
				case *ast.Ident:
					if v, isV := core.ObjOf(info, x).(*types.Var); isV && !v.IsField() {
						if d, k := u.SingleDef(x); k && d != ast.Expr(x) {
							if _, isT := d.(*core.TupleElem); !isT {
								walk(d, depth+1)
							}
						}
					}
				}
				return true
			})
		}
		walk(od[0].Arg(0), 0)
		ok = ok && fromD && fieldOf(info, od[0].Recv) == "jsonp.Polling"
	}
	c.Check(R, "transports.(*jsonp).OnData/d-field→Polling.OnData", u.Pos(), ok, "one OnData with a buffer built from the d field; OnError on parse failure")
	// order of the two un-escaping passes: first rSlashes (\\n → LF, keeping \\\\n) on the raw field, then rDoubleSlashes (\\\\n → \\n) on its result
	if len(od) == 1 {
		order := false
		ast.Inspect(od[0].Arg(0), func(n ast.Node) bool {
			ce, isC := n.(*ast.CallExpr)
			if !isC || u.CalleeKey(ce) != "regexp.(*Regexp).ReplaceAllString" {
				return true
			}
			se, _ := ce.Fun.(*ast.SelectorExpr)
			if se == nil {
				return true
			}
			if v, isV := core.ObjOf(info, se.X).(*types.Var); !isV || v.Name() != "rDoubleSlashes" {
				return true
			}
			// its input is the result of rSlashes.ReplaceAllStringFunc(data.Get("d"), …)
			d, k := u.SingleDef(ce.Args[0])
			if !k {
				return true
			}
			inner, isI := ast.Unparen(d).(*ast.CallExpr)
			if !isI || u.CalleeKey(inner) != "regexp.(*Regexp).ReplaceAllStringFunc" {
				return true
			}
			is, _ := inner.Fun.(*ast.SelectorExpr)
			if is == nil {
				return true
			}
			if v, isV := core.ObjOf(info, is.X).(*types.Var); isV && v.Name() == "rSlashes" {
				if g0, isG := ast.Unparen(inner.Args[0]).(*ast.CallExpr); isG && calleeNameOf(g0) == "Get" {
					order = true
				}
			}
			return true
		})
		c.Check(R, "transports.(*jsonp).OnData/unescape-order(rSlashes≺rDoubleSlashes)", od[0].Pos(), order, "single escaped newlines are decoded on the raw d field first, doubled ones on that result (the reverse order turns a literal backslash-n into a line feed)")
	}
}

// codecCallTable — C02.4c / C01.15: the optional flags of the external
// parser's four entry points select byte-level transformations (UTF-8
// re-encoding, base64); each call site passes exactly what its transport needs.
func codecCallTable(c *core.Ctx, R string) {
	c.Rule(R, "codec call table (engine.io-go-parser): DecodePacket(frame) and DecodePayload(body) are called with the buffer alone (no utf8decode flag, or constant false: a frame transport and the payload decoder already hand over decoded text); EncodePacket(packet, SupportsBinary()) with no utf8encode flag; EncodePayload(packets, SupportsBinary()) on the revision-3 edge and EncodePayload(packets) otherwise — an extra flag silently rewrites every non-ASCII byte of a message")
	n := 0
	isSB := func(u *core.Unit, e ast.Expr) bool {
		ce, key := u.AsCall(e)
		return ce != nil && strings.HasSuffix(key, ".SupportsBinary")
	}
	constFalse := func(u *core.Unit, e ast.Expr) bool {
		v, ok := core.ConstBool(u.Info(), e)
		return ok && !v
	}
	for _, u := range c.P.Units {
		for _, cl := range u.Calls() {
			if cl.Callee == nil || cl.Callee.Pkg() == nil || !strings.HasSuffix(cl.Callee.Pkg().Path(), "engine.io-go-parser/parser") {
				continue
			}
			args := cl.Expr.Args
			ok, known := true, true
			switch cl.Name {
			case "DecodePacket":
				ok = len(args) == 1 || (len(args) == 2 && constFalse(u, args[1]))
			case "DecodePayload":
				ok = len(args) == 1
			case "EncodePacket":
				ok = len(args) >= 2 && isSB(u, args[1]) && (len(args) == 2 || (len(args) == 3 && constFalse(u, args[2])))
			case "EncodePayload":
				ok = len(args) == 1 || (len(args) == 2 && isSB(u, args[1]))
			default:
				known = false
			}
			if !known {
				continue
			}
			n++
			c.Check(R, keyf("%s/%s(%d args)", u.Key, cl.Name, len(args)), cl.Pos(), ok, "the parser is called with the frozen argument shape of this entry point")
		}
	}
	c.Need(R, "parser encode/decode call sites", n, 7)
}

// c02DeliveryUnconditional — C02.4d: every frame that was read is delivered.
func c02DeliveryUnconditional(c *core.Ctx) {
	const R = "C02.4d"
	c.Rule(R, "every frame read is delivered: in websocket.message / webTransport.message the onMessage call of a data frame depends only on the frame type (the switch on mt) and on error tests (the NextReader / ReadFrom results being nil) — not on the number of bytes read or any other property of the payload: a zero-length frame is a message (the empty binary message of revision 4)")
	n := 0
	for _, k := range []string{"transports.(*websocket).message", "transports.(*webTransport).message"} {
		u := c.Fn(R, k)
		if u == nil {
			continue
		}
		info := u.Info()
		g := u.Graph()
		for _, cl := range u.Calls() {
			if cl.Name != "onMessage" {
				continue
			}
			n++
			bad := ""
			for _, f := range g.Facts() {
				if !g.EdgeDominates(f.Br.B, f.Edge, cl.Loc) {
					continue
				}
				cmp, ok := u.BranchCmp(f.Br)
				if isFrameType(u, f.Br) {
					continue // the frame-type test
				}
				if ok && cmp.Y != nil && core.IsNil(info, cmp.Y) && anyErr(u, cmp.X) {
					continue
				}
				bad = core.ExprString(f.Br.Cond)
			}
			c.Check(R, keyf("%s/onMessage-depends-only-on-type-and-errors", k), cl.Pos(), bad == "", keyf("delivery also depends on: %s", bad))
		}
	}
	c.Need(R, "onMessage call sites in the reader loops", n, 4)
}

// payloadNotTruncated (C02.12 = C11.12 = C10.7) — the payload decoder of the
// pinned parser (engine.io-go-parser, parserv4.DecodePayload) cuts a revision-4
// payload with a bufio.Scanner that keeps the default token limit (64 KiB): a
// payload holding one larger packet yields no packet at all and an error the
// transport discards — the POST is acknowledged with "ok" and its messages are
// lost, although they are far below maxHttpBufferSize. While that is so, the
// repository may hand a payload to Parser.DecodePayload only where the
// revision is established not to be 4, and must cut revision-4 payloads
// itself (at the parser's separator, one DecodePacket per piece).
func payloadNotTruncated(c *core.Ctx, R string) {
	c.Rule(R, "payload decoding is not bounded below maxHttpBufferSize: if parserv4.DecodePayload (the dependency, inspected on every run) still scans with a default-limit bufio.Scanner, every call of Parser.DecodePayload in the repository lies on an edge where Protocol() != 4 is established, and polling's own revision-4 decoder cuts the payload at parser.SEPARATOR and decodes every piece with DecodePacket inside a loop, returning the packets decoded")
	bounded := false
	var where token.Pos
	if pk := c.P.Dep("github.com/zishang520/engine.io-go-parser/parser"); pk != nil {
		for _, f := range pk.Syntax {
			for _, d := range f.Decls {
				fd, ok := d.(*ast.FuncDecl)
				if !ok || fd.Body == nil || fd.Name.Name != "DecodePayload" || fd.Recv == nil {
					continue
				}
				if !strings.Contains(core.ExprString(fd.Recv.List[0].Type), "parserv4") {
					continue
				}
				scanners, buffered := 0, 0
				ast.Inspect(fd.Body, func(n ast.Node) bool {
					if ce, ok := n.(*ast.CallExpr); ok {
						if se, ok := ce.Fun.(*ast.SelectorExpr); ok {
							if fn, _ := pk.TypesInfo.Uses[se.Sel].(*types.Func); fn != nil && fn.Pkg() != nil && fn.Pkg().Path() == "bufio" {
								switch fn.Name() {
								case "NewScanner":
									scanners++
									where = ce.Pos()
								case "Buffer":
									buffered++
								}
							}
						}
					}
					return true
				})
				bounded = scanners > 0 && buffered == 0
			}
		}
	} else {
		c.Undecided(R, "engine.io-go-parser/parser", "the parser package is not among the loaded dependencies")
		return
	}
	c.Check(R, "dependency/parserv4.DecodePayload-inspected", token.NoPos, true, keyf("default-limit Scanner in the dependency: %v (%s)", bounded, c.P.PosStr(where)))
	not4 := func(u *core.Unit, br core.Branch) int {
		cmp, ok := u.BranchCmp(br)
		if !ok || cmp.Val == nil {
			return 0
		}
		_, key := u.AsCall(cmp.X)
		if !strings.HasSuffix(key, ".Protocol") {
			return 0
		}
		v := cmp.Val.ExactString()
		switch {
		case v == "4" && cmp.Op == token.NEQ, v == "3" && cmp.Op == token.EQL:
			return 1
		case v == "4" && cmp.Op == token.EQL, v == "3" && cmp.Op == token.NEQ:
			return -1
		}
		return 0
	}
	n := 0
	for _, u := range c.P.Units {
		g := u.Graph()
		for _, cl := range u.Calls() {
			if cl.Name != "DecodePayload" || cl.Callee == nil || cl.Callee.Pkg() == nil || !strings.HasSuffix(cl.Callee.Pkg().Path(), "engine.io-go-parser/parser") {
				continue
			}
			n++
			c.Check(R, keyf("%s/DecodePayload-only-when-not-revision-4", u.Key), cl.Pos(), !bounded || g.GuardedBy(cl.Loc, not4),
				"a revision-4 payload handed to the parser is dropped whole when one packet reaches 64 KiB (Scanner token limit); the error is not reported")
		}
	}
	c.Need(R, "calls of Parser.DecodePayload in the repository", n, 1)
	if !bounded {
		return
	}
	// the repository's own revision-4 decoder
	u := c.Fn(R, "transports.(*polling).decodePayload")
	if u == nil {
		return
	}
	g := u.Graph()
	info := u.Info()
	okCut, okDecode, okAppend := false, false, false
	for _, cl := range u.Calls() {
		if cl.Key == "bytes.IndexByte" && len(cl.Expr.Args) == 2 {
			if v, ok := core.ConstInt(info, cl.Arg(1)); ok && v == 0x1e {
				okCut = true
			}
		}
		// the same cut with bytes.Cut / bytes.Split on the one-byte separator
		if (cl.Key == "bytes.Cut" || cl.Key == "bytes.Split" || cl.Key == "bytes.SplitN") && len(cl.Expr.Args) >= 2 {
			if lit, isL := ast.Unparen(cl.Arg(1)).(*ast.CompositeLit); isL && len(lit.Elts) == 1 {
				if v, ok := core.ConstInt(info, lit.Elts[0]); ok && v == 0x1e {
					okCut = true
				}
			}
		}
		if cl.Name == "DecodePacket" && !g.GuardedBy(cl.Loc, not4) {
			// inside a loop: the call can follow itself
			if g.CanFollow(cl.Loc, cl.Loc) || g.Reach(g.After(cl.Loc), func(s core.State) bool { return s.B == cl.Loc.B && s.I == cl.Loc.I }, nil, nil) {
				okDecode = true
			}
		}
		if cl.Callee == nil && cl.Name == "append" {
			okAppend = true
		}
	}
	// every return of the decoder hands back the packets decoded so far — also the one that reports a malformed piece:
	// OnData dispatches them before it ends the session with the parse error (fix 78c21b4)
	var acc types.Object
	for _, a := range assignsIn(u, func(l ast.Expr) bool { return true }) {
		if ce, isC := ast.Unparen(a.Rhs).(*ast.CallExpr); isC {
			if id, isID := ce.Fun.(*ast.Ident); isID && id.Name == "append" && len(ce.Args) >= 1 {
				if core.ObjOf(info, a.Lhs) == core.ObjOf(info, ce.Args[0]) {
					acc = core.ObjOf(info, a.Lhs)
				}
			}
		}
	}
	okRet := acc != nil
	nRet := 0
	for _, r := range returnsIn(u) {
		if g.GuardedBy(r.Loc, not4) {
			continue // the revision-3 arm delegates to the parser
		}
		nRet++
		if len(r.Stmt.Results) == 0 {
			continue // naked return of the named results
		}
		if core.ObjOf(info, r.Stmt.Results[0]) != acc {
			okRet = false
		}
	}
	c.Check(R, "transports.(*polling).decodePayload/every-return-hands-back-the-decoded-packets", u.Pos(), okRet && nRet >= 2, keyf("%d returns of the revision-4 decoder, each returning the accumulated slice: %v", nRet, okRet))
	c.Check(R, "transports.(*polling).decodePayload/cuts-at-separator,DecodePacket-per-piece", u.Pos(), okCut && okDecode && okAppend,
		keyf("bytes.IndexByte(…, 0x1e): %v; DecodePacket in the loop: %v; packets collected: %v", okCut, okDecode, okAppend))
	used := false
	if od := c.Fn(R, "transports.(*polling).OnData"); od != nil {
		for _, cl := range od.Calls() {
			if cl.Key == "transports.(*polling).decodePayload" {
				used = true
			}
		}
		c.Check(R, "transports.(*polling).OnData/uses-decodePayload", od.Pos(), used, "OnData decodes through the repository's decoder")
	}
}

// isFrameType: the branch compares the message type a NextReader call returned
// (switch tag or == / != operand) with a constant.
func isFrameType(u *core.Unit, br core.Branch) bool {
	cmp, ok := u.BranchCmp(br)
	if !ok || cmp.Val == nil {
		return false
	}
	d, k := u.SingleDef(cmp.X)
	te, isT := d.(*core.TupleElem)
	if !k || !isT || te.Index != 0 {
		return false
	}
	ce, isC := ast.Unparen(te.X).(*ast.CallExpr)
	return isC && calleeNameOf(ce) == "NextReader"
}
