package rules

import (
	"go/ast"
	"go/token"
	"go/types"
	"sort"
	"strings"

	"engcheck/core"
)

var clientEntryPoints = []string{
	"engine.(*server).ServeHTTP", srvHandle, "engine.(*server).HandleUpgrade", srvOnWT,
	"transports.(*websocket).message", "transports.(*webTransport).message",
}

func init() {
	register("C09", func(c *core.Ctx, tier string) {
		pollInstalledOnlyWhileClientIsThere(c, "C09.22")
		wsInflatedBound(c, "C09.17")
		requestRevalidatesTransport(c, "C09.18")
		handlerReleasedUnderMutex(c, "C09.19")
		headerValuesComplete(c, "C09.20")
		v3BinaryPayloadCodec(c, "C09.21", true)
		variadicIndexSafety(c, "C09.4b")
		containerEffects(c, "C09.14")
		baseTransportEffects(c, "C09.15")
		serverEffects(c, "C09.13")
		valueAfterErrCheck(c, "C09.3e", "engine", "transports", "types", "utils", "webtransport")
		frameTransportEffects(c, "C09.12")
		errPolarity(c, "C09.3d", "engine", "transports", "types", "utils", "webtransport")
		pollingEffects(c, "C09.11")
		constructorChain(c, "C09.10")
		c09Panics(c)
		c09UncheckedAssertions(c)
		c09ConnWritesLocked(c)
		timerNilSafe(c, "C09.3a")
		c09DecodedPointers(c)
		c09NilContradiction(c)
		c09SharedCaptureNotReassigned(c, "C09.16")
		c09CloseOnce(c)
		c09AcceptTimerCoversHandshake(c)
		c09EventSignatures(c)
		answerOrPark(c, "C09.5", false)
		c09OnRequestImplementations(c, "C09.5b")
		c09ReadersTerminate(c)
		lockBalance(c, "C09.2b", "engine", "transports", "types")
		c10BoundedBody(c, "C09.7")
		c10LimitBeforeRead(c, "C09.7b")
		c19Pairing(c) // C09.8: no per-packet resource growth — a timer holder is overwritten only after the previous timer was cleared, every timer is cancelled by its owner's teardown
		c19WhoClears(c)
		c19HolderWrites(c, "C09.3f")
	})
}

var listenersWired = map[*core.Prog]bool{}

// wireListenersCG adds Emit→listener edges to the shared call graph (once).
func wireListenersCG(c *core.Ctx) {
	if listenersWired[c.P] {
		return
	}
	listenersWired[c.P] = true
	cg := c.P.CG()
	type ke struct{ class, ev string }
	listeners := map[ke][]*core.Unit{}
	for _, u := range c.P.Units {
		for _, e := range events(c, u) {
			if (e.Kind != "on" && e.Kind != "once") || e.Event == "" {
				continue
			}
			for i := 1; i < len(e.Expr.Args); i++ {
				if k := closureArg(u, e.Call, i); k != nil {
					listeners[ke{e.Class, e.Event}] = append(listeners[ke{e.Class, e.Event}], k)
				}
			}
		}
	}
	for _, u := range c.P.Units {
		for _, e := range events(c, u) {
			if e.Kind == "emit" && e.Event != "" {
				cg.Extra[u] = append(cg.Extra[u], listeners[ke{e.Class, e.Event}]...)
			}
		}
		// timer callbacks run on behalf of the code that armed them
		for _, cl := range u.CallsTo(setTimeoutKey, setIntervalKey) {
			if k := closureArg(u, cl, 0); k != nil {
				cg.Extra[u] = append(cg.Extra[u], k)
			}
		}
	}
}

func clientReach(c *core.Ctx, R string) (map[*core.Unit]bool, []*core.Unit) {
	wireListenersCG(c)
	var roots []*core.Unit
	for _, k := range clientEntryPoints {
		if u := c.Fn(R, k); u != nil {
			roots = append(roots, u)
		}
	}
	return c.P.CG().Reach(roots...), roots
}

func c09Panics(c *core.Ctx) {
	const R = "C09.1"
	c.Rule(R, "explicit panics: the panic(...) calls in functions reachable from the client-byte entry points (ServeHTTP, HandleRequest, HandleUpgrade, OnWebTransportSession, the two reader goroutines, timer callbacks armed on their behalf; static call graph + CHA + the repo's listener wiring) are within the frozen allow-list: the four 'concurrent write' guards of webtransport/conn.go (unreachable given C09.2) and the documented repeated-read guard of NextReader")
	reach, roots := clientReach(c, R)
	if len(roots) < len(clientEntryPoints) {
		return
	}
	allowed := map[string]int{
		"webtransport.(*messageWriter).flushFrame|concurrent write to webtransport connection":  2,
		"webtransport.(*Conn).WritePreparedMessage|concurrent write to webtransport connection": 2,
		"webtransport.(*Conn).NextReader|repeated read on failed webtransport connection":       1,
	}
	var us []*core.Unit
	for u := range reach {
		us = append(us, u)
	}
	sortUnits(us)
	seen := map[string]int{}
	n := 0
	for _, u := range us {
		c.Touch(u)
		for _, pc := range panicCalls(u) {
			n++
			msg, _ := core.ConstString(u.Info(), pc.Arg(0))
			k := u.Key + "|" + msg
			seen[k]++
			ok := seen[k] <= allowed[k]
			c.Check(R, keyf("%s/panic(%q)#%d", u.Key, msg, seen[k]), pc.Pos(), ok,
				keyf("panic on a client-reachable path: %v", c.P.CG().PathTo(u, roots...)))
		}
	}
	c.Check(R, "client-reachable/panic-sites", roots[0].Pos(), n >= 1 && len(reach) >= 60, keyf("%d panic site(s) in %d client-reachable functions", n, len(reach)))
}

// mustHeld: lock is held at loc of u on every path, locally or (up to depth) at every static call site of u.
func mustHeld(c *core.Ctx, u *core.Unit, loc core.Loc, lock string, depth int) bool {
	if u.Graph().HeldAt(loc)[lock] {
		return true
	}
	if depth == 0 || u.Obj == nil {
		return false
	}
	callers := callsAnywhere(c, u.Key)
	if len(callers) == 0 {
		return false
	}
	for _, cl := range callers {
		if !mustHeld(c, cl.U, cl.Loc, lock, depth-1) {
			return false
		}
	}
	return true
}

func c09ConnWritesLocked(c *core.Ctx) {
	const R = "C09.2"
	c.Rule(R, "HELD(transport mutex @ every connection write): every NextWriter / WritePreparedMessage / WriteMessage / message-writer Close / io.Copy into the writer on a *WebSocketConn or *WebTransportConn inside package transports runs with the transport's mu held (locally or at every call site of the enclosing function), which makes the 'concurrent write' panics unreachable; abortUpgrade's close frame on a connection not yet shared with a transport is the one named exception")
	n := 0
	for _, u := range c.P.Units {
		if u.Pkg != c.P.Pkgs["transports"] && u.Pkg != c.P.Pkgs["engine"] {
			continue
		}
		info := u.Info()
		for _, cl := range u.Calls() {
			isConn := false
			if cl.Recv != nil {
				tn := core.TypeName(info.TypeOf(cl.Recv))
				isConn = tn == "WebSocketConn" || tn == "WebTransportConn"
			}
			isWrite := isConn && (cl.Name == "NextWriter" || cl.Name == "WritePreparedMessage" || cl.Name == "WriteMessage")
			// the writer obtained from NextWriter
			if cl.Name == "Close" && cl.Recv != nil {
				if d, ok := u.Root().SingleDef(cl.Recv); ok {
					if te, isT := d.(*core.TupleElem); isT {
						if ce, isC := ast.Unparen(te.X).(*ast.CallExpr); isC && calleeNameOf(ce) == "NextWriter" {
							isWrite = true
						}
					}
				}
			}
			if cl.Key == "io.Copy" {
				if d, ok := u.SingleDef(cl.Arg(0)); ok {
					if te, isT := d.(*core.TupleElem); isT {
						if ce, isC := ast.Unparen(te.X).(*ast.CallExpr); isC && calleeNameOf(ce) == "NextWriter" {
							isWrite = true
						}
					}
				}
			}
			if !isWrite {
				continue
			}
			n++
			c.Touch(u)
			if u.Key == "engine.abortUpgrade" {
				c.Check(R, u.Key+"/close-frame(exception)", cl.Pos(), true, "named exception: the connection is not shared with a transport on this path")
				continue
			}
			lock := ""
			switch {
			case strings.Contains(u.Root().Key, "(*websocket)"):
				lock = "websocket.mu"
			case strings.Contains(u.Root().Key, "(*webTransport)"):
				lock = "webTransport.mu"
			}
			root := u.Root()
			loc := cl.Loc
			ok := false
			if lock != "" {
				if u == root {
					ok = mustHeld(c, u, loc, lock, 2)
				} else {
					// a deferred closure of the writing function: held if the function is called with the lock held
					ok = false
					for _, d := range root.Calls() {
						if d.Deferred && c.P.LitUnit(litOf(d.Expr.Fun)) == u {
							ok = mustHeld(c, root, d.Loc, lock, 2)
						}
					}
				}
			}
			c.Check(R, keyf("%s/%s-under-%s", u.Key, cl.Name, lock), cl.Pos(), ok, "connection write under the transport mutex")
		}
	}
	c.Need(R, "connection write sites", n, 9)
}

func c09DecodedPointers(c *core.Ctx) {
	const R = "C09.3b"
	c.Rule(R, "NILSAFE(decode targets): a variable of pointer type filled through json Decode(&p)/Unmarshal(…, &p) may stay nil (JSON null); every dereference of it must be dominated by a non-nil test — or the target is declared by value")
	reach, _ := clientReach(c, R)
	n := 0
	for u := range reach {
		info := u.Info()
		for _, cl := range u.Calls() {
			if cl.Key != "encoding/json.(*Decoder).Decode" && cl.Key != "encoding/json.Unmarshal" {
				continue
			}
			arg := cl.Arg(0)
			if cl.Key == "encoding/json.Unmarshal" {
				arg = cl.Arg(1)
			}
			ue, ok := ast.Unparen(arg).(*ast.UnaryExpr)
			if !ok || ue.Op != token.AND {
				continue
			}
			v, _ := core.ObjOf(info, ue.X).(*types.Var)
			if v == nil {
				continue
			}
			n++
			c.Touch(u)
			if _, isPtr := v.Type().Underlying().(*types.Pointer); !isPtr {
				c.Check(R, keyf("%s/decode-target(%s)", u.Key, v.Name()), cl.Pos(), true, "decoded by value: JSON null cannot leave a nil pointer")
				continue
			}
			g := u.Graph()
			bad := 0
			ast.Inspect(u.Body, func(nd ast.Node) bool {
				se, isS := nd.(*ast.SelectorExpr)
				if !isS || core.ObjOf(info, se.X) != types.Object(v) {
					return true
				}
				loc := g.LocOf(se)
				if !g.GuardedBy(loc, nilGuard(true, func(x *core.Unit, e ast.Expr) bool { return core.ObjOf(x.Info(), e) == types.Object(v) })) {
					bad++
					c.Violate(R, keyf("%s/%s.%s-without-nil-test", u.Key, v.Name(), se.Sel.Name), se.Pos(), "the decoded pointer is dereferenced although JSON null leaves it nil")
				}
				return true
			})
			if bad == 0 {
				c.Check(R, keyf("%s/decode-target(%s)", u.Key, v.Name()), cl.Pos(), true, "every dereference is nil-guarded")
			}
		}
	}
	c.Need(R, "JSON decode sites on client paths", n, 1)
}

func c09EventSignatures(c *core.Ctx) {
	const R = "C09.4"
	c.Rule(R, "event-signature agreement: for every unchecked type assertion or index args[i] inside a listener registered for (emitter class, event), every Emit of that event on that class in /repo supplies at least i+1 arguments and argument i is assignable to the asserted type; every map literal that can reach abortRequest/abortUpgrade's m.(string) stores a string under \"message\"")
	type ke struct{ class, ev string }
	emits := map[ke][]*Ev{}
	for _, u := range c.P.Units {
		for _, e := range events(c, u) {
			if e.Kind == "emit" && e.Event != "" {
				emits[ke{e.Class, e.Event}] = append(emits[ke{e.Class, e.Event}], e)
			}
		}
	}
	n := 0
	for _, u := range c.P.Units {
		for _, e := range events(c, u) {
			if (e.Kind != "on" && e.Kind != "once") || e.Event == "" {
				continue
			}
			l := closureArg(u, e.Call, 1)
			if l == nil || l.Type == nil || l.Type.Params == nil || len(l.Type.Params.List) != 1 || len(l.Type.Params.List[0].Names) != 1 {
				continue
			}
			pn := l.Type.Params.List[0].Names[0].Name
			if pn == "_" {
				continue
			}
			info := l.Info()
			g := l.Graph()
			parents := map[ast.Node]ast.Node{}
			var stack []ast.Node
			ast.Inspect(l.Body, func(nd ast.Node) bool {
				if nd == nil {
					stack = stack[:len(stack)-1]
					return true
				}
				if len(stack) > 0 {
					parents[nd] = stack[len(stack)-1]
				}
				stack = append(stack, nd)
				return true
			})
			ast.Inspect(l.Body, func(nd ast.Node) bool {
				ix, isIx := nd.(*ast.IndexExpr)
				if !isIx || !isLocal(info, ix.X, pn) {
					return true
				}
				i, isC := core.ConstInt(info, ix.Index)
				if !isC {
					return true
				}
				n++
				c.Touch(l)
				var want types.Type
				if ta, isTA := parents[ix].(*ast.TypeAssertExpr); isTA && ta.Type != nil {
					// comma-ok assertions are safe
					commaOK := false
					if as, isAs := parents[ta].(*ast.AssignStmt); isAs && len(as.Lhs) == 2 && len(as.Rhs) == 1 {
						commaOK = true
					}
					if !commaOK {
						want = info.TypeOf(ta.Type)
					}
				}
				// length guard waives the count requirement
				lenGuard := g.GuardedBy(g.LocOf(ix), func(x *core.Unit, br core.Branch) int {
					cmp, ok := x.BranchCmp(br)
					if !ok {
						return 0
					}
					ce, isCall := ast.Unparen(cmp.X).(*ast.CallExpr)
					if !isCall || calleeNameOf(ce) != "len" || len(ce.Args) != 1 || !isLocal(x.Info(), ce.Args[0], pn) {
						return 0
					}
					if K, ge, ok := cmpThreshold(cmp); ok && K >= i+1 {
						if ge == 0 {
							return 1
						}
						return -1
					}
					return 0
				})
				es := emits[ke{e.Class, e.Event}]
				ok := true
				var detail []string
				for _, em := range es {
					if em.Expr.Ellipsis.IsValid() {
						detail = append(detail, "spread@"+c.P.PosStr(em.Pos()))
						continue
					}
					have := int64(len(em.Expr.Args) - 1)
					if have < i+1 && !lenGuard {
						ok = false
						detail = append(detail, keyf("too few args at %s", c.P.PosStr(em.Pos())))
						continue
					}
					if want != nil && have >= i+1 {
						at := em.U.Info().TypeOf(em.Expr.Args[i+1])
						if at == nil || !(types.AssignableTo(at, want) || implementsOrIdentical(at, want)) {
							ok = false
							detail = append(detail, keyf("arg %d has type %v, listener asserts %v at %s", i, at, want, c.P.PosStr(em.Pos())))
						}
					}
				}
				wants := "any"
				if want != nil {
					wants = want.String()
				}
				c.Check(R, keyf("%s/%s[%d].(%s)⇐emit(%s)@%s", l.Key, pn, i, shortType(wants), e.Event, e.Class), ix.Pos(), ok,
					keyf("%d emit site(s) checked; length-guarded=%v %v", len(es), lenGuard, detail))
				return true
			})
		}
	}
	c.Need(R, "listener argument uses", n, 6)
	// errorContext["message"] values are strings
	m := 0
	for _, u := range c.P.Units {
		if u.Pkg != c.P.Pkgs["engine"] {
			continue
		}
		info := u.Info()
		ast.Inspect(u.Body, func(nd ast.Node) bool {
			if _, isLit := nd.(*ast.FuncLit); isLit {
				return false
			}
			cl, isC := nd.(*ast.CompositeLit)
			if !isC {
				return true
			}
			if _, isMap := info.TypeOf(cl).Underlying().(*types.Map); !isMap {
				return true
			}
			for _, el := range cl.Elts {
				kv, isKV := el.(*ast.KeyValueExpr)
				if !isKV {
					continue
				}
				if k, _ := core.ConstString(info, kv.Key); k == "message" {
					m++
					t := info.TypeOf(kv.Value)
					b, isB := t.Underlying().(*types.Basic)
					c.Check(R, keyf("%s/context[\"message\"]-is-string", u.Key), kv.Pos(), isB && b.Info()&types.IsString != 0, keyf("value type %v", t))
				}
			}
			return true
		})
	}
	c.Need(R, "map literals with a \"message\" key", m, 1)
}

func implementsOrIdentical(at, want types.Type) bool {
	if types.Identical(at, want) {
		return true
	}
	if iface, ok := want.Underlying().(*types.Interface); ok {
		return types.Implements(at, iface)
	}
	return false
}

func shortType(s string) string {
	if i := strings.LastIndex(s, "/"); i >= 0 {
		s = s[i+1:]
	}
	return s
}

// answerOrPark — C09.5 / C11.5: every path of the request-handling functions answers, parks or delegates.
func answerOrPark(c *core.Ctx, R string, pollingOnly bool) {
	c.Rule(R, "every accepted request is answered or parked: in polling.OnRequest, onPollRequest, onDataRequest (and HandleRequest's callback, CorsMiddleware) no path reaches a return without a response write (ctx.Write / io.WriteString(ctx) / io.Copy(ctx)), a park of the context in the pending-poll slot, a call of next, or a delegation to a function that does (abort*, OnRequest, Handshake, whose success path calls transport.OnRequest); HandleRequest blocks on ctx.Done(), so such a path would hang the handler until the peer gives up")
	type fn struct {
		key      string
		isAnswer func(u *core.Unit, cl *core.Call) bool
	}
	writes := func(u *core.Unit, cl *core.Call) bool {
		if cl.Key == "types.(*HttpContext).Write" {
			return true
		}
		if (cl.Key == "io.WriteString" || cl.Key == "io.Copy") && core.TypeName(u.Info().TypeOf(cl.Arg(0))) == "HttpContext" {
			return true
		}
		return false
	}
	fns := []fn{
		{"transports.(*polling).OnRequest", func(u *core.Unit, cl *core.Call) bool {
			return writes(u, cl) || cl.Key == "transports.(*polling).onPollRequest" || cl.Key == "transports.(*polling).onDataRequest"
		}},
		{"transports.(*polling).onPollRequest", func(u *core.Unit, cl *core.Call) bool {
			park := cl.Recv != nil && fieldOf(u.Info(), cl.Recv) == "polling.req" && (cl.Name == "CompareAndSwap" || cl.Name == "Store")
			return writes(u, cl) || park
		}},
		{"transports.(*polling).onDataRequest", writes},
	}
	if !pollingOnly {
		fns = append(fns,
			fn{srvHandle + "$callback", func(u *core.Unit, cl *core.Call) bool {
				return cl.Key == "engine.abortRequest" || cl.Key == "engine.(*server).emitAbortRequest" || cl.Name == "OnRequest" || cl.Name == "Handshake"
			}},
			fn{"types.CorsMiddleware", func(u *core.Unit, cl *core.Call) bool {
				return writes(u, cl) || (cl.Callee == nil && cl.Name == paramName(u, 2))
			}},
		)
	}
	for _, f := range fns {
		u := c.Fn(R, f.key)
		if u == nil {
			continue
		}
		g := u.Graph()
		var ans []core.Loc
		for _, cl := range u.Calls() {
			if f.isAnswer(u, cl) && !cl.Go {
				ans = append(ans, cl.Loc)
			}
		}
		n := 0
		for _, r := range returnsIn(u) {
			n++
			escapes := g.Reach(g.Entry(), func(s core.State) bool { return s.B == r.Loc.B && s.I == r.Loc.I },
				func(s core.State) bool {
					for _, a := range ans {
						if s.B == a.B && s.I == a.I {
							return true
						}
					}
					return false
				}, nil)
			c.Check(R, keyf("%s/return#%d-answered", f.key, n), r.Stmt.Pos(), !escapes, "no path to this return without a response, a park or a delegation")
		}
		c.Need(R, "returns of "+f.key, n, 1)
	}
	// Handshake's success path hands the request to the transport
	if hs := c.Fn(R, bsHandshake); hs != nil {
		g := hs.Graph()
		var onReq *core.Call
		for _, cl := range hs.Calls() {
			if cl.Name == "OnRequest" {
				onReq = cl
			}
		}
		ok := onReq != nil
		if ok {
			for _, r := range returnsIn(hs) {
				if len(r.Stmt.Results) == 2 && !core.IsNil(hs.Info(), r.Stmt.Results[1]) {
					ok = ok && g.Dominates(onReq.Loc, r.Loc)
				}
			}
		}
		c.Check(R, bsHandshake+"/success→transport.OnRequest(ctx)", hs.Pos(), ok, "an admitted handshake request is given to its transport (which answers or parks it)")
	}
}

func c09ReadersTerminate(c *core.Ctx) {
	const R = "C09.6"
	c.Rule(R, "reader goroutines terminate: in websocket.message / webTransport.message the NextReader error edge leaves the loop (return) after emitting close or error on the connection wrapper; NewHttpContext's watcher goroutine selects on both the request context and the done channel (timer goroutines: C19.2)")
	for _, k := range []string{"transports.(*websocket).message", "transports.(*webTransport).message"} {
		u := c.Fn(R, k)
		if u == nil {
			continue
		}
		g := u.Graph()
		var nr *core.Call
		for _, cl := range u.Calls() {
			if cl.Name == "NextReader" {
				nr = cl
			}
		}
		ok := nr != nil
		if ok {
			errG := nilGuard(true, func(x *core.Unit, e ast.Expr) bool { return tupleOf(x, e, nr.Expr, 2) })
			ret := false
			for _, r := range returnsIn(u) {
				if g.GuardedBy(r.Loc, errG) {
					ret = true
					// an emit precedes the return on every path from the error edge
					var emits []core.Loc
					for _, e := range filterEv(events(c, u), "emit", "conn", "") {
						emits = append(emits, e.Loc)
					}
					if !g.DominatesAny(emits, r.Loc) {
						ret = false
					}
				}
			}
			// the error edge cannot loop back to NextReader
			for _, f := range g.Facts() {
				if errG(u, f.Br) > 0 && f.Val {
					if g.Reach(core.State{B: f.Br.B.Succs[f.Edge], I: 0}, func(s core.State) bool { return s.B == nr.Loc.B && s.I == nr.Loc.I }, nil, nil) {
						ret = false
					}
				}
			}
			ok = ret
		}
		c.Check(R, k+"/read-error→emit+return", u.Pos(), ok, "a failed read ends the reader goroutine and is reported")
	}
	if nc := c.Fn(R, "types.NewHttpContext"); nc != nil {
		ok := false
		for _, k := range nc.Kids {
			var sel *ast.SelectStmt
			ast.Inspect(k.Body, func(n ast.Node) bool {
				if s, isS := n.(*ast.SelectStmt); isS {
					sel = s
				}
				return true
			})
			if sel == nil {
				continue
			}
			ctxDone, done := false, false
			for _, cc := range sel.Body.List {
				cl := cc.(*ast.CommClause)
				if es, isE := cl.Comm.(*ast.ExprStmt); isE {
					if ue, isU := es.X.(*ast.UnaryExpr); isU && ue.Op == token.ARROW {
						if ce, isC := ast.Unparen(ue.X).(*ast.CallExpr); isC && calleeNameOf(ce) == "Done" {
							// the request-context arm releases the handler: it must mark the context done (Flush),
							// because HandleRequest blocks on ctx.Done() and nothing else will ever answer a dead request
							for _, st := range cl.Body {
								ast.Inspect(st, func(x ast.Node) bool {
									if c2, isC2 := x.(*ast.CallExpr); isC2 && calleeNameOf(c2) == "Flush" {
										ctxDone = true
									}
									return true
								})
							}
						}
						if fieldOf(k.Info(), ue.X) == "HttpContext.done" {
							done = true
						}
					}
				}
			}
			ok = ctxDone && done
		}
		c.Check(R, "types.NewHttpContext/watcher-has-both-exits", nc.Pos(), ok, "the per-request watcher ends when the response was written, or when the request context ends — and then calls Flush so that the blocked handler is released")
	}
	_ = sort.Strings
}

// c09OnRequestImplementations — the delegation `Transport().OnRequest(ctx)` of HandleRequest answers or parks
// only for transports that implement it; the others must never receive a plain request.
func c09OnRequestImplementations(c *core.Ctx, R string) {
	c.Rule(R, "HandleRequest's delegation to the session transport's OnRequest is an answer only where OnRequest is implemented: every concrete transport either overrides OnRequest (polling, jsonp via polling: answers or parks, C09.5) or reports HandlesUpgrades() == true (websocket, webtransport: base OnRequest is a no-op); and Verify refuses (BAD_REQUEST) every non-upgrade request whose session transport HandlesUpgrades(), so the no-op is never the one to receive a request — otherwise the handler waits forever (a POST whose body is unread is not even released when the client goes away)")
	// (1) transport type table
	base := c.Fn(R, "transports.(*transport).OnRequest")
	if base != nil {
		c.Check(R, "transports.(*transport).OnRequest/base-is-noop", base.Pos(), len(base.Calls()) == 0, "the base implementation does nothing (so it must never be reached with a request)")
	}
	for _, t := range []struct {
		typ      string
		answers  bool
		upgrades bool
	}{{"polling", true, false}, {"websocket", false, true}, {"webTransport", false, true}} {
		own := c.P.Func("transports.(*" + t.typ + ").OnRequest")
		hu := c.P.Func("transports.(*" + t.typ + ").HandlesUpgrades")
		up := false
		if hu != nil {
			for _, r := range returnsIn(hu) {
				if v, isC := core.ConstBool(hu.Info(), r.Stmt.Results[0]); isC && v {
					up = true
				}
			}
		}
		ok := (own != nil) == t.answers && up == t.upgrades && ((own != nil) != up)
		pos := token.NoPos
		if own != nil {
			pos = own.Pos()
		} else if hu != nil {
			pos = hu.Pos()
		}
		c.Check(R, keyf("transports.(*%s)/answers-requests-xor-handles-upgrades", t.typ), pos, ok, keyf("overrides OnRequest=%v, HandlesUpgrades()=%v", own != nil, up))
	}
	// (2) Verify's refusal
	v := c.Fn(R, bsVerify)
	if v == nil {
		return
	}
	g := v.Graph()
	ok := false
	for _, rr := range rejectReturns(v) {
		if rr.code != "BAD_REQUEST" || rr.br == nil {
			continue
		}
		notUp, handles := false, false
		for _, f := range g.Facts() {
			if f.Br.B != rr.br.Br.B || f.Edge != rr.br.Edge {
				continue
			}
			if isLocal(v.Info(), f.Br.Cond, paramName(v, 1)) && !f.Val {
				notUp = true
			}
			if ce, isC := ast.Unparen(f.Br.Cond).(*ast.CallExpr); isC && calleeNameOf(ce) == "HandlesUpgrades" && f.Val {
				// on the looked-up session's transport
				ch := calleeChain(v, ce)
				if len(ch) >= 2 && strings.HasSuffix(ch[len(ch)-2], ".Transport") {
					handles = true
				}
			}
		}
		if notUp && handles && g.GuardedBy(rr.ret.Loc, okOfLoad()) {
			ok = true
		}
	}
	c.Check(R, bsVerify+"/plain-request-on-upgrade-only-session→BAD_REQUEST", v.Pos(), ok, "!upgrade ∧ session.Transport().HandlesUpgrades() is refused before HandleRequest can delegate it")
}

// c09UncheckedAssertions — C09.1b: implicit panics. A single-value type
// assertion x.(T) panics when the dynamic type differs; the dynamic type of a
// decoded packet's data, of a frame reader or of an option value follows the
// client's bytes or the application's configuration.
func c09UncheckedAssertions(c *core.Ctx) {
	const R = "C09.1b"
	c.Rule(R, "implicit panics: every single-value type assertion x.(T) (no comma-ok, not a type switch) in engine, transports, webtransport, types, utils is either an element of a listener's variadic parameter (args[i].(T): decided by the event-signature rule C09.4) or one of the frozen sites whose operand's dynamic type is fixed by the repository itself (polling.write: p.Proto().(Polling), set by MakePolling/MakeJsonp; abortRequest/abortUpgrade: m.(string), decided by C09.4); any other — e.g. on packet.Data, whose dynamic type (*StringBuffer / *BytesBuffer) is chosen by the frame kind the client sends — is a client-triggerable panic on a reader goroutine that nothing recovers")
	allowed := map[string]bool{
		"transports.(*polling).write|Polling": true,
		"engine.abortRequest|string":          true,
		"engine.abortUpgrade|string":          true,
	}
	n, listenerArgs := 0, 0
	for _, u := range c.P.Units {
		if u.Pkg == nil || u.Pkg.Types == nil {
			continue
		}
		switch u.Pkg.Types.Name() {
		case "engine", "transports", "webtransport", "types", "utils", "events":
		default:
			continue
		}
		info := u.Info()
		checked := map[*ast.TypeAssertExpr]bool{}
		var walk func(nd ast.Node)
		walk = func(nd ast.Node) {
			ast.Inspect(nd, func(x ast.Node) bool {
				switch s := x.(type) {
				case *ast.FuncLit:
					return false
				case *ast.AssignStmt:
					if len(s.Lhs) == 2 && len(s.Rhs) == 1 {
						if ta, ok := ast.Unparen(s.Rhs[0]).(*ast.TypeAssertExpr); ok {
							checked[ta] = true
						}
					}
				case *ast.ValueSpec:
					if len(s.Names) == 2 && len(s.Values) == 1 {
						if ta, ok := ast.Unparen(s.Values[0]).(*ast.TypeAssertExpr); ok {
							checked[ta] = true
						}
					}
				case *ast.TypeAssertExpr:
					if s.Type == nil || checked[s] {
						return true
					}
					n++
					// element of the unit's variadic ...any parameter
					if ix, ok := ast.Unparen(s.X).(*ast.IndexExpr); ok {
						if v, isP := u.IsParam(ix.X); isP {
							if sl, ok := v.Type().(*types.Slice); ok {
								if it, ok := sl.Elem().Underlying().(*types.Interface); ok && it.Empty() {
									listenerArgs++
									return true
								}
							}
						}
					}
					k := u.Key + "|" + core.TypeName(info.TypeOf(s.Type))
					c.Check(R, keyf("%s/%s.(%s)", u.Key, selPath(s.X), core.ExprString(s.Type)), s.Pos(), allowed[k], "unchecked type assertion on a value whose dynamic type is not fixed by the repository: use the comma-ok form or read it through its interface")
				}
				return true
			})
		}
		walk(u.Body)
	}
	c.Need(R, "unchecked type assertions examined", n, 8)
	c.Need(R, "of which listener arguments (C09.4)", listenerArgs, 5)
}

// c09NilContradiction — C09.3c: a value that the code itself tests against nil
// is dereferenced where the test has just established that it IS nil
// (Engler's contradiction rule: the test states the belief that nil is
// possible, the dereference on the nil edge contradicts it).
func c09NilContradiction(c *core.Ctx) {
	const R = "C09.3c"
	c.Rule(R, "nil-test contradiction: in engine, transports, types, utils, webtransport, no pointer / interface / func value that a condition compares with nil is dereferenced (field through a pointer, method on an interface, call of a func value, *p) on the edge — or in the short-circuit operand — where that comparison has established it is nil, unless it is re-assigned first; a negated or inverted nil guard (`x == nil` for `x != nil`, `||` for `&&`) is a nil-pointer panic on a handler or reader goroutine")
	pkgs := map[string]bool{"engine": true, "transports": true, "types": true, "utils": true, "webtransport": true, "events": true}
	nTests := 0
	for _, u := range c.P.Units {
		if u.Pkg == nil || u.Pkg.Types == nil || !pkgs[u.Pkg.Types.Name()] {
			continue
		}
		info := u.Info()
		// nilPath: e is `P == nil` / `P != nil` with P a stable path of pointer, interface or func type; returns the path and whether the atom being true means "P is nil"
		nilAtom := func(e ast.Expr) (string, bool, bool) {
			be, ok := ast.Unparen(e).(*ast.BinaryExpr)
			if !ok || (be.Op != token.EQL && be.Op != token.NEQ) {
				return "", false, false
			}
			x := be.X
			if core.IsNil(info, be.X) {
				x = be.Y
			} else if !core.IsNil(info, be.Y) {
				return "", false, false
			}
			p := selPath(x)
			if strings.ContainsAny(p, "?*") || strings.Contains(p, "(…)") {
				return "", false, false // zero-argument accessor calls (x.Opt()) are kept: accessor agreement makes them stable reads
			}
			switch t := info.TypeOf(x); t.Underlying().(type) {
			case *types.Pointer, *types.Interface, *types.Signature:
			default:
				return "", false, false
			}
			return p, be.Op == token.EQL, true
		}
		// derefs of path p inside node n (own body only)
		derefs := func(n ast.Node, p string) []ast.Node {
			var out []ast.Node
			ast.Inspect(n, func(x ast.Node) bool {
				switch s := x.(type) {
				case *ast.FuncLit:
					return false
				case *ast.SelectorExpr:
					if selPath(s.X) != p {
						return true
					}
					sel := info.Selections[s]
					if sel == nil {
						return true
					}
					switch info.TypeOf(s.X).Underlying().(type) {
					case *types.Pointer:
						if sel.Kind() == types.FieldVal {
							out = append(out, s)
						} else if sel.Kind() == types.MethodVal {
							// a method of a repository type called through a nil pointer dereferences it in its body (none of them is nil-safe)
							if fn, ok := sel.Obj().(*types.Func); ok && fn.Pkg() != nil && strings.Contains(fn.Pkg().Path(), "zishang520/engine.io/") {
								out = append(out, s)
							}
						}
					case *types.Interface:
						if sel.Kind() == types.MethodVal {
							out = append(out, s)
						}
					}
				case *ast.StarExpr:
					if selPath(s.X) == p {
						out = append(out, s)
					}
				case *ast.CallExpr:
					if selPath(s.Fun) == p {
						if _, isSig := info.TypeOf(s.Fun).Underlying().(*types.Signature); isSig {
							if _, isFn := core.ObjOf(info, s.Fun).(*types.Func); !isFn {
								out = append(out, s)
							}
						}
					}
				}
				return true
			})
			return out
		}
		assigned := func(n ast.Node, p string) bool {
			hit := false
			ast.Inspect(n, func(x ast.Node) bool {
				if as, ok := x.(*ast.AssignStmt); ok {
					for _, l := range as.Lhs {
						if lp := selPath(l); lp == p || strings.HasPrefix(p, lp+".") {
							hit = true
						}
					}
				}
				return true
			})
			return hit
		}
		// (a) short-circuit operands inside one condition
		var walkCond func(e ast.Expr, nils map[string]bool)
		walkCond = func(e ast.Expr, nils map[string]bool) {
			e = ast.Unparen(e)
			if be, ok := e.(*ast.BinaryExpr); ok && (be.Op == token.LAND || be.Op == token.LOR) {
				walkCond(be.X, nils)
				n2 := map[string]bool{}
				for k := range nils {
					n2[k] = true
				}
				for _, a := range core.SplitCond(be.X, be.Op == token.LAND) {
					if p, eqNil, ok := nilAtom(a.E); ok && eqNil == a.Val {
						n2[p] = true
					}
				}
				walkCond(be.Y, n2)
				return
			}
			if ue, ok := e.(*ast.UnaryExpr); ok && ue.Op == token.NOT {
				walkCond(ue.X, nils)
				return
			}
			for p := range nils {
				for _, d := range derefs(e, p) {
					c.Violate(R, keyf("%s/deref(%s)-in-short-circuit-operand", u.Key, p), d.Pos(), keyf("%s is dereferenced in the operand that is evaluated exactly when %s is nil", p, p))
				}
			}
		}
		g := u.Graph()
		for _, br := range g.Branches() {
			if !br.IsCase {
				walkCond(br.Cond, map[string]bool{})
			}
		}
		// (b) nodes dominated by the edge that establishes "P is nil"
		for _, f := range g.Facts() {
			if f.Br.IsCase {
				continue
			}
			p, eqNil, ok := nilAtom(f.Br.Cond)
			if !ok {
				continue
			}
			nTests++
			if eqNil != f.Val {
				continue // this edge establishes non-nil
			}
			killed := false
			for _, nd := range g.DominatedNodes(f.Br.B, f.Edge) {
				if killed {
					break
				}
				for _, d := range derefs(nd, p) {
					if !assigned(nd, p) {
						c.Violate(R, keyf("%s/deref(%s)-on-nil-edge", u.Key, p), d.Pos(), keyf("%s is dereferenced on the edge where the test has established that it is nil", p))
					}
				}
				if assigned(nd, p) {
					killed = true
				}
			}
		}
	}
	// (c) the value of a failed comma-ok type assertion / map lookup of interface or pointer type is nil: no method call or dereference on the !ok edge
	for _, u := range c.P.Units {
		if u.Pkg == nil || u.Pkg.Types == nil || !pkgs[u.Pkg.Types.Name()] {
			continue
		}
		info := u.Info()
		g := u.Graph()
		for _, f := range g.Facts() {
			if f.Br.IsCase || f.Val {
				continue // only edges on which ok is false
			}
			okId, isI := ast.Unparen(f.Br.Cond).(*ast.Ident)
			if !isI {
				continue
			}
			d, ok := u.SingleDef(okId)
			te, isT := d.(*core.TupleElem)
			if !ok || !isT || te.Index != 1 {
				continue
			}
			if _, isTA := ast.Unparen(te.X).(*ast.TypeAssertExpr); !isTA {
				continue
			}
			// the value variable defined by the same statement
			var valObj types.Object
			ast.Inspect(u.Body, func(x ast.Node) bool {
				if as, isA := x.(*ast.AssignStmt); isA && len(as.Lhs) == 2 && len(as.Rhs) == 1 && as.Rhs[0] == te.X {
					if id, isId := as.Lhs[0].(*ast.Ident); isId && id.Name != "_" {
						valObj = core.ObjOf(info, id)
					}
				}
				return true
			})
			if valObj == nil {
				continue
			}
			switch valObj.Type().Underlying().(type) {
			case *types.Pointer, *types.Interface:
			default:
				continue
			}
			nTests++
			for _, nd := range g.DominatedNodes(f.Br.B, f.Edge) {
				ast.Inspect(nd, func(x ast.Node) bool {
					if _, isLit := x.(*ast.FuncLit); isLit {
						return false
					}
					if se, isS := x.(*ast.SelectorExpr); isS {
						if id, isId := ast.Unparen(se.X).(*ast.Ident); isId && info.Uses[id] == valObj {
							c.Violate(R, keyf("%s/use(%s)-on-the-failed-assertion-edge", u.Key, id.Name), se.Pos(), keyf("%s is the nil result of a failed comma-ok assertion on this edge", id.Name))
						}
					}
					return true
				})
			}
		}
	}
	c.Need(R, "nil tests examined", nTests, 60)
	c.Check(R, "repo/no-deref-on-nil-edge", token.NoPos, true, keyf("%d nil-test edges examined", nTests))
}

// c09CloseOnce — C09.9: closing a closed channel panics; the request context's
// done channel is closed by whichever comes first, the response write or the
// watcher that sees the client go away.
func c09CloseOnce(c *core.Ctx) {
	const R = "C09.9"
	c.Rule(R, "close-once: every close(ch) of a channel held in a struct field (engine, transports, types, utils, webtransport) is dominated by the success edge of a CompareAndSwap on an atomic flag of the same object, or runs inside sync.Once.Do, or is the frozen site Timer.Unref's unreachable-object cleanup (runs at most once per object), or is the take-under-mutex idiom (field tested non-nil, closed and set to nil within one critical section of a mutex of the same object); HttpContext.done is closed only by Flush — the response write and the request-context watcher both go through it, so a client that drops its connection during a write cannot make the second close panic on the send goroutine")
	pkgs := map[string]bool{"engine": true, "transports": true, "types": true, "utils": true, "webtransport": true, "events": true}
	n := 0
	for _, u := range c.P.Units {
		if u.Pkg == nil || u.Pkg.Types == nil || !pkgs[u.Pkg.Types.Name()] {
			continue
		}
		info := u.Info()
		g := u.Graph()
		for _, cl := range u.Calls() {
			if cl.Callee != nil || cl.Name != "close" || len(cl.Expr.Args) != 1 {
				continue
			}
			if id, ok := ast.Unparen(cl.Expr.Fun).(*ast.Ident); !ok {
				continue
			} else if _, isB := info.Uses[id].(*types.Builtin); !isB {
				continue
			}
			f := fieldOf(info, cl.Expr.Args[0])
			if f == "" {
				continue
			}
			n++
			casWon := func(x *core.Unit, br core.Branch) int {
				if br.IsCase {
					return 0
				}
				if ce, key := x.AsCall(br.Cond); ce != nil && strings.HasSuffix(key, ".CompareAndSwap") {
					return 1
				}
				return 0
			}
			ok := g.GuardedBy(cl.Loc, casWon)
			if !ok && u.Owner() != nil {
				for _, d := range u.Owner().CallsTo("sync.(*Once).Do") {
					if closureArg(u.Owner(), d, 0) == u {
						ok = true
					}
				}
				for _, d := range u.Owner().CallsTo("runtime.AddCleanup") {
					if closureArg(u.Owner(), d, 1) == u && u.Owner().Key == "utils.(*Timer).Unref" {
						ok = true
					}
				}
			}
			// … or the take-under-mutex idiom: with a mutex of the same object held, the field is tested non-nil, closed
			// and set to nil before the mutex is released — a second closer finds nil
			if !ok {
				nonNil := nilGuard(true, func(x *core.Unit, e ast.Expr) bool { return fieldOf(x.Info(), e) == f })
				held := g.HeldAt(cl.Loc)
				locked := false
				for k := range held {
					if strings.HasPrefix(k, strings.SplitN(f, ".", 2)[0]+".") {
						locked = true
					}
				}
				cleared := false
				for _, a := range fieldAssigns(u, f) {
					if a.Rhs != nil && core.IsNil(info, a.Rhs) && g.Dominates(cl.Loc, a.Loc) {
						same := false
						for k := range g.HeldAt(a.Loc) {
							if held[k] {
								same = true
							}
						}
						cleared = same
					}
				}
				ok = locked && g.GuardedBy(cl.Loc, nonNil) && cleared
			}
			if f == "HttpContext.done" {
				ok = ok && u.Key == "types.(*HttpContext).Flush"
			}
			c.Check(R, keyf("%s/close(%s)", u.Key, f), cl.Pos(), ok, "the channel is closed at most once (guarded by a won CompareAndSwap / sync.Once / the per-object cleanup)")
		}
	}
	c.Need(R, "close(field channel) sites", n, 2)
}

// c09AcceptTimerCoversHandshake — C09.6b: the only thing that releases an
// OnWebTransportSession handler blocked on a silent peer is the accept timer.
func c09AcceptTimerCoversHandshake(c *core.Ctx) {
	const R = "C09.6b"
	c.Rule(R, "the WebTransport accept timer covers the whole first frame: in OnWebTransportSession no blocking read of the handshake (AcceptStream, NextReader, ReadFrom(message)) can execute after ClearTimeout(timeout) — a peer that sends a frame header and then stays silent would otherwise pin the handler goroutine, the session and the stream for ever")
	u := c.Fn(R, srvOnWT)
	if u == nil {
		return
	}
	g := u.Graph()
	var clears []*core.Call
	for _, cl := range u.CallsTo(clearTOKey) {
		clears = append(clears, cl)
	}
	if !c.Exists(R, srvOnWT+"/ClearTimeout(accept timer)", u.Pos(), len(clears) >= 1, "the accept timer is cancelled once the first frame has been read") {
		return
	}
	n := 0
	for _, cl := range u.Calls() {
		if cl.Name != "AcceptStream" && cl.Name != "NextReader" && cl.Name != "ReadFrom" {
			continue
		}
		n++
		late := false
		for _, k := range clears {
			if g.CanFollow(k.Loc, cl.Loc) {
				late = true
			}
		}
		c.Check(R, keyf("%s/%s-under-the-accept-timer", srvOnWT, cl.Name), cl.Pos(), !late, "this blocking read cannot run after the accept timer was cancelled")
	}
	c.Need(R, "blocking reads of the WebTransport handshake", n, 4)
}

// C09.16 — a variable shared by callbacks is not re-assigned by one of them.
// Listener, timer and goroutine closures of one function run on different
// goroutines (transport reader, poll handler, timer). A captured pointer /
// interface variable that one of them assigns (typically `x = nil` "to drop the
// reference") while another calls methods on it is a data race whose benign
// looking outcome is a nil dereference: the reader's nil test, when there is
// one, and its use are two separate loads.
func c09SharedCaptureNotReassigned(c *core.Ctx, R string) {
	c.Rule(R, "captured variables shared between callbacks: inside the closures of a function (listeners, timer callbacks, goroutines — they run on different goroutines) no assignment targets a pointer / interface variable of the enclosing function that another closure of the same function dereferences (method call, field access) — `transport = nil` in one callback against `s.setTransport(transport)` / `transport.ReadyState()` in another is a nil dereference under the right interleaving")
	n := 0
	for _, root := range c.P.Units {
		if root.Parent != nil || len(root.Kids) == 0 {
			continue
		}
		info := root.Info()
		lits := root.AllUnits()[1:]
		type use struct {
			u   *core.Unit
			pos token.Pos
		}
		writes, reads := map[types.Object][]use{}, map[types.Object][]use{}
		isShared := func(o types.Object) bool {
			v, ok := o.(*types.Var)
			if !ok || v.IsField() || v.Pkg() == nil || v.Parent() == v.Pkg().Scope() {
				return false
			}
			if o.Pos() < root.Pos() || o.Pos() > root.Body.End() {
				return false
			}
			switch v.Type().Underlying().(type) {
			case *types.Pointer, *types.Interface:
				return true
			}
			return false
		}
		for _, k := range lits {
			declaredIn := func(o types.Object) bool { return o.Pos() >= k.Body.Pos() && o.Pos() <= k.Body.End() }
			ast.Inspect(k.Body, func(nd ast.Node) bool {
				switch x := nd.(type) {
				case *ast.FuncLit:
					return false
				case *ast.AssignStmt:
					if x.Tok != token.ASSIGN {
						return true
					}
					for _, l := range x.Lhs {
						if id, ok := l.(*ast.Ident); ok {
							if o := info.Uses[id]; o != nil && isShared(o) && !declaredIn(o) {
								writes[o] = append(writes[o], use{k, id.Pos()})
							}
						}
					}
				case *ast.SelectorExpr:
					if id, ok := ast.Unparen(x.X).(*ast.Ident); ok {
						if o := info.Uses[id]; o != nil && isShared(o) && !declaredIn(o) {
							reads[o] = append(reads[o], use{k, id.Pos()})
						}
					}
				case *ast.CallExpr:
					for _, a := range x.Args {
						if id, ok := ast.Unparen(a).(*ast.Ident); ok {
							if o := info.Uses[id]; o != nil && isShared(o) && !declaredIn(o) {
								reads[o] = append(reads[o], use{k, id.Pos()})
							}
						}
					}
				}
				return true
			})
		}
		for o, ws := range writes {
			for _, w := range ws {
				other := ""
				for _, r := range reads[o] {
					if r.u != w.u {
						other = r.u.Key
					}
				}
				n++
				c.Check(R, keyf("%s/assigns-shared(%s)", w.u.Key, core.CanonName(o)), w.pos, other == "",
					keyf("%s is assigned here and dereferenced in %s, which runs on another goroutine", o.Name(), other))
			}
		}
		for o := range reads {
			if len(writes[o]) == 0 {
				n++
			}
		}
	}
	c.Need(R, "pointer / interface variables shared by callbacks", n, 10)
}
