package rules

import (
	"go/ast"
	"go/types"
	"strings"

	"engcheck/core"
)

const (
	bsHandshake = "engine.(*baseServer).Handshake"
	bsVerify    = "engine.(*baseServer).Verify"
	srvHandle   = "engine.(*server).HandleRequest"
	srvOnWS     = "engine.(*server).onWebSocket"
	srvOnWT     = "engine.(*server).OnWebTransportSession"
	newSocket   = "engine.NewSocket"
)

func init() {
	register("C04", func(c *core.Ctx, tier string) {
		mapSentinelNotZeroSize(c, "C04.9")
		discardCompletesBufferedClose(c, "C04.10")
		serverEffects(c, "C04.8")
		c04Writers(c)
		c04Pairing(c)
		c04Lookups(c)
		c04Window(c)
		c12Shutdown(c)                                                                         // C04.6: server shutdown closes every registered session …
		c03AdmittedStates(c, "C04.6b", map[string]bool{"Close/closeTransport(discard)": true}) // … including one that is already closing gracefully
		c20Ids(c, "C04.5")
		c04IdUse(c)
		c20MapRecheck(c, "C04.7") // the client table is a types.Map: an unregister whose LoadAndDelete decides on a stale snapshot leaves a closed session registered
	})
}

// isClientsExpr: e denotes the server's client table (the field or the Clients() accessor).
func isClientsExpr(u *core.Unit, e ast.Expr) bool {
	if e == nil {
		return false
	}
	if fieldOf(u.Info(), e) == "baseServer.clients" {
		return true
	}
	if ce, ok := ast.Unparen(e).(*ast.CallExpr); ok {
		k := u.CalleeKey(ce)
		return k == "engine.(*baseServer).Clients" || k == "engine.(BaseServer).Clients" || k == "engine.(Server).Clients"
	}
	return false
}

var mapWriters = map[string]bool{"Store": true, "Delete": true, "LoadAndDelete": true, "LoadOrStore": true, "Swap": true, "Clear": true, "CompareAndSwap": true, "CompareAndDelete": true}

func c04Writers(c *core.Ctx) {
	const R = "C04.1"
	c.Rule(R, "the client table and the client counter are written only inside baseServer.Handshake (and its closures): one Store + one Add(1) on admission, one guarded LoadAndDelete/Delete + one Add(^0) on close")
	nT, nC := 0, 0
	for _, u := range c.P.Units {
		info := u.Info()
		for _, cl := range u.Calls() {
			if cl.Recv == nil {
				continue
			}
			if isClientsExpr(u, cl.Recv) && mapWriters[cl.Name] {
				nT++
				c.Touch(u)
				c.Check(R, keyf("%s/clients.%s", u.Key, cl.Name), cl.Pos(), inHandshake(u), "client table written only by Handshake")
			}
			if fieldOf(info, cl.Recv) == "baseServer.clientsCount" && cl.Name != "Load" {
				nC++
				c.Touch(u)
				c.Check(R, keyf("%s/clientsCount.%s", u.Key, cl.Name), cl.Pos(), inHandshake(u), "client counter written only by Handshake")
			}
		}
	}
	c.Need(R, "writes of the client table", nT, 2)
	c.Need(R, "writes of the client counter", nC, 2)
}

func c04Pairing(c *core.Ctx) {
	const R = "C04.2"
	c.Rule(R, "Store(id, socket) and Add(1) happen once each, on the success path only (after NewSocket, with the socket NewSocket returned); the removal decrements only when its LoadAndDelete actually removed the entry (at most one decrement per session) and is registered with socket.Once(\"close\") on the same socket value")
	u := c.Fn(R, bsHandshake)
	if u == nil {
		return
	}
	info := u.Info()
	g := u.Graph()
	ns := u.CallsTo(newSocket)
	if !c.Check(R, bsHandshake+"/NewSocket-once", u.Pos(), len(ns) == 1, keyf("%d NewSocket calls", len(ns))) {
		return
	}
	sockIs := func(x *core.Unit, e ast.Expr) bool {
		d, ok := x.SingleDef(e)
		return ok && ast.Unparen(d) == ns[0].Expr
	}
	var stores, incs []*core.Call
	for _, cl := range u.Calls() {
		if cl.Recv != nil && isClientsExpr(u, cl.Recv) && cl.Name == "Store" {
			stores = append(stores, cl)
		}
		if cl.Recv != nil && fieldOf(info, cl.Recv) == "baseServer.clientsCount" && cl.Name == "Add" {
			incs = append(incs, cl)
		}
	}
	okStore := len(stores) == 1 && g.Dominates(ns[0].Loc, stores[0].Loc) && sockIs(u, stores[0].Arg(1))
	c.Check(R, bsHandshake+"/clients.Store(id,socket)", u.Pos(), okStore, keyf("%d Store in the body; after NewSocket with its result", len(stores)))
	okInc := len(incs) == 1
	if okInc {
		v, isC := core.ConstInt(info, incs[0].Arg(0))
		okInc = isC && v == 1 && g.Dominates(ns[0].Loc, incs[0].Loc) && len(stores) == 1
		// pairing on every exit: a return is preceded by the Store iff it is preceded by the increment
		if okInc {
			for _, r := range returnsIn(u) {
				if g.Dominates(stores[0].Loc, r.Loc) != g.Dominates(incs[0].Loc, r.Loc) {
					okInc = false
				}
			}
		}
	}
	c.Check(R, bsHandshake+"/clientsCount.Add(1)", u.Pos(), okInc, "exactly one increment, after NewSocket, on every path that stored the session")
	// removal closure(s): every decrement is guarded by the loaded result of LoadAndDelete on the table
	nDec := 0
	for _, x := range u.AllUnits() {
		if x == u {
			continue
		}
		xi := x.Info()
		xg := x.Graph()
		for _, cl := range x.Calls() {
			if cl.Recv == nil || fieldOf(xi, cl.Recv) != "baseServer.clientsCount" || cl.Name != "Add" {
				continue
			}
			nDec++
			guarded := xg.GuardedBy(cl.Loc, func(y *core.Unit, br core.Branch) int {
				if br.IsCase {
					return 0
				}
				d, ok := y.SingleDef(br.Cond)
				if !ok {
					return 0
				}
				te, isT := d.(*core.TupleElem)
				if !isT || te.Index != 1 {
					return 0
				}
				ce, isC := ast.Unparen(te.X).(*ast.CallExpr)
				if !isC || y.CalleeKey(ce) != "types.(*Map).LoadAndDelete" {
					return 0
				}
				if se, isS := ce.Fun.(*ast.SelectorExpr); isS && isClientsExpr(y, se.X) {
					return 1
				}
				return 0
			})
			c.Check(R, keyf("%s/decrement-iff-removed", x.Key), cl.Pos(), guarded, "the counter is decremented only when LoadAndDelete removed the entry, so it cannot underflow or drift")
		}
	}
	c.Need(R, "decrement sites", nDec, 1)
	// registered with Once("close") on the stored socket
	okReg := false
	for _, e := range filterEv(events(c, u), "", "session", "close") {
		if e.Kind == "once" && sockIs(u, e.Recv) {
			okReg = true
		}
		if e.Kind == "on" {
			c.Violate(R, bsHandshake+"/On(close)", e.Pos(), "the registry listener must be Once: a second close event would decrement twice")
		}
	}
	c.Check(R, bsHandshake+"/Once(close)@same-socket", u.Pos(), okReg, "the removal is registered with Once on the socket that was stored")
}

// okOfLoad: guard whose true edge means "the table lookup found the session".
func okOfLoad() core.Guard {
	return func(u *core.Unit, br core.Branch) int {
		if br.IsCase {
			return 0
		}
		d, ok := u.SingleDef(br.Cond)
		if !ok {
			return 0
		}
		te, isT := d.(*core.TupleElem)
		if !isT || te.Index != 1 {
			return 0
		}
		ce, isC := ast.Unparen(te.X).(*ast.CallExpr)
		if !isC || u.CalleeKey(ce) != "types.(*Map).Load" {
			return 0
		}
		if se, isS := ce.Fun.(*ast.SelectorExpr); isS && isClientsExpr(u, se.X) {
			return 1
		}
		return 0
	}
}

func notFound() core.Guard {
	f := okOfLoad()
	return func(u *core.Unit, br core.Branch) int { return -f(u, br) }
}

func isCodeVar(info *types.Info, e ast.Expr, name string) bool {
	v, ok := core.ObjOf(info, e).(*types.Var)
	return ok && v.Name() == name && v.Pkg() != nil && v.Parent() == v.Pkg().Scope()
}

func c04Lookups(c *core.Ctx) {
	const R = "C04.3"
	c.Rule(R, "a request naming an unknown session id is answered 'Session ID unknown': Verify returns UNKNOWN_SID on the not-found edge of clients.Load; HandleRequest's second lookup reaches an abort with UNKNOWN_SID on its not-found edge and the session's OnRequest only on the found edge; onWebSocket/OnWebTransportSession reach MaybeUpgrade only on the found edge")
	if v := c.Fn(R, bsVerify); v != nil {
		g := v.Graph()
		ok := false
		for _, r := range returnsIn(v) {
			if len(r.Stmt.Results) >= 1 && isCodeVar(v.Info(), r.Stmt.Results[0], "UNKNOWN_SID") && g.GuardedBy(r.Loc, notFound()) {
				ok = true
			}
		}
		c.Check(R, bsVerify+"/not-found→UNKNOWN_SID", v.Pos(), ok, "the !ok edge of clients.Load returns UNKNOWN_SID")
		// every use of the looked-up socket is on the found edge
		for _, cl := range v.Calls() {
			if cl.Name == "Transport" && cl.Recv != nil {
				if d, k := v.SingleDef(cl.Recv); k {
					if te, isT := d.(*core.TupleElem); isT && te.Index == 0 {
						c.Check(R, bsVerify+"/use-of-session-on-found-edge", cl.Pos(), g.GuardedBy(cl.Loc, okOfLoad()), "the looked-up session is used only when found")
					}
				}
			}
		}
	}
	if h := c.Fn(R, srvHandle); h != nil {
		cb := c.KidOf(R, h, "callback")
		if cb != nil {
			g := cb.Graph()
			okAbort, okUse := false, false
			for _, cl := range cb.Calls() {
				if (cl.Key == "engine.abortRequest" || cl.Key == "engine.(*server).emitAbortRequest") && isCodeVar(cb.Info(), cl.Arg(1), "UNKNOWN_SID") && g.GuardedBy(cl.Loc, notFound()) {
					okAbort = true
				}
				if cl.Name == "OnRequest" {
					okUse = g.GuardedBy(cl.Loc, okOfLoad())
				}
			}
			c.Check(R, srvHandle+"$callback/not-found→UNKNOWN_SID", cb.Pos(), okAbort, "the not-found edge aborts the request with UNKNOWN_SID")
			c.Check(R, srvHandle+"$callback/OnRequest-on-found-edge", cb.Pos(), okUse, "an existing session receives the request only when found")
		}
	}
	for _, k := range []string{srvOnWS, srvOnWT} {
		u := c.Fn(R, k)
		if u == nil {
			continue
		}
		g := u.Graph()
		n := 0
		for _, cl := range u.Calls() {
			if cl.Name == "MaybeUpgrade" {
				n++
				c.Check(R, k+"/MaybeUpgrade-on-found-edge", cl.Pos(), g.GuardedBy(cl.Loc, okOfLoad()), "an upgrade is entertained only for a registered session")
			}
		}
		c.Need(R, "MaybeUpgrade call in "+k, n, 1)
	}
}

func c04Window(c *core.Ctx) {
	const R = "C04.4"
	c.Rule(R, "registration window: the session can emit close as soon as NewSocket has attached its transport, so either the registry-removing listener is attached before NewSocket, or after attaching it Handshake re-checks ReadyState()==closed and performs the same removal (a session that dies during its handshake does not stay registered)")
	u := c.Fn(R, bsHandshake)
	if u == nil {
		return
	}
	g := u.Graph()
	ns := u.CallsTo(newSocket)
	var reg *Ev
	for _, e := range filterEv(events(c, u), "once", "session", "close") {
		reg = e
	}
	if len(ns) != 1 || reg == nil {
		c.Violate(R, bsHandshake+"/register-after-open", u.Pos(), "no Once(\"close\") registration / NewSocket found")
		return
	}
	before := g.Dominates(reg.Loc, ns[0].Loc)
	recheck := false
	// a branch on socket.ReadyState()=="closed" after the registration whose true edge calls the same removal as the listener
	lis := closureArg(u, reg.Call, 1)
	removal := func(x *core.Unit) map[*core.Unit]bool {
		out := map[*core.Unit]bool{}
		if x == nil {
			return out
		}
		for _, cl := range x.Calls() {
			if t := unitOfCall(x, cl); t != nil {
				out[t] = true
			}
		}
		return out
	}
	lisCalls := removal(lis)
	closedG := func(y *core.Unit, br core.Branch) int {
		return -stateExcludes(sockStateKeys, "socket.readyState", "closed")(y, br)
	}
	for _, cl := range u.Calls() {
		t := unitOfCall(u, cl)
		if t == nil || !lisCalls[t] {
			continue
		}
		if g.GuardedBy(cl.Loc, closedG) && g.Dominates(reg.Loc, cl.Loc) {
			recheck = true
		}
	}
	c.Check(R, bsHandshake+"/register-after-open", reg.Pos(), before || recheck,
		keyf("listener attached before NewSocket: %v; closed-state re-check after attaching, running the same removal: %v", before, recheck))
}

func c04IdUse(c *core.Ctx) {
	const R = "C04.5b"
	c.Rule(R, "baseServer.GenerateId delegates to Base64Id().GenerateId and Handshake creates no session when id generation fails (NewSocket is on the err == nil edge of GenerateId)")
	if gi := c.Fn(R, "engine.(*baseServer).GenerateId"); gi != nil {
		c.Check(R, "engine.(*baseServer).GenerateId/delegates", gi.Pos(), len(gi.CallsTo("utils.(*base64Id).GenerateId")) == 1, "uses the process-wide base64 id generator")
	}
	u := c.Fn(R, bsHandshake)
	if u == nil {
		return
	}
	g := u.Graph()
	var gen *core.Call
	for _, cl := range u.Calls() {
		if cl.Name == "GenerateId" {
			gen = cl
		}
	}
	ns := u.CallsTo(newSocket)
	ok := gen != nil && len(ns) == 1
	if ok {
		ok = g.GuardedBy(ns[0].Loc, nilGuard(false, func(x *core.Unit, e ast.Expr) bool { return tupleOf(x, e, gen.Expr, 1) })) &&
			tupleOf(u, ns[0].Arg(0), gen.Expr, 0)
	}
	c.Check(R, bsHandshake+"/id-error-aborts", u.Pos(), ok, "NewSocket receives the generated id and runs only when generation succeeded")
}

// inHandshake: the unit is Handshake, one of its closures, or a closure of it
// that became a method / function and was recovered under its closure key.
func inHandshake(u *core.Unit) bool {
	k := u.Root().Key
	return k == bsHandshake || strings.HasPrefix(k, bsHandshake+"$")
}
