package rules

import (
	"go/ast"
	"go/token"
	"go/types"
	"strings"

	"engcheck/core"
)

var sliceMutators = map[string]bool{"Push": true, "Unshift": true, "Pop": true, "Shift": true, "Set": true, "Splice": true, "Remove": true,
	"RemoveAll": true, "RangeAndSplice": true, "DoWrite": true, "Replace": true, "Clear": true, "AllAndClear": true}

var sendOverrides = []string{"transports.(*polling).Send", "transports.(*websocket).Send", "transports.(*webTransport).Send"}
var sendWorkers = []string{"transports.(*polling).send", "transports.(*websocket).send", "transports.(*webTransport).send"}

func init() {
	register("C01", func(c *core.Ctx, tier string) {
		c08UpgradeBranchWiring(c, "C01.26") // what was buffered while the upgrade was under way goes to the new transport before a pending graceful close closes it
		pollInstalledOnlyWhileClientIsThere(c, "C01.25")
		checkUnderFlushMu(c, "C01.21")
		jsonpNoBinary(c, "C01.22")
		wtCandidateRevision(c, "C01.23")
		v3BinaryPayloadCodec(c, "C01.24", false)
		frameTransportEffects(c, "C01.20")
		pollingEffects(c, "C01.19")
		accessorAgreement(c, "C01.17")
		constructorChain(c, "C01.18")
		c01BufferWriters(c)
		c01TakeAndSend(c)
		c01WritableGate(c)
		c01OneBatch(c)
		c01EncodeUnderLock(c)
		c01LoopExits(c, "C01.6")
		c01Handoff(c)
		c01AtomicTake(c)
		c20Snapshot(c, "C01.8b")
		sliceFifoShapes(c, "C01.8c") // the write buffer is a FIFO: Push appends at the tail
		c01Kind(c, "C01.9")
		c01SharedFrameReadOnly(c)
		c01SendWiring(c, "C01.13")
		codecCallTable(c, "C01.15")
		c13Prepared(c) // C01.16 = C13.6: a pre-encoded frame sent over WebTransport is rendered once, as one frame, from the transport's own copy
		lockBalance(c, "C01.14", "engine", "transports")
		c16Encoded(c)                                                                                // C01.10: the polling batch is encoded as handed over (C16.1)
		c03AdmittedStates(c, "C01.12", map[string]bool{"sendPacket/Push": true, "flush/Send": true}) // every accepted Send is buffered and every buffer is drained while not closed
		c16Headers(c)                                                                                // C01.11: the polling body is labelled with its own kind and length (C16.2): a mislabelled body is undecodable
	})
}

// WHO(socket.<field> mutators) helper: allowed maps method -> set of root functions.
func whoMutates(c *core.Ctx, R, field string, allowed map[string][]string) int {
	n := 0
	for _, u := range c.P.Units {
		for _, cl := range fieldCalls(u, field) {
			if !sliceMutators[cl.Name] {
				continue
			}
			n++
			c.Touch(u)
			ok := false
			for _, root := range allowed[cl.Name] {
				if u.Root().Key == root {
					ok = true
				}
			}
			c.Check(R, keyf("%s/%s.%s", u.Key, strings.SplitN(field, ".", 2)[1], cl.Name), cl.Pos(), ok,
				keyf("%s.%s is allowed only in %v", field, cl.Name, allowed[cl.Name]))
		}
	}
	return n
}

func c01BufferWriters(c *core.Ctx) {
	const R = "C01.1"
	c.Rule(R, "one FIFO, one drainer: socket.writeBuffer is mutated only by Push in sendPacket, AllAndClear in flush and Clear in OnClose; no other mutating Slice method on that field anywhere")
	n := whoMutates(c, R, "socket.writeBuffer", map[string][]string{
		"Push": {sockSendPkt}, "AllAndClear": {sockFlush}, "Clear": {sockOnClose},
	})
	c.Need(R, "mutations of socket.writeBuffer", n, 3)
}

func c01TakeAndSend(c *core.Ctx) { takeAndSend(c, "C01.2") }

// takeAndSend (C01.2 = C08.9 = C18.9): the batch is taken, announced and handed to the session's CURRENT transport
// (re-read at the hand-off: an upgrade may have switched it since flush tested writability) as one value.
func takeAndSend(c *core.Ctx, R string) {
	c.Rule(R, "in flush, writeBuffer.AllAndClear() and Transport().Send(…) both run with flushMu held (one drainer at a time) and the slice handed to Send is exactly the value that AllAndClear returned (no filtering, re-slicing or reordering in between)")
	u := c.Fn(R, sockFlush)
	if u == nil {
		return
	}
	g := u.Graph()
	var take, send *core.Call
	for _, cl := range u.Calls() {
		if cl.Name == "AllAndClear" && cl.Recv != nil && fieldOf(u.Info(), cl.Recv) == "socket.writeBuffer" {
			take = cl
		}
		if cl.Key == "transports.(Transport).Send" {
			send = cl
		}
	}
	if !c.Exists(R, sockFlush+"/take+send-present", u.Pos(), take != nil && send != nil, "AllAndClear and Send found in flush") {
		return
	}
	c.Check(R, sockFlush+"/AllAndClear-under-flushMu", take.Pos(), g.HeldAt(take.Loc)["socket.flushMu"], keyf("held=%v", keys(g.HeldAt(take.Loc))))
	c.Check(R, sockFlush+"/Send-under-flushMu", send.Pos(), g.HeldAt(send.Loc)["socket.flushMu"], keyf("held=%v", keys(g.HeldAt(send.Loc))))
	d, ok := u.SingleDef(send.Arg(0))
	c.Check(R, sockFlush+"/Send(arg)=AllAndClear()", send.Pos(), ok && ast.Unparen(d) == take.Expr && g.Dominates(take.Loc, send.Loc),
		"the batch given to the transport is the value taken from the buffer")
	// Send is on the session's current transport
	cur := false
	if se, isS := send.Expr.Fun.(*ast.SelectorExpr); isS {
		if ce, isC := ast.Unparen(se.X).(*ast.CallExpr); isC && u.CalleeKey(ce) == "engine.(*socket).Transport" {
			cur = true
		}
	}
	c.Check(R, sockFlush+"/Send-on-current-transport", send.Pos(), cur, "flush sends on s.Transport()")
	// the readiness tests and the Send that clears writable are one critical section
	n := 0
	for _, cl := range u.Calls() {
		if cl.Key == "transports.(Transport).Writable" || cl.Key == "engine.(*socket).ReadyState" {
			n++
			held := g.HeldAt(cl.Loc)
			c.Check(R, keyf("%s/%s-tested-under-flushMu", sockFlush, cl.Name), cl.Pos(), held["socket.flushMu"], "two flush callers must not both see the transport writable: the test is evaluated with flushMu held")
		}
	}
	c.Need(R, "readiness tests in flush", n, 2)
}

func writableTrue() core.Guard {
	return boolCallGuard(true, "transports.(Transport).Writable", "transports.(*transport).Writable")
}

func c01WritableGate(c *core.Ctx) {
	const R = "C01.3"
	c.Rule(R, "a batch is handed over only to a writable transport: Send in flush and in MaybeUpgrade's check closure is dominated by the true edge of Writable()")
	n := 0
	for _, key := range []string{sockFlush, sockUpgrade + "$check"} {
		u := c.Fn(R, key)
		if u == nil {
			continue
		}
		g := u.Graph()
		for _, cl := range u.CallsTo("transports.(Transport).Send") {
			n++
			c.Check(R, key+"/Send-only-when-writable", cl.Pos(), g.GuardedBy(cl.Loc, writableTrue()), "dominated by Writable() == true")
		}
	}
	c.Need(R, "gated Send sites", n, 2)
}

func c01OneBatch(c *core.Ctx) {
	const R = "C01.4"
	c.Rule(R, "one batch in flight per transport: every Send override clears writable before spawning its send goroutine with the same packets; websocket/webTransport set writable again only in send's deferred epilogue, after Emit(\"drain\"); polling only in onPollRequest after req.Store(ctx); no other SetWritable(true) outside the constructors")
	for _, key := range sendOverrides {
		u := c.Fn(R, key)
		if u == nil {
			continue
		}
		g := u.Graph()
		var clr, spawn *core.Call
		for _, cl := range u.Calls() {
			if cl.Name == "SetWritable" {
				if v, ok := core.ConstBool(u.Info(), cl.Arg(0)); ok && !v {
					clr = cl
				}
			}
			if cl.Go && strings.HasSuffix(cl.Key, ").send") {
				spawn = cl
			}
		}
		ok := clr != nil && spawn != nil && g.Dominates(clr.Loc, spawn.Loc) && isLocal(u.Info(), spawn.Arg(0), paramName(u, 0))
		c.Check(R, key+"/SetWritable(false)≺go send(packets)", u.Pos(), ok, "writable is cleared before the asynchronous writer starts, and it receives the batch unchanged")
	}
	allowed := map[string]bool{
		"transports.(*websocket).Construct": true, "transports.(*webTransport).Construct": true,
		"transports.(*websocket).send$defer": true, "transports.(*webTransport).send$defer": true,
		"transports.(*polling).onPollRequest": true,
	}
	n := 0
	for _, u := range c.P.Units {
		for _, cl := range u.Calls() {
			if cl.Name != "SetWritable" || cl.Callee == nil {
				continue
			}
			v, isC := core.ConstBool(u.Info(), cl.Arg(0))
			if isC && !v {
				continue
			}
			if u.Key == "transports.(*transport).SetWritable" {
				continue
			}
			n++
			c.Touch(u)
			c.Check(R, keyf("%s/SetWritable(%s)", u.Key, core.ExprString(cl.Arg(0))), cl.Pos(), isC && allowed[u.Key], "writable may be set only by the transport constructor, the send epilogue or a new poll request")
		}
	}
	c.Need(R, "SetWritable(true) sites", n, 5)
	for _, key := range []string{"transports.(*websocket).send", "transports.(*webTransport).send"} {
		u := c.Fn(R, key)
		if u == nil {
			continue
		}
		d := c.KidOf(R, u, "defer")
		if d == nil {
			continue
		}
		g := d.Graph()
		var drain, ready *Ev
		var setw *core.Call
		for _, e := range events(c, d) {
			if e.Kind == "emit" && e.Event == "drain" {
				drain = e
			}
			if e.Kind == "emit" && e.Event == "ready" {
				ready = e
			}
		}
		for _, cl := range d.Calls() {
			if cl.Name == "SetWritable" {
				setw = cl
			}
		}
		ok := drain != nil && ready != nil && setw != nil && g.Dominates(drain.Loc, setw.Loc) && g.Dominates(setw.Loc, ready.Loc)
		c.Check(R, key+"$defer/drain≺SetWritable(true)≺ready", d.Pos(), ok, "completion order of the epilogue")
		// the epilogue is registered first, so (LIFO) it runs after the mutex is released
		first := false
		if len(u.Body.List) > 0 {
			if ds, isD := u.Body.List[0].(*ast.DeferStmt); isD {
				if c.P.LitUnit(litOf(ds.Call.Fun)) == d {
					first = true
				} else if f, _ := core.ObjOf(u.Info(), ds.Call.Fun).(*types.Func); f != nil && c.P.UnitOf(f) == d {
					first = true // the epilogue literal turned into a named method: `defer w.sendDone()`
				}
			}
		}
		c.Check(R, key+"/epilogue-registered-first", u.Pos(), first, "the epilogue defer is the first statement (runs last, after the write lock is released)")
	}
	if pr := c.Fn(R, "transports.(*polling).onPollRequest"); pr != nil {
		g := pr.Graph()
		var store, setw *core.Call
		for _, cl := range pr.Calls() {
			if cl.Name == "Store" && cl.Recv != nil && fieldOf(pr.Info(), cl.Recv) == "polling.req" {
				store = cl
			}
			if cl.Name == "CompareAndSwap" && cl.Recv != nil && fieldOf(pr.Info(), cl.Recv) == "polling.req" {
				store = cl
			}
			if cl.Name == "SetWritable" {
				if v, ok := core.ConstBool(pr.Info(), cl.Arg(0)); ok && v {
					setw = cl
				}
			}
		}
		c.Check(R, "transports.(*polling).onPollRequest/req.Store≺SetWritable(true)", pr.Pos(), store != nil && setw != nil && g.Dominates(store.Loc, setw.Loc), "the transport becomes writable only once the pending poll is recorded")
	}
}

func c01EncodeUnderLock(c *core.Ctx) {
	const R = "C01.5"
	c.Rule(R, "the encode loop and every connection write of polling.send, websocket.send and webTransport.send run under the transport's own mutex (batches of one transport are serialised)")
	locks := map[string]string{sendWorkers[0]: "polling.mu", sendWorkers[1]: "websocket.mu", sendWorkers[2]: "webTransport.mu"}
	for _, key := range sendWorkers {
		u := c.Fn(R, key)
		if u == nil {
			continue
		}
		g := u.Graph()
		n := 0
		for _, cl := range u.Calls() {
			isWork := strings.HasSuffix(cl.Key, ".EncodePayload") || strings.HasSuffix(cl.Key, ".EncodePacket") || strings.HasSuffix(cl.Key, ").write") ||
				cl.Name == "WritePreparedMessage"
			if !isWork {
				continue
			}
			n++
			held := g.HeldAt(cl.Loc)
			c.Check(R, keyf("%s/%s-under-%s", key, cl.Name, locks[key]), cl.Pos(), held[locks[key]], keyf("held=%v", keys(held)))
		}
		c.Need(R, "encode/write calls in "+key, n, 2)
	}
}

// rangeOverParam finds the range statement over the unit's i-th parameter.
func rangeOverParam(u *core.Unit, i int) *ast.RangeStmt {
	var out *ast.RangeStmt
	pn := paramName(u, i)
	ast.Inspect(u.Body, func(n ast.Node) bool {
		if _, isLit := n.(*ast.FuncLit); isLit {
			return false
		}
		if rs, ok := n.(*ast.RangeStmt); ok && isLocal(u.Info(), rs.X, pn) && out == nil {
			out = rs
		}
		return true
	})
	return out
}

func c01LoopExits(c *core.Ctx, R string) {
	c.Rule(R, "EXIT(per-packet loop): in websocket.send and webTransport.send the loop ranges over the batch itself and every return/break inside its body is on an error path (dominated by err != nil of an encode or write call) — the only error-free exit is exhaustion, so no packet of the batch is skipped")
	for _, key := range []string{sendWorkers[1], sendWorkers[2]} {
		u := c.Fn(R, key)
		if u == nil {
			continue
		}
		rs := rangeOverParam(u, 0)
		if !c.Exists(R, key+"/range-over-packets", u.Pos(), rs != nil, "the loop ranges over the packets parameter") {
			continue
		}
		g := u.Graph()
		n := 0
		ast.Inspect(rs.Body, func(nd ast.Node) bool {
			switch x := nd.(type) {
			case *ast.FuncLit:
				return false
			case *ast.ReturnStmt:
				n++
				loc := g.LocOf(x)
				c.Check(R, keyf("%s/loop-exit#%d(return)", key, n), x.Pos(), g.GuardedBy(loc, errNonNil(anyErr)), "a return inside the per-packet loop must be an error exit")
			case *ast.BranchStmt:
				if x.Tok == token.BREAK || x.Tok == token.GOTO {
					n++
					loc := g.LocOf(x)
					c.Check(R, keyf("%s/loop-exit#%d(%s)", key, n, x.Tok), x.Pos(), g.GuardedBy(loc, errNonNil(anyErr)), "a break inside the per-packet loop must be an error exit")
				}
			}
			return true
		})
		c.Need(R, "exits inside the loop of "+key, n, 3)
		// each iteration writes: a call to write or WritePreparedMessage is reachable in the body
		wr := 0
		for _, cl := range u.Calls() {
			if (strings.HasSuffix(cl.Key, ").write") || cl.Name == "WritePreparedMessage") && rs.Body.Pos() <= cl.Pos() && cl.Pos() <= rs.Body.End() {
				wr++
			}
		}
		c.Check(R, key+"/each-iteration-writes", rs.Pos(), wr >= 2, keyf("%d write sites in the loop body (normal and pre-encoded)", wr))
	}
}

func c01Handoff(c *core.Ctx) {
	const R = "C01.7"
	c.Rule(R, "upgrade hand-off: in MaybeUpgrade's packet listener, on the UPGRADE branch, clearTransport ≺ setTransport(candidate) ≺ flush; setTransport is called only from Construct and from that listener")
	op := c.Fn(R, sockUpgrade+"$onPacket")
	if op != nil {
		g := op.Graph()
		all, b, f := op.CallsTo(sockClearTr), op.CallsTo(sockSetTr), op.CallsTo(sockFlush)
		// a clearTransport on the closed edge after the switch (the session closed meanwhile: the new transport is torn
		// down and the listener returns, fix 22efbbe) is not part of the hand-off
		var a []*core.Call
		late := true
		for _, cl := range all {
			if len(b) == 1 && g.Dominates(b[0].Loc, cl.Loc) {
				late = late && g.GuardedBy(cl.Loc, stateIs(sockStateKeys, "closed")) && len(f) == 1 && !g.CanFollow(cl.Loc, f[0].Loc)
				continue
			}
			a = append(a, cl)
		}
		ok := late && len(a) == 1 && len(b) == 1 && len(f) == 1 && g.Dominates(a[0].Loc, b[0].Loc) && g.Dominates(b[0].Loc, f[0].Loc)
		c.Check(R, sockUpgrade+"$onPacket/clearTransport≺setTransport≺flush", op.Pos(), ok, "buffered packets are flushed to the new transport only after it is installed")
	}
	n := 0
	for _, cl := range callsAnywhere(c, sockSetTr) {
		n++
		ok := cl.U.Key == "engine.(*socket).Construct" || cl.U.Key == sockUpgrade+"$onPacket"
		c.Check(R, keyf("%s/calls-setTransport", cl.U.Key), cl.Pos(), ok, "setTransport callers ⊆ {Construct, MaybeUpgrade$onPacket}")
	}
	c.Need(R, "callers of setTransport", n, 2)
}

func c01AtomicTake(c *core.Ctx) {
	const R = "C01.8"
	c.Rule(R, "Slice.AllAndClear copies and clears inside one write-lock section (the deferred clear is registered after the deferred Unlock, so it runs before it)")
	u := c.Fn(R, "types.(*Slice).AllAndClear")
	if u == nil {
		return
	}
	g := u.Graph()
	var all, clr, unl *core.Call
	for _, cl := range u.Calls() {
		switch {
		case cl.Key == "types.(*Slice).all":
			all = cl
		case cl.Key == "types.(*Slice).clear":
			clr = cl
		case cl.Name == "Unlock" && cl.Deferred:
			unl = cl
		}
	}
	ok := all != nil && clr != nil && g.HeldAt(all.Loc)["Slice.mu"] && g.HeldAt(clr.Loc)["Slice.mu"]
	if ok && clr.Deferred {
		ok = unl != nil && g.Dominates(unl.Loc, clr.Loc)
	}
	if ok && !clr.Deferred {
		ok = g.Dominates(all.Loc, clr.Loc)
	}
	c.Check(R, "types.(*Slice).AllAndClear/one-critical-section", u.Pos(), ok, "copy and clear under the same Lock")
}

// kindSelection checks the `mt := Binary; if _, ok := X.(*types.StringBuffer); ok { mt = Text }` idiom
// for the variable passed as message type to call cl.
func kindSelection(c *core.Ctx, R string, u *core.Unit, cl *core.Call, pkgOfConsts string, what string) {
	info := u.Info()
	v, _ := core.ObjOf(info, cl.Arg(0)).(*types.Var)
	if v == nil {
		c.Violate(R, keyf("%s/%s-kind", u.Key, what), cl.Pos(), "message type is not a local selected from the buffer's dynamic type")
		return
	}
	g := u.Graph()
	as := assignsIn(u, func(l ast.Expr) bool { return core.ObjOf(info, l) == types.Object(v) })
	var deflt, text *Assign
	for i := range as {
		k, ok := core.ConstInt(info, as[i].Rhs)
		if !ok {
			continue
		}
		switch k {
		case 2:
			deflt = &as[i]
		case 1:
			text = &as[i]
		}
	}
	isString := func(x *core.Unit, br core.Branch) int {
		if br.IsCase {
			return 0
		}
		d, k := x.SingleDef(br.Cond)
		if !k {
			return 0
		}
		te, isT := d.(*core.TupleElem)
		if !isT || te.Index != 1 {
			return 0
		}
		ta, isTA := ast.Unparen(te.X).(*ast.TypeAssertExpr)
		if !isTA || ta.Type == nil {
			return 0
		}
		if t := x.Info().TypeOf(ta.Type); t != nil && strings.HasSuffix(t.String(), "types.StringBuffer") {
			return 1
		}
		return 0
	}
	// the selection may have been extracted into a private helper that returns the two constants
	if len(as) == 1 && helperSelectsConst(c, u, as[0].Rhs, isString, 1, 2) {
		c.Check(R, keyf("%s/%s-kind", u.Key, what), cl.Pos(), true, "Text iff the encoded buffer is a *types.StringBuffer, Binary otherwise (selected by a helper)")
		return
	}
	ok := deflt != nil && text != nil && len(as) == 2 && g.Dominates(deflt.Loc, cl.Loc)
	if ok && g.CanFollow(cl.Loc, cl.Loc) {
		// the selection sits in a loop: the Binary default must be re-established in every iteration, otherwise a Text
		// choice made for one packet carries over to the next packets of the batch
		stale := g.Reach(g.After(cl.Loc), func(s core.State) bool { return s.B == cl.Loc.B && s.I == cl.Loc.I },
			func(s core.State) bool { return s.B == deflt.Loc.B && s.I == deflt.Loc.I }, nil)
		if stale {
			ok = false
		}
	}
	if ok {
		// text assignment guarded by ok of a type assertion to *StringBuffer
		ok = g.GuardedBy(text.Loc, func(x *core.Unit, br core.Branch) int {
			if br.IsCase {
				return 0
			}
			d, k := x.SingleDef(br.Cond)
			if !k {
				return 0
			}
			te, isT := d.(*core.TupleElem)
			if !isT || te.Index != 1 {
				return 0
			}
			ta, isTA := ast.Unparen(te.X).(*ast.TypeAssertExpr)
			if !isTA || ta.Type == nil {
				return 0
			}
			if t := x.Info().TypeOf(ta.Type); t != nil && strings.HasSuffix(t.String(), "types.StringBuffer") {
				return 1
			}
			return 0
		})
	}
	c.Check(R, keyf("%s/%s-kind", u.Key, what), cl.Pos(), ok, "Text iff the encoded buffer is a *types.StringBuffer, Binary otherwise")
}

func c01Kind(c *core.Ctx, R string) {
	c.Rule(R, "kind preservation (sibling agreement): in websocket.write / webTransport.write and in the pre-encoded branch of both send loops the frame type is Text iff the buffer's dynamic type is *types.StringBuffer, Binary otherwise (TextMessage=1, BinaryMessage=2 in both libraries)")
	n := 0
	for _, key := range []string{"transports.(*websocket).write", "transports.(*webTransport).write"} {
		u := c.Fn(R, key)
		if u == nil {
			continue
		}
		for _, cl := range u.Calls() {
			if cl.Name == "NextWriter" {
				n++
				kindSelection(c, R, u, cl, "", "NextWriter")
			}
		}
	}
	for _, key := range []string{sendWorkers[1], sendWorkers[2]} {
		u := c.Fn(R, key)
		if u == nil {
			continue
		}
		for _, cl := range u.Calls() {
			if cl.Name == "NewPreparedMessage" {
				n++
				kindSelection(c, R, u, cl, "", "NewPreparedMessage")
			}
		}
	}
	c.Need(R, "message-kind selections", n, 4)
	tw, _ := pkgConstInt(c, "webtransport", "TextMessage")
	bw, _ := pkgConstInt(c, "webtransport", "BinaryMessage")
	c.Check(R, "webtransport/TextMessage=1,BinaryMessage=2", token.NoPos, tw == 1 && bw == 2, "constants match gorilla/websocket's")
}

// c01SharedFrameReadOnly — C01.9b: a pre-encoded frame is shared between sessions and must only be read.
func c01SharedFrameReadOnly(c *core.Ctx) {
	const R = "C01.9b"
	c.Rule(R, "the pre-encoded frame of a packet (Options.WsPreEncodedFrame) is one buffer shared by every recipient of a broadcast: the library only tests it against nil, inspects its dynamic type and takes Bytes() (a non-consuming view handed to NewPreparedMessage), directly or through a local alias; it is never passed to a function, copied from as a reader, or written — draining it (io.Copy / Read / WriteTo) leaves an empty frame for the next recipient")
	n := 0
	for _, u := range c.P.Units {
		if u.Body == nil {
			continue
		}
		info := u.Info()
		parent := map[ast.Node]ast.Node{}
		var stack []ast.Node
		var work []ast.Expr
		ast.Inspect(u.Body, func(x ast.Node) bool {
			if x == nil {
				stack = stack[:len(stack)-1]
				return true
			}
			if fl, isLit := x.(*ast.FuncLit); isLit && fl.Body != u.Body {
				return false
			}
			if len(stack) > 0 {
				parent[x] = stack[len(stack)-1]
			}
			stack = append(stack, x)
			if se, isSel := x.(*ast.SelectorExpr); isSel && fieldOf(info, se) == "Options.WsPreEncodedFrame" {
				work = append(work, se)
			}
			return true
		})
		seen := map[types.Object]bool{}
		for len(work) > 0 {
			e := work[0]
			work = work[1:]
			n++
			c.Touch(u)
			pn := parent[e]
			if pe, isP := pn.(*ast.ParenExpr); isP {
				pn = parent[pe]
			}
			ok, how := false, "other use"
			switch pn := pn.(type) {
			case *ast.BinaryExpr:
				if (pn.Op == token.EQL || pn.Op == token.NEQ) && (core.IsNil(info, pn.X) || core.IsNil(info, pn.Y)) {
					ok, how = true, "nil test"
				}
			case *ast.TypeAssertExpr:
				ok, how = true, "dynamic type inspection"
			case *ast.TypeSwitchStmt:
				ok, how = true, "dynamic type inspection"
			case *ast.SelectorExpr:
				if ce, isC := parent[pn].(*ast.CallExpr); isC && ce.Fun == ast.Expr(pn) {
					switch pn.Sel.Name {
					case "Bytes", "Len", "String", "Clone":
						ok, how = true, pn.Sel.Name+"() (non-consuming)"
					default:
						how = pn.Sel.Name + "() may consume or modify the shared buffer"
					}
				}
			case *ast.KeyValueExpr:
				ok, how = true, "composite literal key"
			case *ast.AssignStmt:
				for i, l := range pn.Lhs {
					if l == e {
						ok, how = true, "assignment to the field"
					}
					if i < len(pn.Rhs) && pn.Rhs[i] == e && len(pn.Lhs) == len(pn.Rhs) {
						if id, isId := l.(*ast.Ident); isId {
							if obj := core.ObjOf(info, id); obj != nil && obj.Parent() != nil && obj.Pkg() != nil && obj.Parent() != obj.Pkg().Scope() {
								ok, how = true, "local alias "+id.Name
								if !seen[obj] {
									seen[obj] = true
									for x := range parent {
										if uid, isU := x.(*ast.Ident); isU && info.Uses[uid] == obj {
											work = append(work, uid)
										}
									}
								}
							}
						}
					}
				}
			}
			c.Check(R, keyf("%s/WsPreEncodedFrame:%s", u.Key, how), e.Pos(), ok, "the shared frame is only inspected, never consumed")
		}
	}
	c.Need(R, "uses of Options.WsPreEncodedFrame", n, 2)
}
