package rules

import (
	"go/ast"
	"strings"

	"engcheck/core"
)

func init() {
	register("C12", func(c *core.Ctx, tier string) {
		abortedPostNotAnError(c, "C12.11")
		bufferedCloseRechecksWritable(c, "C12.12")
		upgradeAttemptConcludedOnce(c, "C12.13")
		discardCompletesBufferedClose(c, "C12.14")
		closeSerialisedWithFlush(c, "C12.15")
		baseTransportEffects(c, "C12.9")
		pollingEffects(c, "C12.8")
		constructorChain(c, "C12.7")
		c12CloseWaitsForBuffer(c)
		c12Shutdown(c)
		casPolarity(c, "C12.1b")
		c08UpgradeBranchWiring(c, "C12.1c") // a closing session is closed on the new transport after an upgrade; clearTransport closes the old one
		c11ReleaseAtClose(c, "C12.3")
		noBaseBypass(c, "C12.3b") // every close of a polling transport runs polling.OnClose (which releases the pending poll)
		c12TeardownOrdering(c)
		c12CallbackBeforeTeardown(c)
		// bounded completion: a closing session still drains its buffer and still times out
		pingBody(c, "C12.10")
		c03AdmittedStates(c, "C12.6", map[string]bool{"flush/Send": true, "resetPingTimeout$callback/OnClose(ping timeout)": true, "Close/closeTransport(discard)": true})
	})
}

func c12CloseWaitsForBuffer(c *core.Ctx) {
	const R = "C12.1"
	c.Rule(R, "graceful close waits for buffered data: in (*socket).Close, after the open→closing transition, a non-empty writeBuffer registers Once(\"drain\", → closeTransport(discard)) and returns; an empty one calls closeTransport directly; closeTransport calls Transport().Close(cb) with cb → OnClose(\"forced close\") and Discard() only on the discard edge")
	u := c.Fn(R, sockClose)
	if u == nil {
		return
	}
	info := u.Info()
	g := u.Graph()
	var cas *core.Call
	for _, cl := range fieldCalls(u, "socket.readyState") {
		if cl.Name == "CompareAndSwap" {
			cas = cl
		}
	}
	nonEmpty := func(x *core.Unit, br core.Branch) int {
		cmp, ok := x.BranchCmp(br)
		if !ok {
			return 0
		}
		d, k := x.SingleDef(cmp.X)
		if !k {
			return 0
		}
		ce, isC := ast.Unparen(d).(*ast.CallExpr)
		if !isC || calleeNameOf(ce) != "Len" {
			return 0
		}
		se, isS := ce.Fun.(*ast.SelectorExpr)
		if !isS || fieldOf(x.Info(), se.X) != "socket.writeBuffer" {
			return 0
		}
		if ge, ok := lenPositive(cmp); ok {
			if ge == 0 {
				return 1
			}
			return -1
		}
		return 0
	}
	var wait *Ev
	for _, e := range filterEv(events(c, u), "once", "session", "drain") {
		wait = e
	}
	okWait := wait != nil && cas != nil && g.Dominates(cas.Loc, wait.Loc) && g.GuardedBy(wait.Loc, nonEmpty)
	if okWait {
		k := closureArg(u, wait.Call, 1)
		okWait = k != nil && len(k.CallsTo("engine.(*socket).closeTransport")) == 1
		// returns right after registering: no closeTransport reachable on that edge
		for _, cl := range u.CallsTo("engine.(*socket).closeTransport") {
			if g.CanFollow(wait.Loc, cl.Loc) {
				okWait = false
			}
		}
	}
	c.Check(R, sockClose+"/non-empty→Once(drain)→closeTransport", u.Pos(), okWait, "buffered packets are flushed before the transport is closed")
	okDirect := false
	for _, cl := range u.CallsTo("engine.(*socket).closeTransport") {
		if cas != nil && g.Dominates(cas.Loc, cl.Loc) && g.GuardedBy(cl.Loc, func(x *core.Unit, br core.Branch) int { return -nonEmpty(x, br) }) {
			okDirect = true
		}
	}
	c.Check(R, sockClose+"/empty→closeTransport", u.Pos(), okDirect, "with an empty buffer the transport is closed right away")
	_ = info
	ct := c.Fn(R, "engine.(*socket).closeTransport")
	if ct != nil {
		cg := ct.Graph()
		pn := paramName(ct, 0)
		okCb, okDisc := false, false
		for _, cl := range ct.Calls() {
			if cl.Key == "transports.(Transport).Close" && len(cl.Expr.Args) == 1 {
				if k := closureArg(ct, cl, 0); k != nil {
					for _, oc := range k.CallsTo(sockOnClose) {
						r, _ := core.ConstString(k.Info(), oc.Arg(0))
						okCb = r == "forced close"
					}
				}
			}
			if cl.Name == "Discard" {
				okDisc = cg.GuardedBy(cl.Loc, func(x *core.Unit, br core.Branch) int {
					if !br.IsCase && isLocal(x.Info(), br.Cond, pn) {
						return 1
					}
					return 0
				})
			}
		}
		c.Check(R, "engine.(*socket).closeTransport/Close(cb→forced close)+Discard-iff-discard", ct.Pos(), okCb && okDisc, keyf("callback closes with 'forced close': %v; Discard only when asked: %v", okCb, okDisc))
	}
}

func c12Shutdown(c *core.Ctx) {
	const R = "C12.2"
	c.Rule(R, "server shutdown closes every session: baseServer.Close ranges over the whole client table calling client.Close(true) and always returning true (no early stop), then Cleanup; Attach registers server.Once(\"close\", → s.Close()); HttpServer.Close emits close before shutting the listeners down")
	u := c.Fn(R, "engine.(*baseServer).Close")
	if u != nil {
		ok := false
		for _, cl := range u.Calls() {
			if cl.Name != "Range" || cl.Recv == nil || !isClientsExpr(u, cl.Recv) {
				continue
			}
			k := closureArg(u, cl, 0)
			if k == nil {
				continue
			}
			c.Touch(k)
			closes := false
			for _, x := range k.Calls() {
				if x.Name == "Close" && len(x.Expr.Args) == 1 {
					if v, isC := core.ConstBool(k.Info(), x.Arg(0)); isC && v {
						closes = true
					}
				}
			}
			allTrue := true
			rets := returnsIn(k)
			for _, r := range rets {
				v, isC := core.ConstBool(k.Info(), r.Stmt.Results[0])
				if !isC || !v {
					allTrue = false
				}
			}
			ok = closes && allTrue && len(rets) >= 1
		}
		cleanup := false
		for _, cl := range u.Calls() {
			if cl.Name == "Cleanup" {
				cleanup = true
			}
		}
		c.Check(R, "engine.(*baseServer).Close/range-all→Close(true)", u.Pos(), ok && cleanup, "every registered session is closed with discard, then Cleanup")
	}
	if at := c.Fn(R, "engine.(*server).Attach"); at != nil {
		ok := false
		for _, e := range filterEv(events(c, at), "once", "httpserver", "close") {
			if k := closureArg(at, e.Call, 1); k != nil {
				for _, cl := range k.Calls() {
					if cl.Name == "Close" && strings.Contains(cl.Key, "Server") {
						ok = true
					}
				}
			}
		}
		c.Check(R, "engine.(*server).Attach/Once(close)→s.Close()", at.Pos(), ok, "closing the HTTP server closes the engine")
	}
	if hc := c.Fn(R, "types.(*HttpServer).Close"); hc != nil {
		g := hc.Graph()
		evs := filterEv(events(c, hc), "emit", "httpserver", "close")
		ok := len(evs) == 1
		if ok {
			for _, cl := range hc.Calls() {
				if cl.Name == "Range" && !g.Dominates(evs[0].Loc, cl.Loc) {
					ok = false
				}
			}
		}
		c.Check(R, "types.(*HttpServer).Close/emit(close)≺shutdown", hc.Pos(), ok, "sessions are told to close before the listeners go away")
	}
}

func c12TeardownOrdering(c *core.Ctx) {
	const R = "C12.4"
	c.Rule(R, "connection teardown must not overtake the last batch: websocket/webTransport DoClose closes the connection while a send goroutine spawned by Send may still be writing (flush emits drain right after Send merely spawned it, which releases Close's Once(\"drain\")); structurally DoClose must at least acquire the transport's write mutex — the one send holds — before closing the connection")
	for _, sp := range []struct{ fn, lock, closer string }{
		{"transports.(*websocket).DoClose", "websocket.mu", "Close"},
		{"transports.(*webTransport).DoClose", "webTransport.mu", "CloseWithError"},
	} {
		u := c.Fn(R, sp.fn)
		if u == nil {
			continue
		}
		n := 0
		for _, cl := range u.Calls() {
			if cl.Name != sp.closer || cl.Recv == nil {
				continue
			}
			tn := core.TypeName(u.Info().TypeOf(cl.Recv))
			if tn != "WebSocketConn" && tn != "WebTransportConn" {
				continue
			}
			n++
			held := u.Graph().HeldAt(cl.Loc)
			// a deferred close runs at exit: it is ordered after send only if the lock was taken in this function
			ok := held[sp.lock]
			if !ok {
				for _, l := range u.Calls() {
					if l.Name == "Lock" && l.Recv != nil && core.LockKey(u.Info(), l.Recv) == sp.lock {
						ok = true
					}
				}
			}
			c.Check(R, sp.fn+"/close-without-send-ordering", cl.Pos(), ok, "the connection is closed with no ordering edge to an in-flight send goroutine: the last batch can be lost (send-then-close)")
		}
		c.Need(R, "connection close in "+sp.fn, n, 1)
	}
}

func c12CallbackBeforeTeardown(c *core.Ctx) {
	const R = "C12.5"
	c.Rule(R, "the close callback runs before the connection is torn down: in websocket/webTransport DoClose fn() is called in the body while the connection close is deferred (or follows it); transport.Close hands its first argument to DoClose")
	for _, k := range []string{"transports.(*websocket).DoClose", "transports.(*webTransport).DoClose"} {
		u := c.Fn(R, k)
		if u == nil {
			continue
		}
		g := u.Graph()
		pn := paramName(u, 0)
		var fnCall, closer *core.Call
		for _, cl := range u.Calls() {
			if cl.Callee == nil && cl.Name == pn {
				fnCall = cl
			}
			if cl.Name == "Close" || cl.Name == "CloseWithError" {
				closer = cl
			}
		}
		ok := fnCall != nil && closer != nil && (closer.Deferred || g.Dominates(fnCall.Loc, closer.Loc)) && !fnCall.Deferred &&
			g.GuardedBy(fnCall.Loc, nilGuard(true, func(x *core.Unit, e ast.Expr) bool { return isLocal(x.Info(), e, pn) }))
		c.Check(R, k+"/fn()≺connection-close", u.Pos(), ok, "the session's forced-close callback runs first")
	}
	if tc := c.Fn(R, "transports.(*transport).Close"); tc != nil {
		ok := false
		for _, cl := range tc.Calls() {
			if cl.Name == "DoClose" {
				if ix, isIx := ast.Unparen(cl.Arg(0)).(*ast.IndexExpr); isIx && isLocal(tc.Info(), ix.X, paramName(tc, 0)) {
					if v, isC := core.ConstInt(tc.Info(), ix.Index); isC && v == 0 {
						ok = true
					}
				}
			}
		}
		c.Check(R, "transports.(*transport).Close/DoClose(fn[0])", tc.Pos(), ok, "the caller's callback reaches DoClose")
	}
}
