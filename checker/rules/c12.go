package rules

import (
	"go/ast"
	"go/token"
	"strings"

	"engcheck/core"
)

func init() {
	register("C12", func(c *core.Ctx, tier string) {
		abortedPostNotAnError(c, "C12.11")
		bufferedCloseRechecksWritable(c, "C12.12")
		upgradeAttemptConcludedOnce(c, "C12.13")
		discardCompletesBufferedClose(c, "C12.14")
		closeSerialisedWithFlush(c, "C12.15")
		baseTransportEffects(c, "C12.9")
		pollingEffects(c, "C12.8")
		constructorChain(c, "C12.7")
		c12CloseWaitsForBuffer(c)
		c12Shutdown(c)
		casPolarity(c, "C12.1b")
		c08UpgradeBranchWiring(c, "C12.1c") // a closing session is closed on the new transport after an upgrade; clearTransport closes the old one
		c11ReleaseAtClose(c, "C12.3")
		noBaseBypass(c, "C12.3b") // every close of a polling transport runs polling.OnClose (which releases the pending poll)
		c12TeardownOrdering(c)
		c12CallbackBeforeTeardown(c)
		// bounded completion: a closing session still drains its buffer and still times out
		pingBody(c, "C12.10")
		c03AdmittedStates(c, "C12.6", map[string]bool{"flush/Send": true, "resetPingTimeout$callback/OnClose(ping timeout)": true, "Close/closeTransport(discard)": true})
	})
}

func c12CloseWaitsForBuffer(c *core.Ctx) {
	const R = "C12.1"
	c.Rule(R, "graceful close waits for buffered data: in (*socket).Close, after the open→closing transition, a non-empty writeBuffer registers Once(\"drain\", → closeTransport(discard)) and returns; an empty one calls closeTransport directly; closeTransport calls Transport().Close(cb) with cb → OnClose(\"forced close\") and Discard() only on the discard edge")
	u := c.Fn(R, sockClose)
	if u == nil {
		return
	}
	info := u.Info()
	g := u.Graph()
	var cas *core.Call
	for _, cl := range fieldCalls(u, "socket.readyState") {
		if cl.Name == "CompareAndSwap" {
			cas = cl
		}
	}
	nonEmpty := func(x *core.Unit, br core.Branch) int {
		cmp, ok := x.BranchCmp(br)
		if !ok {
			return 0
		}
		d, k := x.SingleDef(cmp.X)
		if !k {
			return 0
		}
		ce, isC := ast.Unparen(d).(*ast.CallExpr)
		if !isC || calleeNameOf(ce) != "Len" {
			return 0
		}
		se, isS := ce.Fun.(*ast.SelectorExpr)
		if !isS || fieldOf(x.Info(), se.X) != "socket.writeBuffer" {
			return 0
		}
		if ge, ok := lenPositive(cmp); ok {
			if ge == 0 {
				return 1
			}
			return -1
		}
		return 0
	}
	var wait *Ev
	for _, e := range filterEv(events(c, u), "once", "session", "drain") {
		wait = e
	}
	okWait := wait != nil && cas != nil && g.Dominates(cas.Loc, wait.Loc) && g.GuardedBy(wait.Loc, nonEmpty)
	if okWait {
		k := closureArg(u, wait.Call, 1)
		okWait = k != nil && len(k.CallsTo("engine.(*socket).closeTransport")) == 1
		// returns right after registering: no closeTransport reachable on that edge
		for _, cl := range u.CallsTo("engine.(*socket).closeTransport") {
			if g.CanFollow(wait.Loc, cl.Loc) {
				okWait = false
			}
		}
	}
	c.Check(R, sockClose+"/non-empty→Once(drain)→closeTransport", u.Pos(), okWait, "buffered packets are flushed before the transport is closed")
	okDirect := false
	for _, cl := range u.CallsTo("engine.(*socket).closeTransport") {
		if cas != nil && g.Dominates(cas.Loc, cl.Loc) && g.GuardedBy(cl.Loc, func(x *core.Unit, br core.Branch) int { return -nonEmpty(x, br) }) {
			okDirect = true
		}
	}
	c.Check(R, sockClose+"/empty→closeTransport", u.Pos(), okDirect, "with an empty buffer the transport is closed right away")
	_ = info
	ct := c.Fn(R, "engine.(*socket).closeTransport")
	if ct != nil {
		cg := ct.Graph()
		pn := paramName(ct, 0)
		okCb, okDisc := false, false
		for _, cl := range ct.Calls() {
			if cl.Key == "transports.(Transport).Close" && len(cl.Expr.Args) == 1 {
				if k := closureArg(ct, cl, 0); k != nil {
					for _, oc := range k.CallsTo(sockOnClose) {
						r, _ := core.ConstString(k.Info(), oc.Arg(0))
						okCb = r == "forced close"
					}
				}
			}
			if cl.Name == "Discard" {
				okDisc = cg.GuardedBy(cl.Loc, func(x *core.Unit, br core.Branch) int {
					if !br.IsCase && isLocal(x.Info(), br.Cond, pn) {
						return 1
					}
					return 0
				})
			}
		}
		c.Check(R, "engine.(*socket).closeTransport/Close(cb→forced close)+Discard-iff-discard", ct.Pos(), okCb && okDisc, keyf("callback closes with 'forced close': %v; Discard only when asked: %v", okCb, okDisc))
	}
}

func c12Shutdown(c *core.Ctx) {
	const R = "C12.2"
	c.Rule(R, "server shutdown closes every session: baseServer.Close ranges over the whole client table calling client.Close(true) and always returning true (no early stop), then Cleanup; Attach registers server.Once(\"close\", → s.Close()); HttpServer.Close emits close before shutting the listeners down")
	u := c.Fn(R, "engine.(*baseServer).Close")
	if u != nil {
		ok := false
		for _, cl := range u.Calls() {
			if cl.Name != "Range" || cl.Recv == nil || !isClientsExpr(u, cl.Recv) {
				continue
			}
			k := closureArg(u, cl, 0)
			if k == nil {
				continue
			}
			c.Touch(k)
			closes := false
			for _, x := range k.Calls() {
				if x.Name == "Close" && len(x.Expr.Args) == 1 {
					if v, isC := core.ConstBool(k.Info(), x.Arg(0)); isC && v {
						closes = true
					}
				}
			}
			allTrue := true
			rets := returnsIn(k)
			for _, r := range rets {
				v, isC := core.ConstBool(k.Info(), r.Stmt.Results[0])
				if !isC || !v {
					allTrue = false
				}
			}
			ok = closes && allTrue && len(rets) >= 1
		}
		cleanup := false
		for _, cl := range u.Calls() {
			if cl.Name == "Cleanup" {
				cleanup = true
			}
		}
		c.Check(R, "engine.(*baseServer).Close/range-all→Close(true)", u.Pos(), ok && cleanup, "every registered session is closed with discard, then Cleanup")
	}
	if at := c.Fn(R, "engine.(*server).Attach"); at != nil {
		ok := false
		for _, e := range filterEv(events(c, at), "once", "httpserver", "close") {
			if k := closureArg(at, e.Call, 1); k != nil {
				for _, cl := range k.Calls() {
					if cl.Name == "Close" && strings.Contains(cl.Key, "Server") {
						ok = true
					}
				}
			}
		}
		c.Check(R, "engine.(*server).Attach/Once(close)→s.Close()", at.Pos(), ok, "closing the HTTP server closes the engine")
	}
	if hc := c.Fn(R, "types.(*HttpServer).Close"); hc != nil {
		g := hc.Graph()
		evs := filterEv(events(c, hc), "emit", "httpserver", "close")
		ok := len(evs) == 1
		if ok {
			for _, cl := range hc.Calls() {
				if cl.Name == "Range" && !g.Dominates(evs[0].Loc, cl.Loc) {
					ok = false
				}
			}
		}
		c.Check(R, "types.(*HttpServer).Close/emit(close)≺shutdown", hc.Pos(), ok, "sessions are told to close before the listeners go away")
	}
}

func c12TeardownOrdering(c *core.Ctx) {
	const R = "C12.4"
	c.Rule(R, "connection teardown does not overtake the last batch (fix af10393): websocket / webTransport Send counts the batch (sends.begin()) before it spawns the writer (`go w.send`), the writer's end() is deferred so that it runs on every exit of send, and DoClose closes the connection directly only when no completion callback was given (a failed session, a refused candidate) or the transport is discarded — a close that was asked for (Socket.Close(false)) goes through closeAfter(sends.done(), …): at once when the writer is idle, otherwise from a goroutine that waits for idle or a bounded timer; the tracker's counter, its idle channel and their hand-over are touched under its mutex only")
	for _, sp := range []struct{ typ, closer string }{
		{"websocket", "Close"},
		{"webTransport", "CloseWithError"},
	} {
		base := "transports.(*" + sp.typ + ")."
		// Send: begin ≺ go send, unconditionally
		if u := c.Fn(R, base+"Send"); u != nil {
			g := u.Graph()
			var begin, spawn *core.Call
			for _, cl := range u.Calls() {
				if cl.Key == "transports.(*sendTracker).begin" {
					begin = cl
				}
				if cl.Go && cl.Key == base+"send" {
					spawn = cl
				}
			}
			ok := begin != nil && spawn != nil && !begin.Go && !begin.Deferred && g.Dominates(begin.Loc, spawn.Loc)
			if ok {
				for _, f := range g.Facts() {
					if g.EdgeDominates(f.Br.B, f.Edge, spawn.Loc) && !g.EdgeDominates(f.Br.B, f.Edge, begin.Loc) {
						ok = false // a writer that is spawned where the batch was not counted
					}
				}
			}
			c.Check(R, base+"Send/batch-counted-before-the-writer-is-spawned", u.Pos(), ok, "sends.begin() precedes `go w.send(packets)` on every path to it")
		}
		// send: end() deferred, registered before the write loop
		if u := c.Fn(R, base+"send"); u != nil {
			g := u.Graph()
			ok := false
			for _, cl := range u.Calls() {
				if cl.Key != "transports.(*sendTracker).end" || !cl.Deferred {
					continue
				}
				ok = true
				for _, wr := range u.Calls() {
					if (wr.Name == "write" || wr.Name == "WritePreparedMessage" || wr.Name == "EncodePacket") && !g.Dominates(cl.Loc, wr.Loc) {
						ok = false
					}
				}
				for _, r := range returnsIn(u) {
					ok = ok && g.Dominates(cl.Loc, r.Loc)
				}
			}
			c.Check(R, base+"send/end-of-the-batch-deferred-ahead-of-the-writes", u.Pos(), ok, "defer sends.end() is registered before anything is written and before every return: the count drops on every exit of the writer")
		}
		// DoClose
		u := c.Fn(R, base+"DoClose")
		if u == nil {
			continue
		}
		g := u.Graph()
		pn := paramName(u, 0)
		noCallback := func(x *core.Unit, br core.Branch) int { // fn == nil
			cmp, ok := x.BranchCmp(br)
			if !ok || cmp.Y == nil || !core.IsNil(x.Info(), cmp.Y) || !isLocal(x.Info(), cmp.X, pn) {
				return 0
			}
			switch cmp.Op {
			case token.EQL:
				return 1
			case token.NEQ:
				return -1
			}
			return 0
		}
		discarded := boolCallGuard(true, "transports.(Transport).Discarded", "transports.(*transport).Discarded")
		n := 0
		for _, x := range u.AllUnits() {
			for _, cl := range x.Calls() {
				if cl.Name != sp.closer || cl.Recv == nil {
					continue
				}
				tn := core.TypeName(x.Info().TypeOf(cl.Recv))
				if tn != "WebSocketConn" && tn != "WebTransportConn" {
					continue
				}
				n++
				ok := false
				detail := ""
				if x == u {
					// a direct close: only where nothing was asked to be delivered — on the other edge of
					// `fn == nil || Discarded()` neither holds, so the direct close must not be reachable there
					direct := !g.GuardedBy(cl.Loc, gNot(noCallback)) || !g.GuardedBy(cl.Loc, gNot(discarded))
					wanted := g.GuardedBy(cl.Loc, gNot(noCallback)) && g.GuardedBy(cl.Loc, gNot(discarded))
					ok, detail = direct && !wanted, "direct close off the edge (callback given ∧ not discarded)"
				} else {
					// inside a closure: the closure must be the one handed to closeAfter together with sends.done()
					for _, ca := range u.CallsTo("transports.closeAfter") {
						if closureArg(u, ca, 1) != x {
							continue
						}
						if ce, key := u.AsCall(ca.Arg(0)); ce != nil && key == "transports.(*sendTracker).done" {
							ok, detail = true, "closure handed to closeAfter(sends.done(), …)"
						}
					}
				}
				c.Check(R, keyf("%sDoClose/close#%d-ordered-after-the-batch-in-flight", base, n), cl.Pos(), ok, detail)
			}
		}
		c.Need(R, "connection closes in "+base+"DoClose", n, 2)
		// the wait is for a close that was asked for, only: a failed session (no callback) or a discarded transport
		// must not keep connection, writer and batch for the writer's sake (review of the fix: 30 s per stalled peer)
		for _, ca := range u.CallsTo("transports.closeAfter") {
			c.Check(R, base+"DoClose/wait-only-for-a-requested-close", ca.Pos(), g.GuardedBy(ca.Loc, gNot(noCallback)) && g.GuardedBy(ca.Loc, gNot(discarded)),
				"closeAfter is reached only with a completion callback and a transport that is not discarded")
		}
	}
	// closeAfter: direct only on the idle edge, otherwise from a goroutine after idle or a bounded timer
	if u := c.Fn(R, "transports.closeAfter"); u != nil {
		idleP, closeP := paramName(u, 0), paramName(u, 1)
		direct, spawned, bounded := 0, 0, false
		for _, x := range u.AllUnits() {
			for _, cl := range x.Calls() {
				if cl.Callee == nil && cl.Name == closeP {
					if x == u {
						direct++
					} else {
						spawned++
					}
				}
			}
		}
		// the direct call sits in the comm clause that received from idle
		inIdleCase := false
		ast.Inspect(u.Body, func(n ast.Node) bool {
			if _, isLit := n.(*ast.FuncLit); isLit {
				return false
			}
			cc, isCC := n.(*ast.CommClause)
			if !isCC || cc.Comm == nil {
				return true
			}
			recv := false
			ast.Inspect(cc.Comm, func(y ast.Node) bool {
				if ue, isU := y.(*ast.UnaryExpr); isU && ue.Op == token.ARROW && isLocal(u.Info(), ue.X, idleP) {
					recv = true
				}
				return true
			})
			for _, st := range cc.Body {
				ast.Inspect(st, func(y ast.Node) bool {
					if ce, isC := y.(*ast.CallExpr); isC && isLocal(u.Info(), ce.Fun, closeP) && recv {
						inIdleCase = true
					}
					return true
				})
			}
			return true
		})
		goes := false
		for _, cl := range u.Calls() {
			if cl.Go {
				goes = true
			}
		}
		// bounded: in the spawned goroutine the receive from idle is one case of a select whose other case receives from
		// a timer (time.After(…) or a Timer's C) — a bare `<-idle` waits for a writer that a silent peer blocks for ever
		for _, x := range u.AllUnits() {
			if x == u {
				continue
			}
			bare := false
			ast.Inspect(x.Body, func(n ast.Node) bool {
				switch st := n.(type) {
				case *ast.SelectStmt:
					hasIdle, hasTimer := false, false
					for _, cs := range st.Body.List {
						cc, _ := cs.(*ast.CommClause)
						if cc == nil || cc.Comm == nil {
							continue
						}
						ast.Inspect(cc.Comm, func(y ast.Node) bool {
							ue, isU := y.(*ast.UnaryExpr)
							if !isU || ue.Op != token.ARROW {
								return true
							}
							if isLocal(x.Info(), ue.X, idleP) {
								hasIdle = true
							} else if ce, key := x.AsCall(ue.X); ce != nil && key == "time.After" {
								hasTimer = true
							} else if se, isS := ast.Unparen(ue.X).(*ast.SelectorExpr); isS && se.Sel.Name == "C" && core.TypeName(x.Info().TypeOf(se.X)) == "Timer" {
								hasTimer = true
							}
							return true
						})
					}
					if hasIdle && hasTimer {
						bounded = true
					}
					return false
				case *ast.ExprStmt:
					if ue, isU := ast.Unparen(st.X).(*ast.UnaryExpr); isU && ue.Op == token.ARROW && isLocal(x.Info(), ue.X, idleP) {
						bare = true
					}
				}
				return true
			})
			if bare {
				bounded = false
			}
		}
		c.Check(R, "transports.closeAfter/idle→close-now,else→goroutine(idle|timer)→close", u.Pos(), direct == 1 && inIdleCase && spawned == 1 && goes && bounded,
			keyf("direct close in the case that received from idle: %v (%d); one close from a spawned goroutine: %v (%d) whose wait is bounded by a timer: %v", inIdleCase, direct, goes, spawned, bounded))
	}
	// the tracker's state is touched under its mutex
	n := 0
	for _, u := range c.P.Units {
		if !strings.HasPrefix(u.Key, "transports.(*sendTracker).") {
			continue
		}
		g := u.Graph()
		ast.Inspect(u.Body, func(nd ast.Node) bool {
			se, isS := nd.(*ast.SelectorExpr)
			if !isS {
				return true
			}
			f := fieldOf(u.Info(), se)
			if f != "sendTracker.n" && f != "sendTracker.idle" {
				return true
			}
			n++
			c.Check(R, keyf("%s/access(%s)#%d-under-sendTracker.mu", u.Key, f, n), se.Pos(), g.HeldAt(g.LocOf(se))["sendTracker.mu"], "counter and idle channel are read and written with the tracker's mutex held")
			return true
		})
	}
	c.Need(R, "accesses of the send tracker's state", n, 6)
}

func c12CallbackBeforeTeardown(c *core.Ctx) {
	const R = "C12.5"
	c.Rule(R, "the close callback runs before the connection is torn down: in websocket/webTransport DoClose fn() is called in the body while the connection close is deferred (or follows it); transport.Close hands its first argument to DoClose")
	for _, k := range []string{"transports.(*websocket).DoClose", "transports.(*webTransport).DoClose"} {
		u := c.Fn(R, k)
		if u == nil {
			continue
		}
		g := u.Graph()
		pn := paramName(u, 0)
		var fnCall, closer *core.Call
		for _, cl := range u.Calls() {
			if cl.Callee == nil && cl.Name == pn {
				fnCall = cl
			}
			if cl.Name == "Close" || cl.Name == "CloseWithError" {
				closer = cl
			}
		}
		ok := fnCall != nil && closer != nil && (closer.Deferred || g.Dominates(fnCall.Loc, closer.Loc)) && !fnCall.Deferred &&
			g.GuardedBy(fnCall.Loc, nilGuard(true, func(x *core.Unit, e ast.Expr) bool { return isLocal(x.Info(), e, pn) }))
		c.Check(R, k+"/fn()≺connection-close", u.Pos(), ok, "the session's forced-close callback runs first")
	}
	if tc := c.Fn(R, "transports.(*transport).Close"); tc != nil {
		ok := false
		for _, cl := range tc.Calls() {
			if cl.Name == "DoClose" {
				if ix, isIx := ast.Unparen(cl.Arg(0)).(*ast.IndexExpr); isIx && isLocal(tc.Info(), ix.X, paramName(tc, 0)) {
					if v, isC := core.ConstInt(tc.Info(), ix.Index); isC && v == 0 {
						ok = true
					}
				}
			}
		}
		c.Check(R, "transports.(*transport).Close/DoClose(fn[0])", tc.Pos(), ok, "the caller's callback reaches DoClose")
	}
}
