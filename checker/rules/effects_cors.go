package rules

import (
	"go/ast"
	"go/token"
	"strings"

	"engcheck/core"
)

// corsAndContextEffects — C17.9: the CORS wrapper's defaults, header
// application and Vary merging; the request context's watcher and method cache.
func corsAndContextEffects(c *core.Ctx, R string) {
	c.Rule(R, "effect table of types/cors.go and types/http-context.go: MiddlewareWrapper fills in the documented defaults only where the option is unset (Origin \"*\", Methods GET,HEAD,PUT,PATCH,POST,DELETE, OptionsSuccessStatus 204; nil options ⇒ the default policy) and its handler runs CorsMiddleware whenever an Origin policy exists; applyHeaders copies every collected header, keeps Vary: * as is and otherwise merges the collected Vary names into the existing list (only when there are any); configureMaxAge adds Access-Control-Max-Age iff configured; the nil arm of configureAllowedHeaders reflects a non-empty Access-Control-Request-Headers and adds it to Vary; NewHttpContext copies the writer's headers into ResponseHeaders and starts the watcher as a goroutine, whose two arms (request context done ⇒ Flush; response done) both emit close; GetMethod caches the upper-cased request method when empty")
	if u := c.Fn(R, "types.MiddlewareWrapper"); u != nil {
		g := u.Graph()
		info := u.Info()
		opt := paramName(u, 0)
		unset := func(field string, zeroIsNil bool) core.Guard {
			return func(x *core.Unit, br core.Branch) int {
				cmp, ok := x.BranchCmp(br)
				if !ok || !strings.HasSuffix(selPath(cmp.X), opt+"."+field) {
					return 0
				}
				isZero := false
				if zeroIsNil {
					isZero = cmp.Y != nil && core.IsNil(x.Info(), cmp.Y)
				} else {
					isZero = cmp.Val != nil && cmp.Val.ExactString() == "0"
				}
				if !isZero {
					return 0
				}
				switch cmp.Op {
				case token.EQL:
					return 1
				case token.NEQ:
					return -1
				}
				return 0
			}
		}
		type dflt struct {
			field string
			nilZ  bool
			okVal func(ast.Expr) bool
		}
		for _, d := range []dflt{
			{"Origin", true, func(e ast.Expr) bool { s, ok := core.ConstString(info, e); return ok && s == "*" }},
			{"Methods", true, func(e ast.Expr) bool {
				s, ok := core.ConstString(info, e)
				return ok && s == "GET,HEAD,PUT,PATCH,POST,DELETE"
			}},
			{"OptionsSuccessStatus", false, func(e ast.Expr) bool { v, ok := core.ConstInt(info, e); return ok && v == 204 }},
		} {
			ok := false
			for _, a := range assignsIn(u, func(l ast.Expr) bool { return strings.HasSuffix(selPath(l), opt+"."+d.field) }) {
				if a.Rhs != nil && d.okVal(a.Rhs) && g.GuardedBy(a.Loc, unset(d.field, d.nilZ)) && g.GuardedBy(a.Loc, gNilLocal(opt, true)) {
					ok = true
				}
			}
			c.Check(R, "types.MiddlewareWrapper/default-"+d.field+"-only-when-unset", u.Pos(), ok, "the documented default is filled in exactly on the unset edge of a non-nil policy")
		}
		okNil := false
		for _, a := range assignsIn(u, func(l ast.Expr) bool { return isLocal(info, l, opt) }) {
			if strings.HasSuffix(selPath(a.Rhs), "defaultCors") && g.GuardedBy(a.Loc, gNilLocal(opt, false)) {
				okNil = true
			}
		}
		c.Check(R, "types.MiddlewareWrapper/nil-policy→default-policy", u.Pos(), okNil, "options = defaultCors on the options == nil edge")
		for _, k := range u.Kids {
			if len(k.CallsTo("types.CorsMiddleware")) == 0 && !hasLocalCall(k, paramName(k, 1)) {
				continue
			}
			c.Touch(k)
			hasPolicy := func(x *core.Unit, br core.Branch) int {
				cmp, ok := x.BranchCmp(br)
				if !ok || cmp.Y == nil || !core.IsNil(x.Info(), cmp.Y) || !strings.HasSuffix(selPath(cmp.X), ".Origin") {
					return 0
				}
				switch cmp.Op {
				case token.NEQ:
					return 1
				case token.EQL:
					return -1
				}
				return 0
			}
			requireEffects(c, R, k, []effect{
				{name: "policy→CorsMiddleware", match: mKey("types.CorsMiddleware"), on: []core.Guard{hasPolicy}},
				{name: "no-policy→next(nil)", match: mLocalCall(paramName(k, 1)), on: []core.Guard{gNot(hasPolicy)}},
			})
		}
	}
	if u := c.Fn(R, "types.(*cors).applyHeaders"); u != nil && localAnchors(c, R, u, "vary") {
		g := u.Graph()
		star := func(x *core.Unit, br core.Branch) int {
			cmp, ok := x.BranchCmp(br)
			if !ok || cmp.Val == nil || trimQuotes(cmp.Val.ExactString()) != "*" || !isLocalAnyDepth(x, cmp.X, "vary") {
				return 0
			}
			switch cmp.Op {
			case token.EQL:
				return 1
			case token.NEQ:
				return -1
			}
			return 0
		}
		some := func(x *core.Unit, br core.Branch) int {
			cmp, ok := x.BranchCmp(br)
			if !ok || cmp.Val == nil {
				return 0
			}
			ce, _ := ast.Unparen(cmp.X).(*ast.CallExpr)
			if ce == nil || calleeNameOf0(ce) != "len" || len(ce.Args) != 1 || fieldOf(x.Info(), ce.Args[0]) != "cors.varys" {
				return 0
			}
			return positiveEdge(cmp)
		}
		requireEffects(c, R, u, []effect{
			{name: "copy-each-header", match: func(x *core.Unit, cl *core.Call) bool {
				return cl.Name == "Set" && strings.HasSuffix(selPath(cl.Arg(0)), ".Key") && strings.HasSuffix(selPath(cl.Arg(1)), ".Value")
			}},
			{name: "Vary:*-kept", match: mNameStr("Set", 0, "Vary"), on: []core.Guard{star}},
			{name: "parseVary(existing)", match: mName("parseVary"), on: []core.Guard{gNot(star), some}},
			{name: "merge-collected-varys", match: func(x *core.Unit, cl *core.Call) bool {
				return cl.Name == "Add" && cl.Expr.Ellipsis.IsValid() && fieldOf(x.Info(), cl.Arg(0)) == "cors.varys"
			}, on: []core.Guard{gNot(star), some}, after: "parseVary(existing)"},
			{name: "Set(Vary, joined)", match: func(x *core.Unit, cl *core.Call) bool {
				s, _ := core.ConstString(x.Info(), cl.Arg(0))
				if cl.Name != "Set" || s != "Vary" {
					return false
				}
				ce, key := x.AsCall(cl.Arg(1))
				return ce != nil && key == "strings.Join"
			}, on: []core.Guard{gNot(star), some}, after: "merge-collected-varys"},
		})
		_ = g
	}
	if u := c.Fn(R, "types.(*cors).configureMaxAge"); u != nil {
		g := u.Graph()
		set := func(x *core.Unit, br core.Branch) int {
			cmp, ok := x.BranchCmp(br)
			if !ok || cmp.Val == nil || trimQuotes(cmp.Val.ExactString()) != "" || !strings.HasSuffix(selPath(cmp.X), ".MaxAge") {
				return 0
			}
			switch cmp.Op {
			case token.NEQ:
				return 1
			case token.EQL:
				return -1
			}
			return 0
		}
		ok := false
		for _, a := range fieldAssigns(u, "cors.headers") {
			hit := false
			ast.Inspect(a.Rhs, func(n ast.Node) bool {
				if kv, isKV := n.(*ast.KeyValueExpr); isKV {
					if s, isC := core.ConstString(u.Info(), kv.Value); isC && s == "Access-Control-Max-Age" {
						hit = true
					}
				}
				return true
			})
			if hit && g.GuardedBy(a.Loc, set) {
				ok = true
			}
		}
		c.Check(R, "types.(*cors).configureMaxAge/header-iff-configured", u.Pos(), ok, "Access-Control-Max-Age is added exactly when MaxAge is non-empty")
	}
	if u := c.Fn(R, "types.(*cors).configureAllowedHeaders"); u != nil && localAnchors(c, R, u, "head") {
		g := u.Graph()
		asked := func(x *core.Unit, br core.Branch) int {
			cmp, ok := x.BranchCmp(br)
			if !ok || cmp.Val == nil || trimQuotes(cmp.Val.ExactString()) != "" || !isLocalAnyDepth(x, cmp.X, "head") {
				return 0
			}
			switch cmp.Op {
			case token.NEQ:
				return 1
			case token.EQL:
				return -1
			}
			return 0
		}
		okH, okV := false, false
		for _, a := range fieldAssigns(u, "cors.headers") {
			uses := false
			ast.Inspect(a.Rhs, func(n ast.Node) bool {
				if id, isI := n.(*ast.Ident); isI && id.Name == "head" {
					uses = true
				}
				return true
			})
			if uses && g.GuardedBy(a.Loc, asked) {
				okH = true
			}
		}
		for _, a := range fieldAssigns(u, "cors.varys") {
			if g.GuardedBy(a.Loc, asked) {
				okV = true
			}
		}
		c.Check(R, "types.(*cors).configureAllowedHeaders/unset→reflect-request-headers+Vary", u.Pos(), okH && okV, keyf("request header list reflected when non-empty: %v; added to Vary: %v", okH, okV))
	}
	// ---- request context ----
	if u := c.Fn(R, "types.NewHttpContext"); u != nil {
		started := false
		var watcher *core.Unit
		for _, cl := range u.Calls() {
			if cl.Go && cl.Name == "funclit" {
				started = true
				if fl, ok := ast.Unparen(cl.Expr.Fun).(*ast.FuncLit); ok {
					watcher = u.Prog.LitUnit(fl)
				}
			}
			// the same goroutine written as a private method: `go c.awaitClose()` (closure → method)
			if cl.Go && cl.Inlined == nil && cl.Callee != nil {
				if h := c.P.UnitOf(cl.Callee); h != nil && (c.P.IsTransparent(cl.Callee) || strings.HasPrefix(h.Key, u.Key+"$")) {
					started = true // a novel helper, or the closure recovered under its baseline key
					watcher = h
				}
			}
		}
		c.Check(R, "types.NewHttpContext/watcher-started-as-goroutine", u.Pos(), started && watcher != nil, "the constructor returns; the watcher waits in its own goroutine")
		if watcher != nil {
			c.Touch(watcher)
			// both select arms emit close
			nArms, nEmit := 0, 0
			ast.Inspect(watcher.Body, func(n ast.Node) bool {
				if cc, ok := n.(*ast.CommClause); ok {
					nArms++
					hit := false
					ast.Inspect(cc, func(m ast.Node) bool {
						if ce, isC := m.(*ast.CallExpr); isC && calleeNameOf(ce) == "Emit" && len(ce.Args) >= 1 {
							if s, isS := core.ConstString(watcher.Info(), ce.Args[0]); isS && s == "close" {
								hit = true
							}
						}
						return true
					})
					if hit {
						nEmit++
					}
				}
				return true
			})
			c.Check(R, "types.NewHttpContext$watcher/both-arms-emit-close", watcher.Pos(), nArms == 2 && nEmit == 2, keyf("%d select arms, %d emit close (the polling transport learns from this event that its poll or data request is gone)", nArms, nEmit))
		}
		requireEffects(c, R, u, []effect{{name: "ResponseHeaders.With(w.Header())", match: mName("With")}})
	}
	if u := c.Fn(R, "types.(*cors).isOriginAllowed"); u != nil {
		g := u.Graph()
		info := u.Info()
		rec := func(x *core.Unit, br core.Branch) int {
			if br.IsCase {
				return 0
			}
			if ce, key := x.AsCall(br.Cond); ce != nil && key == "types.(*cors).isOriginAllowed" {
				return 1
			}
			return 0
		}
		okT, nF := false, 0
		for _, r := range returnsIn(u) {
			if len(r.Stmt.Results) != 1 {
				continue
			}
			if v, isC := core.ConstBool(info, r.Stmt.Results[0]); isC {
				if v && g.GuardedBy(r.Loc, rec) {
					okT = true
				}
				if !v && !g.GuardedBy(r.Loc, rec) {
					nF++
				}
			}
		}
		// the same any-match written with the library helper: return slices.ContainsFunc(list, func(v) bool { return c.isOriginAllowed(origin, v) })
		if !okT {
			for _, cl := range u.Calls() {
				if cl.Key != "slices.ContainsFunc" || len(cl.Expr.Args) != 2 {
					continue
				}
				if k := closureArg(u, cl, 1); k != nil {
					for _, r := range returnsIn(k) {
						if len(r.Stmt.Results) == 1 {
							if ce, key := k.AsCall(r.Stmt.Results[0]); ce != nil && key == "types.(*cors).isOriginAllowed" {
								okT = true
							}
						}
					}
				}
			}
		}
		c.Check(R, "types.(*cors).isOriginAllowed/list-allows-iff-some-element-allows", u.Pos(), okT && nF >= 1, "a list policy answers true exactly on the true edge of the recursive test of an element, false after the loop")
	}
	if u := c.Fn(R, "types.(*HttpContext).GetStatusCode"); u != nil {
		g := u.Graph()
		okSet := func(x *core.Unit, br core.Branch) int {
			if br.IsCase {
				return 0
			}
			d, ok := x.SingleDef(br.Cond)
			te, isT := d.(*core.TupleElem)
			if ok && isT && te.Index == 1 {
				if _, isTA := ast.Unparen(te.X).(*ast.TypeAssertExpr); isTA {
					return 1
				}
			}
			return 0
		}
		okV, okD := false, false
		for _, r := range returnsIn(u) {
			if len(r.Stmt.Results) != 1 {
				continue
			}
			if v, isC := core.ConstInt(u.Info(), r.Stmt.Results[0]); isC && v == 200 && !g.GuardedBy(r.Loc, okSet) {
				okD = true
			} else if !isC && g.GuardedBy(r.Loc, okSet) {
				okV = true
			}
		}
		c.Check(R, "types.(*HttpContext).GetStatusCode/stored-code-or-200", u.Pos(), okV && okD, "the stored code on the ok edge, 200 otherwise (a zero status makes net/http panic)")
	}
	if u := c.Fn(R, "types.(*HttpContext).GetMethod"); u != nil {
		g := u.Graph()
		info := u.Info()
		// "the cached method is empty", in any spelling (== "", len(…) == 0, < 1 …)
		empty := gNot(gStrExprNonEmpty(func(x *core.Unit, e ast.Expr) bool { return fieldOf(x.Info(), e) == "HttpContext.method" }))
		ok := false
		for _, a := range fieldAssigns(u, "HttpContext.method") {
			if ce, key := u.AsCall(a.Rhs); ce != nil && key == "strings.ToUpper" && g.GuardedBy(a.Loc, empty) {
				ok = true
			}
		}
		ret := false
		for _, r := range returnsIn(u) {
			if len(r.Stmt.Results) == 1 && fieldOf(info, r.Stmt.Results[0]) == "HttpContext.method" {
				ret = true
			}
		}
		c.Check(R, "types.(*HttpContext).GetMethod/cache-upper-cased-method", u.Pos(), ok && ret, "c.method = strings.ToUpper(request.Method) when empty; returns c.method")
	}
}
