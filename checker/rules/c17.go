package rules

import (
	"go/ast"
	"go/constant"
	"go/token"
	"go/types"
	"strings"

	"engcheck/core"
)

func init() {
	register("C17", func(c *core.Ctx, tier string) {
		corsAndContextEffects(c, "C17.9")
		baseServerEffects(c, "C17.8")
		c17Cookie(c)
		c17FirstResponse(c)
		c17HeadersOnce(c)
		c17HeaderMerge(c)
		headerNamesFoldedInOrder(c, "C17.14")
		c17CookieDefaults(c)
		c17CorsTable(c)
		c17CorsChain(c)
		c17HeaderValueTable(c)
		c17Preflight(c)
		c17CorsFirst(c)
		headerValuesComplete(c, "C17.10")
		varyAllLines(c, "C17.11")
		upgradeResponseHeaders(c, "C17.12")
	})
}

// headersListener returns the closure Handshake registers for the transport's headers event.
func headersListener(c *core.Ctx, R string) (*core.Unit, *core.Unit) {
	hs := c.Fn(R, bsHandshake)
	if hs == nil {
		return nil, nil
	}
	for _, e := range filterEv(events(c, hs), "on", "transport", "headers") {
		if k := closureArg(hs, e.Call, 1); k != nil {
			c.Touch(k)
			return hs, k
		}
	}
	c.Undecided(R, bsHandshake+"$On(headers)", "unresolved-anchor: the headers listener was not found")
	return hs, nil
}

// listenerArg: e is a local defined as args[i].(T) of the listener's variadic parameter.
func listenerArg(u *core.Unit, e ast.Expr, i int64) bool {
	d, ok := u.SingleDef(e)
	if !ok {
		return false
	}
	ta, isTA := ast.Unparen(d).(*ast.TypeAssertExpr)
	if !isTA {
		return false
	}
	ix, isIx := ast.Unparen(ta.X).(*ast.IndexExpr)
	if !isIx {
		return false
	}
	if _, isP := u.IsParam(ix.X); !isP {
		return false
	}
	v, isC := core.ConstInt(u.Info(), ix.Index)
	return isC && v == i
}

func c17Cookie(c *core.Ctx) {
	const R = "C17.1"
	c.Rule(R, "the handshake cookie carries the session id: in Handshake's headers listener the value given to headers.Set(\"Set-Cookie\", v) is String() of a per-session copy of the configured cookie whose Value was assigned from this handshake's id; the shared opts.Cookie() object itself is never written")
	hs, l := headersListener(c, R)
	if l == nil {
		return
	}
	info := l.Info()
	g := l.Graph()
	// the id of this handshake: first result of GenerateId in Handshake
	var gen *core.Call
	for _, cl := range hs.Calls() {
		if cl.Name == "GenerateId" {
			gen = cl
		}
	}
	n := 0
	for _, cl := range l.Calls() {
		if cl.Name != "Set" {
			continue
		}
		if k, _ := core.ConstString(info, cl.Arg(0)); k != "Set-Cookie" {
			continue
		}
		n++
		ok := false
		detail := "the value is not String() of a local cookie copy"
		if ce, isC := ast.Unparen(cl.Arg(1)).(*ast.CallExpr); isC && calleeNameOf(ce) == "String" {
			if se, isS := ce.Fun.(*ast.SelectorExpr); isS {
				v, _ := core.ObjOf(info, se.X).(*types.Var)
				if v != nil {
					_, isPtr := v.Type().Underlying().(*types.Pointer)
					// a struct copy (not the shared pointer) …
					isCopy := !isPtr && core.TypeName(v.Type()) == "Cookie"
					// … whose Value field is assigned from id before the Set
					valued := false
					for _, a := range assignsIn(l, func(lh ast.Expr) bool {
						s2, ok := ast.Unparen(lh).(*ast.SelectorExpr)
						return ok && s2.Sel.Name == "Value" && core.ObjOf(info, s2.X) == types.Object(v)
					}) {
						if gen != nil && tupleOf(hs, identIn(hs, a.Rhs), gen.Expr, 0) && g.Dominates(a.Loc, cl.Loc) {
							valued = true
						}
					}
					ok = isCopy && valued
					detail = keyf("cookie is a per-session copy: %v; its Value is this session's id: %v", isCopy, valued)
				}
			}
		}
		c.Check(R, bsHandshake+"$On(headers)/Set-Cookie=copy{Value:id}", cl.Pos(), ok, detail)
	}
	c.Need(R, "Set-Cookie sites in the headers listener", n, 1)
	// the shared cookie is not mutated in the listener
	mut := 0
	for _, a := range assignsIn(l, func(lh ast.Expr) bool {
		s2, ok := ast.Unparen(lh).(*ast.SelectorExpr)
		if !ok {
			return false
		}
		v, _ := core.ObjOf(info, s2.X).(*types.Var)
		if v == nil {
			return false
		}
		_, isPtr := v.Type().Underlying().(*types.Pointer)
		return isPtr && core.TypeName(v.Type()) == "Cookie"
	}) {
		mut++
		c.Violate(R, bsHandshake+"$On(headers)/mutates-shared-cookie", a.Stmt.Pos(), "the configured cookie object is shared by all sessions: concurrent handshakes race on it")
	}
	c.Check(R, bsHandshake+"$On(headers)/shared-cookie-untouched", l.Pos(), mut == 0, "no write through the shared *http.Cookie")
}

// identIn returns e when it is an identifier usable with SingleDef in the given unit, else e.
func identIn(u *core.Unit, e ast.Expr) ast.Expr { return e }

func c17FirstResponse(c *core.Ctx) {
	const R = "C17.2"
	c.Rule(R, "first-response test uses the response's own request: the condition that licenses Set-Cookie and Emit(\"initial_headers\") is `req.Query().Peek(\"sid\") == \"\"` on the listener's request argument (args[1]), the router's own reading of \"no session id\" — a test on the captured handshake context is constantly true for the whole session (contradiction form: a closure that receives req and tests a captured outer request)")
	_, l := headersListener(c, R)
	if l == nil {
		return
	}
	g := l.Graph()
	// `req.Query().Peek("sid") == ""` on the listener's request argument — the same reading of "carries a session id" as
	// the router's (Verify and HandleRequest treat an empty sid as a handshake: fix f330b3b; `Has("sid")` made the
	// handshake of `…&sid=` lose its cookie)
	onReq := func(x *core.Unit, br core.Branch) int {
		cmp, ok := x.BranchCmp(br)
		if !ok || cmp.Val == nil || cmp.Val.Kind() != constant.String || constant.StringVal(cmp.Val) != "" {
			return 0
		}
		ce, isC := ast.Unparen(x.Resolve(cmp.X)).(*ast.CallExpr)
		if !isC || calleeNameOf(ce) != "Peek" || len(ce.Args) != 1 {
			return 0
		}
		if s, _ := core.ConstString(x.Info(), ce.Args[0]); s != "sid" {
			return 0
		}
		se, _ := ce.Fun.(*ast.SelectorExpr)
		if se == nil {
			return 0
		}
		q, isQ := ast.Unparen(se.X).(*ast.CallExpr)
		if !isQ || calleeNameOf(q) != "Query" {
			return 0
		}
		qs, _ := q.Fun.(*ast.SelectorExpr)
		if qs == nil || !listenerArg(x, qs.X, 1) {
			return 0
		}
		switch cmp.Op {
		case token.EQL:
			return 1
		case token.NEQ:
			return -1
		}
		return 0
	}
	n := 0
	for _, e := range filterEv(events(c, l), "emit", "server", "initial_headers") {
		n++
		c.Check(R, bsHandshake+"$On(headers)/initial_headers-iff-request-has-no-sid", e.Pos(), g.GuardedBy(e.Loc, onReq), "licensed by the answered request, not by the captured handshake context")
	}
	for _, cl := range l.Calls() {
		if cl.Name == "Set" {
			if k, _ := core.ConstString(l.Info(), cl.Arg(0)); k == "Set-Cookie" {
				n++
				c.Check(R, bsHandshake+"$On(headers)/Set-Cookie-iff-request-has-no-sid", cl.Pos(), g.GuardedBy(cl.Loc, onReq), "licensed by the answered request, not by the captured handshake context")
			}
		}
	}
	c.Need(R, "first-response effects", n, 2)
}

func c17HeadersOnce(c *core.Ctx) {
	const R = "C17.3"
	c.Rule(R, "headers once per response: polling.headers emits headers exactly once (C16.7); every 200-response site (DoWrite's respond, onDataRequest's acknowledgement) calls p.headers exactly once and merges its result into ResponseHeaders before the status and the write; the server's listener emits [initial_headers ≺] headers exactly once, forwarding the same (headers, req); the listener is attached before the first response and never detached")
	c16HeadersFn(c, "C17.3a")
	sites := []string{"transports.(*polling).DoWrite$respond", "transports.(*polling).onDataRequest"}
	for _, k := range sites {
		u := c.P.Func(k)
		if u == nil {
			c.Undecided(R, k, "unresolved-anchor")
			continue
		}
		c.Touch(u)
		g := u.Graph()
		hs := u.CallsTo("transports.(*polling).headers")
		ok := len(hs) == 1
		if ok {
			merged := false
			for _, cl := range u.Calls() {
				isWith := cl.Name == "With" && cl.Recv != nil && strings.HasSuffix(core.ExprString(cl.Recv), "ResponseHeaders")
				isMerge := cl.Key == "transports.mergeResponseHeaders"
				if isWith || isMerge {
					// argument derives from the headers() call
					arg := cl.Arg(0)
					if isMerge {
						arg = cl.Arg(1)
					}
					ast.Inspect(arg, func(n ast.Node) bool {
						if n == ast.Node(hs[0].Expr) {
							merged = true
						}
						return true
					})
					// before the 200 status and the body write
					for _, w := range u.Calls() {
						// only writes whose destination is the response (the HTTP context)
						if (w.Key == "io.Copy" || w.Key == "io.WriteString") && w.Arg(0) != nil && core.TypeName(u.Info().TypeOf(w.Arg(0))) == "HttpContext" && !g.Dominates(cl.Loc, w.Loc) {
							merged = false
						}
					}
				}
			}
			ok = merged
		}
		c.Check(R, k+"/headers()-once-merged-before-write", u.Pos(), ok, "each 200 response gets its headers event exactly once")
	}
	hs0, l := headersListener(c, R)
	if l == nil {
		return
	}
	// listener-before-first-response: the headers listener is attached before the transport can answer
	// (OnRequest hands it the handshake request; NewSocket sends the open packet from another goroutine)
	if hs0 != nil {
		hg := hs0.Graph()
		var reg *Ev
		for _, e := range filterEv(events(c, hs0), "on", "transport", "headers") {
			reg = e
		}
		okBefore := reg != nil
		for _, cl := range hs0.Calls() {
			if reg != nil && (cl.Name == "OnRequest" || cl.Key == newSocket) && !hg.Dominates(reg.Loc, cl.Loc) {
				okBefore = false
			}
		}
		c.Check(R, bsHandshake+"/On(headers)≺OnRequest,NewSocket", hs0.Pos(), okBefore, "the cookie / initial_headers listener is in place before the first response of the session can be written")
	}
	// … and stays in place for every later response of the session: nothing detaches it (a response written while or
	// after the session closes — the `ok` of the POST that carried the close packet, the noop/close that releases the
	// pending poll — still gets its headers event)
	nRem := 0
	for _, u := range c.P.Units {
		for _, e := range filterEv(events(c, u), "remove", "", "headers") {
			nRem++
			c.Violate(R, keyf("%s/RemoveListener(headers)", u.Key), e.Pos(), "the per-session headers listener is detached: responses written afterwards get no headers event (and no CORS / cookie processing by listeners)")
		}
		for _, cl := range u.Calls() {
			if (cl.Name == "RemoveAllListeners" || cl.Name == "Clear") && cl.Recv != nil && core.TypeName(u.Info().TypeOf(cl.Recv)) == "Transport" {
				nRem++
				c.Violate(R, keyf("%s/%s()@transport", u.Key, cl.Name), cl.Pos(), "every listener of the transport, the headers listener included, is detached")
			}
		}
	}
	c.Check(R, bsHandshake+"/headers-listener-never-detached", hs0Pos(hs0, l), nRem == 0, keyf("%d site(s) remove the headers listener from a transport", nRem))
	g := l.Graph()
	hd := filterEv(events(c, l), "emit", "server", "headers")
	ih := filterEv(events(c, l), "emit", "server", "initial_headers")
	ok := len(hd) == 1 && len(ih) == 1
	if ok {
		fw := listenerArg(l, hd[0].Arg(1), 0) && listenerArg(l, hd[0].Arg(2), 1) && listenerArg(l, ih[0].Arg(1), 0) && listenerArg(l, ih[0].Arg(2), 1)
		order := g.CanFollow(ih[0].Loc, hd[0].Loc) && !g.CanFollow(hd[0].Loc, ih[0].Loc)
		always := true
		for _, r := range returnsIn(l) {
			always = always && g.Dominates(hd[0].Loc, r.Loc)
		}
		ok = fw && order && always
	}
	c.Check(R, bsHandshake+"$On(headers)/[initial_headers≺]headers-once", l.Pos(), ok, "the server-level events forward the transport's (headers, req), headers unconditionally")
}

func c17CookieDefaults(c *core.Ctx) {
	const R = "C17.4"
	c.Rule(R, "cookie defaults in baseServer.Construct, applied only when a cookie was configured: name io, path /, HttpOnly, SameSite Lax when unset")
	u := c.Fn(R, "engine.(*baseServer).Construct")
	if u == nil {
		return
	}
	info := u.Info()
	g := u.Graph()
	cookieNonNil := nilGuard(true, func(x *core.Unit, e ast.Expr) bool {
		v, _ := core.ObjOf(x.Info(), e).(*types.Var)
		return v != nil && core.TypeName(v.Type()) == "Cookie"
	})
	got := map[string]bool{}
	for _, a := range assignsIn(u, func(l ast.Expr) bool {
		se, ok := ast.Unparen(l).(*ast.SelectorExpr)
		if !ok {
			return false
		}
		v, _ := core.ObjOf(info, se.X).(*types.Var)
		return v != nil && core.TypeName(v.Type()) == "Cookie"
	}) {
		if !g.GuardedBy(a.Loc, cookieNonNil) {
			c.Violate(R, "engine.(*baseServer).Construct/cookie-default-without-cookie", a.Stmt.Pos(), "a cookie attribute is written although no cookie is configured")
			continue
		}
		f := ast.Unparen(a.Lhs).(*ast.SelectorExpr).Sel.Name
		switch f {
		case "Name":
			s, _ := core.ConstString(info, a.Rhs)
			got["Name"] = s == "io"
		case "Path":
			s, _ := core.ConstString(info, a.Rhs)
			got["Path"] = s == "/"
		case "HttpOnly":
			b, _ := core.ConstBool(info, a.Rhs)
			got["HttpOnly"] = b
		case "SameSite":
			if v, isV := core.ObjOf(info, a.Rhs).(*types.Const); isV && v.Name() == "SameSiteLaxMode" {
				got["SameSite"] = true
			}
		}
	}
	c.Check(R, "engine.(*baseServer).Construct/cookie-defaults", u.Pos(), got["Name"] && got["Path"] && got["HttpOnly"] && got["SameSite"], keyf("defaults applied: %v", got))
}

func c17CorsTable(c *core.Ctx) {
	const R = "C17.5"
	c.Rule(R, "CORS branch table (types/cors.go): configureOrigin — string \"*\" ⇒ ACAO * and no Vary; other string ⇒ that string + Vary: Origin; non-string ⇒ the request origin only on the isOriginAllowed true edge, Vary: Origin on both edges; isOriginAllowed covers exactly {[]any (recursive any-match), string equality, *regexp.Regexp match, bool} and defaults to false; configureCredentials adds its header iff Credentials")
	u := c.Fn(R, "types.(*cors).configureOrigin")
	if u != nil {
		info := u.Info()
		g := u.Graph()
		isStr := func(x *core.Unit, br core.Branch) int { // `o, ok := Origin.(string); ok`
			if br.IsCase {
				return 0
			}
			d, k := x.SingleDef(br.Cond)
			if !k {
				return 0
			}
			te, isT := d.(*core.TupleElem)
			if !isT || te.Index != 1 {
				return 0
			}
			if ta, isTA := ast.Unparen(te.X).(*ast.TypeAssertExpr); isTA && ta.Type != nil {
				if b, isB := x.Info().TypeOf(ta.Type).Underlying().(*types.Basic); isB && b.Kind() == types.String {
					return 1
				}
			}
			return 0
		}
		star := func(x *core.Unit, br core.Branch) int {
			cmp, ok := x.BranchCmp(br)
			if !ok || cmp.Val == nil || trimQuotes(cmp.Val.ExactString()) != "*" {
				return 0
			}
			if cmp.Op == token.EQL {
				return 1
			}
			if cmp.Op == token.NEQ {
				return -1
			}
			return 0
		}
		notStar := func(x *core.Unit, br core.Branch) int { return -star(x, br) }
		notStr := func(x *core.Unit, br core.Branch) int { return -isStr(x, br) }
		allowed := boolCallGuard(true, "types.(*cors).isOriginAllowed")
		// ACAO appends and Vary appends
		type app struct {
			loc core.Loc
			pos token.Pos
			val ast.Expr
		}
		var acao, vary []app
		for _, a := range fieldAssigns(u, "cors.headers") {
			ast.Inspect(a.Rhs, func(n ast.Node) bool {
				if cl, isC := n.(*ast.CompositeLit); isC && core.TypeName(info.TypeOf(cl)) == "Kv" {
					var key string
					var val ast.Expr
					for _, el := range cl.Elts {
						if kv, isKV := el.(*ast.KeyValueExpr); isKV {
							if k, _ := kv.Key.(*ast.Ident); k != nil && k.Name == "Key" {
								key, _ = core.ConstString(info, kv.Value)
							} else if k != nil && k.Name == "Value" {
								val = kv.Value
							}
						}
					}
					if key == "Access-Control-Allow-Origin" {
						acao = append(acao, app{a.Loc, a.Stmt.Pos(), val})
					}
				}
				return true
			})
		}
		for _, a := range fieldAssigns(u, "cors.varys") {
			vary = append(vary, app{a.Loc, a.Stmt.Pos(), a.Rhs})
		}
		okStar, okFixed, okReflect, okDenied := false, false, false, true
		for _, a := range acao {
			s, isS := core.ConstString(info, a.val)
			switch {
			case g.GuardedBy(a.loc, isStr) && g.GuardedBy(a.loc, star):
				okStar = isS && s == "*"
			case g.GuardedBy(a.loc, isStr) && g.GuardedBy(a.loc, notStar):
				okFixed = !isS && a.val != nil
			case g.GuardedBy(a.loc, notStr) && g.GuardedBy(a.loc, allowed):
				// the reflected value is the request's Origin header
				d, _ := u.SingleDef(a.val)
				okReflect = strings.Contains(core.ExprString(d), `Peek("Origin")`) || strings.Contains(core.ExprString(d), `Get("Origin")`)
				// a request without Origin gets no (empty) Access-Control-Allow-Origin line (fix 2161a15)
				if id, isID := ast.Unparen(a.val).(*ast.Ident); isID {
					okReflect = okReflect && g.GuardedBy(a.loc, gStrLocalNonEmpty(id.Name))
				}
			default:
				// the header names an origin (or '*') only when the policy allows
				// it: the refusing edge sets no Access-Control-Allow-Origin at all
				// (fix f59ecdc: it used to send the literal "false")
				okDenied = false
			}
		}
		c.Check(R, "types.(*cors).configureOrigin/ACAO-table", u.Pos(), okStar && okFixed && okReflect && okDenied && len(acao) == 3,
			keyf("'*'→*: %v; fixed string→itself: %v; allowed→request origin: %v; no Access-Control-Allow-Origin on any other edge: %v (%d ACAO sites)", okStar, okFixed, okReflect, okDenied, len(acao)))
		// Vary: none on the * edge; present on every other path
		varyOK := len(vary) >= 2
		for _, v := range vary {
			if g.GuardedBy(v.loc, star) && g.GuardedBy(v.loc, isStr) {
				varyOK = false
			}
		}
		// every return reached through a non-* edge is preceded by a Vary append
		var vlocs []core.Loc
		for _, v := range vary {
			vlocs = append(vlocs, v.loc)
		}
		for _, a := range acao {
			isStarSite := g.GuardedBy(a.loc, isStr) && g.GuardedBy(a.loc, star)
			if isStarSite {
				continue
			}
			// from this ACAO site, every path to return passes a Vary append
			if g.ReachesExitAvoiding(g.After(a.loc), vlocs) {
				varyOK = false
			}
		}
		// the refusing edge too: since fix f59ecdc it sets no ACAO header, so it is anchored on the policy test itself —
		// whatever isOriginAllowed answers, the response depends on the request's Origin
		for _, cl := range u.CallsTo("types.(*cors).isOriginAllowed") {
			if g.ReachesExitAvoiding(g.After(cl.Loc), vlocs) {
				varyOK = false
			}
		}
		// and on every other path whatsoever: a path from the entry to a return passes a Vary append or the '*' answer
		// (a reflecting policy answers differently to a request without Origin as well — R12-C17)
		blockers := append([]core.Loc{}, vlocs...)
		for _, a := range acao {
			if g.GuardedBy(a.loc, isStr) && g.GuardedBy(a.loc, star) {
				blockers = append(blockers, a.loc)
			}
		}
		if g.ReachesExitAvoiding(g.Entry(), blockers) {
			varyOK = false
		}
		c.Check(R, "types.(*cors).configureOrigin/Vary-table", u.Pos(), varyOK, "Vary: Origin whenever the value depends on the request or configuration string, never for *")
	}
	if ia := c.Fn(R, "types.(*cors).isOriginAllowed"); ia != nil {
		info := ia.Info()
		g := ia.Graph()
		kinds := map[string]bool{}
		for _, f := range g.Facts() {
			if f.Br.TypeSwitch == nil || !f.Val {
				continue
			}
			t := info.TypeOf(f.Br.Cond)
			if t == nil {
				continue
			}
			kinds[t.String()] = true
		}
		want := []string{"[]any", "string", "*regexp.Regexp", "bool"}
		ok := len(kinds) == 4
		for _, w := range want {
			if !kinds[w] && !(w == "[]any" && kinds["[]interface{}"]) {
				ok = false
			}
		}
		// default false: the final return is the constant false
		deflt := false
		rets := returnsIn(ia)
		if len(rets) > 0 {
			last := rets[len(rets)-1]
			if v, isC := core.ConstBool(info, last.Stmt.Results[0]); isC && !v {
				deflt = true
			}
		}
		c.Check(R, "types.(*cors).isOriginAllowed/kinds+default-false", ia.Pos(), ok && deflt, keyf("handled kinds %v, unmatched ⇒ false: %v", setKeys(kinds), deflt))
		// arm semantics: string ⇒ exact equality with the request origin; regexp ⇒ MatchString(origin); bool ⇒ the value
		okStr, okRe := false, false
		for _, r := range returnsIn(ia) {
			if len(r.Stmt.Results) != 1 {
				continue
			}
			e := ast.Unparen(r.Stmt.Results[0])
			arm := ""
			for _, f := range g.Facts() {
				if f.Br.TypeSwitch != nil && f.Val && g.EdgeDominates(f.Br.B, f.Edge, r.Loc) {
					if t := info.TypeOf(f.Br.Cond); t != nil {
						arm = t.String()
					}
				}
			}
			switch arm {
			case "string":
				if be, isB := e.(*ast.BinaryExpr); isB && be.Op == token.EQL {
					a, b := be.X, be.Y
					if isLocal(info, b, paramName(ia, 0)) {
						a, b = b, a
					}
					if isLocal(info, a, paramName(ia, 0)) {
						if _, isId := ast.Unparen(b).(*ast.Ident); isId {
							okStr = true
						}
					}
				}
			case "*regexp.Regexp":
				if ce, isC := e.(*ast.CallExpr); isC && ia.CalleeKey(ce) == "regexp.(*Regexp).MatchString" && len(ce.Args) == 1 && isLocal(info, ce.Args[0], paramName(ia, 0)) {
					okRe = true
				}
			}
		}
		c.Check(R, "types.(*cors).isOriginAllowed/string⇒origin==v,regexp⇒MatchString(origin)", ia.Pos(), okStr && okRe, keyf("string arm is exact equality: %v; regexp arm matches the request origin: %v", okStr, okRe))
	}
	if cc := c.Fn(R, "types.(*cors).configureCredentials"); cc != nil {
		g := cc.Graph()
		ok := false
		for _, a := range fieldAssigns(cc, "cors.headers") {
			ok = g.GuardedBy(a.Loc, func(x *core.Unit, br core.Branch) int {
				if se, isS := ast.Unparen(br.Cond).(*ast.SelectorExpr); isS && se.Sel.Name == "Credentials" {
					return 1
				}
				return 0
			})
		}
		c.Check(R, "types.(*cors).configureCredentials/iff-configured", cc.Pos(), ok, "Access-Control-Allow-Credentials only when Credentials is set")
	}
}

func c17Preflight(c *core.Ctx) {
	const R = "C17.6"
	c.Rule(R, "preflight: in CorsMiddleware the OPTIONS edge calls next iff PreflightContinue; otherwise it sets Content-Length: 0 and the configured OptionsSuccessStatus and writes exactly once, and next is unreachable (no Verify/Handshake, no session); the non-OPTIONS edge always calls next(nil) exactly once; MiddlewareWrapper defaults: origin *, the method list, status 204")
	u := c.Fn(R, "types.CorsMiddleware")
	if u == nil {
		return
	}
	info := u.Info()
	g := u.Graph()
	next := paramName(u, 2)
	isOptions := func(x *core.Unit, br core.Branch) int {
		cmp, ok := x.BranchCmp(br)
		if !ok {
			return 0
		}
		isOpt := func(e ast.Expr) bool {
			v, isV := core.ObjOf(x.Info(), e).(*types.Const)
			return isV && v.Name() == "MethodOptions"
		}
		if isOpt(cmp.X) || (cmp.Y != nil && isOpt(cmp.Y)) || (cmp.Val != nil && trimQuotes(cmp.Val.ExactString()) == "OPTIONS") {
			if cmp.Op == token.EQL {
				return 1
			}
			if cmp.Op == token.NEQ {
				return -1
			}
		}
		return 0
	}
	notOptions := func(x *core.Unit, br core.Branch) int { return -isOptions(x, br) }
	cont := func(x *core.Unit, br core.Branch) int {
		if se, isS := ast.Unparen(br.Cond).(*ast.SelectorExpr); isS && se.Sel.Name == "PreflightContinue" {
			return 1
		}
		return 0
	}
	noCont := func(x *core.Unit, br core.Branch) int { return -cont(x, br) }
	var nextCont, nextPlain []*core.Call
	var write, status, clen *core.Call
	for _, cl := range u.Calls() {
		switch {
		case cl.Callee == nil && cl.Name == next:
			if g.GuardedBy(cl.Loc, isOptions) {
				nextCont = append(nextCont, cl)
			} else {
				nextPlain = append(nextPlain, cl)
			}
		case cl.Key == "types.(*HttpContext).Write":
			write = cl
		case cl.Name == "SetStatusCode":
			status = cl
		case cl.Name == "Set":
			if k, _ := core.ConstString(info, cl.Arg(0)); k == "Content-Length" {
				clen = cl
			}
		}
	}
	okPre := len(nextCont) == 1 && g.GuardedBy(nextCont[0].Loc, cont) && write != nil && status != nil && clen != nil
	if okPre {
		v, _ := core.ConstString(info, clen.Arg(1))
		se, isS := ast.Unparen(status.Arg(0)).(*ast.SelectorExpr)
		okPre = v == "0" && isS && se.Sel.Name == "OptionsSuccessStatus" &&
			g.GuardedBy(write.Loc, isOptions) && g.GuardedBy(write.Loc, noCont) && g.Dominates(status.Loc, write.Loc) && g.Dominates(clen.Loc, write.Loc) &&
			!g.CanFollow(write.Loc, nextCont[0].Loc) && !g.CanFollow(nextCont[0].Loc, write.Loc)
		for _, np := range nextPlain {
			if g.CanFollow(write.Loc, np.Loc) {
				okPre = false
			}
		}
	}
	c.Check(R, "types.CorsMiddleware/OPTIONS→next-iff-continue,else-answer-once", u.Pos(), okPre, "a preflight is answered by the server itself unless configured to pass on, and never reaches the handshake")
	okPlain := len(nextPlain) == 1 && g.GuardedBy(nextPlain[0].Loc, notOptions) && core.IsNil(info, nextPlain[0].Arg(0))
	c.Check(R, "types.CorsMiddleware/non-OPTIONS→next(nil)-once", u.Pos(), okPlain, "actual requests continue exactly once")
	// defaults
	okDef := false
	for _, f := range c.P.Pkgs["types"].Syntax {
		ast.Inspect(f, func(n ast.Node) bool {
			vs, isV := n.(*ast.ValueSpec)
			if !isV {
				return true
			}
			for i, nm := range vs.Names {
				if nm.Name != "defaultCors" || i >= len(vs.Values) {
					continue
				}
				ti := c.P.Pkgs["types"].TypesInfo
				o, m, s := false, false, false
				ast.Inspect(vs.Values[i], func(x ast.Node) bool {
					if kv, isKV := x.(*ast.KeyValueExpr); isKV {
						k, _ := kv.Key.(*ast.Ident)
						if k == nil {
							return true
						}
						switch k.Name {
						case "Origin":
							v, _ := core.ConstString(ti, kv.Value)
							o = v == "*"
						case "Methods":
							v, _ := core.ConstString(ti, kv.Value)
							m = v == "GET,HEAD,PUT,PATCH,POST,DELETE"
						case "OptionsSuccessStatus":
							v, _ := core.ConstInt(ti, kv.Value)
							s = v == 204
						}
					}
					return true
				})
				okDef = o && m && s
			}
			return true
		})
	}
	c.Check(R, "types.defaultCors/origin*,methods,204", u.Pos(), okDef, "documented defaults")
}

func c17CorsFirst(c *core.Ctx) {
	const R = "C17.7"
	c.Rule(R, "CORS runs first: baseServer.Construct installs Use(MiddlewareWrapper(cors)) on the Cors() != nil edge before Init(); middlewares is written only by Use (append); ApplyMiddlewares starts at index 0 and stops the chain on error")
	u := c.Fn(R, "engine.(*baseServer).Construct")
	if u != nil {
		g := u.Graph()
		var use, ini *core.Call
		for _, cl := range u.Calls() {
			if cl.Name == "Use" {
				if _, key := u.AsCall(cl.Arg(0)); key == "types.MiddlewareWrapper" {
					use = cl
				}
			}
			if cl.Name == "Init" {
				ini = cl
			}
		}
		ok := use != nil && ini != nil && g.CanFollow(use.Loc, ini.Loc) && !g.CanFollow(ini.Loc, use.Loc) &&
			g.GuardedBy(use.Loc, nilGuard(true, func(x *core.Unit, e ast.Expr) bool {
				d, k := x.SingleDef(e)
				return k && calleeNameOf(asCallExpr(d)) == "Cors"
			}))
		c.Check(R, "engine.(*baseServer).Construct/Use(cors)≺Init", u.Pos(), ok, "the CORS middleware is registered before any user middleware can be")
	}
	for _, ua := range fieldAssignsAnywhere(c, "baseServer.middlewares") {
		isAppend := false
		if ce, isC := ast.Unparen(ua.Rhs).(*ast.CallExpr); isC && calleeNameOf(ce) == "append" && fieldOf(ua.U.Info(), ce.Args[0]) == "baseServer.middlewares" {
			isAppend = true
		}
		c.Check(R, keyf("%s/writes-middlewares", ua.U.Key), ua.Stmt.Pos(), ua.U.Key == "engine.(*baseServer).Use" && isAppend, "middlewares only grows by Use (registration order = execution order)")
	}
	if am := c.Fn(R, "engine.(*baseServer).ApplyMiddlewares"); am != nil {
		first := false
		for _, cl := range am.Calls() {
			if cl.Callee == nil && cl.Name == "apply" {
				if v, isC := core.ConstInt(am.Info(), cl.Arg(0)); isC && v == 0 {
					first = true
				}
			}
		}
		stop := false
		for _, x := range am.AllUnits() {
			g := x.Graph()
			for _, cl := range x.Calls() {
				if cl.Callee == nil && cl.Name == "callback" && len(cl.Expr.Args) == 1 && !core.IsNil(x.Info(), cl.Arg(0)) {
					// error edge: callback(err) then return without apply(i+1)
					pn := paramName(x, 0)
					if g.GuardedBy(cl.Loc, nilGuard(true, func(y *core.Unit, e ast.Expr) bool { return isLocal(y.Info(), e, pn) })) {
						reaches := false
						for _, nx := range x.Calls() {
							if nx.Callee == nil && nx.Name == "apply" && g.CanFollow(cl.Loc, nx.Loc) {
								reaches = true
							}
						}
						stop = !reaches
					}
				}
			}
		}
		c.Check(R, "engine.(*baseServer).ApplyMiddlewares/index0-first,error-stops", am.Pos(), first && stop, "the first registered middleware runs first and an error ends the chain")
	}
}

// c17CorsChain — C17.5b: every configure step is part of the chain and its result is applied.
func c17CorsChain(c *core.Ctx) {
	const R = "C17.5b"
	c.Rule(R, "CORS chain: on the OPTIONS edge CorsMiddleware runs configureOrigin, configureCredentials, configureMethods, configureAllowedHeaders, configureMaxAge, configureExposedHeaders and applyHeaders; on the other edge configureOrigin, configureCredentials, configureExposedHeaders and applyHeaders, in each case before next / the response; applyHeaders copies every collected header into ctx.ResponseHeaders and sets Vary from the collected list")
	u := c.Fn(R, "types.CorsMiddleware")
	if u == nil {
		return
	}
	g := u.Graph()
	// group calls by the statement (chain) they belong to
	type chain struct {
		names map[string]bool
		loc   core.Loc
		pos   token.Pos
	}
	var chains []*chain
	for _, cl := range u.Calls() {
		if cl.Name != "applyHeaders" {
			continue
		}
		ch := &chain{names: map[string]bool{}, loc: cl.Loc, pos: cl.Pos()}
		ast.Inspect(cl.Expr, func(n ast.Node) bool {
			if ce, isC := n.(*ast.CallExpr); isC {
				ch.names[calleeNameOf(ce)] = true
			}
			return true
		})
		chains = append(chains, ch)
	}
	want := map[bool][]string{
		true:  {"configureOrigin", "configureCredentials", "configureMethods", "configureAllowedHeaders", "configureMaxAge", "configureExposedHeaders", "applyHeaders"},
		false: {"configureOrigin", "configureCredentials", "configureExposedHeaders", "applyHeaders"},
	}
	isOptions := func(x *core.Unit, br core.Branch) int {
		cmp, ok := x.BranchCmp(br)
		if !ok {
			return 0
		}
		isOpt := func(e ast.Expr) bool {
			v, isV := core.ObjOf(x.Info(), e).(*types.Const)
			return isV && v.Name() == "MethodOptions"
		}
		if isOpt(cmp.X) || (cmp.Y != nil && isOpt(cmp.Y)) || (cmp.Val != nil && trimQuotes(cmp.Val.ExactString()) == "OPTIONS") {
			if cmp.Op == token.EQL {
				return 1
			}
			if cmp.Op == token.NEQ {
				return -1
			}
		}
		return 0
	}
	seen := map[bool]bool{}
	for _, ch := range chains {
		pre := g.GuardedBy(ch.loc, isOptions)
		seen[pre] = true
		ok := true
		var missing []string
		for _, w := range want[pre] {
			if !ch.names[w] {
				ok = false
				missing = append(missing, w)
			}
		}
		// the chain precedes next / Write on its edge
		for _, cl := range u.Calls() {
			if (cl.Callee == nil && cl.Name == paramName(u, 2)) || cl.Key == "types.(*HttpContext).Write" {
				if g.GuardedBy(cl.Loc, isOptions) == pre && !g.Dominates(ch.loc, cl.Loc) {
					ok = false
				}
			}
		}
		c.Check(R, keyf("types.CorsMiddleware/chain(preflight=%v)", pre), ch.pos, ok, keyf("missing steps: %v", missing))
	}
	c.Check(R, "types.CorsMiddleware/both-edges-have-a-chain", u.Pos(), seen[true] && seen[false], "headers are computed and applied for preflight and for actual requests")
	if ah := c.Fn(R, "types.(*cors).applyHeaders"); ah != nil {
		info := ah.Info()
		copies, vary := false, false
		ast.Inspect(ah.Body, func(n ast.Node) bool {
			if rs, isR := n.(*ast.RangeStmt); isR && fieldOf(info, rs.X) == "cors.headers" {
				ast.Inspect(rs.Body, func(x ast.Node) bool {
					if ce, isC := x.(*ast.CallExpr); isC && calleeNameOf(ce) == "Set" && len(ce.Args) == 2 {
						if k, isK := ast.Unparen(ce.Args[0]).(*ast.SelectorExpr); isK && k.Sel.Name == "Key" {
							if v, isV := ast.Unparen(ce.Args[1]).(*ast.SelectorExpr); isV && v.Sel.Name == "Value" {
								copies = true
							}
						}
					}
					return true
				})
			}
			return true
		})
		g2 := ah.Graph()
		for _, cl := range ah.Calls() {
			if cl.Name == "Set" {
				if k, _ := core.ConstString(info, cl.Arg(0)); k == "Vary" {
					// the set on the non-* edge is guarded by len(varys) > 0 and built from varys
					if g2.GuardedBy(cl.Loc, func(x *core.Unit, br core.Branch) int {
						cmp, ok := x.BranchCmp(br)
						if !ok {
							return 0
						}
						ce, isC := ast.Unparen(cmp.X).(*ast.CallExpr)
						if isC && calleeNameOf(ce) == "len" && len(ce.Args) == 1 && fieldOf(x.Info(), ce.Args[0]) == "cors.varys" {
							if e, ok := lenPositive(cmp); ok {
								if e == 0 {
									return 1
								}
								return -1
							}
						}
						return 0
					}) {
						vary = true
					}
				}
			}
		}
		c.Check(R, "types.(*cors).applyHeaders/copies-headers+sets-Vary", ah.Pos(), copies && vary, keyf("every Kv copied to ResponseHeaders: %v; Vary set from the collected list when non-empty: %v", copies, vary))
	}
}

// c17HeaderValueTable — C17.5d: the list-valued CORS options.
func c17HeaderValueTable(c *core.Ctx) {
	const R = "C17.5d"
	c.Rule(R, "CORS header value table: configureMethods / configureAllowedHeaders / configureExposedHeaders switch on the dynamic type of their option — `string` ⇒ the header carries that string, `[]string` ⇒ strings.Join(list, \",\"), under the header name of the function (Access-Control-Allow-Methods / -Allow-Headers / -Expose-Headers); configureAllowedHeaders falls back to the legacy Headers alias exactly when AllowedHeaders is unset (== nil), and only its nil arm reflects Access-Control-Request-Headers (adding it to Vary)")
	specs := []struct{ fn, header string }{
		{"types.(*cors).configureMethods", "Access-Control-Allow-Methods"},
		{"types.(*cors).configureAllowedHeaders", "Access-Control-Allow-Headers"},
		{"types.(*cors).configureExposedHeaders", "Access-Control-Expose-Headers"},
	}
	for _, sp := range specs {
		u := c.Fn(R, sp.fn)
		if u == nil {
			continue
		}
		info := u.Info()
		var ts *ast.TypeSwitchStmt
		ast.Inspect(u.Body, func(x ast.Node) bool {
			if t, ok := x.(*ast.TypeSwitchStmt); ok && ts == nil {
				ts = t
			}
			return true
		})
		if !c.Exists(R, sp.fn+"/type-switch", u.Pos(), ts != nil, "the option's dynamic type selects the rendering") {
			continue
		}
		arms := map[string]bool{}
		for _, cc := range ts.Body.List {
			cl := cc.(*ast.CaseClause)
			if len(cl.List) != 1 {
				continue
			}
			tn := core.ExprString(cl.List[0])
			// the Kv literal(s) of this arm
			okArm := false
			ast.Inspect(cl, func(x ast.Node) bool {
				lit, isL := x.(*ast.CompositeLit)
				if !isL || core.TypeName(info.TypeOf(lit)) != "Kv" {
					return true
				}
				var key string
				var val ast.Expr
				for _, el := range lit.Elts {
					if kv, isKV := el.(*ast.KeyValueExpr); isKV {
						if id, isI := kv.Key.(*ast.Ident); isI {
							switch id.Name {
							case "Key":
								key, _ = core.ConstString(info, kv.Value)
							case "Value":
								val = kv.Value
							}
						}
					}
				}
				if key != sp.header || val == nil {
					return true
				}
				bound := info.Implicits[cl] // the per-clause object of `x := opt.(type)`
				isBound := func(e ast.Expr) bool {
					id, ok := ast.Unparen(e).(*ast.Ident)
					return ok && bound != nil && info.Uses[id] == bound
				}
				switch tn {
				case "string":
					okArm = isBound(val)
				case "[]string":
					if ce, isC := ast.Unparen(val).(*ast.CallExpr); isC && u.CalleeKey(ce) == "strings.Join" && len(ce.Args) == 2 && isBound(ce.Args[0]) {
						sep, _ := core.ConstString(info, ce.Args[1])
						okArm = sep == ","
					}
				case "nil":
					okArm = true
				}
				return true
			})
			if tn == "string" || tn == "[]string" {
				arms[tn] = okArm
				c.Check(R, keyf("%s/arm[%s]", sp.fn, tn), cl.Pos(), okArm, keyf("%s carries the option's own value (string as is, list joined with ','))", sp.header))
			}
		}
		c.Check(R, sp.fn+"/both-shapes", u.Pos(), len(arms) == 2, "string and []string arms present")
	}
	// the legacy alias
	if u := c.Fn(R, "types.(*cors).configureAllowedHeaders"); u != nil {
		info := u.Info()
		g := u.Graph()
		n, ok := 0, false
		for _, a := range assignsIn(u, func(l ast.Expr) bool { _, isI := ast.Unparen(l).(*ast.Ident); return isI }) {
			if a.Rhs == nil || fieldOf(info, a.Rhs) != "CorsOptions.Headers" && !strings.HasSuffix(fieldOf(info, a.Rhs), ".Headers") {
				continue
			}
			n++
			lhs := a.Lhs
			ok = g.GuardedBy(a.Loc, nilGuard(false, func(x *core.Unit, e ast.Expr) bool { return sameObj(x.Info(), e, lhs) }))
		}
		c.Check(R, "types.(*cors).configureAllowedHeaders/alias-only-when-unset", u.Pos(), n == 1 && ok, "allowedHeaders = options.Headers exactly on the allowedHeaders == nil edge (a configured list is never replaced by the alias or by the request's own header list)")
	}
}

func hs0Pos(hs0, l *core.Unit) token.Pos {
	if hs0 != nil {
		return hs0.Pos()
	}
	return l.Pos()
}

// c17HeaderMerge — C17.13 (fix of hunting round 3): how the bag of a polling
// response joins what the middlewares scheduled on the context.
func c17HeaderMerge(c *core.Ctx) {
	const R = "C17.13"
	c.Rule(R, "the headers of a polling response join, and do not replace, what the middlewares scheduled: mergeResponseHeaders folds the bag's field names to their canonical form in a fixed order (sorted keys, http.Header.Add) — never in map order, which let `set-cookie` and `Set-Cookie` overwrite each other at random — and for the list fields Vary and Set-Cookie stores the existing values of the context followed by the bag's (the CORS middleware's Vary: Origin and a middleware's cookie survive a headers listener that adds its own)")
	u := c.Fn(R, "transports.mergeResponseHeaders")
	if u == nil {
		return
	}
	g := u.Graph()
	info := u.Info()
	sorted, canon := false, false
	for _, cl := range u.Calls() {
		if cl.Key == "sort.Strings" || cl.Key == "slices.Sort" {
			sorted = true
		}
		if cl.Name == "Add" && cl.Recv != nil && core.TypeName(info.TypeOf(cl.Recv)) == "Header" {
			canon = true
		}
	}
	isList := func(name string) core.Guard {
		return func(x *core.Unit, br core.Branch) int {
			cmp, ok := x.BranchCmp(br)
			if !ok || cmp.Val == nil || cmp.Val.Kind() != constant.String || constant.StringVal(cmp.Val) != name {
				return 0
			}
			switch cmp.Op {
			case token.EQL:
				return 1
			case token.NEQ:
				return -1
			}
			return 0
		}
	}
	// the existing values are read and put in front on the list-field edge
	accum := false
	for _, cl := range u.Calls() {
		if cl.Name != "Gets" || cl.Recv == nil || !strings.HasSuffix(core.ExprString(cl.Recv), "ResponseHeaders") {
			continue
		}
		if g.GuardedBy(cl.Loc, gNot(isList("Vary"))) && g.GuardedBy(cl.Loc, gNot(isList("Set-Cookie"))) {
			continue // read off the list-field edge: not the accumulation
		}
		for _, ap := range u.Calls() {
			if ap.Callee == nil && ap.Name == "append" && len(ap.Expr.Args) >= 2 && g.Dominates(cl.Loc, ap.Loc) {
				if d, k := u.SingleDef(ap.Arg(0)); k {
					if te, isT := d.(*core.TupleElem); isT && te.Index == 0 && ast.Unparen(te.X) == ast.Expr(cl.Expr) {
						accum = true
					}
				}
			}
		}
	}
	// both names are tested
	both := 0
	for _, name := range []string{"Vary", "Set-Cookie"} {
		for _, f := range g.Facts() {
			if isList(name)(u, f.Br) != 0 {
				both++
				break
			}
		}
	}
	// a field scheduled without values survives the join (review of 961bd1b): some statement of the key loop handles
	// the empty value list itself — a test of len(all[k]) == 0 (or of the list being empty) with a store into the merged map
	keepsEmpty := false
	for _, f := range g.Facts() {
		cmp, ok := u.BranchCmp(f.Br)
		if !ok || cmp.Val == nil {
			continue
		}
		if ce, isC := ast.Unparen(cmp.X).(*ast.CallExpr); isC && calleeNameOf0(ce) == "len" && len(ce.Args) == 1 {
			if _, isIx := ast.Unparen(ce.Args[0]).(*ast.IndexExpr); isIx {
				keepsEmpty = true
			}
		}
	}
	c.Check(R, "transports.mergeResponseHeaders/field-without-values-kept", u.Pos(), keepsEmpty, "the empty value list of a field is carried over (it suppresses a header net/http would add)")
	c.Check(R, "transports.mergeResponseHeaders/canonical-in-fixed-order,list-fields-accumulate", u.Pos(), sorted && canon && accum && both >= 2,
		keyf("keys sorted: %v; names folded through http.Header.Add: %v; existing Vary / Set-Cookie values read and put in front of the bag's: %v", sorted, canon, accum))
}
