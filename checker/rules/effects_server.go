package rules

import (
	"go/ast"
	"go/types"
	"strings"

	"engcheck/core"

	"golang.org/x/tools/go/types/typeutil"
)

// serverEffects — effect tables of engine/server.go (routing of a request to
// a session / a handshake / a refusal, and the refusal helpers).
func serverEffects(c *core.Ctx, R string) {
	c.Rule(R, "effect table of engine/server.go: ServeHTTP routes a non-upgrade request to HandleRequest, an upgrade to HandleUpgrade iff websocket is enabled and answers 501 otherwise; HandleRequest's callback: refusal ⇒ emitAbortRequest and return; sid given ⇒ the session's Transport().OnRequest(ctx) when found, emitAbortRequest(UNKNOWN_SID) otherwise; no sid ⇒ Handshake(transport, ctx) and abortRequest with its code iff it returned no transport; HandleUpgrade's callback: refusal ⇒ emitAbortRequest; upgrade failure ⇒ emitAbortRequest(BAD_REQUEST); success ⇒ SetReadLimit ≺ wsc.Conn = conn ≺ onWebSocket; onWebSocket: a transport that does not handle upgrades ⇒ close, ctx.Websocket = wsc before any Handshake / CreateTransport, no sid ⇒ Handshake (abortUpgrade iff no transport); OnWebTransportSession: every refusal edge (hook error, upgrade error, AcceptStream / NextReader / ReadFrom error, non-OPEN first packet, undecodable or empty sid) is answered (emitAbortRequest / abortUpgrade) and returns, the accept timer's callback closes the session, an OPEN packet without payload ⇒ EIO=4 + Handshake(Proto); every exit of onWebSocket and OnWebTransportSession follows an outcome (refusal, close, Handshake or MaybeUpgrade); CreateTransport builds transport.New(ctx) exactly when the name is registered; abortRequest: 403 iff FORBIDDEN else 400, the hook's message replaces the default iff present, JSON body {code, message}; abortUpgrade: close frame on a websocket, CloseWithError(400) on a WebTransport session, plain 400 otherwise")
	// ---- ServeHTTP ----
	if u := c.Fn(R, "engine.(*server).ServeHTTP"); u != nil {
		isUp := boolCallGuard(true, "github.com/gorilla/websocket.IsWebSocketUpgrade", "websocket.IsWebSocketUpgrade")
		// resolve whichever key the call has
		for _, cl := range u.Calls() {
			if cl.Name == "IsWebSocketUpgrade" {
				isUp = boolCallGuard(true, cl.Key)
			}
		}
		wsOn := func(x *core.Unit, br core.Branch) int {
			if br.IsCase {
				return 0
			}
			ce, key := x.AsCall(br.Cond)
			if ce != nil && strings.HasSuffix(key, ".Has") && len(ce.Args) == 1 && strings.HasSuffix(selPath(ce.Args[0]), "WEBSOCKET") {
				return 1
			}
			return 0
		}
		f := requireEffects(c, R, u, []effect{
			{name: "upgrade∧websocket-enabled→HandleUpgrade", match: mName("HandleUpgrade"), on: []core.Guard{isUp, wsOn}},
			// everything else — a plain request, and an upgrade request when websocket is not enabled — is verified by
			// HandleRequest (→ documented 400 + connection_error; the 501 text/plain answer was fix 2fb2bf7)
			{name: "otherwise→HandleRequest", match: mName("HandleRequest")},
		})
		if hu, hr := f["upgrade∧websocket-enabled→HandleUpgrade"], f["otherwise→HandleRequest"]; hu != nil && hr != nil {
			g := u.Graph()
			exclusive := !g.CanFollow(hu.Loc, hr.Loc) && !g.CanFollow(hr.Loc, hu.Loc)
			every := true
			for _, r := range returnsIn(u) {
				every = every && g.DominatesAny([]core.Loc{hu.Loc, hr.Loc}, r.Loc)
			}
			if len(returnsIn(u)) == 0 {
				// no explicit return: the function falls off its end — one of the two calls lies on every path when
				// they are the two arms of one test
				every = !g.GuardedBy(hr.Loc, isUp) || !g.GuardedBy(hr.Loc, wsOn)
			}
			own := len(u.CallsTo("net/http.Error")) == 0
			c.Check(R, "engine.(*server).ServeHTTP/every-request-is-handled-by-the-engine", u.Pos(), exclusive && every && own,
				keyf("HandleUpgrade and HandleRequest exclusive: %v; one of them on every path: %v; no answer of its own (http.Error): %v", exclusive, every, own))
		}
	}
	// ---- CreateTransport ----
	if u := c.Fn(R, "engine.(*server).CreateTransport"); u != nil {
		okLookup := func(x *core.Unit, br core.Branch) int {
			if br.IsCase {
				return 0
			}
			d, ok := x.SingleDef(br.Cond)
			te, isT := d.(*core.TupleElem)
			if ok && isT && te.Index == 1 {
				if _, isIx := ast.Unparen(te.X).(*ast.IndexExpr); isIx {
					return 1
				}
			}
			return 0
		}
		requireEffects(c, R, u, []effect{{name: "registered→New(ctx)", match: mName("New"), on: []core.Guard{okLookup}}})
		g := u.Graph()
		okErr := false
		for _, r := range returnsIn(u) {
			if len(r.Stmt.Results) == 2 && core.IsNil(u.Info(), r.Stmt.Results[0]) && g.GuardedBy(r.Loc, gNot(okLookup)) {
				okErr = true
			}
		}
		c.Check(R, "engine.(*server).CreateTransport/unknown→error", u.Pos(), okErr, "an unregistered name yields (nil, error)")
	}
	refused := nilGuard(true, func(x *core.Unit, e ast.Expr) bool { return isLocalAnyDepth(x, e, "codeMessage") })
	// ---- HandleRequest$callback ----
	if u := c.Fn(R, srvHandle+"$callback"); u != nil && localAnchors(c, R, u, "codeMessage") {
		// the request names a session: Peek("sid") is non-empty, in any spelling (`!= ""`, `len(…) != 0`, `len(…) > 0` …)
		hasSid := gStrExprNonEmpty(func(x *core.Unit, e ast.Expr) bool {
			ce, key := x.AsCall(e)
			if ce == nil || !strings.HasSuffix(key, ".Peek") || len(ce.Args) != 1 {
				return false
			}
			s, _ := core.ConstString(x.Info(), ce.Args[0])
			return s == "sid"
		})
		noTransport := nilGuard(false, func(x *core.Unit, e ast.Expr) bool {
			d, ok := x.SingleDef(e)
			te, isT := d.(*core.TupleElem)
			if !ok || !isT || te.Index != 1 {
				return false
			}
			ce, isC := ast.Unparen(te.X).(*ast.CallExpr)
			return isC && strings.HasSuffix(x.CalleeKey(ce), ".Handshake")
		})
		requireEffects(c, R, u, []effect{
			{name: "refused→emitAbortRequest", match: mName("emitAbortRequest"), on: []core.Guard{refused}},
			{name: "sid∧found→OnRequest", match: mName("OnRequest"), on: []core.Guard{hasSid, okOfLoad()}, off: []core.Guard{refused}},
			{name: "sid∧vanished→emitAbortRequest(UNKNOWN_SID)", match: func(x *core.Unit, cl *core.Call) bool {
				return cl.Name == "emitAbortRequest" && strings.HasSuffix(selPath(cl.Arg(1)), "UNKNOWN_SID")
			}, on: []core.Guard{hasSid, notFound()}},
			{name: "no-sid→Handshake", match: mName("Handshake"), on: []core.Guard{gNot(hasSid)}, off: []core.Guard{refused}},
			{name: "no-transport→abortRequest(code)", match: mName("abortRequest"), on: []core.Guard{gNot(hasSid), noTransport}},
		})
		g := u.Graph()
		ret := false
		for _, r := range returnsIn(u) {
			if g.GuardedBy(r.Loc, refused) {
				ret = true
			}
		}
		c.Check(R, srvHandle+"$callback/refused→return", u.Pos(), ret, "a refused request goes no further")
	}
	// ---- HandleUpgrade$callback ----
	if u := c.Fn(R, "engine.(*server).HandleUpgrade$callback"); u != nil && localAnchors(c, R, u, "codeMessage") {
		upErr := gErrNonNil()
		f := requireEffects(c, R, u, []effect{
			{name: "refused→emitAbortRequest", match: mName("emitAbortRequest"), on: []core.Guard{refused}},
			{name: "upgrade-failure→emitAbortRequest(BAD_REQUEST)", match: func(x *core.Unit, cl *core.Call) bool {
				return cl.Name == "emitAbortRequest" && strings.HasSuffix(selPath(cl.Arg(1)), "BAD_REQUEST")
			}, on: []core.Guard{upErr}, off: []core.Guard{refused}},
			{name: "upgraded→SetReadLimit", match: mName("SetReadLimit"), on: []core.Guard{gNot(upErr)}},
			{name: "upgraded→onWebSocket", match: mName("onWebSocket"), on: []core.Guard{gNot(upErr)}, after: "upgraded→SetReadLimit"},
		})
		if ws := f["upgraded→onWebSocket"]; ws != nil {
			g := u.Graph()
			okConn := false
			conns := assignsIn(u, func(l ast.Expr) bool { return strings.HasSuffix(selPath(l), ".Conn") })
			for _, w := range u.WithHelpers() {
				conns = append(conns, fieldInits(w, "WebSocketConn.Conn")...)
			}
			for _, a := range conns {
				if (g.Dominates(a.Loc, ws.Loc) || (a.Loc.B == ws.Loc.B && a.Loc.I == ws.Loc.I)) && a.Rhs != nil {
					d, ok := u.SingleDef(a.Rhs)
					if te, isT := d.(*core.TupleElem); ok && isT && te.Index == 0 {
						if ce, isC := ast.Unparen(te.X).(*ast.CallExpr); isC && calleeNameOf(ce) == "Upgrade" {
							okConn = true
						}
					}
				}
			}
			c.Check(R, "engine.(*server).HandleUpgrade$callback/wsc.Conn=upgraded-conn≺onWebSocket", ws.Pos(), okConn, "the wrapper carries the upgraded connection before the transport is built on it")
		}
		upgraderErrorCallback(c, R, u)
	}
	// ---- onWebSocket ----
	if u := c.Fn(R, srvOnWS); u != nil && localAnchors(c, R, u, "id", "onUpgradeError") {
		g := u.Graph()
		noUp := boolCallGuard(false, "transports.(TransportCtor).HandlesUpgrades")
		for _, cl := range u.Calls() {
			if cl.Name == "HandlesUpgrades" {
				noUp = boolCallGuard(false, cl.Key)
			}
		}
		requireEffects(c, R, u, []effect{
			{name: "no-upgrade-support→Close", match: func(x *core.Unit, cl *core.Call) bool {
				if cl.Name != "Close" {
					return false
				}
				// the close that ends the handler here: nothing of the gate is reachable after it
				for _, k := range x.Calls() {
					if (k.Name == "Handshake" || k.Name == "MaybeUpgrade" || k.Name == "CreateTransport") && x.Graph().CanFollow(cl.Loc, k.Loc) {
						return false
					}
				}
				for _, k := range x.Calls() {
					if k.Name == "Load" && x.Graph().Dominates(k.Loc, cl.Loc) {
						return false // one of the gate's own closes
					}
				}
				return true
			}, on: []core.Guard{noUp}},
			{name: "On(error,onUpgradeError)", match: mListener("On", "error", "onUpgradeError")},
		})
		// ctx.Websocket = wsc precedes Handshake / CreateTransport / MaybeUpgrade
		var set *Assign
		for _, a := range assignsIn(u, func(l ast.Expr) bool { return fieldOf(u.Info(), l) == "HttpContext.Websocket" }) {
			a := a
			set = &a
		}
		okSet := set != nil && isLocal(u.Info(), set.Rhs, paramName(u, 1))
		if okSet {
			for _, cl := range u.Calls() {
				if cl.Name == "Handshake" || cl.Name == "CreateTransport" || cl.Name == "MaybeUpgrade" {
					okSet = okSet && g.Dominates(set.Loc, cl.Loc)
				}
			}
		}
		c.Check(R, srvOnWS+"/ctx.Websocket=wsc-before-any-transport", u.Pos(), okSet, "the context carries the connection before a transport is constructed from it")
		noSid := gNot(gStrLocalNonEmpty("id"))
		requireEffects(c, R, u, []effect{
			{name: "no-sid→Handshake", match: mName("Handshake"), on: []core.Guard{noSid}},
			{name: "sid→MaybeUpgrade", match: mName("MaybeUpgrade"), on: []core.Guard{gNot(noSid)}},
		})
	}
	// ---- outcome on every exit ----
	for _, k := range []string{srvOnWS, srvOnWT} {
		u := c.Fn(R, k)
		if u == nil {
			continue
		}
		g := u.Graph()
		var outcomes []core.Loc
		for _, cl := range u.Calls() {
			switch cl.Name {
			case "abortUpgrade", "emitAbortRequest", "emitAbortUpgrade", "Close", "CloseWithError", "MaybeUpgrade", "Handshake":
				if !cl.Deferred {
					outcomes = append(outcomes, cl.Loc)
				}
			}
		}
		n := 0
		for _, r := range returnsIn(u) {
			n++
			c.Check(R, k+"/every-exit-follows-an-outcome", r.Stmt.Pos(), len(outcomes) > 0 && g.DominatesAny(outcomes, r.Loc), "no path leaves the handler without refusing, closing, handshaking or starting an upgrade")
		}
		c.Need(R, "exits of "+k, n, 3)
	}
	// ---- OnWebTransportSession specifics ----
	if u := c.Fn(R, srvOnWT); u != nil {
		g := u.Graph()
		// every error test (`err != nil`, Decode(...) != nil) is followed on its failing edge by a refusal and a return
		nErr := 0
		seenAtom := map[ast.Expr]bool{}
		for _, f := range g.Facts() {
			if f.Br.IsCase || seenAtom[f.Br.Cond] {
				continue
			}
			cmp, ok := u.BranchCmp(f.Br)
			if !ok || cmp.Y == nil || !core.IsNil(u.Info(), cmp.Y) || (cmp.Op.String() != "!=" && cmp.Op.String() != "==") || !anyErr(u, cmp.X) {
				continue
			}
			seenAtom[f.Br.Cond] = true
			nErr++
			atom := f.Br.Cond
			neq := cmp.Op.String() == "!="
			failing := func(x *core.Unit, br core.Branch) int { // the edge on which the error is non-nil
				if !br.IsCase && br.Cond == atom {
					if neq {
						return 1
					}
					return -1
				}
				return 0
			}
			refusal, ret := false, true
			for _, cl := range u.Calls() {
				switch cl.Name {
				case "abortUpgrade", "emitAbortRequest", "CloseWithError", "Close":
					if g.GuardedBy(cl.Loc, failing) {
						refusal = true
					} else if ok, _ := g.DisjunctGuard(cl.Loc, failing); ok {
						refusal = true // the failure is one member of a merged refusal test: the refusal still runs whenever it holds
					}
				case "MaybeUpgrade", "Handshake", "NextReader", "NewConn", "AcceptStream", "DecodePacket", "Decode":
					// no progress after a failure: nothing of the handshake may still be reachable from the failing edge
					// nothing of the handshake is reachable from the edge on which the error is non-nil
					for _, ff := range g.Facts() {
						if ff.Br.Cond != atom || ff.Val != neq {
							continue
						}
						if cl.Pos() > atom.End() && g.Reach(core.State{B: ff.Br.B.Succs[ff.Edge], I: 0}, func(st core.State) bool { return st.B == cl.Loc.B && st.I == cl.Loc.I }, nil, nil) {
							ret = false
						}
					}
				}
			}
			c.Check(R, keyf("%s/error(%s)→refuse∧stop", srvOnWT, core.ExprString(cmp.X)), f.Br.Cond.Pos(), refusal && ret, keyf("refusal on the failing edge: %v; no further handshake step reachable from it: %v", refusal, ret))
		}
		c.Need(R, "error tests in OnWebTransportSession", nErr, 6)
		notOpen := func(x *core.Unit, br core.Branch) int {
			cmp, ok := x.BranchCmp(br)
			if !ok || !strings.HasSuffix(selPath(cmp.X), ".Type") || cmp.Y == nil && cmp.Val == nil {
				return 0
			}
			y := ""
			if cmp.Y != nil {
				y = selPath(cmp.Y)
			} else if be, isB := ast.Unparen(br.Cond).(*ast.BinaryExpr); isB {
				y = selPath(be.Y)
			}
			if !strings.HasSuffix(y, "OPEN") {
				return 0
			}
			if cmp.Op.String() == "!=" {
				return 1
			}
			if cmp.Op.String() == "==" {
				return -1
			}
			return 0
		}
		emptyPayload := func(x *core.Unit, br core.Branch) int {
			cmp, ok := x.BranchCmp(br)
			if !ok || cmp.Val == nil || cmp.Val.ExactString() != "0" {
				return 0
			}
			_, key := x.AsCall(cmp.X)
			if !strings.HasSuffix(key, ".Len") {
				return 0
			}
			if cmp.Op.String() == "==" {
				return 1
			}
			if cmp.Op.String() == "!=" || cmp.Op.String() == ">" {
				return -1
			}
			return 0
		}
		emptySid := gNot(gStrExprNonEmpty(func(x *core.Unit, e ast.Expr) bool { return strings.HasSuffix(selPath(e), ".Sid") }))
		requireEffects(c, R, u, []effect{
			{name: "not-OPEN→abortUpgrade", match: mName("abortUpgrade"), on: []core.Guard{notOpen}},
			{name: "OPEN∧empty→EIO=4", match: func(x *core.Unit, cl *core.Call) bool {
				a, _ := core.ConstString(x.Info(), cl.Arg(0))
				b, _ := core.ConstString(x.Info(), cl.Arg(1))
				return cl.Name == "Set" && a == "EIO" && b == "4"
			}, on: []core.Guard{gNot(notOpen), emptyPayload}},
			{name: "OPEN∧empty→Handshake", match: mName("Handshake"), on: []core.Guard{gNot(notOpen), emptyPayload}, after: "OPEN∧empty→EIO=4"},
			{name: "empty-sid→abortUpgrade", match: mName("abortUpgrade"), on: []core.Guard{emptySid}},
			{name: "sid→MaybeUpgrade", match: mName("MaybeUpgrade"), on: []core.Guard{gNot(emptySid), gNot(notOpen)}},
			{name: "Binary→BytesBuffer", match: mName("NewBytesBuffer")},
			{name: "Text→StringBuffer", match: mName("NewStringBuffer")},
		})
		for _, r := range returnsIn(u) {
			_ = r
		}
		// returns on the two value refusals
		for name, gd := range map[string]core.Guard{"not-OPEN": notOpen, "empty-sid": emptySid, "OPEN∧empty": emptyPayload} {
			ret := false
			for _, r := range returnsIn(u) {
				if g.GuardedBy(r.Loc, gd) {
					ret = true
				} else if ok, others := g.DisjunctGuard(r.Loc, gd); ok {
					// merged with other refusal tests (`if err != nil || wth.Sid == ""`): every member ends the handler
					all := true
					for _, o := range others {
						lic := g.Establishes(gErrNonNil(), o, r.Loc.B)
						for _, g2 := range []core.Guard{notOpen, emptySid} {
							lic = lic || g.Establishes(g2, o, r.Loc.B)
						}
						all = all && lic
					}
					ret = ret || all
				}
			}
			c.Check(R, keyf("%s/%s→return", srvOnWT, name), u.Pos(), ret, "this edge ends the handler")
		}
		if k := c.Fn(R, srvOnWT+"$SetTimeout.arg0"); k != nil {
			requireEffects(c, R, k, []effect{{name: "accept-timeout→session.CloseWithError", match: mName("CloseWithError")}})
		}
	}
	// ---- abortRequest / abortUpgrade ----
	if u := c.Fn(R, "engine.abortRequest"); u != nil && localAnchors(c, R, u, "errorContext", "message") {
		g := u.Graph()
		info := u.Info()
		hasCtx := gNilLocal("errorContext", true)
		okMsg := func(x *core.Unit, br core.Branch) int {
			if br.IsCase {
				return 0
			}
			d, ok := x.SingleDef(br.Cond)
			te, isT := d.(*core.TupleElem)
			if ok && isT && te.Index == 1 {
				if _, isIx := ast.Unparen(te.X).(*ast.IndexExpr); isIx {
					return 1
				}
			}
			return 0
		}
		nMsg := 0
		// the selection may have moved into a novel private helper that returns the message: judge it there
		mu, mg, mctx := u, g, hasCtx
		mname := "message"
		if hu, hv := followNovelResult(c, u, localVarByName(u, "message")); hu != nil {
			c.Touch(hu)
			mu, mg, mname = hu, hu.Graph(), hv.Name()
			mctx = gNilLocal(paramName(hu, 1), true)
		}
		for _, a := range assignsIn(mu, func(l ast.Expr) bool { return isLocal(info, l, mname) }) {
			if _, isTA := ast.Unparen(a.Rhs).(*ast.TypeAssertExpr); isTA {
				nMsg++
				c.Check(R, "engine.abortRequest/hook-message-iff-present", a.Stmt.Pos(), mg.GuardedBy(a.Loc, mctx) && mg.GuardedBy(a.Loc, okMsg), "the context's message replaces the default only when a context with a message was given")
			}
		}
		c.Need(R, "message override in abortRequest", nMsg, 1)
		marshalOK := nilGuard(false, anyErr)
		requireEffects(c, R, u, []effect{
			{name: "SetStatusCode(statusCode)", match: mName("SetStatusCode")},
			{name: "marshal-ok→Write(json)", match: mKey("types.(*HttpContext).Write"), on: []core.Guard{marshalOK}, after: "SetStatusCode(statusCode)"},
			{name: "marshal-failed→fallback-body", match: mKey("io.WriteString"), off: []core.Guard{marshalOK}},
		})
	}
	if u := c.Fn(R, "engine.abortUpgrade"); u != nil && localAnchors(c, R, u, "errorContext", "message") {
		{
			g := u.Graph()
			info := u.Info()
			hasCtx := gNilLocal("errorContext", true)
			okMsg := func(x *core.Unit, br core.Branch) int {
				if br.IsCase {
					return 0
				}
				d, ok := x.SingleDef(br.Cond)
				te, isT := d.(*core.TupleElem)
				if ok && isT && te.Index == 1 {
					if _, isIx := ast.Unparen(te.X).(*ast.IndexExpr); isIx {
						return 1
					}
				}
				return 0
			}
			nMsg := 0
			// the selection may have moved into a novel private helper that returns the message: judge it there
			mu, mg, mctx := u, g, hasCtx
			mname := "message"
			if hu, hv := followNovelResult(c, u, localVarByName(u, "message")); hu != nil {
				c.Touch(hu)
				mu, mg, mname = hu, hu.Graph(), hv.Name()
				mctx = gNilLocal(paramName(hu, 1), true)
			}
			for _, a := range assignsIn(mu, func(l ast.Expr) bool { return isLocal(info, l, mname) }) {
				if _, isTA := ast.Unparen(a.Rhs).(*ast.TypeAssertExpr); isTA {
					nMsg++
					c.Check(R, "engine.abortUpgrade/hook-message-iff-present", a.Stmt.Pos(), mg.GuardedBy(a.Loc, mctx) && mg.GuardedBy(a.Loc, okMsg), "the context's message replaces the default only when a context with a message was given")
				}
			}
			c.Need(R, "message override in abortUpgrade", nMsg, 1)
		}
		isWS := nilGuard(true, func(x *core.Unit, e ast.Expr) bool { return fieldOf(x.Info(), e) == "HttpContext.Websocket" })
		isWT := nilGuard(true, func(x *core.Unit, e ast.Expr) bool { return fieldOf(x.Info(), e) == "HttpContext.WebTransport" })
		requireEffects(c, R, u, []effect{
			{name: "websocket→close-frame", match: mName("WriteMessage"), on: []core.Guard{isWS}},
			{name: "websocket→defer-Close", match: func(x *core.Unit, cl *core.Call) bool { return cl.Deferred && cl.Name == "Close" }, on: []core.Guard{isWS}},
			{name: "webtransport→CloseWithError(400)", match: mNameInt("CloseWithError", 0, 400), on: []core.Guard{isWT, gNot(isWS)}},
			{name: "plain→400", match: mNameInt("SetStatusCode", 0, 400), on: []core.Guard{gNot(isWS), gNot(isWT)}},
			{name: "plain→body", match: mKey("io.WriteString"), on: []core.Guard{gNot(isWS), gNot(isWT)}, after: "plain→400"},
		})
	}
}

func calleeNameOf0(c *ast.CallExpr) string {
	if id, ok := ast.Unparen(c.Fun).(*ast.Ident); ok {
		return id.Name
	}
	return calleeNameOf(c)
}

// upgraderErrorCallback: a websocket handshake that gorilla refuses is answered by
// the server's own JSON error (emitAbortRequest on the error edge). That holds
// only while the Upgrader carries an Error callback — without one gorilla answers
// first, with http.Error's plain text — and the callback leaves the response alone.
func upgraderErrorCallback(c *core.Ctx, R string, u *core.Unit) {
	n := 0
	for _, w := range u.WithHelpers() {
		info := w.Info()
		ast.Inspect(w.Body, func(nd ast.Node) bool {
			cl, ok := nd.(*ast.CompositeLit)
			if !ok {
				return true
			}
			tv, has := info.Types[cl]
			if !has || core.TypeName(tv.Type) != "Upgrader" {
				return true
			}
			n++
			var lit *ast.FuncLit
			for _, el := range cl.Elts {
				kv, isKV := el.(*ast.KeyValueExpr)
				if id, isI := kv.Key.(*ast.Ident); !isKV || !isI || id.Name != "Error" {
					continue
				}
				lit = closureValue(c, w, kv.Value)
			}
			silent := false
			if lit != nil && lit.Type.Params != nil && len(lit.Type.Params.List) > 0 {
				silent = true
				for _, nm := range lit.Type.Params.List[0].Names {
					obj := info.Defs[nm]
					ast.Inspect(lit.Body, func(x ast.Node) bool {
						if id, isI := x.(*ast.Ident); isI && obj != nil && info.Uses[id] == obj {
							silent = false
						}
						return true
					})
				}
			}
			c.Check(R, keyf("%s/Upgrader.Error-set,leaves-the-response-alone", u.Key), cl.Pos(), lit != nil && silent,
				keyf("Error callback present: %v; its ResponseWriter parameter unused: %v (without the callback gorilla answers a refused handshake itself, ahead of the JSON error)", lit != nil, silent))
			return true
		})
	}
	c.Need(R, "websocket.Upgrader literals in HandleUpgrade", n, 1)
}

// closureValue resolves an expression to the function literal it denotes: the literal itself, a local defined once by
// one, or the call of a private helper that returns one.
func closureValue(c *core.Ctx, u *core.Unit, e ast.Expr) *ast.FuncLit {
	e = ast.Unparen(e)
	if l, ok := e.(*ast.FuncLit); ok {
		return l
	}
	if _, ok := e.(*ast.Ident); ok {
		if d, k := u.SingleDef(e); k {
			if dl, isE := d.(ast.Expr); isE && dl != e {
				return closureValue(c, u, dl)
			}
		}
		return nil
	}
	if ce, ok := e.(*ast.CallExpr); ok {
		if f, _ := typeutil.Callee(u.Info(), ce).(*types.Func); f != nil {
			if h := c.P.UnitOf(f); h != nil {
				var lit *ast.FuncLit
				for _, r := range returnsIn(h) {
					if len(r.Stmt.Results) == 1 {
						lit = closureValue(c, h, r.Stmt.Results[0])
					}
				}
				return lit
			}
		}
	}
	return nil
}
