package rules

import (
	"go/ast"
	"go/constant"
	"go/token"
	"go/types"
	"strings"

	"engcheck/core"
)

// This file holds "effect tables": for the functions that implement a
// property's mechanism, the calls that must exist, with their constant
// arguments, on the edges that license them. They complement the rules that
// quantify over existing constructs (which pass vacuously once the construct
// is deleted or its guard inverted) and were written from the survivors of the
// mutation audit (cmd/mutaudit): statement deletions, negated conditions and
// &&/|| swaps that no earlier rule reported.
//
// An entry is satisfied by a call (in the unit's own body) that matches, is
// established-guarded by every `on` guard and by none of the `off` guards.
// Guards are the same resolved-object recognisers used everywhere else; no
// entry looks at text or positions.

type callMatch func(u *core.Unit, cl *core.Call) bool

type effect struct {
	name  string
	match callMatch
	on    []core.Guard
	off   []core.Guard
	after string // name of an earlier effect of the same table that must dominate this one
}

// requireEffects evaluates a table on one unit; returns the matched calls by name.
func requireEffects(c *core.Ctx, R string, u *core.Unit, table []effect) map[string]*core.Call {
	found := map[string]*core.Call{}
	if u == nil {
		return found
	}
	g := u.Graph()
	for _, e := range table {
		var hit *core.Call
		why := "no such call"
		for _, cl := range u.CallsX() { // the unit's own calls, then those of novel private helpers it calls (judged at the helper call)
			if !e.match(u, cl) {
				continue
			}
			ok := true
			why = "call present but not on the required edge"
			for _, gd := range e.on {
				if !g.GuardedBy(cl.Loc, gd) && !mergedRefusal(u, cl, gd, e, table) {
					ok = false
				}
			}
			for _, gd := range e.off {
				if g.GuardedBy(cl.Loc, gd) {
					ok = false
				}
			}
			if ok && e.after != "" {
				if p := found[e.after]; p == nil || !g.Dominates(p.Loc, cl.Loc) {
					ok = false
					why = "not preceded by " + e.after
				}
			}
			if ok {
				hit = cl
				break
			}
		}
		pos := u.Pos()
		if hit != nil {
			pos = hit.Pos()
			found[e.name] = hit
			why = ""
		}
		c.Check(R, u.Key+"/"+e.name, pos, hit != nil, why)
	}
	return found
}

// mergedRefusal: the call is not dominated by the guard's own edge but by an
// edge that establishes "guard ∨ other conditions", and each of the other
// conditions is itself a licence for the same call — an error test (`err !=
// nil`) or the `on` guard of another entry of the table that matches this call.
// That is the shape of two adjacent tests with identical bodies merged into one
// `if a || b { … }`: the call still runs whenever the guard's fact holds, and
// runs in no case in which it did not run before.
func mergedRefusal(u *core.Unit, cl *core.Call, gd core.Guard, self effect, table []effect) bool {
	g := u.Graph()
	ok, others := g.DisjunctGuard(cl.Loc, gd)
	if !ok {
		return false
	}
	return othersAreLicences(u, cl, others, self.name, table)
}

func othersAreLicences(u *core.Unit, cl *core.Call, others []core.CondAtom, selfName string, table []effect) bool {
	g := u.Graph()
	errG := gErrNonNil()
	for _, o := range others {
		lic := g.Establishes(errG, o, cl.Loc.B)
		for _, e2 := range table {
			if lic || e2.name == selfName || (cl != nil && !e2.match(u, cl)) {
				continue
			}
			for _, g2 := range e2.on {
				if g.Establishes(g2, o, cl.Loc.B) {
					lic = true
				}
			}
		}
		if !lic {
			return false
		}
	}
	return true
}

// ---- matchers ----

func mName(name string) callMatch {
	return func(u *core.Unit, cl *core.Call) bool { return cl.Name == name }
}

func mKey(key string) callMatch {
	return func(u *core.Unit, cl *core.Call) bool { return cl.Key == key }
}

// mNameStr: method/function name with a constant string argument at index i.
func mNameStr(name string, i int, val string) callMatch {
	return func(u *core.Unit, cl *core.Call) bool {
		if cl.Name != name {
			return false
		}
		s, ok := core.ConstString(u.Info(), cl.Arg(i))
		return ok && s == val
	}
}

// mNameStrHas: like mNameStr with substring match.
func mNameStrHas(name string, i int, sub string) callMatch {
	return func(u *core.Unit, cl *core.Call) bool {
		if cl.Name != name {
			return false
		}
		s, ok := core.ConstString(u.Info(), cl.Arg(i))
		return ok && strings.Contains(s, sub)
	}
}

func mNameInt(name string, i int, val int64) callMatch {
	return func(u *core.Unit, cl *core.Call) bool {
		if cl.Name != name {
			return false
		}
		v, ok := core.ConstInt(u.Info(), cl.Arg(i))
		return ok && v == val
	}
}

func mNameBool(name string, i int, val bool) callMatch {
	return func(u *core.Unit, cl *core.Call) bool {
		if cl.Name != name {
			return false
		}
		v, ok := core.ConstBool(u.Info(), cl.Arg(i))
		return ok && v == val
	}
}

// mFieldCall: a method `name` invoked on struct field "Type.field".
func mFieldCall(field, name string) callMatch {
	return func(u *core.Unit, cl *core.Call) bool {
		return cl.Name == name && cl.Recv != nil && fieldOf(u.Info(), cl.Recv) == field
	}
}

// mFieldStoreNil: field.Store(nil)
func mFieldStoreNil(field string) callMatch {
	return func(u *core.Unit, cl *core.Call) bool {
		return cl.Name == "Store" && cl.Recv != nil && fieldOf(u.Info(), cl.Recv) == field && cl.Arg(0) != nil && core.IsNil(u.Info(), cl.Arg(0))
	}
}

// mLocalCall: call of a local closure variable by name.
func mLocalCall(name string) callMatch {
	return func(u *core.Unit, cl *core.Call) bool { return cl.Callee == nil && cl.Name == name }
}

// mSendsPacket: a Send whose batch literal contains a packet of the given type constant.
func mSendsPacket(typ string) callMatch {
	return func(u *core.Unit, cl *core.Call) bool {
		if cl.Name != "Send" || cl.Arg(0) == nil {
			return false
		}
		hit := false
		ast.Inspect(cl.Arg(0), func(n ast.Node) bool {
			if kv, ok := n.(*ast.KeyValueExpr); ok && pktConst(u.Info(), kv.Value, typ) {
				hit = true
			}
			return true
		})
		return hit
	}
}

// mListener: On/Once/RemoveListener(event, <local listener variable>)
func mListener(kind, event, listener string) callMatch {
	return func(u *core.Unit, cl *core.Call) bool {
		if cl.Name != kind {
			return false
		}
		s, ok := core.ConstString(u.Info(), cl.Arg(0))
		if !ok || s != event {
			return false
		}
		return listener == "" || isLocalAnyDepth(u, cl.Arg(1), listener)
	}
}

// isLocalAnyDepth: e is an identifier named name denoting a local variable (possibly of an enclosing unit).
func isLocalAnyDepth(u *core.Unit, e ast.Expr, name string) bool {
	if e == nil {
		return false
	}
	id, ok := ast.Unparen(e).(*ast.Ident)
	if !ok {
		return false
	}
	if f, isF := core.ObjOf(u.Info(), id).(*types.Func); isF && f.Name() == name && closureTurnedFunc(u, f) {
		return true // the closure that was bound to this local is a named function now (closure → function, same name)
	}
	v, ok := core.ObjOf(u.Info(), id).(*types.Var)
	return ok && !v.IsField() && (core.CanonName(v) == name || id.Name == name)
}

// ---- guards ----

// gLocalStrEq: `<local defined as call *.accessor()> == val` (true edge establishes it).
func gCallStrEq(accessorSuffix, val string) core.Guard {
	return func(u *core.Unit, br core.Branch) int {
		cmp, ok := u.BranchCmp(br)
		if !ok || cmp.Val == nil {
			return 0
		}
		if trimQuotes(cmp.Val.ExactString()) != val {
			return 0
		}
		_, key := u.AsCall(cmp.X)
		if !strings.HasSuffix(key, accessorSuffix) {
			return 0
		}
		switch cmp.Op {
		case token.EQL:
			return 1
		case token.NEQ:
			return -1
		}
		return 0
	}
}

func gNot(g core.Guard) core.Guard {
	return func(u *core.Unit, br core.Branch) int { return -g(u, br) }
}

// gBoolLocal: the condition is the boolean local `name` (true edge).
func gBoolLocal(name string) core.Guard {
	return func(u *core.Unit, br core.Branch) int {
		if br.IsCase {
			return 0
		}
		if isLocalAnyDepth(u, br.Cond, name) {
			return 1
		}
		return 0
	}
}

// gCallIntEq: `<call *.suffix()> == n`.
func gCallIntEq(suffix string, n int64) core.Guard {
	return func(u *core.Unit, br core.Branch) int {
		cmp, ok := u.BranchCmp(br)
		if !ok || cmp.Val == nil {
			return 0
		}
		iv := constant.ToInt(cmp.Val)
		if iv.Kind() != constant.Int {
			return 0
		}
		if v, exact := constant.Int64Val(iv); !exact || v != n {
			return 0
		}
		_, key := u.AsCall(cmp.X)
		if !strings.HasSuffix(key, suffix) {
			return 0
		}
		switch cmp.Op {
		case token.EQL:
			return 1
		case token.NEQ:
			return -1
		}
		return 0
	}
}

// gNilLocal: `<local name> != nil` true edge (nonNil) / `== nil` (when nonNil is false).
func gNilLocal(name string, nonNil bool) core.Guard {
	return nilGuard(nonNil, func(u *core.Unit, e ast.Expr) bool { return isLocalAnyDepth(u, e, name) })
}

// gNilFieldLoad: `<field>.Load() != nil`.
func gNilFieldLoad(field string, nonNil bool) core.Guard {
	return nilGuard(nonNil, func(u *core.Unit, e ast.Expr) bool {
		ce, _ := u.AsCall(e)
		if ce == nil {
			return false
		}
		se, ok := ast.Unparen(ce.Fun).(*ast.SelectorExpr)
		return ok && se.Sel.Name == "Load" && fieldOf(u.Info(), se.X) == field
	})
}

// gErrNonNil: `err != nil` on any error-typed expression.
func gErrNonNil() core.Guard { return nilGuard(true, anyErr) }

// errPolarity — the error-propagation idiom `if err != nil { return …, err }`
// keeps its polarity: on the edge where a comparison has just established that
// an error variable IS nil, no return statement hands that variable back as
// its error result (that is the inverted guard: failures fall through as
// successes with half-built values, successes are reported as nil-error
// failures with nil values).
func errPolarity(c *core.Ctx, R string, pkgs ...string) {
	c.Rule(R, "error-propagation polarity ("+strings.Join(pkgs, ", ")+"): no `return …, err` is reachable only through the edge on which `err == nil` has just been established for that same error variable, unless it is re-assigned in between (an inverted `if err != nil` guard)")
	in := map[string]bool{}
	for _, p := range pkgs {
		in[p] = true
	}
	n := 0
	for _, u := range c.P.Units {
		if u.Pkg == nil || u.Pkg.Types == nil || !in[u.Pkg.Types.Name()] {
			continue
		}
		info := u.Info()
		g := u.Graph()
		for _, f := range g.Facts() {
			if f.Br.IsCase {
				continue
			}
			be, ok := ast.Unparen(f.Br.Cond).(*ast.BinaryExpr)
			if !ok || (be.Op != token.EQL && be.Op != token.NEQ) {
				continue
			}
			x := be.X
			if core.IsNil(info, be.X) {
				x = be.Y
			} else if !core.IsNil(info, be.Y) {
				continue
			}
			id, isI := ast.Unparen(x).(*ast.Ident)
			if !isI || !anyErr(u, x) {
				continue
			}
			obj := core.ObjOf(info, id)
			if obj == nil {
				continue
			}
			n++
			isNilEdge := (be.Op == token.EQL) == f.Val
			if !isNilEdge {
				continue
			}
			for _, nd := range g.DominatedNodes(f.Br.B, f.Edge) {
				reassigned := false
				ast.Inspect(nd, func(y ast.Node) bool {
					if as, ok := y.(*ast.AssignStmt); ok {
						for _, l := range as.Lhs {
							if lid, ok := l.(*ast.Ident); ok && core.ObjOf(info, lid) == obj {
								reassigned = true
							}
						}
					}
					return true
				})
				if reassigned {
					break
				}
				rs, isR := nd.(*ast.ReturnStmt)
				if !isR {
					continue
				}
				for _, res := range rs.Results {
					if rid, ok := ast.Unparen(res).(*ast.Ident); ok && core.ObjOf(info, rid) == obj {
						c.Violate(R, keyf("%s/return(%s)-on-its-nil-edge", u.Key, id.Name), rs.Pos(), keyf("%s is returned as the error on the edge where the test has established it is nil", id.Name))
					}
				}
			}
		}
	}
	c.Need(R, "error nil-tests examined", n, 10)
	c.Check(R, "repo/error-returns-on-the-non-nil-edge", token.NoPos, true, keyf("%d error tests examined", n))
}

// valueAfterErrCheck — `v, err := f()`: a pointer / interface / slice / map /
// func result is used only where err has been established nil. The repository
// writes this as `if err != nil { …; return }`; deleting or inverting that
// guard lets the zero value through (nil stream handed to NewConn, nil writer
// closed, nil buffer compressed).
func valueAfterErrCheck(c *core.Ctx, R string, pkgs ...string) {
	c.Rule(R, "value-after-error-check ("+strings.Join(pkgs, ", ")+"): for every `v…, err := call(…)` with a named error, each later use of a nil-able v (pointer, interface, func, chan — a nil slice or map is usable) in the same function lies on an edge where `err == nil` has been established for that variable (false edge of `err != nil` or true edge of `err == nil`); comparing v with nil, re-assigning it, or passing it on together with err is not a use")
	in := map[string]bool{}
	for _, p := range pkgs {
		in[p] = true
	}
	nDefs, nUses := 0, 0
	for _, u := range c.P.Units {
		if u.Pkg == nil || u.Pkg.Types == nil || !in[u.Pkg.Types.Name()] {
			continue
		}
		info := u.Info()
		g := u.Graph()
		type def struct {
			stmt ast.Node
			errO types.Object
			vals []types.Object
		}
		var defs []def
		ast.Inspect(u.Body, func(x ast.Node) bool {
			switch s := x.(type) {
			case *ast.FuncLit:
				return false
			case *ast.AssignStmt:
				if len(s.Lhs) < 2 || len(s.Rhs) != 1 {
					return true
				}
				if _, isCall := ast.Unparen(s.Rhs[0]).(*ast.CallExpr); !isCall {
					return true
				}
				last, ok := s.Lhs[len(s.Lhs)-1].(*ast.Ident)
				if !ok || last.Name == "_" || !anyErr(u, last) {
					return true
				}
				d := def{stmt: s, errO: core.ObjOf(info, last)}
				for _, l := range s.Lhs[:len(s.Lhs)-1] {
					id, ok := l.(*ast.Ident)
					if !ok || id.Name == "_" {
						continue
					}
					o := core.ObjOf(info, id)
					if o == nil {
						continue
					}
					switch o.Type().Underlying().(type) {
					case *types.Pointer, *types.Interface, *types.Signature, *types.Chan:
						d.vals = append(d.vals, o) // slices and maps are usable when nil
					}
				}
				if d.errO != nil && len(d.vals) > 0 {
					defs = append(defs, d)
				}
			}
			return true
		})
		for _, d := range defs {
			nDefs++
			// the test must be one made AFTER this definition (the same err variable is reused by later `:=`)
			errNil := nilGuard(false, func(x *core.Unit, e ast.Expr) bool {
				id, ok := ast.Unparen(e).(*ast.Ident)
				return ok && core.ObjOf(x.Info(), id) == d.errO && id.Pos() > d.stmt.End()
			})
			defLoc := g.LocOf(d.stmt)
			// uses
			var visit func(n ast.Node, parent ast.Node)
			seen := map[*ast.Ident]bool{}
			ast.Inspect(u.Body, func(x ast.Node) bool {
				if _, isLit := x.(*ast.FuncLit); isLit {
					return false
				}
				// skip nil comparisons and assignments to v
				switch s := x.(type) {
				case *ast.BinaryExpr:
					if core.IsNil(info, s.X) || core.IsNil(info, s.Y) {
						for _, side := range []ast.Expr{s.X, s.Y} {
							if id, ok := ast.Unparen(side).(*ast.Ident); ok {
								seen[id] = true
							}
						}
					}
				case *ast.AssignStmt:
					for _, l := range s.Lhs {
						if id, ok := l.(*ast.Ident); ok {
							seen[id] = true
						}
					}
				case *ast.ReturnStmt:
					// `return v, err` forwards both
					hasErr := false
					for _, r := range s.Results {
						if id, ok := ast.Unparen(r).(*ast.Ident); ok && core.ObjOf(info, id) == d.errO {
							hasErr = true
						}
					}
					if hasErr {
						for _, r := range s.Results {
							if id, ok := ast.Unparen(r).(*ast.Ident); ok {
								seen[id] = true
							}
						}
					}
				case *ast.Ident:
					if seen[s] {
						return true
					}
					o := info.Uses[s]
					if o == nil {
						return true
					}
					isVal := false
					for _, v := range d.vals {
						if v == o {
							isVal = true
						}
					}
					if !isVal || s.Pos() <= d.stmt.End() {
						return true
					}
					loc := g.LocOf(s)
					if !loc.Valid() || !g.Dominates(defLoc, loc) {
						return true
					}
					nUses++
					c.Check(R, keyf("%s/use(%s)-after-%s-check", u.Key, s.Name, d.errO.Name()), s.Pos(), g.GuardedBy(loc, errNil), keyf("%s is used where %s has not been established nil", s.Name, d.errO.Name()))
				}
				return true
			})
			_ = visit
		}
	}
	c.Need(R, "`v, err :=` definitions with a nil-able value", nDefs, 5)
	c.Need(R, "uses of such values", nUses, 5)
}

// evalIntCond evaluates a boolean expression built from comparisons of the
// local variable `name` with integer constants, combined with &&, ||, !, for
// name = val. ok is false when the expression has any other shape.
func evalIntCond(u *core.Unit, e ast.Expr, name string, val int64) (res bool, ok bool) {
	info := u.Info()
	switch x := ast.Unparen(e).(type) {
	case *ast.CallExpr:
		// a boolean pure helper of the same package (isData(frameType)) stands for the expression it returns
		if y := u.ExpandPredicate(x); y != nil {
			return evalIntCond(u, y, name, val)
		}
	case *ast.UnaryExpr:
		if x.Op == token.NOT {
			r, k := evalIntCond(u, x.X, name, val)
			return !r, k
		}
	case *ast.BinaryExpr:
		switch x.Op {
		case token.LAND, token.LOR:
			a, ka := evalIntCond(u, x.X, name, val)
			b, kb := evalIntCond(u, x.Y, name, val)
			if !ka || !kb {
				return false, false
			}
			if x.Op == token.LAND {
				return a && b, true
			}
			return a || b, true
		case token.EQL, token.NEQ, token.LSS, token.LEQ, token.GTR, token.GEQ:
			var k int64
			var kok bool
			op := x.Op
			if isLocalAnyDepth(u, x.X, name) {
				k, kok = core.ConstInt(info, x.Y)
			} else if isLocalAnyDepth(u, x.Y, name) {
				k, kok = core.ConstInt(info, x.X)
				switch op {
				case token.LSS:
					op = token.GTR
				case token.LEQ:
					op = token.GEQ
				case token.GTR:
					op = token.LSS
				case token.GEQ:
					op = token.LEQ
				}
			}
			if !kok {
				return false, false
			}
			switch op {
			case token.EQL:
				return val == k, true
			case token.NEQ:
				return val != k, true
			case token.LSS:
				return val < k, true
			case token.LEQ:
				return val <= k, true
			case token.GTR:
				return val > k, true
			case token.GEQ:
				return val >= k, true
			}
		}
	}
	return false, false
}

// gStrLocalNonEmpty: the string local `name` is non-empty — `len(name) > 0`, `len(name) != 0`, `name != ""` (true edge) and their negations.
func gStrLocalNonEmpty(name string) core.Guard {
	return gStrExprNonEmpty(func(u *core.Unit, e ast.Expr) bool { return isLocalAnyDepth(u, e, name) })
}

// gStrExprNonEmpty: like gStrLocalNonEmpty for any expression accepted by match.
func gStrExprNonEmpty(match func(u *core.Unit, e ast.Expr) bool) core.Guard {
	return func(u *core.Unit, br core.Branch) int {
		cmp, ok := u.BranchCmp(br)
		if !ok || cmp.Val == nil {
			return 0
		}
		if ce, isC := ast.Unparen(cmp.X).(*ast.CallExpr); isC && calleeNameOf0(ce) == "len" && len(ce.Args) == 1 && match(u, ce.Args[0]) {
			return positiveEdge(cmp)
		}
		if match(u, cmp.X) && cmp.Val.Kind() == constant.String && constant.StringVal(cmp.Val) == "" {
			switch cmp.Op {
			case token.NEQ:
				return 1
			case token.EQL:
				return -1
			}
		}
		return 0
	}
}

// gLocalStrIs: the string local `name` equals the constant val (true edge), by value (whatever side the constant is written on).
func gLocalStrIs(name, val string) core.Guard {
	return func(u *core.Unit, br core.Branch) int {
		cmp, ok := u.BranchCmp(br)
		if !ok || cmp.Val == nil || cmp.Val.Kind() != constant.String || constant.StringVal(cmp.Val) != val || !isLocalAnyDepth(u, cmp.X, name) {
			return 0
		}
		switch cmp.Op {
		case token.EQL:
			return 1
		case token.NEQ:
			return -1
		}
		return 0
	}
}

// localAnchors: the effect tables name a few local variables of the functions
// they describe. A renamed local is not a behaviour change: when an anchor is
// gone the table gives no verdict (UNDECIDED, exit 2) instead of a violation.
func localAnchors(c *core.Ctx, R string, u *core.Unit, names ...string) bool {
	if u == nil {
		return false
	}
	have := map[string]bool{}
	root := u.Root()
	ast.Inspect(root.Body, func(n ast.Node) bool {
		if id, ok := n.(*ast.Ident); ok {
			if o, isDef := u.Info().Defs[id]; isDef {
				have[id.Name] = true
				if o != nil {
					have[core.CanonName(o)] = true
				}
			}
		}
		return true
	})
	for x := u; x != nil; x = x.Parent {
		if x.Type != nil && x.Type.Params != nil {
			for _, f := range x.Type.Params.List {
				for _, n := range f.Names {
					have[core.CanonIdent(u.Info(), n)] = true
				}
			}
		}
		if x.Type != nil && x.Type.Results != nil {
			for _, f := range x.Type.Results.List {
				for _, n := range f.Names {
					have[core.CanonIdent(u.Info(), n)] = true
				}
			}
		}
	}
	// a local closure that became a novel package-level function of the same name still anchors the table
	if pk := u.Pkg; pk != nil && pk.Types != nil {
		for _, n := range names {
			if f, isF := pk.Types.Scope().Lookup(n).(*types.Func); isF && closureTurnedFunc(u, f) {
				have[n] = true
			}
		}
	}
	ok := true
	for _, n := range names {
		if !have[n] {
			c.Undecided(R, u.Key+"/local:"+n, "the local variable this table is anchored on was renamed or removed: no verdict")
			ok = false
		}
	}
	return ok
}

// closureTurnedFunc: f is a function that is not in the baseline as a function —
// novel, or recovered under the key of a closure of u's root (closure → named
// function conversion).
func closureTurnedFunc(u *core.Unit, f *types.Func) bool {
	if core.IsNovel(f) {
		return true
	}
	if h := u.Prog.UnitOf(f); h != nil {
		return strings.HasPrefix(h.Key, u.Root().Key+"$")
	}
	return false
}
