package rules

import (
	"fmt"
	"go/ast"
	"go/constant"
	"go/token"
	"go/types"
	"strings"

	"engcheck/core"
)

// ---- event facts ----

const (
	emitKey   = "types.(EventEmitter).Emit"
	onKey     = "types.(EventEmitter).On"
	onceKey   = "types.(EventEmitter).Once"
	addKey    = "types.(EventEmitter).AddListener"
	removeKey = "types.(EventEmitter).RemoveListener"
)

// emitterClass maps the static type of the receiver of Emit/On/... to an
// emitter class of this repository.
func emitterClass(typeName string) string {
	switch typeName {
	case "socket", "Socket":
		return "session"
	case "baseServer", "BaseServer", "server", "Server":
		return "server"
	case "transport", "Transport", "polling", "Polling", "jsonp", "Jsonp", "websocket", "Websocket", "webTransport", "WebTransport":
		return "transport"
	case "WebSocketConn", "WebTransportConn":
		return "conn"
	case "HttpContext":
		return "httpctx"
	case "HttpServer":
		return "httpserver"
	case "EventEmitter", "emmiter":
		return "emitter"
	}
	return "other:" + typeName
}

// Ev is an Emit / On / Once / RemoveListener site with a constant event name.
type Ev struct {
	*core.Call
	Kind  string // emit | on | once | remove
	Event string // constant event name ("" when not constant)
	Class string
}

func evKind(key string) string {
	switch key {
	case emitKey:
		return "emit"
	case onKey, addKey:
		return "on"
	case onceKey:
		return "once"
	case removeKey:
		return "remove"
	}
	return ""
}

// events lists the event-API call sites of one unit (own body only).
func events(c *core.Ctx, u *core.Unit) []*Ev {
	var out []*Ev
	for _, cl := range u.Calls() {
		k := evKind(cl.Key)
		if k == "" {
			continue
		}
		c.Sites++
		e := &Ev{Call: cl, Kind: k}
		e.Event, _ = core.ConstString(u.Info(), cl.Arg(0))
		e.Class = emitterClass(cl.RecvTypeName())
		out = append(out, e)
	}
	return out
}

// eventsDeep: events of u and all nested closures.
func eventsDeep(c *core.Ctx, u *core.Unit) []*Ev {
	var out []*Ev
	for _, x := range u.AllUnits() {
		out = append(out, events(c, x)...)
	}
	return out
}

func filterEv(evs []*Ev, kind, class, event string) []*Ev {
	var out []*Ev
	for _, e := range evs {
		if (kind == "" || e.Kind == kind) && (class == "" || e.Class == class) && (event == "" || e.Event == event) {
			out = append(out, e)
		}
	}
	return out
}

// allRepoUnits returns every unit of the repository.
func allRepoUnits(c *core.Ctx) []*core.Unit { return c.P.Units }

// callsAnywhere finds every call (in any unit of the repo) whose callee key is in keys.
func callsAnywhere(c *core.Ctx, keys ...string) []*core.Call {
	var out []*core.Call
	for _, u := range c.P.Units {
		for _, cl := range u.CallsTo(keys...) {
			out = append(out, cl)
		}
	}
	return out
}

// callerKey: the key of the unit on whose behalf a call is made — the unit
// itself, or, when the call sits in a transparent helper (code that moved out
// into a novel private function), the one baseline unit that calls the helper.
func callerKey(c *core.Ctx, cl *core.Call) string {
	u := cl.U
	for depth := 0; depth < 4; depth++ {
		r := u.Root()
		if r.Obj == nil || !c.P.IsTransparent(r.Obj) {
			return u.Key
		}
		var callers []*core.Unit
		for _, x := range c.P.Units {
			for _, hc := range x.Calls() {
				if hc.Inlined == nil && hc.Callee != nil && c.P.UnitOf(hc.Callee) == r {
					callers = append(callers, x)
				}
			}
		}
		if len(callers) != 1 {
			return u.Key
		}
		u = callers[0]
	}
	return u.Key
}

// hasSuffixSlash: the branch condition is strings.HasSuffix(<param pn>, "/") —
// the library spelling of `p[len(p)-1] == '/'` (true edge establishes it).
func hasSuffixSlash(x *core.Unit, br core.Branch, pn string) int {
	if br.IsCase {
		return 0
	}
	ce, key := x.AsCall(br.Cond)
	if ce == nil || key != "strings.HasSuffix" || len(ce.Args) != 2 || !isLocal(x.Info(), ce.Args[0], pn) {
		return 0
	}
	if s, ok := core.ConstString(x.Info(), ce.Args[1]); ok && s == "/" {
		return 1
	}
	return 0
}

// ---- small matchers ----

// selPath renders a selector chain through method calls: s.server.Opts().PingInterval()
// -> "s.server.Opts().PingInterval()"; only idents, selectors and calls without
// arguments are rendered, anything else yields "?".
func selPath(e ast.Expr) string {
	switch x := ast.Unparen(e).(type) {
	case *ast.Ident:
		return x.Name
	case *ast.SelectorExpr:
		return selPath(x.X) + "." + x.Sel.Name
	case *ast.CallExpr:
		if len(x.Args) == 0 {
			return selPath(x.Fun) + "()"
		}
		return selPath(x.Fun) + "(…)"
	case *ast.StarExpr:
		return "*" + selPath(x.X)
	}
	return "?"
}

// calleeChain returns the resolved callee keys of a chain of nested
// receiver calls, outermost last: s.server.Opts().PingInterval() ->
// [engine.(BaseServer).Opts, config.(ServerOptionsInterface).PingInterval].
func calleeChain(u *core.Unit, e ast.Expr) []string {
	var out []string
	var walk func(e ast.Expr)
	walk = func(e ast.Expr) {
		switch x := ast.Unparen(e).(type) {
		case *ast.CallExpr:
			if se, ok := ast.Unparen(x.Fun).(*ast.SelectorExpr); ok {
				walk(se.X)
			}
			out = append(out, u.CalleeKey(x))
		case *ast.SelectorExpr:
			walk(x.X)
		}
	}
	walk(e)
	return out
}

// lastCallee: resolved callee key of e when e is a call.
func lastCallee(u *core.Unit, e ast.Expr) string {
	ch := calleeChain(u, e)
	if len(ch) == 0 {
		return ""
	}
	if _, ok := ast.Unparen(e).(*ast.CallExpr); !ok {
		return ""
	}
	return ch[len(ch)-1]
}

func hasSuffixAny(s string, sufs ...string) bool {
	for _, x := range sufs {
		if strings.HasSuffix(s, x) {
			return true
		}
	}
	return false
}

// fieldOf: when e is a selector denoting a struct field, returns "Type.field".
func fieldOf(info *types.Info, e ast.Expr) string {
	se, ok := ast.Unparen(e).(*ast.SelectorExpr)
	if !ok {
		return ""
	}
	sel := info.Selections[se]
	if sel == nil || sel.Kind() != types.FieldVal {
		return ""
	}
	return core.TypeName(sel.Recv()) + "." + se.Sel.Name
}

// fieldCalls: calls in unit u whose receiver is the struct field "Type.field".
func fieldCalls(u *core.Unit, field string) []*core.Call {
	var out []*core.Call
	for _, cl := range u.Calls() {
		if cl.Recv != nil && fieldOf(u.Info(), cl.Recv) == field {
			out = append(out, cl)
		}
	}
	return out
}

// stateGuard builds a guard for a string-valued state accessor.
// allowed: the set of states the guard must confine execution to.
// A comparison `X == s` (true edge) establishes it when s ∈ allowed;
// `X != s` (false edge) likewise; `X != s`(true edge) / `X == s`(false edge)
// establish it only when allowed is the complement of a set containing s and
// all excluded states have been excluded — handled by the caller through
// `excludes`.
func stateIs(keys []string, states ...string) core.Guard {
	in := map[string]bool{}
	for _, s := range states {
		in[s] = true
	}
	return core.StateGuard(keys, func(op token.Token, v string) int {
		if !in[v] {
			return 0
		}
		switch op {
		case token.EQL:
			return 1
		case token.NEQ:
			return -1
		}
		return 0
	})
}

// stateIsNot: the edge on which the accessor is known to differ from s.
func stateIsNot(keys []string, s string) core.Guard {
	return core.StateGuard(keys, func(op token.Token, v string) int {
		if v != s {
			return 0
		}
		switch op {
		case token.NEQ:
			return 1
		case token.EQL:
			return -1
		}
		return 0
	})
}

// boolCallGuard: a condition that is a call (possibly through a local) to
// one of keys; the true edge establishes the fact (want=true) or the false
// edge does (want=false).
func boolCallGuard(want bool, keys ...string) core.Guard {
	return func(u *core.Unit, br core.Branch) int {
		if br.IsCase {
			return 0
		}
		_, key := u.AsCall(br.Cond)
		for _, k := range keys {
			if key == k {
				if want {
					return 1
				}
				return -1
			}
		}
		return 0
	}
}

// nilGuard: establishes `expr != nil` (nonNil=true) or `expr == nil` where
// match decides whether the compared expression is the one of interest.
func nilGuard(nonNil bool, match func(u *core.Unit, x ast.Expr) bool) core.Guard {
	return func(u *core.Unit, br core.Branch) int {
		cmp, ok := u.BranchCmp(br)
		if !ok || cmp.Val != nil || cmp.Y == nil || !core.IsNil(u.Info(), cmp.Y) {
			return 0
		}
		if !match(u, cmp.X) {
			return 0
		}
		switch cmp.Op {
		case token.NEQ:
			if nonNil {
				return 1
			}
			return -1
		case token.EQL:
			if nonNil {
				return -1
			}
			return 1
		}
		return 0
	}
}

func constVal(info *types.Info, e ast.Expr) constant.Value {
	if tv, ok := info.Types[e]; ok {
		return tv.Value
	}
	return nil
}

func intConst(info *types.Info, e ast.Expr) (int64, bool) { return core.ConstInt(info, e) }

func keyf(format string, a ...any) string { return fmt.Sprintf(format, a...) }

// unitOfCall resolves a call to a repo function/closure unit: static callee,
// or a local variable holding a closure of the same root function.
func unitOfCall(u *core.Unit, cl *core.Call) *core.Unit {
	if cl.Callee != nil {
		return u.Prog.UnitOf(cl.Callee)
	}
	if id, ok := ast.Unparen(cl.Expr.Fun).(*ast.Ident); ok {
		for x := u; x != nil; x = x.Parent {
			if k := x.Kid(id.Name); k != nil {
				return k
			}
		}
	}
	if fl, ok := ast.Unparen(cl.Expr.Fun).(*ast.FuncLit); ok {
		return u.Prog.LitUnit(fl)
	}
	return nil
}

// closureArg returns the unit of a function-literal (or local closure
// variable) passed as argument i of a call.
func closureArg(u *core.Unit, cl *core.Call, i int) *core.Unit {
	a := cl.Arg(i)
	if a == nil {
		return nil
	}
	a = ast.Unparen(a)
	if fl, ok := a.(*ast.FuncLit); ok {
		return u.Prog.LitUnit(fl)
	}
	if id, ok := a.(*ast.Ident); ok {
		for x := u; x != nil; x = x.Parent {
			if k := x.Kid(core.CanonIdent(u.Info(), id)); k != nil {
				return k
			}
		}
	}
	// a function or method value: the literal that used to stand here may have become a named function, which then
	// carries the literal's key (core.recoverClosures)
	if f, _ := core.ObjOf(u.Info(), a).(*types.Func); f != nil {
		if k := u.Prog.UnitOf(f); k != nil && strings.Contains(k.Key, "$") {
			return k
		}
	}
	return nil
}

// posOf is a nil-safe position.
func posOf(n ast.Node) token.Pos {
	if n == nil {
		return token.NoPos
	}
	return n.Pos()
}

// eqNamedConst is the guard "the compared value equals the constant spelled
// …name": a case clause of a tagged switch, `v == name` (either side) on its
// true edge or `v != name` on its false edge.
func eqNamedConst(name string) core.Guard {
	return func(x *core.Unit, br core.Branch) int {
		if br.IsCase {
			if br.TypeSwitch == nil && strings.HasSuffix(selPath(br.Cond), name) {
				return 1
			}
			return 0
		}
		be, ok := ast.Unparen(br.Cond).(*ast.BinaryExpr)
		if !ok || !(strings.HasSuffix(selPath(be.X), name) || strings.HasSuffix(selPath(be.Y), name)) {
			return 0
		}
		switch be.Op {
		case token.EQL:
			return 1
		case token.NEQ:
			return -1
		}
		return 0
	}
}

// eqIntOnEdge reports the integer constant a fact establishes its subject to
// be equal to (case clause, == on the true edge, != on the false edge).
func eqIntOnEdge(u *core.Unit, f core.Fact) (int64, bool) {
	cmp, ok := u.BranchCmp(f.Br)
	if !ok || cmp.Val == nil || cmp.Val.Kind() != constant.Int {
		return 0, false
	}
	if (cmp.Op == token.EQL && f.Val) || (cmp.Op == token.NEQ && !f.Val) {
		return constant.Int64Val(cmp.Val)
	}
	return 0, false
}

// lenNonEmpty is the guard "len(e) > 0" for an e accepted by match, in any of
// its spellings (> 0, >= 1, != 0, 0 <, and the negations on the other edge).
func lenNonEmpty(match func(u *core.Unit, e ast.Expr) bool) core.Guard {
	return func(u *core.Unit, br core.Branch) int {
		cmp, ok := u.BranchCmp(br)
		if !ok || cmp.Val == nil {
			return 0
		}
		ce, isC := ast.Unparen(cmp.X).(*ast.CallExpr)
		if !isC || len(ce.Args) != 1 {
			return 0
		}
		if id, isI := ce.Fun.(*ast.Ident); !isI || id.Name != "len" {
			return 0
		}
		if !match(u, ce.Args[0]) {
			return 0
		}
		v, exact := constant.Int64Val(constant.ToInt(cmp.Val))
		if !exact {
			return 0
		}
		switch {
		case cmp.Op == token.GTR && v == 0, cmp.Op == token.GEQ && v == 1, cmp.Op == token.NEQ && v == 0:
			return 1
		case cmp.Op == token.EQL && v == 0, cmp.Op == token.LEQ && v == 0, cmp.Op == token.LSS && v == 1:
			return -1
		}
		return 0
	}
}
